"""C11 — chopper-cascade frames are exactly the set of transmitted neutrons.

Tie B (hand model + correspondence): coq/C11/Clip.v is an executable Gallina model of
src/scippneutron/tof/chopper_cascade.py over a record of arithmetic operations (R for the proofs,
Q for exact execution, PrimFloat for bit-exact binary64); coq/C11/Spec.v defines transmission without
reference to polygons; coq/C11/Proofs*.v prove model = spec for ALL cascades over the reals; this file
generates cascades, runs the real module (tools/harness/c11_impl.py) and lets Coq compare
(coq-run/C11/Corr.v): (a) binary64 model bit for bit, (b) rational model hull-wise, (c) the Reach
decision computed from its definition against point-in-polygon tests on the implementation's polygons;
(d) frames propagated to an ARRAY of distances in one call (coq/C11/Multi.v): per distance the vertices,
bounds() and subbounds() are those of the frame propagated to that single distance, bit for bit, and the
distance dimension(s) are kept.
"""
import math
import random
import struct

ID = 'C11'
LEVEL = 'proof'
TRANSLATE = None
RUN_FILES = ['Properties.v', 'Float.v', 'Corr.v']
COQ_TIMEOUT = 600
HARNESS = 'c11_impl.py'
TRUSTED = [
    'coq/C11/Clip.v: hand-written model of propagate_times / Subframe.propagate_by / Frame.propagate_to / _chop / '
    'Frame.chop / FrameSequence.from_source_pulse, chop, propagate_to, __getitem__ / Subframe.is_regular / '
    'Frame.bounds, subbounds (validated bit for bit against the real module on every run); coq/C11/Multi.v: the same for '
    'a frame propagated to an array of distances in one call (time with extra distance dims)',
    'modelled scipp/Python primitives: element-wise IEEE binary64 + - * / and comparisons of scalars, '
    'sc.constants.m_n and h (values read from scipp on every run), the angstrom*kg/(J*s) -> s/m conversion as '
    'multiplication by the double 1e-10, min/max reductions, sorted() as a stable sort by distance',
    'Coq primitive floats (PrimFloat: IEEE-754 binary64 add/sub/mul/div/compare, hexadecimal literals, Prim2SF)',
    'tools/harness/c11_impl.py + props/C11.py (generation, resolution of window directives with the implementation, '
    'exact serialisation of binary64 as hex literals, choice of probe points)',
]
ASSUMPTIONS = [
    'theorems are over exact reals (m_n, h and the unit factor arbitrary; alpha = m_n/h*factor >= 0 only for regular_R); '
    'the binary64 behaviour is covered by the bit-exact correspondence, not by theorem',
    'times in s, wavelengths in angstrom, distances in m (from_source_pulse / Subframe convert other units first; '
    'chopper windows in other units are refused by scipp with UnitError)',
    'frames_are_reach: choppers at distances >= 0 (the source is at 0 m; an upstream chopper raises ValueError) — '
    'program_reach covers any program of chop / propagate_to calls that does not raise',
    'regular_R: forward propagation only (propagating a chopped frame back upstream legitimately produces '
    'irregular subframes); polygons are convex hulls of their vertex lists',
    'point-in-polygon / transmission comparisons skip probes closer than 1e-9 (relative to the time/wavelength scale '
    'of the case) to a boundary of the transmission set',
]
LEVEL_TEXT = ('Proof (over R, for every cascade): the union of the convex hulls of the subframes at distance d equals '
              'Spec.Reach (some neutron of the source rectangle passing a window of every chopper arrives at that time '
              'and wavelength) — clip_sound, clip_complete for general convex polygons, convexity preserved by clip and '
              'shear; wavelength band, order independence, two-step propagation and regularity as theorems. '
              'The model is tied to the code by a bit-exact binary64 run and an independent exact-rational Reach oracle.')
LEVEL_NOTE = ('Trusted: Coq kernel; std-lib real-number axioms; hand model Clip.v (tie B, bit-exact correspondence); '
              'PrimFloat primitives; harness. is_regular in binary64 is refuted by a witness (interpolation rounding).')
TECHNIQUE = ('Coq proofs about a hand-written executable model (convex-hull semantics of Sutherland-Hodgman clipping, '
             'induction over the chopper list) + vm_compute correspondence: PrimFloat model bit-exact, Q model hull-wise, '
             'Reach oracle on probe neutrons')

IRREG_KEY = 'subbounds:irregular-after-horizontal-edge-cut'
EXPLAIN = {
    'float-interpolates-equal-wavelengths':
        'the implementation\'s vertex lists are bit for bit those of the model of `_chop` that computes '
        '(1-t)*w_i + t*w_j also on an edge with w_i == w_j (the text before notes/fixes/C11_regular.patch), not those of '
        'the patched text that reuses w_i; the rounded value breaks the exact ties Subframe.is_regular tests',
    'float-vertices': 'a frame of the implementation (distance, number / order / value of vertices) is not bit-identical '
                      'to the binary64 model',
    'float-is_regular': 'Subframe.is_regular() differs from the binary64 model on identical vertices',
    'float-bounds': 'Frame.bounds() differs from the binary64 model',
    'float-subbounds-values': 'Frame.subbounds() values differ from the binary64 model',
    'float-subbounds-outcome': 'Frame.subbounds() returns / raises differently from the binary64 model',
    'float-getitem': 'FrameSequence[distance] differs from the binary64 model',
    'float-getitem-outcome': 'FrameSequence[distance] returns / raises differently from the model',
    'float-model-raises': 'the model raises ValueError (chopper upstream of the frame) but the implementation does not',
    'float-impl-raises': 'the implementation raises ValueError but the model does not',
    'float-multi-outcome': 'propagate_to(array of distances) raised, did not keep the given distance array as '
                           'Frame.distance, or the vertex times do not carry exactly the distance dims',
    'float-multi-vertices': 'a frame propagated to an array of distances in one call differs, at some distance, from the '
                            'binary64 model of the frame propagated to that single distance',
    'float-multi-is_regular': 'Subframe.is_regular() of a frame propagated to an array of distances differs from the model',
    'float-multi-bounds-shape': 'Frame.bounds() of a frame propagated to an array of distances lost the distance '
                                'dimension(s): one global interval instead of the bounds per distance',
    'float-multi-bounds': 'Frame.bounds() of a frame propagated to an array of distances is not, per distance, the bounds '
                          'of the frame propagated to that single distance',
    'float-multi-bounds-outcome': 'Frame.bounds() of a frame propagated to an array of distances returns / raises '
                                  'differently from the model',
    'float-multi-subbounds-shape': 'Frame.subbounds() of a frame propagated to an array of distances lost the distance '
                                   'dimension(s)',
    'float-multi-subbounds-values': 'Frame.subbounds() of a frame propagated to an array of distances is not, per '
                                    'distance, the per-subframe bounds of the frame propagated to that single distance',
    'float-multi-subbounds-outcome': 'Frame.subbounds() of a frame propagated to an array of distances returns / raises '
                                     'differently from the model',
    'float-number-of-frames': 'the implementation\'s sequence has a different number of frames than the model',
    'q-impl-vertex-outside-model': 'a vertex of the implementation lies outside the high-precision model\'s polygons '
                                   '(one call applied to the implementation\'s own previous frame)',
    'q-model-vertex-outside-impl': 'a vertex of the high-precision model lies outside the implementation\'s polygons',
    'oracle-transmitted-neutron-not-in-any-subframe': 'a neutron that passes a window of every chopper applied so far '
                                                      '(margin 1e-9) is in none of the implementation\'s subframes',
    'oracle-blocked-neutron-inside-a-subframe': 'a neutron blocked by a chopper (margin 1e-9) lies inside a subframe of '
                                                'the implementation',
}


# --------------------------------------------------------------------------- helpers
def cf(x):
    """Coq binary64 literal (hexadecimal, exact)"""
    h = float(x).hex()
    return f'({h})' if h.startswith('-') else h


def hx(x):
    return float(x).hex()


def fh(h):
    return float.fromhex(h)


def loguniform(rng, lo, hi):
    return math.exp(rng.uniform(math.log(lo), math.log(hi)))


def clist(items):
    return '[' + '; '.join(items) + ']'


# --------------------------------------------------------------------------- generation
def gen_windows(rng):
    """1..4 openings as pairs of end directives (resolved by the harness against the frame the chopper meets)"""
    n = rng.randint(1, 4)
    wins = []
    kinds = []
    while len(wins) < n:
        k = rng.choices(['cut', 'contain', 'miss', 'touch', 'adjacent', 'reversed'], [38, 12, 10, 26, 11, 3])[0]
        kinds.append(k)
        if k == 'cut':
            f1 = rng.uniform(-0.2, 0.9)
            wins.append([{'frac': f1}, {'frac': f1 + rng.uniform(0.03, 0.8)}])
        elif k == 'contain':
            wins.append([{'frac': rng.uniform(-0.5, -0.01)}, {'frac': rng.uniform(1.01, 1.5)}])
        elif k == 'miss':
            if rng.random() < 0.5:
                wins.append([{'frac': rng.uniform(1.05, 1.3)}, {'frac': rng.uniform(1.3, 1.6)}])
            else:
                wins.append([{'frac': rng.uniform(-0.6, -0.3)}, {'frac': rng.uniform(-0.3, -0.05)}])
        elif k == 'touch':
            v = {'vertex': rng.randrange(0, 64), 'ulps': rng.choice([0, 0, 0, 0, 1, -1])}
            if rng.random() < 0.5:
                wins.append([v, {'frac': rng.uniform(0.2, 1.3)}])
            else:
                wins.append([{'frac': rng.uniform(-0.3, 0.8)}, v])
        elif k == 'adjacent':
            f1 = rng.uniform(-0.1, 0.5)
            f2 = f1 + rng.uniform(0.05, 0.3)
            f3 = f2 + rng.uniform(0.05, 0.3)
            wins.append([{'frac': f1}, {'frac': f2}])
            wins.append([{'frac': f2}, {'frac': f3}])
        else:
            f1 = rng.uniform(0.2, 0.9)
            wins.append([{'frac': f1}, {'frac': f1 - rng.uniform(0.0, 0.2)}])
    return wins[:4], kinds


def gen_case(rng, cid, forward_only=False):
    tmin = rng.choice([0.0, 0.0, rng.uniform(0, 2e-3), rng.uniform(-1e-3, 0)])
    width = 0.0 if rng.random() < 0.03 else loguniform(rng, 1e-4, 6e-3)
    wmin = rng.choice([rng.uniform(0.1, 6.0), round(rng.uniform(0.5, 6.0), 1)])
    wmax = wmin + (0.0 if rng.random() < 0.02 else loguniform(rng, 0.1, 15.0))
    nch = rng.choice([0, 1, 1, 2, 2, 3, 3, 3, 4, 5])
    dists = []
    for _ in range(nch):
        r = rng.random()
        if dists and r < 0.12:
            dists.append(rng.choice(dists))          # equal distances: stable sort
        elif r < 0.17:
            dists.append(0.0)
        else:
            dists.append(rng.choice([rng.uniform(0.5, 40.0), float(rng.randint(1, 40)), round(rng.uniform(1, 40), 2)]))
    choppers = []
    kinds = []
    for d in dists:
        w, k = gen_windows(rng)
        choppers.append({'d': hx(d), 'windows': w})
        kinds.extend(k)
    shape = 'one-chop' if forward_only else rng.choices(
        ['one-chop', 'chop-prop', 'chop-prop-chop', 'chop-chop', 'prop-back-chop', 'invalid'], [40, 18, 17, 12, 8, 5])[0]
    dmax = max(dists) if dists else 0.0
    prog = []
    if shape == 'one-chop' or nch == 0:
        prog = [{'op': 'chop', 'choppers': choppers}]
        if rng.random() < 0.5:
            prog.append({'op': 'prop', 'd': hx(dmax + rng.uniform(0, 30))})
        shape = 'one-chop'
    elif shape == 'chop-prop':
        prog = [{'op': 'chop', 'choppers': choppers}, {'op': 'prop', 'd': hx(dmax + rng.uniform(0, 30))}]
    elif shape in ('chop-prop-chop', 'chop-chop'):
        order = sorted(range(nch), key=lambda i: dists[i])
        k = rng.randint(0, nch)
        first = [choppers[i] for i in sorted(order[:k])]
        second = [choppers[i] for i in sorted(order[k:])]
        rng.shuffle(first)
        rng.shuffle(second)
        prog = [{'op': 'chop', 'choppers': first}]
        if shape == 'chop-prop-chop':
            lo = max([dists[i] for i in order[:k]], default=0.0)
            hi = min([dists[i] for i in order[k:]], default=lo + 10.0)
            prog.append({'op': 'prop', 'd': hx(rng.uniform(lo, hi) if hi >= lo else lo)})
        prog.append({'op': 'chop', 'choppers': second})
    elif shape == 'prop-back-chop':
        # propagate the chopped frame back upstream (acceptance-diagram style), then chop further downstream
        k = rng.randint(0, nch)
        prog = [{'op': 'chop', 'choppers': choppers[:k]},
                {'op': 'prop', 'd': hx(rng.choice([0.0, rng.uniform(0.0, 1.0)]))},
                {'op': 'chop', 'choppers': [c for c in choppers[k:] if fh(c['d']) >= 1.0]}]
    else:
        # a chopper upstream of the current frame: ValueError
        prog = [{'op': 'chop', 'choppers': choppers}, {'op': 'prop', 'd': hx(dmax + 5.0)},
                {'op': 'chop', 'choppers': [{'d': hx(dmax + rng.uniform(0.0, 4.9)), 'windows': gen_windows(rng)[0]}]}]
    items = [hx(rng.uniform(0.0, dmax + 20.0)), hx(dmax + rng.uniform(0.0, 20.0))]
    if dists:
        items.append(hx(rng.choice(dists)))
    if rng.random() < 0.1:
        items.append(hx(-1.0))
    return {'id': cid, 'rect': [hx(tmin), hx(tmin + width), hx(wmin), hx(wmax)], 'program': prog, 'items': items,
            'shape': shape, 'kinds': kinds, 'n_choppers': nch}


def f32(x):
    return struct.unpack('f', struct.pack('f', x))[0]


MULTI_DIMS_1D = ['distance', 'detector', 'pixel', 'd']
MULTI_DIMS_2D = [['x', 'y'], ['distance', 'pixel'], ['bank', 'tube']]


def gen_multi(rng, case, n, last_only=False):
    """requests to propagate a frame of the finished sequence to an ARRAY of distances in one call
    (FrameSequence.propagate_to / Frame.propagate_to on any frame of the sequence / on sequence[d]):
    1..6 distances in a 1-D or 2-D array under various dimension names, downstream of every chopper, mixed
    up- and downstream, or coinciding with chopper distances / repeated; sorted or not; float64, float32 or
    int64 distances"""
    ds_prog = [fh(ch['d']) for cmd in case['program'] if cmd['op'] == 'chop' for ch in cmd['choppers']]
    ds_prog += [fh(cmd['d']) for cmd in case['program'] if cmd['op'] == 'prop']
    dmax = max(ds_prog, default=0.0)
    out = []
    for _ in range(n):
        m = {}
        entry = rng.choices(['seq', 'frame', 'item'], [35, 45, 20])[0]
        items = [h for h in case['items'] if fh(h) >= (dmax if last_only else 0.0)]
        if entry == 'item' and not items:
            entry = 'frame'
        m['entry'] = entry
        if entry == 'item':
            m['item'] = rng.choice(items)
        elif entry == 'frame':
            m['base_frac'] = 1.0 if last_only else rng.choice([1.0, rng.random(), rng.random()])
        if rng.random() < 0.85:
            m['dims'] = [rng.choice(MULTI_DIMS_1D)]
            m['shape'] = [rng.choice([1, 2, 3, 3, 4, 5])]
        else:
            m['dims'] = list(rng.choice(MULTI_DIMS_2D))
            m['shape'] = list(rng.choice([[2, 2], [1, 3], [2, 1], [3, 2]]))
        nd = 1
        for k in m['shape']:
            nd *= k
        kind = rng.choices(['downstream', 'mixed', 'ties'], [60, 22, 18])[0]
        if kind == 'downstream':
            vals = [dmax + rng.choice([rng.uniform(0.0, 40.0), float(rng.randint(0, 40)), round(rng.uniform(0, 40), 1)])
                    for _ in range(nd)]
        elif kind == 'mixed':
            vals = [rng.uniform(0.0, dmax + 20.0) for _ in range(nd)]
        else:
            pool = (ds_prog or [0.0]) + [dmax, dmax + float(rng.randint(1, 30))]
            vals = [rng.choice(pool) for _ in range(nd)]
        if rng.random() < 0.5:
            vals.sort()
        dtype = rng.choices(['float64', 'float32', 'int64'], [75, 15, 10])[0]
        if dtype == 'float32':
            vals = [f32(v) for v in vals]
        elif dtype == 'int64':
            vals = [float(math.ceil(v)) if kind == 'downstream' else float(round(v)) for v in vals]
        m['dtype'] = dtype
        m['kind'] = kind
        m['dists'] = [hx(v) for v in vals]
        out.append(m)
    return out


def is_forward(resolved_prog):
    """no propagate_to back upstream: every frame of the sequence is produced by forward propagation"""
    cur = 0.0
    for cmd in resolved_prog:
        if cmd['op'] == 'prop':
            d = fh(cmd['d'])
            if d < cur:
                return False
            cur = d
        else:
            ds = sorted(fh(c['d']) for c in cmd['choppers'])
            if ds:
                if ds[0] < cur:
                    return False
                cur = ds[-1]
    return True


# --------------------------------------------------------------------------- Coq terms
def c_poly(sf):
    return clist([f'({cf(fh(t))}, {cf(fh(w))})' for t, w in sf])


def c_polys(sfs):
    return clist([c_poly(sf) for sf in sfs])


def c_bools(bs):
    return clist(['true' if b else 'false' for b in bs])


def c_f4(v):
    return '(' + ', '.join(cf(fh(x)) for x in v) + ')'


def c_frame(fr):
    b = fr['bounds']
    bounds = 'None' if isinstance(b, dict) else f'(Some {c_f4(b)})'
    sb = fr['subbounds']
    if isinstance(sb, dict):
        cls = '1%nat' if sb['error'] == 'NotImplementedError' else '2%nat'
        sub = '[]'
    else:
        cls = '0%nat'
        sub = clist([c_f4(v) for v in sb])
    return f'mkobs {cf(fh(fr["d"]))} {c_polys(fr["subframes"])} {c_bools(fr["regular"])} {bounds} {cls} {sub}'


def c_prog(prog):
    out = []
    for cmd in prog:
        if cmd['op'] == 'prop':
            out.append(f'PProp {cf(fh(cmd["d"]))}')
        else:
            chs = [f'({cf(fh(c["d"]))}, ' + clist([f'({cf(fh(a))}, {cf(fh(b))})' for a, b in c['windows']]) + ')'
                   for c in cmd['choppers']]
            out.append('PChop ' + clist(chs))
    return clist(out)


def c_item(it):
    if 'error' in it:
        return f'mkitem {cf(fh(it["d"]))} None'
    return f'mkitem {cf(fh(it["d"]))} (Some ({cf(fh(it["fd"]))}, {c_polys(it["subframes"])}, {c_bools(it["regular"])}))'


def c_multi(m):
    ds = clist([cf(fh(d)) for d in m['dists']])
    item = f'(Some {cf(fh(m["item"]))})' if m['entry'] == 'item' else 'None'
    idx = f'{m.get("base", 0)}%nat'
    ok = (m['error'] is None and m.get('dist_kept') and m.get('time_dims_ok') and not isinstance(m.get('regular'), dict))
    if not ok:
        return f'mkmulti {idx} {item} {ds} false [] [] true None 0%nat true []'
    b = m['bounds']
    if 'error' in b:
        bshape, bounds = 'true', 'None'
    else:
        bshape = 'true' if b['dist_dims'] else 'false'
        bounds = '(Some ' + clist([c_f4(v) for v in b['values']]) + ')'
    sb = m['subbounds']
    if 'error' in sb:
        cls, sshape, sub = ('1%nat' if sb['error'] == 'NotImplementedError' else '2%nat'), 'true', '[]'
    else:
        cls, sshape = '0%nat', ('true' if sb['dist_dims'] else 'false')
        sub = clist([clist([c_f4(v) for v in per]) for per in sb['values']])
    polys = clist([c_polys(per) for per in m['polys']])
    return f'mkmulti {idx} {item} {ds} true {polys} {c_bools(m["regular"])} {bshape} {bounds} {cls} {sshape} {sub}'


def make_probes(rng, case, res, n_neutrons, alpha):
    """probe points for the Reach oracle: random neutrons of the source rectangle (plus its corners and edges)
    and, per implementation polygon, the centroid and every vertex nudged inwards / outwards"""
    frames = res['frames']
    idx = {len(frames) - 1}
    while len(idx) < min(3, len(frames)):
        idx.add(rng.randrange(len(frames)))
    tmin, tmax, wmin, wmax = (fh(x) for x in case['rect'])
    out = []
    n_pts = 0
    for i in sorted(idx):
        pr = []
        d = fh(frames[i]['d'])
        # neutrons are handed over as the (binary64) point they reach at the frame's distance; Coq recovers
        # the exact neutron t0 = t - alpha*lambda*d from it, so the polygon tests run on short dyadic numbers
        for _ in range(n_neutrons):
            t0, lam = rng.uniform(tmin, tmax), rng.uniform(wmin, wmax)
            pr.append(f'PP {cf(t0 + alpha * lam * d)} {cf(lam)}')
        for t in (tmin, tmax):
            for w in (wmin, wmax):
                pr.append(f'PP {cf(t + alpha * w * d)} {cf(w)}')
        sfs = list(frames[i]['subframes'])
        rng.shuffle(sfs)
        for sf in sfs[:5]:
            vs = [(fh(t), fh(w)) for t, w in sf]
            gt = sum(v[0] for v in vs) / len(vs)
            gw = sum(v[1] for v in vs) / len(vs)
            pr.append(f'PP {cf(gt)} {cf(gw)}')
            for (t, w) in vs:
                for eps in (1e-6, 1e-2):
                    pr.append(f'PP {cf(t + eps * (gt - t))} {cf(w + eps * (gw - w))}')
                    pr.append(f'PP {cf(t - eps * (gt - t))} {cf(w - eps * (gw - w))}')
        n_pts += len(pr)
        out.append(f'({i}%nat, {clist(pr)})')
    return clist(out), n_pts


def case_term(rng, case, res, n_neutrons, alpha):
    probes, n_pts = make_probes(rng, case, res, n_neutrons, alpha) if not res['error'] else ('[]', 0)
    t = (f'mkcase {c_f4(case["rect"])} {c_prog(res["program"])} {"true" if res["error"] else "false"} '
         f'{clist([c_frame(f) for f in res["frames"]])} {clist([c_item(i) for i in res["items"]])} '
         f'{clist([c_multi(m) for m in res.get("multi", []) if "harness_error" not in m])} {probes}')
    return t, n_pts


# --------------------------------------------------------------------------- the property's own statement
def near_tie(a, b):
    return abs(a - b) <= 1e-12 * max(abs(a), abs(b), 1e-300)


def irregular_report(ctx, case, res, where):
    """every subframe produced by forward propagation / chopping must have is_regular() True and
    subbounds() must return; classify a failure"""
    for fi, fr in where:
        for si, (sf, reg) in enumerate(zip(fr['subframes'], fr['regular'])):
            if reg:
                continue
            vs = [(fh(t), fh(w)) for t, w in sf]
            tlo = min(v[0] for v in vs); thi = max(v[0] for v in vs)
            wlo = min(v[1] for v in vs); whi = max(v[1] for v in vs)
            lo_ok = any(v[0] == tlo and near_tie(v[1], wlo) for v in vs)
            hi_ok = any(v[0] == thi and near_tie(v[1], whi) for v in vs)
            key = IRREG_KEY if (lo_ok and hi_ok) else 'is_regular:false-geometric'
            sb = fr.get('subbounds')
            ctx.violation(
                key,
                f'forward cascade produced a subframe with is_regular() False (frame {fi}, subframe {si}: '
                f'times {[v[0] for v in vs]}, wavelengths {[v[1] for v in vs]}); '
                f'subbounds() -> {sb["error"] if isinstance(sb, dict) else "returned"}'
                + ('; the extreme wavelength differs from the wavelength of the extreme-time vertex only by rounding '
                   'of the interpolation (1-t)*w_i + t*w_j on an edge with w_i == w_j' if key == IRREG_KEY else ''),
                {'rect': case['rect'], 'program': res['program'], 'frame': fi, 'subframe': si,
                 'vertices': sf, 'kind': 'irregular'})
            return True
    return False


def run_cases(ctx, cases):
    res = ctx.run_impl(HARNESS, {'cases': [{k: c[k] for k in ('id', 'rect', 'program', 'items', 'multi', 'single') if k in c}
                                           for c in cases]})
    return res


def multi_base_distance(r, m):
    return fh(m['item']) if m['entry'] == 'item' else fh(r['frames'][m['base']]['d'])


def multi_irregular_report(ctx, case, r):
    """the last sentence of the property for a frame propagated DOWNSTREAM to several distances in one call:
    every subframe regular, subbounds() returns (evaluated on the implementation alone)"""
    for mi, m in enumerate(r.get('multi', [])):
        if 'harness_error' in m or m['error'] or isinstance(m.get('regular'), dict):
            continue
        base_d = multi_base_distance(r, m)
        if any(fh(d) < base_d for d in m['dists']):
            continue
        sb = m['subbounds']
        bad = (not all(m['regular'])) or (m['polys'] and m['polys'][0] and sb.get('error') == 'NotImplementedError')
        if bad:
            ctx.violation('subbounds-multi:irregular-downstream',
                          f'forward cascade, frame at {base_d} m propagated downstream to {[fh(d) for d in m["dists"]]} m in one '
                          f'call: is_regular() -> {m["regular"]}, subbounds() -> {sb.get("error", "returned")}',
                          {'rect': case['rect'], 'program': r['program'], 'items': case['items'],
                           'multi': [multi_request(m)], 'kind': 'program'})
            return True
    return False


def multi_request(m):
    """the request that reproduces an observed multi-distance propagation"""
    q = {'entry': m['entry'], 'dims': m['dims'], 'shape': m['shape'], 'dists': m['dists'], 'dtype': m.get('dtype', 'float64')}
    if m['entry'] == 'item':
        q['item'] = m['item']
    elif m['entry'] == 'frame':
        q['base'] = m['base']
    return q


def correspondence(ctx):
    rng = random.Random(ctx.seed)
    quick = ctx.tier == 'quick'
    n_cases = 150 if quick else 1500        # thorough: 10x quick (5000 cascades with the multi-distance programs exceed the harness time limit under load)
    n_sweep = 300 if quick else 6000
    cases = [gen_case(rng, i) for i in range(n_cases)]
    mrng = random.Random(ctx.seed + 23)
    for c in cases:
        c['multi'] = gen_multi(mrng, c, 2)
    res = run_cases(ctx, cases)
    mn, h = res['constants']['m_n'], res['constants']['h']
    terms, kept = [], []
    n_probe = 0
    stats = {'shapes': {}, 'window_kinds': {}, 'errors': {}, 'subframes': 0, 'frames': 0, 'irregular_subframes': 0,
             'getitem': 0, 'forward_cases': 0,
             'multi': {'calls': 0, 'distances': 0, 'entries': {}, 'kinds': {}, 'dtypes': {}, 'ndim': {}, 'upstream_of_base': 0,
                       'with_subframes': 0, 'subbounds_raised': 0}}
    prng = random.Random(ctx.seed + 7)
    for c, r in zip(cases, res['cases']):
        if 'harness_error' in r:
            ctx.violation('harness-case-error', f'the harness could not run case {c["id"]}: {r["harness_error"]}',
                          {'case': c, 'error': r['harness_error']}, found_input=False)
            continue
        if r['error'] not in (None, 'ValueError'):
            ctx.violation(f'exception:{r["error"]}', f'program raised {r["error"]}: {r.get("error_text")}',
                          {'rect': c['rect'], 'program': r['program'], 'kind': 'program'})
            continue
        t, npts = case_term(prng, c, r, 24 if quick else 16, fh(mn) / fh(h) * 1e-10)
        terms.append(t)
        kept.append((c, r))
        n_probe += npts
        stats['shapes'][c['shape']] = stats['shapes'].get(c['shape'], 0) + 1
        for k in c['kinds']:
            stats['window_kinds'][k] = stats['window_kinds'].get(k, 0) + 1
        stats['errors'][str(r['error'])] = stats['errors'].get(str(r['error']), 0) + 1
        stats['frames'] += len(r['frames'])
        stats['subframes'] += sum(len(f['subframes']) for f in r['frames'])
        stats['getitem'] += len(r['items'])
        stats['irregular_subframes'] += sum(1 for f in r['frames'] for b in f['regular'] if not b)
        ms = stats['multi']
        for q, m in zip(c['multi'], r.get('multi', [])):
            if 'harness_error' in m:
                ctx.violation('harness-case-error', f'the harness could not run a multi-distance propagation of case {c["id"]}: '
                              f'{m["harness_error"]}', {'case': c, 'error': m['harness_error']}, found_input=False)
                continue
            ms['calls'] += 1
            ms['distances'] += len(m['dists'])
            for key, v in (('entries', m['entry']), ('kinds', q['kind']), ('dtypes', m['dtype']), ('ndim', str(len(m['dims'])))):
                ms[key][v] = ms[key].get(v, 0) + 1
            if m['error'] is None:
                ms['upstream_of_base'] += any(fh(d) < multi_base_distance(r, m) for d in m['dists'])
                ms['with_subframes'] += bool(m['polys'] and m['polys'][0])
                ms['subbounds_raised'] += 'error' in m['subbounds']
        if r['error'] is None and is_forward(r['program']):
            stats['forward_cases'] += 1
            irregular_report(ctx, c, r, list(enumerate(r['frames'])))
            multi_irregular_report(ctx, c, r)
    header = ('From Coq Require Import QArith ZArith String List Bool PrimFloat.\n'
              'From Verif.C11 Require Import Clip Inst Report.\n'
              'From Run Require Import Corr.\nImport ListNotations.\nOpen Scope float_scope.\n'
              f'Definition MN : float := {cf(fh(mn))}.\nDefinition H : float := {cf(fh(h))}.\n')
    fails, errors = ctx.coq_eval_shards(
        header, terms, lambda k: 'Eval vm_compute in (report (map (check MN H) cases)).\n',
        shard=4 if quick else 40)
    for name, e in errors:
        ctx.violation('corr-shard-error', f'correspondence shard {name} did not evaluate: {e[:300]}',
                      {'shard': name, 'error': e}, found_input=False)
    for i, why in sorted(fails.items()):
        c, r = kept[i]
        text = '; '.join(EXPLAIN.get(w, 'the implementation\'s frames differ from the model / the Reach oracle') for w in why.split('+'))
        ctx.violation(why, f'case {c["id"]} ({c["shape"]}, {c["n_choppers"]} choppers): {why} — {text}',
                      {'rect': c['rect'], 'program': r['program'], 'items': c['items'], 'reason': why,
                       'multi': [multi_request(m) for m in r.get('multi', []) if 'harness_error' not in m],
                       'frames': r['frames'], 'kind': 'program'})
    # ---- the last sentence of the property evaluated on the implementation alone (no model involved):
    # forward cascades with many cuts of the horizontal (constant-wavelength) edges
    srng = random.Random(ctx.seed + 11)
    sweep = [gen_case(srng, 100000 + i, forward_only=True) for i in range(n_sweep)]
    sres = run_cases(ctx, sweep)
    n_sub = n_irr = 0
    for c, r in zip(sweep, sres['cases']):
        if 'harness_error' in r or r['error']:
            continue
        frames = list(enumerate(r['frames']))
        n_sub += sum(len(f['subframes']) for _, f in frames)
        n_irr += sum(1 for _, f in frames for b in f['regular'] if not b)
        irregular_report(ctx, c, r, frames)
    ctx.coverage.update({
        'evaluations': len(terms) + len(sweep),
        'distinct_nontrivial': len({repr((c['rect'], r['program'])) for c, r in kept if r['error'] is None and any(f['subframes'] for f in r['frames'][1:])}),
        'rule': 'random FrameSequence programs: source rectangle (3% zero width), 0..5 choppers at 0..40 m (12% equal distances), '
                '1..4 windows each placed relative to the frame the chopper meets (cut / contain / miss / exactly touching a vertex '
                'time +-1 ulp / adjacent windows sharing an end / reversed), programs one-chop, chop-prop, chop-prop-chop, chop-chop, '
                'propagate-back-then-chop, upstream chopper (ValueError); 2-4 __getitem__ distances; non-trivial = no exception and '
                'at least one subframe survives in a chopped frame. Per case Coq compares every frame, is_regular, bounds, subbounds, '
                '__getitem__ bit for bit with the PrimFloat model, the Q model hull-wise (1e-11), and decides Reach for the probes. '
                'After every program that does not raise, 2 propagations to an ARRAY of distances in one call '
                '(FrameSequence.propagate_to / Frame.propagate_to on a random frame of the sequence / on sequence[d]; 1..6 distances, '
                '1-D (85%) or 2-D arrays under several dimension names; all downstream / mixed up- and downstream / coinciding with '
                'chopper distances and repeated; sorted or not; float64 / float32 / int64): per distance Coq compares vertices, '
                'is_regular, bounds(), subbounds() bit for bit with the model of the frame propagated to that single distance and '
                'requires the distance dims to be kept; forward cases: downstream multi-distance frames must be regular.',
        'samples': [{'rect': c['rect'], 'program': r['program'], 'n_frames': len(r['frames'])} for c, r in kept[:3]],
        'probe_points': n_probe,
        'stats': stats,
        'regularity_sweep': {'cascades': len(sweep), 'subframes': n_sub, 'irregular': n_irr},
        'disagreements': len(fails),
        'constants': {'m_n': fh(mn), 'h': fh(h)},
        'scipp_version': res.get('scipp'),
    })


def search(ctx, broken):
    """an obligation broke: evaluate the property's own statement on the implementation, without the model —
    transmitted <=> inside a subframe (float arithmetic, margins 1e-7), wavelength band, order independence,
    two-step propagation, regularity; and, for the last frame propagated to an ARRAY of distances in one call, per
    distance: bounds() / subbounds() are the extent of the polygons of the frame propagated to that distance alone,
    enclose every transmitted neutron and keep the distance dimension(s)."""
    rng = random.Random(ctx.seed + 3)
    cases = [gen_case(rng, 200000 + i, forward_only=True) for i in range(200)]
    mrng = random.Random(ctx.seed + 29)
    for c in cases:
        c['multi'] = gen_multi(mrng, c, 2, last_only=True)
        c['single'] = True
    res = run_cases(ctx, cases)
    mn, h = fh(res['constants']['m_n']), fh(res['constants']['h'])
    alpha = mn / h * 1e-10
    found = []
    for c, r in zip(cases, res['cases']):
        if 'harness_error' in r or r['error']:
            continue
        tmin, tmax, wmin, wmax = (fh(x) for x in c['rect'])
        chs = sorted([ch for cmd in r['program'] if cmd['op'] == 'chop' for ch in cmd['choppers']], key=lambda ch: fh(ch['d']))
        fr = r['frames'][-1]
        d = fh(fr['d'])
        polys = [[(fh(t), fh(w)) for t, w in sf] for sf in fr['subframes']]
        st = abs(tmin) + abs(tmax) + alpha * wmax * max([d] + [fh(ch['d']) for ch in chs]) + 1e-9
        for sf in polys:
            for (t, w) in sf:
                if not (wmin * (1 - 1e-12) <= w <= wmax * (1 + 1e-12)):
                    ctx.violation('band:vertex-outside', f'vertex wavelength {w} outside the source band [{wmin}, {wmax}]',
                                  {'rect': c['rect'], 'program': r['program'], 'kind': 'program'})
                    found.append(c)
        for _ in range(40):
            t0, lam = rng.uniform(tmin, tmax), rng.uniform(wmin, wmax)
            m = min((t0 - tmin) / st, (tmax - t0) / st, (lam - wmin) / wmax, (wmax - lam) / wmax)
            for ch in chs:
                arr = t0 + alpha * lam * fh(ch['d'])
                wm = max([min(arr - fh(a), fh(b) - arr) for a, b in ch['windows']], default=-st)
                m = min(m, wm / st)
            if abs(m) < 1e-6:
                continue
            p = (t0 + alpha * lam * d, lam)

            def inside(V):
                n = len(V)
                if n == 0:
                    return False
                ok = (min(v[0] for v in V) - 1e-9 * st <= p[0] <= max(v[0] for v in V) + 1e-9 * st
                      and min(v[1] for v in V) - 1e-9 * wmax <= p[1] <= max(v[1] for v in V) + 1e-9 * wmax)
                for i in range(n):
                    u, v = V[i], V[(i + 1) % n]
                    et, ew = v[0] - u[0], v[1] - u[1]
                    cr = et * (p[1] - u[1]) - ew * (p[0] - u[0])
                    ok = ok and cr >= -1e-9 * (abs(et) * wmax + abs(ew) * st) - 1e-13 * st * wmax
                return ok
            got = any(inside(V) for V in polys)
            if got != (m > 0):
                ctx.violation('reach:mismatch', f'neutron (t0={t0}, lambda={lam}) is {"" if m > 0 else "not "}transmitted but '
                              f'{"inside" if got else "outside"} the subframes at {d} m',
                              {'rect': c['rect'], 'program': r['program'], 'neutron': [t0, lam], 'kind': 'program'})
                found.append(c)
                break
        if irregular_report(ctx, c, r, list(enumerate(r['frames']))) or multi_irregular_report(ctx, c, r):
            found.append(c)
        # ---- the last frame propagated to several distances in one call
        neutrons = []
        for _ in range(60):
            t0, lam = rng.uniform(tmin, tmax), rng.uniform(wmin, wmax)
            m = min((t0 - tmin) / st, (tmax - t0) / st, (lam - wmin) / wmax, (wmax - lam) / wmax)
            for ch in chs:
                arr = t0 + alpha * lam * fh(ch['d'])
                m = min(m, max([min(arr - fh(a), fh(b) - arr) for a, b in ch['windows']], default=-st) / st)
            if m > 1e-6:
                neutrons.append((t0, lam))
        for mu in r.get('multi', []):
            bad = multi_statement(mu, neutrons, alpha, st, wmax)
            if bad:
                ctx.violation(bad[0], f'last frame ({d} m, {len(polys)} subframes) propagated to '
                              f'{[fh(x) for x in mu["dists"]]} m (dims {mu["dims"]}) in one call via '
                              f'{"FrameSequence" if mu["entry"] == "seq" else "Frame"}.propagate_to: {bad[1]}',
                              {'rect': c['rect'], 'program': r['program'], 'items': c['items'],
                               'multi': [multi_request(mu)], 'kind': 'program'})
                found.append(c)
                break
    return found


def close(a, b, scale):
    return abs(a - b) <= 1e-12 * max(abs(a), abs(b)) + 1e-15 * scale


def multi_statement(mu, neutrons, alpha, st, sw):
    """Frame.bounds() / subbounds() of a frame propagated to several distances, against the property's statement,
    using only the implementation: per distance d_k they must be the extent of the subframe polygons of the frame
    propagated to d_k ALONE (scalar distance), enclose the arrival (t0 + alpha*lambda*d_k, lambda) of every neutron
    transmitted by all choppers, and the result must carry the distance dims.  Returns (key, text) or None."""
    if 'harness_error' in mu or mu.get('error'):
        return ('multi:propagate-raises', f'raised {mu.get("error") or mu.get("harness_error")}')
    if not (mu['dist_kept'] and mu['time_dims_ok']):
        return ('multi:layout', 'Frame.distance is not the given array or the vertex times do not carry its dims')
    single = mu['single']
    n_sub = len(single[0]['subframes']) if single else 0
    b, sb = mu['bounds'], mu['subbounds']
    if n_sub == 0:
        return None
    if 'error' in b:
        return ('bounds-multi:raises', f'bounds() raised {b["error"]}: {b.get("text")}')
    if not b['dist_dims']:
        return ('bounds-multi:distance-dimension-lost', 'bounds() has no distance dimension: one interval '
                f'{[fh(x) for x in b["values"][0]]} for all distances instead of the bounds per distance')
    for k, (dk, one) in enumerate(zip(mu['dists'], single)):
        vs = [(fh(t), fh(w)) for sf in one['subframes'] for t, w in sf]
        env = [min(v[0] for v in vs), max(v[0] for v in vs), min(v[1] for v in vs), max(v[1] for v in vs)]
        got = [fh(x) for x in b['values'][k]]
        if not all(close(g, e, sc) for g, e, sc in zip(got, env, (st, st, sw, sw))):
            return ('bounds-multi:not-the-extent-at-this-distance',
                    f'bounds() at {fh(dk)} m (index {k}) = {got}, but the polygons of the frame propagated to {fh(dk)} m '
                    f'alone extend over {env}')
        for (t0, lam) in neutrons:
            arr = t0 + alpha * lam * fh(dk)
            if not (got[0] - 1e-9 * st <= arr <= got[1] + 1e-9 * st and got[2] - 1e-9 * sw <= lam <= got[3] + 1e-9 * sw):
                return ('bounds-multi:transmitted-neutron-outside',
                        f'neutron (t0={t0}, lambda={lam}) passes every chopper and is at {fh(dk)} m at t={arr}, outside '
                        f'bounds() at that distance {got}')
    if 'error' in sb:
        # whether subbounds() may raise (irregular joint frame) is the business of multi_irregular_report
        return None
    if not sb['dist_dims']:
        return ('subbounds-multi:distance-dimension-lost', 'subbounds() has no distance dimension')
    for k, (dk, one) in enumerate(zip(mu['dists'], single)):
        if len(sb['values'][k]) != len(one['subframes']):
            return ('subbounds-multi:number-of-subframes', f'subbounds() at {fh(dk)} m lists {len(sb["values"][k])} subframes, '
                    f'the frame has {len(one["subframes"])}')
        for i, sf in enumerate(one['subframes']):
            vs = [(fh(t), fh(w)) for t, w in sf]
            env = [min(v[0] for v in vs), max(v[0] for v in vs), min(v[1] for v in vs), max(v[1] for v in vs)]
            got = [fh(x) for x in sb['values'][k][i]]
            if not all(close(g, e, sc) for g, e, sc in zip(got, env, (st, st, sw, sw))):
                return ('subbounds-multi:not-the-extent-at-this-distance',
                        f'subbounds() of subframe {i} at {fh(dk)} m (index {k}) = {got}, but that subframe of the frame '
                        f'propagated to {fh(dk)} m alone extends over {env}')
    return None


def replay(ctx, obj):
    import json
    rp = obj['replay']
    print(json.dumps({k: rp[k] for k in rp if k not in ('frames',)}, indent=1)[:4000])
    if 'program' not in rp:
        return 0
    case = {'id': 0, 'rect': rp['rect'], 'program': rp['program'], 'items': rp.get('items', []),
            'multi': rp.get('multi', []), 'single': True}
    res = ctx.run_impl(HARNESS, {'cases': [case]})['cases'][0]
    print('re-run on the implementation: error =', res.get('error'), res.get('harness_error', ''))
    for i, fr in enumerate(res.get('frames', [])):
        print(f' frame {i} at {fh(fr["d"])} m: {len(fr["subframes"])} subframes, is_regular = {fr["regular"]}, '
              f'subbounds -> {fr["subbounds"]["error"] if isinstance(fr["subbounds"], dict) else "ok"}')
        for sf in fr['subframes']:
            print('   times', [fh(t) for t, _ in sf], 'wavelengths', [fh(w) for _, w in sf])
    for m in res.get('multi', []):
        if 'harness_error' in m or m.get('error'):
            print(' multi-distance propagation:', m)
            continue
        print(f' {m["entry"]} propagate_to({[fh(d) for d in m["dists"]]} m, dims {m["dims"]}, {m["dtype"]}) from frame '
              f'{m.get("base", m.get("item"))}: is_regular = {m["regular"]}')
        for name in ('bounds', 'subbounds'):
            b = m[name]
            if 'error' in b:
                print(f'   {name}() raised {b["error"]}')
                continue
            print(f'   {name}() keeps the distance dims: {b["dist_dims"]}')
            for k, one in enumerate(m['single']):
                o = one[name]
                conv = (lambda v: [fh(x) for x in v]) if name == 'bounds' else (lambda v: [[fh(x) for x in q] for q in v])
                print(f'     at {fh(m["dists"][k])} m: {conv(b["values"][k])}   propagated to that distance alone: '
                      f'{o["error"] if isinstance(o, dict) else conv(o)}')
    print('required: every subframe of a forward cascade regular (subbounds returns); frames = Reach (see coq/C11/Spec.v); '
          'bounds() / subbounds() of a frame propagated to several distances in one call = per distance those of the frame '
          'propagated to that distance alone, with the distance dims kept')
    return 0
