"""C08 — Q-vector and hkl conversions satisfy their defining algebra."""
import math
import random
from fractions import Fraction

import kcorr
from kcorr import hexf, loguniform, q, dims_term

ID = 'C08'
LEVEL = 'proof'
_C01_FUNCS = ['wavelength_from_tof', 'dspacing_from_tof', '_energy_constant', 'energy_from_tof', 'energy_from_wavelength',
              'wavelength_from_energy', '_wavelength_Q_conversions', 'Q_from_wavelength', 'wavelength_from_Q',
              'dspacing_from_wavelength', 'dspacing_from_energy']
TRANSLATE = {
    'sigs': {'sc.atan2': ['sc_atan2_out', [], [['y', '!'], ['x', '!'], ['out', None]]]},
    'modules': [
        {'py': 'src/scippneutron/_utils/__init__.py', 'coq': 'GenUtils',
         'functions': ['elem_unit', 'elem_dtype', 'float_dtype', 'as_float_type']},
        {'py': 'src/scippneutron/conversion/tof.py', 'coq': 'GenTof',
         'imports': {'elem_unit': 'GenUtils', 'elem_dtype': 'GenUtils', 'as_float_type': 'GenUtils'},
         'functions': _C01_FUNCS + ['Q_elements_from_wavelength', 'Q_vec_from_Q_elements', 'ub_matrix_from_u_and_b',
                                    'hkl_vec_from_Q_vec', 'hkl_elements_from_hkl_vec']},
        {'py': 'src/scippneutron/conversion/beamline.py', 'coq': 'GenBeamline', 'requires': ['Verif.C03.SemExt'],
         'functions': ['L1', 'L2', 'straight_incident_beam', 'straight_scattered_beam', 'total_beam_length',
                       'total_straight_beam_length_no_scatter', 'two_theta']},
    ]}
# the scalar-Q lemma of C01 and the two_theta lemma of C03 are re-proved on this run's terms and used by Tie.v
RUN_FILES = [('C01/Tie.v', 'TieC01.v'), ('C03/Tie.v', 'TieC03.v'), 'Tie.v', 'Properties.v', 'Corr.v']
TRUSTED = [
    'tools/py2coq.py (syntactic translator, fail-closed)',
    'coq/Sem/Val.v: model of scipp vector / 3x3 matrix arithmetic, sc.norm, .fields.x/y/z, sc.spatial.as_vectors, '
    'sc.spatial.inv = adjugate / determinant (Eigen\'s algorithm is modelled, not verified), unit algebra',
    'a rotation3 operand is modelled by its rotation matrix (Eigen toRotationMatrix formula on the stored quaternion), coq-run/C08/Corr.v',
    'coq/Sem/RInst.v: multiplier equality in + - is not decided over R (fail-closed); decided over Q in the correspondence',
    'coq/Vec/QRInst.v + coq/Sem/QInst.v: rationals rounded to 220 bits per operation, qsqrt/qsin (correspondence only)',
    'tools/harness/c08_impl.py, tools/harness/kernels_impl.py, lib/kcorr.py (exact serialisation of operands/results)',
    'graph entry points (graph.tof.elastic_Q_vec / elastic_hkl through scipp transform_coords) are exercised, not modelled: the statement is '
    'evaluated on their results in props/C08.py (exact rational arithmetic), scipp\'s transform_coords is trusted to call the nodes of the graph',
]
ASSUMPTIONS = [
    'theorems are over exact reals, non-zero beams, positive wavelength, det(R*UB) <> 0; R need not be a rotation',
    'floating point: the residual bound |2 pi R UB hkl - Q| <= 64 kappa_inf(R UB) 2^-53 |Q| is PARTIAL - checked per case inside Coq on the '
    'implementation\'s hkl (kappa computed exactly from the stored matrices), not proved (Eigen\'s rounding behaviour is not modelled)',
    'Q components are compared absolutely in units of 2 pi / lambda (2e-15): for nearly parallel beams e_i - e_f cancels',
    'independence of the call history is not a theorem about CPython module state: the regenerated kernels are pure functions (the translator '
    'fails closed on module-level state) and the implementation is exercised on call histories (8 x 7 steps per quick run; search: 24 x 10)',
]
LEVEL_TEXT = ('Proof: for all non-zero beams (any length units), positive wavelengths (any numeric dtype) the regenerated kernels return '
              'Q = (2 pi/lambda)(e_i - e_f) component-wise and as a vector, |Q| = 4 pi sin(theta)/lambda with 2theta = angle(b_i,b_f) and equal to '
              'the regenerated scalar Q_from_wavelength(two_theta); Q is independent of beam lengths and commutes with orthogonal maps; '
              'hkl_vec_from_Q_vec returns the unique solution of 2 pi R UB hkl = Q for every R, UB with det(R UB) <> 0, for ANY units of Q, R, UB '
              '(numbers independent of the units, unit = unit(Q)/(unit(R) unit(UB))); UB = U*B; B of EITHER handedness: for B P (P invertible; '
              'det(B P) = -det(B) for a mirror P) ub_matrix_from_u_and_b then hkl_vec_from_Q_vec return P^-1 hkl(B), no sign hypothesis on any determinant; '
              'split/join of components is the identity both ways. Residual conditioning validated in Coq per case (64 kappa u).')
LEVEL_NOTE = ('Trusted: Coq kernel; std-lib real axioms; py2coq; Sem/Val.v model of scipp spatial dtypes (inv = adjugate/det, rotation3 as '
              'matrix); rounding covered by tolerances, the residual bound is _partial.')
TECHNIQUE = ('Coq proof on regenerated terms (cbv + field; Vec/Vec3.v algebra: adjugate inverse, orthogonal maps, |e_i-e_f| = 2 sin theta; '
             'C08/Basis.v: change of reciprocal basis, mirrors flip the sign of det) '
             '+ vm_compute correspondence (rounded rationals) incl. exact kappa_inf and residual per case, on independent groups and on '
             'call histories (same numbers re-used in one process with other units / dtypes / shapes; statement re-evaluated on every step, '
             'failing steps re-run alone in a fresh process)')

LUNITS = ['m', 'mm']
# a beam is a vector whose LENGTH does not matter: it may also be handed over as a plain direction vector without a unit
# (a NeXus 'direction', a detector position divided by a length scale) of ANY norm - not only of norm 1
BEAM_UNITS = ['m', 'mm', 'dimensionless']
WUNITS = [('angstrom', 1e-10), ('nm', 1e-9)]
# integer quadruples with a perfect-square norm: exact rational unit quaternions
QUADS = [(1, 2, 2, 4), (2, 3, 6, 0), (1, 4, 8, 0), (2, 1, 2, 0), (1, 1, 1, 1), (3, 4, 12, 0), (1, 2, 4, 10), (0, 1, 0, 0),
         (5, 1, 1, 3), (2, 4, 5, 6), (1, 1, 3, 5), (0, 0, 3, 4), (0, 0, 0, 1), (4, 4, 7, 0)]
BASES = [0.0, math.pi / 2, math.pi]
DELTAS = [0.0, 1e-12, 1e-9, 1e-6, 1e-3]
U = 2.0 ** -53


def rand_quat(rng):
    a = list(rng.choice(QUADS))
    rng.shuffle(a)
    n = math.isqrt(sum(c * c for c in a))
    assert n * n == sum(c * c for c in a), a
    return [Fraction(c * rng.choice([1, -1]), n) for c in a]     # (x, y, z, w)


def quat_matrix(qt):
    x, y, z, w = qt
    return [1 - 2 * (y * y + z * z), 2 * (x * y - z * w), 2 * (x * z + y * w),
            2 * (x * y + z * w), 1 - 2 * (x * x + z * z), 2 * (y * z - x * w),
            2 * (x * z - y * w), 2 * (y * z + x * w), 1 - 2 * (x * x + y * y)]


def rot_spec(rng, dim=None, n=1):
    kind = rng.choice(['quat', 'quat', 'matrix'])
    qs = [rand_quat(rng) for _ in range(n if dim else 1)]
    if kind == 'quat':
        return {'kind': 'quat', 'values': [[hexf(float(c)) for c in qt] for qt in qs], 'dim': dim}, qs
    return {'kind': 'matrix', 'values': [[hexf(float(c)) for c in quat_matrix(qt)] for qt in qs], 'dim': dim}, qs


# B matrices.  The property quantifies over EVERY non-singular B (condition number up to 1e6): the sign of det(B) is
# only the handedness of the reciprocal basis (b*, c* interchanged; l -> -l; a mirrored crystal frame), so a B is drawn
# as  kind (how the numbers are made) x hand (which re-labelling / mirror is applied to it):
#   kind  diag          diag(d) (I + N), N small, mostly upper triangular (det > 0 before the hand)
#         busing-levy   the Busing-Levy B of a triclinic cell a, b, c, alpha, beta, gamma (upper triangular, det > 0)
#         generic       O1 diag(d) O2 with O1, O2 random rotations: dense, kappa_2 = max d / min d
#   hand  right         as made
#         cyclic        columns cyclically permuted (re-labelled, still right-handed: control)
#         swap          two columns interchanged (two reciprocal axes swapped)        det < 0
#         invert        one column negated (h, k or l -> its negative)                 det < 0
#         negate        -B (all three axes inverted)                                   det < 0
#         row-swap      two rows interchanged (mirrored Cartesian crystal frame)       det < 0
B_KINDS = ['diag', 'busing-levy', 'generic']
B_HANDS = ['right', 'cyclic', 'swap', 'invert', 'negate', 'row-swap']
B_HAND_WEIGHTS = [4, 1, 2, 2, 1, 1]
KAPPAS = [1.0, 3.0, 10.0, 1e2, 1e3, 1e4, 1e5, 1e6]


def _lengths(rng, kap):
    base = loguniform(rng, 1e-3, 1.0)               # reciprocal lattice lengths ~ 1/(1..1000 angstrom): large cells have tiny det(B)
    if rng.random() < 0.5:
        d = [base, base * kap ** rng.random(), base * kap]
    else:
        d = [base, base / kap ** rng.random(), base / kap]
    rng.shuffle(d)
    return d


def _b_diag(rng, kap):
    d = _lengths(rng, kap)
    N = [[0.0] * 3 for _ in range(3)]
    for i, j in ((0, 1), (0, 2), (1, 2)):
        N[i][j] = rng.uniform(-0.3, 0.3)
    if rng.random() < 0.3:                           # not only upper-triangular
        N[2][0] = rng.uniform(-0.2, 0.2)
    # diag(d) * (I + N)
    return [d[i] * ((1.0 if i == j else 0.0) + N[i][j]) for i in range(3) for j in range(3)]


def _b_busing_levy(rng, kap):
    """Busing & Levy (1967) B of the cell with reciprocal lengths as in _lengths (direct lengths 1/d) and angles 60..120 deg"""
    while True:
        al, be, ga = (math.radians(rng.choice([90.0, rng.uniform(60.0, 120.0)])) for _ in range(3))
        ca, cb, cg = math.cos(al), math.cos(be), math.cos(ga)
        v2 = 1 - ca * ca - cb * cb - cg * cg + 2 * ca * cb * cg
        if v2 > 0.05:
            break
    a, b, c = (1.0 / x for x in _lengths(rng, kap))
    V = a * b * c * math.sqrt(v2)
    sa, sb, sg = math.sin(al), math.sin(be), math.sin(ga)
    ar, br, cr = b * c * sa / V, a * c * sb / V, a * b * sg / V
    cbr, cgr = (ca * cg - cb) / (sa * sg), (ca * cb - cg) / (sa * sb)
    sbr, sgr = math.sqrt(1 - cbr * cbr), math.sqrt(1 - cgr * cgr)
    return [ar, br * cgr, cr * cbr,
            0.0, br * sgr, -cr * sbr * ca,
            0.0, 0.0, 1.0 / c]


def _b_generic(rng, kap):
    d = _lengths(rng, kap)
    o1, o2 = ([float(c) for c in quat_matrix(_float_quat(rng))] for _ in range(2))
    return mm(o1, [d[i] * o2[3 * i + j] for i in range(3) for j in range(3)])


def _float_quat(rng):
    while True:
        v = [rng.gauss(0, 1) for _ in range(4)]
        n = math.sqrt(sum(c * c for c in v))
        if n > 1e-3:
            return [c / n for c in v]


def apply_hand(rng, M, hand):
    M = list(M)
    if hand == 'cyclic':
        s = rng.choice([1, 2])
        return [M[3 * i + (j + s) % 3] for i in range(3) for j in range(3)]
    if hand == 'swap':
        a, b = rng.sample(range(3), 2)
        p = {a: b, b: a}
        return [M[3 * i + p.get(j, j)] for i in range(3) for j in range(3)]
    if hand == 'invert':
        a = rng.randrange(3)
        return [-M[3 * i + j] if j == a else M[3 * i + j] for i in range(3) for j in range(3)]
    if hand == 'negate':
        return [-c for c in M]
    if hand == 'row-swap':
        a, b = rng.sample(range(3), 2)
        p = {a: b, b: a}
        return [M[3 * p.get(i, i) + j] for i in range(3) for j in range(3)]
    return M


def det_sign(M):
    a = [Fraction(c) for c in M]
    d = a[0] * (a[4] * a[8] - a[5] * a[7]) - a[1] * (a[3] * a[8] - a[5] * a[6]) + a[2] * (a[3] * a[7] - a[4] * a[6])
    return (d > 0) - (d < 0)


def b_matrix(rng, kind=None, hand=None, kap=None):
    """-> 9 entries (row-major floats), target condition number, class 'kind/hand/det<0|det>0'"""
    kap = kap or rng.choice(KAPPAS)
    kind = kind or rng.choice(B_KINDS)
    hand = hand or rng.choices(B_HANDS, weights=B_HAND_WEIGHTS)[0]
    M = {'diag': _b_diag, 'busing-levy': _b_busing_levy, 'generic': _b_generic}[kind](rng, kap)
    M = [float(c) + 0.0 for c in apply_hand(rng, M, hand)]
    return M, kap, f'{kind}/{hand}/det{"<" if det_sign(M) < 0 else ">"}0'


def b_array(rng, n):
    """n B matrices (one per pixel) mixing both signs of the determinant"""
    bs = [b_matrix(rng) for _ in range(n)]
    if len({c.rsplit('/', 1)[1] for _, _, c in bs}) == 1:        # all of one handedness: mirror one of them
        i = rng.randrange(n)
        M, kap, c = bs[i]
        kind = c.split('/')[0]
        M = apply_hand(rng, M, 'swap')
        bs[i] = (M, kap, f'{kind}/swap-again/det{"<" if det_sign(M) < 0 else ">"}0')
    return bs


def rand_unit(rng):
    while True:
        v = [rng.gauss(0, 1) for _ in range(3)]
        n = math.sqrt(sum(c * c for c in v))
        if n > 1e-3:
            return [c / n for c in v]


def perp(rng, u):
    while True:
        w = rand_unit(rng)
        d = sum(a * b for a, b in zip(u, w))
        w = [a - d * b for a, b in zip(w, u)]
        n = math.sqrt(sum(c * c for c in w))
        if n > 1e-2:
            return [c / n for c in w]


def scattered(rng, u):
    w = perp(rng, u)
    if rng.random() < 0.5:
        al = rng.uniform(0, math.pi)
    else:
        al = rng.choice(BASES) + rng.choice(DELTAS) * rng.choice([1, -1])
    L = loguniform(rng, 1e-3, 1e3)
    return [L * (math.cos(al) * a + math.sin(al) * b) for a, b in zip(u, w)]


def b_spec(bs, unit, dim=None):
    """the group entries for one B (0-d) or an array of B matrices (one per pixel, dim 'p'); bs = [(entries, kappa, class)]"""
    if len(bs) > 1 or dim:
        return {'B': {'values': [[hexf(c) for c in M] for M, _, _ in bs], 'unit': unit, 'dim': 'p'},
                'kappa_target': max(k for _, k, _ in bs), 'B_class': [c for _, _, c in bs]}
    return {'B': {'values': [hexf(c) for c in bs[0][0]], 'unit': unit}, 'kappa_target': bs[0][1], 'B_class': [bs[0][2]]}


def vop(vecs, unit, dim):
    return {'values': [[hexf(c) for c in v] for v in vecs], 'unit': unit, 'dtype': 'vector3', 'dim': dim}


def gen_groups(rng, n, npix=5):
    groups = []
    for i in range(n):
        u = rand_unit(rng)
        bi = [c * loguniform(rng, 1e-3, 1e3) for c in u]
        bfs = [scattered(rng, u) for _ in range(npix)]
        wu = rng.choice(WUNITS)
        wdim = rng.choice([None, 'p'])
        wdt = rng.choice(['float64', 'float64', 'float64', 'float32', 'int64'])
        wl = [loguniform(rng, 0.01, 100) * 1e-10 / wu[1] for _ in range(npix if wdim else 1)]
        if wdt == 'int64':
            wl = [max(1, int(round(v))) for v in wl]
            wvals = wl
        else:
            wvals = [hexf(v) for v in wl]
        R, _ = rot_spec(rng, rng.choice([None, None, 'p']), npix)
        Um, _ = rot_spec(rng, rng.choice([None, None, None, None, 'p']), npix)     # one U per pixel: 1 group in 5
        g = {'id': i,
             'wavelength': {'values': wvals, 'unit': wu[0], 'dtype': wdt, 'dim': wdim},
             'incident_beam': vop([bi], rng.choice(BEAM_UNITS), None),
             'scattered_beam': vop(bfs, rng.choice(BEAM_UNITS), 'p'),
             'R': R, 'U': Um}
        g.update(b_spec(b_array(rng, npix) if rng.random() < 0.2 else [b_matrix(rng)], '1/angstrom'))   # one B per pixel: 1 in 5
        if rng.random() < 0.25:    # hkl of arbitrary Q vectors rather than of the computed ones
            g['Q'] = vop([[rng.uniform(-10, 10) for _ in range(3)] for _ in range(npix)], '1/angstrom', 'p')
        groups.append(g)
    return groups


SWEEP_ID0 = 5000


def gen_matrix_sweep(rng, kappas, id0=SWEEP_ID0):
    """every B kind x hand once per given condition number (None: a random one of KAPPAS): 2 pixels; B 0-d or (1 in 3) one B per
    pixel - the right-handed matrix of that kind first, the re-labelled / mirrored one second; B in any of BUNITS; U as
    rotation3 or matrix, 0-d or per pixel; hkl of the computed or of explicit Q vectors"""
    out = []
    for kind in B_KINDS:
        for hand in B_HANDS:
            for kap in kappas:
                g = gen_groups(rng, 1, npix=2)[0]
                k_ = kap or rng.choice(KAPPAS)
                bs = [b_matrix(rng, kind, hand, k_)]
                if rng.random() < 1 / 3:
                    bs = [b_matrix(rng, kind, 'right', k_)] + bs
                g.update(b_spec(bs, rng.choice(BUNITS)), id=id0 + len(out), sweep=True)
                out.append(g)
    return out


def class_counts(groups):
    """coverage of the B classes actually generated: per kind/hand/sign, per sign of det(B), arrays of B / of U"""
    cls, sign = {}, {'det>0': 0, 'det<0': 0}
    for g in groups:
        for c in g.get('B_class') or []:
            cls[c] = cls.get(c, 0) + 1
            sign[c.rsplit('/', 1)[1]] += 1
    mixed = sum(1 for g in groups if len({c.rsplit('/', 1)[1] for c in g.get('B_class') or []}) == 2)
    return {'B_classes': dict(sorted(cls.items())), 'B_det_sign': sign,
            'groups_with_B_per_pixel': sum(1 for g in groups if g['B'].get('dim')), 'of_them_mixing_both_signs': mixed,
            'groups_with_U_per_pixel': sum(1 for g in groups if g['U'].get('dim')),
            'left_handed_with_kappa>=1e4': sum(1 for g in groups if g.get('kappa_target', 0) >= 1e4
                                               and any(c.endswith('det<0') for c in g.get('B_class') or []))}


# ------------------------------------------------------------------ call histories
# The property quantifies over operands; every kernel must therefore be a function of its operands only.  A history
# is a sequence of calls made in ONE process in which the same NUMBERS come back with other units (UB dimensionless /
# 1/angstrom / 1/nm; wavelength angstrom / nm; beams m / mm; Q 1/angstrom / 1/nm), dtypes (float64 / float32 / int64),
# shapes (scalar / per-pixel operands, 2 or 3 pixels) and storage (rotation3 / 3x3 matrix).  Consecutive steps differ
# in ONE axis (sometimes two), some steps repeat an earlier step exactly, and two histories may be interleaved:
# state kept between calls under a key that misses an axis (a memoised inverse, a per-dtype table) then answers
# with a stale value, which the property statement evaluated on EVERY step exposes.
BUNITS = ['dimensionless', '1/angstrom', '1/nm']
QUNITS = ['1/angstrom', '1/nm']
HIST_AXES = [('B_unit', 5), ('w_unit', 4), ('w_dtype', 3), ('w_dim', 1), ('bi_unit', 2), ('bf_unit', 2), ('npix', 1),
             ('R_kind', 1), ('R_dim', 1), ('U_kind', 1), ('U_dim', 1), ('B_dim', 1), ('Q_unit', 3), ('Q_src', 2)]
HIST_ID0 = 1000


def f32_exact(x):
    import struct
    return struct.unpack('f', struct.pack('f', x))[0]


def rot_of(qs, kind, dim):
    qs = qs if dim else qs[:1]
    if kind == 'quat':
        return {'kind': 'quat', 'values': [[hexf(float(c)) for c in qt] for qt in qs], 'dim': dim}
    return {'kind': 'matrix', 'values': [[hexf(float(c)) for c in quat_matrix(qt)] for qt in qs], 'dim': dim}


def hist_base(rng, npix=3):
    u = rand_unit(rng)
    Bs = b_array(rng, npix)     # the 0-d B of a step is the first of them (either handedness), a per-pixel B a prefix
    if rng.random() < 0.5:      # numbers every numeric dtype stores exactly
        wl, dtypes = [rng.randint(1, 10) for _ in range(npix)], ['float64', 'float32', 'int64']
    else:                       # numbers float32 and float64 store exactly; n angstrom and n nm both within 0.01..100 angstrom
        wl, dtypes = [f32_exact(loguniform(rng, 0.01, 10)) for _ in range(npix)], ['float64', 'float32']
    return {'bi': [c * loguniform(rng, 1e-3, 1e3) for c in u], 'bfs': [scattered(rng, u) for _ in range(npix)],
            'wl': wl, 'dtypes': dtypes, 'Rq': [rand_quat(rng) for _ in range(npix)], 'Uq': [rand_quat(rng) for _ in range(npix)],
            'Bs': Bs, 'Qnum': [[rng.uniform(-10, 10) for _ in range(3)] for _ in range(npix)], 'npix': npix}


def hist_choices(base):
    return {'B_unit': BUNITS, 'w_unit': [w for w, _ in WUNITS], 'w_dtype': base['dtypes'], 'w_dim': [None, 'p'],
            'bi_unit': BEAM_UNITS, 'bf_unit': BEAM_UNITS, 'npix': [base['npix'] - 1, base['npix']], 'R_kind': ['quat', 'matrix'],
            'R_dim': [None, 'p'], 'U_kind': ['quat', 'matrix'], 'U_dim': [None, 'p'], 'B_dim': [None, 'p'], 'Q_unit': QUNITS, 'Q_src': ['computed', 'explicit']}


def hist_group(base, cfg, gid, hid, step, changed):
    n = cfg['npix']
    wl = base['wl'][:n] if cfg['w_dim'] else base['wl'][:1]
    wvals = [int(v) for v in wl] if cfg['w_dtype'] == 'int64' else [hexf(float(v)) for v in wl]
    g = {'id': gid, 'hist': hid, 'step': step, 'config': dict(cfg), 'changed': changed,
         'wavelength': {'values': wvals, 'unit': cfg['w_unit'], 'dtype': cfg['w_dtype'], 'dim': cfg['w_dim']},
         'incident_beam': vop([base['bi']], cfg['bi_unit'], None),
         'scattered_beam': vop(base['bfs'][:n], cfg['bf_unit'], 'p'),
         'R': rot_of(base['Rq'][:n], cfg['R_kind'], cfg['R_dim']), 'U': rot_of(base['Uq'][:n], cfg['U_kind'], cfg['U_dim'])}
    g.update(b_spec(base['Bs'][:n] if cfg['B_dim'] else base['Bs'][:1], cfg['B_unit'], cfg['B_dim']))
    if cfg['Q_src'] == 'explicit':
        g['Q'] = vop(base['Qnum'][:n], cfg['Q_unit'], 'p')
    return g


def gen_histories(rng, n_hist, n_steps):
    """-> groups in execution order (ids from HIST_ID0), {history id: [groups of that history in order]}"""
    hists = []
    gid = HIST_ID0
    for hid in range(n_hist):
        base = hist_base(rng)
        choices = hist_choices(base)
        cfg = {a: rng.choice(c) for a, c in choices.items()}
        cfgs = [(dict(cfg), ['start'])]
        while len(cfgs) < n_steps:
            x = rng.random()
            if x < 0.15 and len(cfgs) >= 2:          # an earlier call again, exactly
                cfg = dict(rng.choice(cfgs[:-1])[0])
                cfgs.append((dict(cfg), ['repeat-of-earlier-step']))
                continue
            axes = [(a, w) for a, w in HIST_AXES if len(choices[a]) > 1 and not (a == 'Q_unit' and cfg['Q_src'] == 'computed')]
            ch = []
            for _ in range(1 if x < 0.85 else 2):
                a = rng.choices([a for a, _ in axes], weights=[w for _, w in axes])[0]
                if a not in ch:
                    cfg[a] = rng.choice([c for c in choices[a] if c != cfg[a]])
                    ch.append(a)
            cfgs.append((dict(cfg), ch))
        seq = []
        for step, (c, ch) in enumerate(cfgs):
            seq.append(hist_group(base, c, gid, hid, step, ch))
            gid += 1
        hists.append(seq)
    order = []
    for i in range(0, len(hists), 2):
        pair = hists[i:i + 2]
        if len(pair) == 2 and rng.random() < 0.5:    # two histories interleaved call by call
            for a, b in zip(*pair):
                order += [a, b]
        else:
            for s in pair:
                order += s
    return order, {h[0]['hist']: h for h in hists}


def fr(pair):
    return Fraction(int(pair[0]), int(pair[1]))


def pick(st, k):
    return st['values'][k if len(st['values']) > 1 else 0]


def pick_class(g, k):
    c = g.get('B_class') or [None]
    return c[k if len(c) > 1 else 0]


def vin_term(st, k):
    v = pick(st, k)
    return f'(mkvin {q(v[0])} {q(v[1])} {q(v[2])} {q(st["unit"]["mult"])} {dims_term(st["unit"]["dims"])})'


def min_term(st, k):
    v = pick(st, k)
    return f'(mkmin [{"; ".join(q(c) for c in v)}] {q(st["unit"]["mult"])} {dims_term(st["unit"]["dims"])})'


def qfrac(x):
    x = Fraction(x)
    return f'(({x.numerator}) # {x.denominator})'


def ok(r, key):
    return key in r and 'error' not in r[key]


def units_term(us):
    return '[' + '; '.join(f'({q(u["mult"])}, {dims_term(u["dims"])})' for u in us) + ']'


def cases_of(g, r, pixels=None, norm=True):
    """Coq cases + descriptions for one executed group (all pixels, or the given ones)"""
    out = []
    ops = r['operands']
    npix = len(ops['scattered_beam']['values'])
    lam = ops['wavelength']
    f64 = lam['dtype'] == 'float64'
    for k in (range(npix) if pixels is None else [k_ for k_ in pixels if k_ < npix]):
        base = {'group': g['id'], 'pixel': k,
                'wavelength': kcorr.describe(lam, k), 'incident_beam': [float(fr(c)) for c in pick(ops['incident_beam'], k)],
                'incident_unit': ops['incident_beam']['unit']['name'],
                'scattered_beam': [float(fr(c)) for c in pick(ops['scattered_beam'], k)],
                'scattered_unit': ops['scattered_beam']['unit']['name']}
        lt = kcorr.inp_term(lam, k)
        bi, bf = vin_term(ops['incident_beam'], k), vin_term(ops['scattered_beam'], k)
        if ok(r, 'Qel'):
            d = r['Qel']['dict']
            ots = [kcorr.out_term(d[c], k) for c in ('Qx', 'Qy', 'Qz')]
            if all(ots):
                out.append((f'(KQel {lt} {bi} {bf} {ots[0]} {ots[1]} {ots[2]} (2 # 1000000000000000))',
                            dict(base, kernel='Q_elements_from_wavelength', impl={c: kcorr.fmt(d[c]['values'][k]) for c in d})))
        elif 'Qel' in r:
            out.append((f'(KQel {lt} {bi} {bf} (OutErr "{r["Qel"]["error"]}") (OutErr "") (OutErr "") (2 # 1000000000000000))',
                        dict(base, kernel='Q_elements_from_wavelength', impl='raises ' + r['Qel']['error'])))
        if ok(r, 'Qvec'):
            ot = kcorr.out_term(r['Qvec'], k)
            if ot:
                out.append((f'(KQvec {lt} {bi} {bf} {ot} (2 # 1000000000000000))',
                            dict(base, kernel='Q_vec_from_Q_elements', impl=kcorr.fmt(r['Qvec']['values'][k]))))
        if norm and ok(r, 'Qvec') and ok(r, 'Qscalar') and ok(r, 'two_theta'):
            qv, qs, tt = r['Qvec']['values'][k], r['Qscalar']['values'][k], r['two_theta']['values'][k]
            if not any(isinstance(c, str) for c in list(qv) + [qs, tt]):
                m = fr(r['Qvec']['unit']['mult'])
                lam_si = fr(pick(lam, k)) * fr(lam['unit']['mult'])
                tol = Fraction(1, 10 ** 13) if f64 else Fraction(2, 10 ** 6)
                out.append((f'(KNorm {qfrac(fr(qv[0]) * m)} {qfrac(fr(qv[1]) * m)} {qfrac(fr(qv[2]) * m)} '
                            f'{qfrac(fr(qs) * fr(r["Qscalar"]["unit"]["mult"]))} {qfrac(fr(tt))} {qfrac(lam_si)} {qfrac(tol)})',
                            dict(base, kernel='|Q_vec| vs Q_from_wavelength(two_theta)', impl={'Qvec': kcorr.fmt(qv), 'Q': float(fr(qs)), 'two_theta': float(fr(tt))})))
        if ok(r, 'hkl'):
            qsrc = ops['Q'] if 'Q' in ops else r['Qvec']
            ot = kcorr.out_term(r['hkl'], k)
            if ot and not any(isinstance(c, str) for c in pick(qsrc, k)):
                qt = vin_term(qsrc, k)
                out.append((f'(KHkl {qt} {min_term(ops["U"], k)} {min_term(ops["B"], k)} {min_term(ops["R"], k)} {ot} (64 # 1))',
                            dict(base, kernel='hkl_vec_from_Q_vec', Q=[float(fr(c)) for c in pick(qsrc, k)],
                                 R=[float(fr(c)) for c in pick(ops['R'], k)], U=[float(fr(c)) for c in pick(ops['U'], k)],
                                 B=[float(fr(c)) for c in pick(ops['B'], k)], B_class=pick_class(g, k), kappa_target=g.get('kappa_target'),
                                 impl=kcorr.fmt(r['hkl']['values'][k]))))
            if ok(r, 'hkl_el') and ok(r, 'rejoined'):
                hv = r['hkl']['values'][k]
                he = [r['hkl_el']['dict'][c]['values'][k] for c in ('h', 'k', 'l')]
                rj = r['rejoined']['values'][k]
                if not any(isinstance(c, str) for c in list(hv) + he + list(rj)):
                    lst = lambda v: '[' + '; '.join(q(c) for c in v) + ']'  # noqa: E731
                    us = [r['hkl']['unit']] + [r['hkl_el']['dict'][c]['unit'] for c in ('h', 'k', 'l')] + [r['rejoined']['unit']]
                    out.append((f'(KSplit {lst(hv)} {lst(he)} {lst(rj)} {units_term(us)})',
                                dict(base, kernel='hkl_elements_from_hkl_vec / Q_vec_from_Q_elements',
                                     impl={'hkl': kcorr.fmt(hv), 'units': [u['name'] for u in us]})))
        elif 'hkl' in r:
            out.append((f'(KHkl {vin_term(ops["Q"] if "Q" in ops else r["Qvec"], k)} {min_term(ops["U"], k)} {min_term(ops["B"], k)} '
                        f'{min_term(ops["R"], k)} (OutErr "{r["hkl"]["error"]}") (64 # 1))',
                        dict(base, kernel='hkl_vec_from_Q_vec', B=[float(fr(c)) for c in pick(ops['B'], k)], B_class=pick_class(g, k),
                             impl='raises ' + r['hkl']['error'])))
    # UB = U*B: one matrix when U and B are 0-d, one per pixel when either is an array
    n_ub = max(len(ops['U']['values']), len(ops['B']['values']))
    ks = range(n_ub) if pixels is None else [k_ for k_ in pixels if k_ < n_ub]
    if ok(r, 'UB'):
        ub = r['UB']
        for k in ks:
            desc = {'group': g['id'], 'element': k, 'kernel': 'ub_matrix_from_u_and_b', 'U': [float(fr(c)) for c in pick(ops['U'], k)],
                    'B': [float(fr(c)) for c in pick(ops['B'], k)], 'B_class': pick_class(g, k)}
            if len(ub['values']) != n_ub:       # the model's answer exists, the implementation's has another shape
                out.append((f'(KUB {min_term(ops["U"], k)} {min_term(ops["B"], k)} [] 1 [] 0)',
                            dict(desc, impl=f'{len(ub["values"])} matrices for {n_ub} operand elements')))
                continue
            vals = '[' + '; '.join(q(c) for c in ub['values'][k]) + ']'
            out.append((f'(KUB {min_term(ops["U"], k)} {min_term(ops["B"], k)} {vals} {q(ub["unit"]["mult"])} {dims_term(ub["unit"]["dims"])} (4 # 1000000000000000))',
                        dict(desc, impl=[float(fr(c)) for c in ub['values'][k]])))
    elif 'UB' in r:
        for k in ks:
            out.append((f'(KUBErr {min_term(ops["U"], k)} {min_term(ops["B"], k)} "{r["UB"]["error"]}")',
                        {'group': g['id'], 'element': k, 'kernel': 'ub_matrix_from_u_and_b', 'U': [float(fr(c)) for c in pick(ops['U'], k)],
                         'B': [float(fr(c)) for c in pick(ops['B'], k)], 'B_class': pick_class(g, k), 'impl': 'raises ' + r['UB']['error']}))
    return out


# ------------------------------------------------------------------ the property's own statement on the implementation
def mat_entries(st, k):
    v = [fr(c) for c in pick(st, k)]
    return quat_matrix(v) if len(v) == 4 else v


def mm(a, b):
    return [sum(a[3 * i + t] * b[3 * t + j] for t in range(3)) for i in range(3) for j in range(3)]


def mv(a, v):
    return [sum(a[3 * i + t] * v[t] for t in range(3)) for i in range(3)]


def det9(a):
    return a[0] * (a[4] * a[8] - a[5] * a[7]) - a[1] * (a[3] * a[8] - a[5] * a[6]) + a[2] * (a[3] * a[7] - a[4] * a[6])


def kappa_inf(a):
    det = det9(a)
    if det == 0:
        return None
    adj = [a[4] * a[8] - a[5] * a[7], a[2] * a[7] - a[1] * a[8], a[1] * a[5] - a[2] * a[4],
           a[5] * a[6] - a[3] * a[8], a[0] * a[8] - a[2] * a[6], a[2] * a[3] - a[0] * a[5],
           a[3] * a[7] - a[4] * a[6], a[1] * a[6] - a[0] * a[7], a[0] * a[4] - a[1] * a[3]]
    ni = lambda m: max(sum(abs(c) for c in m[3 * i:3 * i + 3]) for i in range(3))  # noqa: E731
    return ni(a) * ni(adj) / abs(det)


PI_Q = Fraction(3141592653589793238462643383279502884197, 10 ** 39)


def same_unit(a, b):
    return a is not None and b is not None and fr(a['mult']) == fr(b['mult']) and list(a['dims']) == list(b['dims'])


def dsum(*ds):
    return [sum(c) for c in zip(*ds)]


def statement_checks(ctx, groups, res, found):
    """Q = (2 pi/lambda)(e_i - e_f) component-wise and as a vector, in the inverse of the wavelength's unit dimension;
    |Q| = scalar Q; 2 pi R UB hkl = Q to 64 kappa u in value AND unit dimension; UB = U*B (numbers, multiplier, dimension);
    split/join exact (numbers and units) — evaluated on the implementation's outputs with exact rational arithmetic
    (independent of the regenerated model)"""
    for g, r in zip(groups, res['groups']):
        if 'operands' not in r:
            continue
        ops = r['operands']
        npix = len(ops['scattered_beam']['values'])
        lam = ops['wavelength']
        where = {'group': g['id']}
        if 'hist' in g:
            where.update(history=g['hist'], step=g['step'], config=g['config'])
        j2 = r.get('join2d')
        if j2 is not None and (j2.get('error') or j2.get('n_mismatch')):
            d = dict(where, kernel='Q_vec_from_Q_elements', components='Qx(a,b), Qy(b,a), Qz(a,b), shape ' + str(j2.get('shape')),
                     observed=j2)
            ctx.violation('join:2d-components-in-different-dim-order',
                          'Q_vec_from_Q_elements does not pair 2-d components by dimension label when one component is stored '
                          f'in the other dim order (reassembly is not lossless): {d}', {'case': d})
            found.append(d)
        for key in ('Qel', 'Qvec', 'UB', 'hkl', 'hkl_el', 'rejoined'):
            if key in r and 'error' in r[key]:
                d = dict(where, kernel=key, error=r[key]['error'], text=r[key].get('error_text'))
                if key in ('UB', 'hkl'):
                    d.update(B=[[float(fr(c)) for c in v] for v in ops['B']['values']], B_class=g.get('B_class'), B_unit=ops['B']['unit']['name'],
                             det_B=[float(det9([fr(c) for c in v])) for v in ops['B']['values']],
                             U=[[float(fr(c)) for c in v] for v in ops['U']['values']])
                ctx.violation(f'{key}:raises-{r[key]["error"]}', f'{key} raises {r[key]["error"]} on valid operands: {d}', {'case': d, 'group': g})
                found.append(d)
        # ---- units (dimension; the multipliers enter the value comparisons below)
        inv_lam = [-c for c in lam['unit']['dims']]
        if ok(r, 'Qel'):
            for c, x in r['Qel']['dict'].items():
                if x.get('unit') is None or list(x['unit']['dims']) != inv_lam:
                    d = dict(where, kernel='Q_elements_from_wavelength', component=c, unit=(x.get('unit') or {}).get('name'),
                             wavelength_unit=lam['unit']['name'])
                    ctx.violation('Qel:unit', f'{c} has unit {d["unit"]}, not the inverse of the wavelength\'s unit dimension: {d}', {'case': d, 'group': g})
                    found.append(d)
        if ok(r, 'Qvec') and (r['Qvec'].get('unit') is None or list(r['Qvec']['unit']['dims']) != inv_lam):
            d = dict(where, kernel='Q_vec_from_Q_elements', unit=(r['Qvec'].get('unit') or {}).get('name'), wavelength_unit=lam['unit']['name'])
            ctx.violation('Qvec:unit', f'Q_vec has unit {d["unit"]}, not the inverse of the wavelength\'s unit dimension: {d}', {'case': d, 'group': g})
            found.append(d)
        if ok(r, 'hkl'):
            qsrc = ops['Q'] if 'Q' in ops else r.get('Qvec')
            hu = r['hkl'].get('unit')
            if qsrc is not None and qsrc.get('unit') is not None and (
                    hu is None or dsum(ops['R']['unit']['dims'], ops['U']['unit']['dims'], ops['B']['unit']['dims'], hu['dims'])
                    != list(qsrc['unit']['dims'])):
                d = dict(where, kernel='hkl_vec_from_Q_vec', hkl_unit=(hu or {}).get('name'), Q_unit=qsrc['unit']['name'],
                         R_unit=ops['R']['unit']['name'], U_unit=ops['U']['unit']['name'], B_unit=ops['B']['unit']['name'])
                ctx.violation('hkl_vec_from_Q_vec:unit', f'unit(R) unit(U) unit(B) unit(hkl) is not the unit dimension of Q, so 2 pi R UB hkl = Q '
                              f'cannot hold: {d}', {'case': d, 'group': g})
                found.append(d)
        for k in range(npix):
            lam_si = float(fr(pick(lam, k)) * fr(lam['unit']['mult']))
            kk = 2 * math.pi / lam_si
            if ok(r, 'Qvec'):
                qv = r['Qvec']['values'][k]
                if any(isinstance(c, str) for c in qv):
                    continue
                m = float(fr(r['Qvec']['unit']['mult']))
                got = [float(fr(c)) * m for c in qv]
                bi = [float(fr(c)) for c in pick(ops['incident_beam'], k)]
                bf = [float(fr(c)) for c in pick(ops['scattered_beam'], k)]
                ni, nf = math.sqrt(sum(c * c for c in bi)), math.sqrt(sum(c * c for c in bf))
                want = [kk * (a / ni - b / nf) for a, b in zip(bi, bf)]
                if any(abs(x - y) > 1e-13 * kk for x, y in zip(got, want)):
                    d = dict(where, kernel='Q_vec', got_si=got, definition_si=want, wavelength_si=lam_si, incident_beam=bi, scattered_beam=bf)
                    ctx.violation('Qvec:definition', f'Q vector {got} differs from (2 pi/lambda)(e_i - e_f) = {want}', {'case': d, 'group': g})
                    found.append(d)
                if ok(r, 'Qel'):
                    el = r['Qel']['dict']
                    comp = [el[c]['values'][k] for c in ('Qx', 'Qy', 'Qz')]
                    if [tuple(c) for c in comp] != [tuple(c) for c in qv] or not all(same_unit(el[c].get('unit'), r['Qvec'].get('unit')) for c in el):
                        d = dict(where, kernel='Q_elements_from_wavelength / Q_vec_from_Q_elements', components=[kcorr.fmt(c) for c in comp],
                                 component_units=[(el[c].get('unit') or {}).get('name') for c in ('Qx', 'Qy', 'Qz')],
                                 joined=kcorr.fmt(qv), joined_unit=(r['Qvec'].get('unit') or {}).get('name'))
                        ctx.violation('Qel-join:lossy', f'joining Qx, Qy, Qz changed the numbers or the unit: {d}', {'case': d, 'group': g})
                        found.append(d)
                if ok(r, 'Qscalar') and lam['dtype'] == 'float64':
                    qs = r['Qscalar']['values'][k]
                    if not isinstance(qs, str):
                        qs = float(fr(qs) * fr(r['Qscalar']['unit']['mult']))
                        nrm = math.sqrt(sum(c * c for c in got))
                        if abs(nrm - qs) > 1e-13 * 2 * kk:
                            d = dict(where, kernel='|Q_vec| vs Q', norm_si=nrm, Q_si=qs, wavelength_si=lam_si, incident_beam=bi, scattered_beam=bf)
                            ctx.violation('Qvec:norm-vs-scalar-Q', f'|Q_vec| = {nrm} but the scalar Q of the same beams is {qs}', {'case': d, 'group': g})
                            found.append(d)
            if ok(r, 'hkl'):
                hv = r['hkl']['values'][k]
                qsrc = ops['Q'] if 'Q' in ops else r.get('Qvec')
                if qsrc is None or any(isinstance(c, str) for c in list(hv) + list(pick(qsrc, k))):
                    continue
                A = mm(mat_entries(ops['R'], k), mm(mat_entries(ops['U'], k), mat_entries(ops['B'], k)))
                kap = kappa_inf(A)
                if kap is None:
                    continue
                sA = fr(ops['R']['unit']['mult']) * fr(ops['U']['unit']['mult']) * fr(ops['B']['unit']['mult'])
                hq = [fr(c) * fr(r['hkl']['unit']['mult']) for c in hv]
                qq = [fr(c) * fr(qsrc['unit']['mult']) for c in pick(qsrc, k)]
                resid = [2 * PI_Q * sA * a - b for a, b in zip(mv(A, hq), qq)]
                bound = 64 * kap * Fraction(U) * sum(abs(c) for c in qq)
                if any(abs(c) > bound for c in resid):
                    d = dict(where, kernel='hkl_vec_from_Q_vec', residual=[float(c) for c in resid], bound=float(bound), kappa_inf=float(kap),
                             Q=[float(c) for c in qq], hkl=[float(c) for c in hq], hkl_unit=r['hkl']['unit']['name'],
                             Q_unit=qsrc['unit']['name'], B_unit=ops['B']['unit']['name'], R=[float(fr(c)) for c in pick(ops['R'], k)],
                             U=[float(fr(c)) for c in pick(ops['U'], k)], B=[float(fr(c)) for c in pick(ops['B'], k)],
                             B_class=pick_class(g, k), pixel=k)
                    ctx.violation('hkl_vec_from_Q_vec:residual' + ('-kappa>=1e4' if kap >= 10000 else ''),
                                  f'2 pi R UB hkl - Q = {d["residual"]} exceeds 64 kappa u |Q| = {d["bound"]} (kappa_inf = {float(kap):.3g})',
                                  {'case': d, 'group': g})
                    found.append(d)
                if ok(r, 'hkl_el'):
                    he = [r['hkl_el']['dict'][c]['values'][k] for c in ('h', 'k', 'l')]
                    us = [r['hkl_el']['dict'][c].get('unit') for c in ('h', 'k', 'l')]
                    rj = list(hv)
                    if ok(r, 'rejoined'):
                        rj = r['rejoined']['values'][k]
                        us.append(r['rejoined'].get('unit'))
                    if ([tuple(c) for c in he] != [tuple(c) for c in hv] or [tuple(c) for c in rj] != [tuple(c) for c in hv]
                            or not all(same_unit(u_, r['hkl'].get('unit')) for u_ in us)):
                        d = dict(where, kernel='split/join', hkl=kcorr.fmt(hv), elements=[kcorr.fmt(c) for c in he],
                                 rejoined=kcorr.fmt(rj), hkl_unit=r['hkl']['unit']['name'],
                                 units=[(u_ or {}).get('name') for u_ in us])
                        ctx.violation('split-join:lossy', f'splitting / joining changed the numbers or the unit: {d}', {'case': d, 'group': g})
                        found.append(d)
        if ok(r, 'UB'):
            sU, sB = fr(ops['U']['unit']['mult']), fr(ops['B']['unit']['mult'])
            n_ub = max(len(ops['U']['values']), len(ops['B']['values']))
            if len(r['UB']['values']) != n_ub:
                d = dict(where, kernel='ub_matrix_from_u_and_b', returned_matrices=len(r['UB']['values']), operand_elements=n_ub,
                         U_dims=ops['U'].get('dims'), B_dims=ops['B'].get('dims'), UB_dims=r['UB'].get('dims'))
                ctx.violation('UB:shape', f'UB does not hold one product U*B per element of the operands: {d}', {'case': d, 'group': g})
                found.append(d)
                continue
            for k in range(n_ub):
                want = [c * sU * sB for c in mm(mat_entries(ops['U'], k), mat_entries(ops['B'], k))]
                got = [fr(c) * fr(r['UB']['unit']['mult']) for c in r['UB']['values'][k]]
                sc_ = max(abs(c) for c in want) or 1
                if any(abs(a - b) > Fraction(1, 10 ** 14) * sc_ for a, b in zip(got, want)) or \
                        list(r['UB']['unit']['dims']) != dsum(ops['U']['unit']['dims'], ops['B']['unit']['dims']):
                    d = dict(where, kernel='ub_matrix_from_u_and_b', element=k, got=[float(c) for c in got], UB_unit=r['UB']['unit']['name'],
                             want=[float(c) for c in want], U_unit=ops['U']['unit']['name'], B_unit=ops['B']['unit']['name'],
                             U=[float(fr(c)) for c in pick(ops['U'], k)], B=[float(fr(c)) for c in pick(ops['B'], k)], B_class=pick_class(g, k))
                    ctx.violation('UB:product', f'UB is not U*B (numbers in base units, or unit): {d}', {'case': d, 'group': g})
                    found.append(d)
                    break


def invariance_checks(ctx, rng, n, found):
    """beam-length independence and rotation covariance, implementation against implementation"""
    base = gen_groups(rng, n)
    req, meta = [], []
    for g in base:
        npix = len(g['scattered_beam']['values'])
        qt = rand_quat(rng)
        M = [float(c) for c in quat_matrix(qt)]
        if rng.random() < 0.3:
            M = [-c for c in M]          # improper orthogonal map
        k1, k2 = rng.choice([2.0 ** rng.randint(-20, 20), 3.0]), rng.choice([2.0 ** rng.randint(-20, 20), 0.1])
        fv = lambda op: [[float.fromhex(c) for c in v] for v in op['values']]  # noqa: E731
        bi, bf = fv(g['incident_beam']), fv(g['scattered_beam'])
        # the rescaled beams also come in another unit (incl. none at all): same direction, another length
        gs = dict(g, id=f'{g["id"]}:scale',
                  incident_beam=vop([[c * k1 for c in v] for v in bi], rng.choice(BEAM_UNITS), None),
                  scattered_beam=vop([[c * k2 for c in v] for v in bf], rng.choice(BEAM_UNITS), 'p'))
        rot = lambda v: [sum(M[3 * i + t] * v[t] for t in range(3)) for i in range(3)]  # noqa: E731
        gr = dict(g, id=f'{g["id"]}:rot', incident_beam=vop([rot(v) for v in bi], g['incident_beam']['unit'], None),
                  scattered_beam=vop([rot(v) for v in bf], g['scattered_beam']['unit'], 'p'))
        req += [dict(g, id=f'{g["id"]}:base'), gs, gr]
        meta.append((g, M, (k1, k2), gs))
    res = ctx.run_impl('c08_impl.py', {'groups': req})
    by = {r['id']: r for r in res['groups']}
    n_checks = 0
    for g, M, ks, gs in meta:
        b, s, ro = by[f'{g["id"]}:base'], by[f'{g["id"]}:scale'], by[f'{g["id"]}:rot']
        if not (ok(b, 'Qvec') and ok(s, 'Qvec') and ok(ro, 'Qvec')):
            d = {'group': g['id'], 'errors': {k: v.get('Qvec') for k, v in (('base', b), ('scale', s), ('rot', ro))}}
            ctx.violation('Qvec:invariance-raises', f'Q vector could not be computed for a rescaled / rotated beamline: {d}', {'case': d})
            found.append(d)
            continue
        lam = b['operands']['wavelength']
        for k in range(len(b['Qvec']['values'])):
            kk = 2 * math.pi / float(fr(pick(lam, k)) * fr(lam['unit']['mult']))
            val = lambda r_: [float(fr(c) * fr(r_['Qvec']['unit']['mult'])) for c in r_['Qvec']['values'][k]]  # noqa: E731
            try:
                qb, qsc, qr = val(b), val(s), val(ro)
            except (TypeError, ValueError):
                continue
            n_checks += 2
            if any(abs(x - y) > 4e-15 * kk for x, y in zip(qb, qsc)):
                un = lambda r_: [r_['operands'][n_]['unit']['name'] for n_ in ('incident_beam', 'scattered_beam')]  # noqa: E731
                d = {'check': 'beam-length independence', 'base': qb, 'rescaled': qsc, 'k': ks, 'group': g['id'], 'pixel': k,
                     'beam_units': un(b), 'rescaled_beam_units': un(s),
                     'operands': {n_: b['operands'][n_] for n_ in ('incident_beam', 'scattered_beam', 'wavelength')},
                     'rescaled_operands': {n_: s['operands'][n_] for n_ in ('incident_beam', 'scattered_beam')}}
                ctx.violation('Qvec:scale-dependence', f'Q vector changes when the beams (units {un(b)}) are rescaled by {ks} and given in '
                              f'units {un(s)}: {qb} vs {qsc}', {'case': d, 'group': gs, 'base_group': dict(g, id=f'{g["id"]}:base')})
                found.append(d)
            mq = [sum(M[3 * i + t] * qb[t] for t in range(3)) for i in range(3)]
            if any(abs(x - y) > 2e-14 * kk for x, y in zip(mq, qr)):
                d = {'check': 'rotation covariance', 'M Q(b)': mq, 'Q(M b)': qr, 'M': M, 'group': g['id'], 'pixel': k,
                     'operands': {n_: b['operands'][n_] for n_ in ('incident_beam', 'scattered_beam', 'wavelength')}}
                ctx.violation('Qvec:rotation-covariance', f'Q(M b_i, M b_f) = {qr} differs from M Q(b_i, b_f) = {mq}', {'case': d})
                found.append(d)
    return n_checks


GRAPH_CUSTOM = [None, None, 'override-ub', 'override-Q_vec', 'override-hkl', 'clear']


def add_graph_specs(groups, rng):
    """every group is ALSO evaluated through the graph entry points (graph.tof.elastic_Q_vec / elastic_hkl, 1/3: the full
    graph.tof.elastic, + transform_coords, start 'wavelength' or 'tof' with the wavelength given); afterwards the caller's copies of the returned graphs are
    modified (a node overridden, the dict cleared): later calls must not see that"""
    for g in groups:
        g['graph'] = {'start': rng.choice(['wavelength', 'tof']), 'via': rng.choice(['specific', 'specific', 'elastic']),
                      'customise': rng.choice(GRAPH_CUSTOM)}
    return groups


class _Collect:
    """stands in for ctx: collects the violations of one group instead of recording them"""
    def __init__(self):
        self.items = []

    def violation(self, key, what, replay_obj, found_input=True):
        self.items.append((key, what, replay_obj))


def all_statement_checks(ctx, groups, res, found):
    """the statement on the kernels' results and on the results obtained through the graph entry points (keys 'graph:...');
    a graph result that fails in the same way as the kernel's result of the same group is the same failure (the graph's
    nodes are the kernels) and is reported once, under the kernel's key"""
    for g, r in zip(groups, res['groups']):
        c0, f0 = _Collect(), []
        statement_checks(c0, [g], {'groups': [r]}, f0)
        for (key, what, obj), d in zip(c0.items, f0):
            ctx.violation(key, what, obj)
            found.append(d)
        gr = r.get('graph')
        if 'operands' not in r or not isinstance(gr, dict):
            continue
        kernel_keys = {k for k, _, _ in c0.items}
        rq = dict({k: gr[k] for k in ('Qel', 'Qvec') if k in gr}, operands=r['operands'])
        rh = dict({k: gr[k] for k in ('UB', 'hkl', 'hkl_el') if k in gr}, operands=r['operands'])
        if 'Qvec_of_hkl_graph' in gr:
            rh['Qvec'] = gr['Qvec_of_hkl_graph']
        via = 'elastic' if g.get('graph', {}).get('via') == 'elastic' else None
        for pseudo, fn in ((rq, via or 'elastic_Q_vec'), (rh, via or 'elastic_hkl')):
            c1, f1 = _Collect(), []
            statement_checks(c1, [g], {'groups': [pseudo]}, f1)
            for (key, what, obj), d in zip(c1.items, f1):
                if key in kernel_keys:
                    continue
                ctx.violation('graph:' + key, f'through conversion.graph.tof.{fn}({g["graph"]["start"]!r}) + transform_coords: ' + what, obj)
                found.append(d)


def keys_of(groups, res, only_id=None):
    c = _Collect()
    for g, r in zip(groups, res['groups']):
        if only_id is None or g['id'] == only_id:
            all_statement_checks(c, [g], {'groups': [r]}, [])
    return {k for k, _, _ in c.items}


def history_checks(ctx, executed, res_groups, by_hist, found):
    """the property statement on every executed group / step of a call history, in execution order (kernels and graph entry
    points); a failing one is re-run (a) alone in a fresh process and (b) after its predecessors (its own history, or the
    group executed before it; else everything executed before it) in a fresh process, so that the report says whether the
    failure depends on the calls made before and carries a short sequence that reproduces it"""
    seen, indep = set(), {}
    n_steps = 0
    for i, (g, r) in enumerate(zip(executed, res_groups)):
        if 'operands' not in r:
            continue
        n_steps += 'hist' in g
        c = _Collect()
        f = []
        all_statement_checks(c, [g], {'groups': [r]}, f)
        for (key, what, obj), d in zip(c.items, f):
            # one report per key and kind; a key seen to fail on its own is examined on up to 3 further groups, so that a
            # history-dependent failure of the same class is not hidden behind a history-independent one
            if key in seen or indep.get(key, 0) >= 4:
                continue
            found.append(d)
            alone = ctx.run_impl('c08_impl.py', {'groups': [g]})
            if key in keys_of([g], alone):
                indep[key] = indep.get(key, 0) + 1
                ctx.violation(key, what, obj)           # fails on its own: not a matter of history
                continue
            seen.add(key)
            # shortest reproducing sequence among: its own history up to this step / one of the 6 groups executed just before
            # it followed by this group; else everything executed before it
            cands = [by_hist[g['hist']][:g['step'] + 1]] if 'hist' in g else [[executed[j], g] for j in range(i - 1, max(-1, i - 7), -1)]
            seq = executed[:i + 1]
            for cand in cands:
                if len(cand) < len(seq) and key in keys_of(cand, ctx.run_impl('c08_impl.py', {'groups': cand}), only_id=g['id']):
                    seq = cand
                    break
            before = [{'group': p_['id'], 'config': p_.get('config'), 'graph': p_.get('graph')} for p_ in seq[:-1]][-8:]
            if 'hist' in g:
                which = (f'step {g["step"]} of call history {g["hist"]} (same numbers as the earlier steps; this step changed {g["changed"]}; '
                         f'configuration {g["config"]}; graph entry points {g.get("graph")}; {len(seq) - 1} calls before it)')
            else:
                which = (f'group {g["id"]} (graph entry points {g.get("graph")}) evaluated after {len(seq) - 1} other group(s), the last of them '
                         f'{before[-1] if before else None}')
            ctx.violation('history:' + key,
                          f'the result depends on the calls made before it in the same process: {which} violates the property although '
                          f'the same call made first in a fresh process satisfies it. {what}',
                          {'case': obj.get('case'), 'history': seq, 'failing_step': len(seq) - 1,
                           'calls_before': before})
    return n_steps


# ------------------------------------------------------------------ SIZE axis: long operands
# The property quantifies over scalar AND array operands; an implementation may choose its algorithm by the number of
# elements (the comment block of hkl_vec_from_Q_vec discusses three of them): the statement must hold whatever the size.
# The long operands (wavelengths, scattered beams, explicit Q) are drawn inside tools/harness/c08_large.py from a numpy seed;
# R, U, B come from here: R and U GENERIC rotations (all four quaternion components non-zero: they commute with nothing in
# sight), B dense or triangular of either handedness with condition number <= 1e3.  The statement is evaluated on the whole
# arrays in numpy (ranking) and HERE, with exact rational arithmetic, on sampled elements (first, last, middle, the elements
# around index 2^16, random ones) and on the worst element of every relation.
LARGE_QUICK = [[4097], [65535], [65536], [65537], [2 ** 17 + 1], [300, 400]]
LARGE_MORE = ([[2 ** k + d] for k in range(8, 17) for d in (-1, 0, 1) if (k, d) not in ((16, -1), (16, 0), (16, 1))]
              + [[10 ** 5 + 1], [2 ** 18 + 1], [2 ** 20 + 1], [10 ** 6], [257, 257], [3, 50000], [1000, 70], [70, 1000]])
LARGE_KAPPAS = [1.0, 3.0, 10.0, 1e2, 1e3]


def generic_quat(rng):
    while True:
        qt = rand_quat(rng)
        if all(c != 0 for c in qt) and len({abs(c) for c in qt}) > 1:
            return qt


def gen_large(rng, shapes, id0=0, graph_every=3):
    cases = []
    for i, shape in enumerate(shapes):
        two_d = len(shape) == 2
        dims = ['pixel', 'wavelength'] if two_d else ['p']
        n = 1
        for m_ in shape:
            n *= m_
        u = rand_unit(rng)
        wu = rng.choice(WUNITS)[0]
        wdims = rng.choice([['wavelength'], ['pixel', 'wavelength']]) if two_d else rng.choice([['p'], ['p'], ['p'], []])
        M, kap, cls = b_matrix(rng, kap=rng.choice(LARGE_KAPPAS))
        rdim = rng.choice([None, None, None, dims[0]])
        c = {'id': f'large{id0 + i}', 'dims': dims, 'shape': list(shape), 'seed': rng.randrange(2 ** 31),
             'wavelength': {'unit': wu, 'dtype': rng.choice(['float64', 'float64', 'float64', 'float32', 'int64']), 'dims': wdims},
             'incident_beam': {'value': [hexf(c_ * loguniform(rng, 1e-3, 1e3)) for c_ in u], 'unit': rng.choice(BEAM_UNITS)},
             'scattered_beam': {'unit': rng.choice(BEAM_UNITS), 'dims': [dims[0]]},
             'R': rot_of([generic_quat(rng) for _ in range(5 if rdim else 1)], rng.choice(['quat', 'quat', 'matrix']), rdim),
             'U': rot_of([generic_quat(rng)], rng.choice(['quat', 'matrix']), None),
             'B': {'values': [hexf(x) for x in M], 'unit': rng.choice(BUNITS)}, 'B_class': [cls], 'kappa_target': kap,
             'Q': None, 'graph': rng.choice(['wavelength', 'tof']) if i % graph_every == graph_every - 1 else None}
        if rng.random() < 1 / 3:         # hkl of arbitrary Q vectors (2-d: sometimes stored in the other dim order)
            c['Q'] = {'unit': rng.choice(QUNITS), 'order': dims[::-1] if two_d and rng.random() < 0.5 else dims}
        fixed = [0, 1, n // 2, n - 2, n - 1, 2 ** 16 - 1, 2 ** 16, 2 ** 16 + 1]
        c['samples'] = sorted({j for j in fixed if 0 <= j < n} | {rng.randrange(n) for _ in range(6)})
        cases.append(c)
    return cases


def large_checks(ctx, cases, found):
    """the statement on long operands (kernels and, for some cases, the graph entry points); one report per failing relation
    carrying the first failing case (replayable spec) and the shapes on which the relation failed / held in this run"""
    if not cases:
        return {}
    res = ctx.run_impl('c08_large.py', {'cases': cases})
    fails, holds = {}, {}
    n_elem = n_exact = n_graph = 0

    def flag(key, what, obj, c):
        fails.setdefault(key, []).append((c, what, obj))

    for c, r in zip(cases, res['cases']):
        if 'build_error' in r:
            ctx.note(f'harness could not build large case {c["id"]}: {r["build_error"]}')
            continue
        n = 1
        for m_ in c['shape']:
            n *= m_
        n_elem += n
        g = {'id': c['id'], 'large': c, 'B_class': c['B_class'], 'kappa_target': c['kappa_target']}
        if not r.get('inputs_unchanged', True):
            ctx.note(f'large case {c["id"]}: an operand was modified by a call (C09 covers this)')
        for route, rr in (('', r), ('graph:', r.get('graph'))):
            if not isinstance(rr, dict):
                continue
            n_graph += route != ''
            where = {'case': c['id'], 'shape': c['shape'], 'elements': n, 'through': 'graph entry points' if route else 'kernels'}
            summ = rr.get('summary') or {}
            for k in ('error', 'sampled_error'):
                if k in rr:
                    flag(route + 'large-array:results-not-evaluable', f'the results on operands of shape {c["shape"]} have a form the statement '
                         f'cannot be evaluated on: {rr[k]}', {'case': dict(where, error=rr[k]), 'group': g}, c)
            if 'summary_error' in summ:
                flag(route + 'large-array:results-not-evaluable', f'the results on operands of shape {c["shape"]} have a form the statement '
                     f'cannot be evaluated on: {summ["summary_error"]}', {'case': dict(where, error=summ['summary_error']), 'group': g}, c)
            for k in ('Qvec_shape', 'hkl_shape'):
                if k in summ:
                    flag(route + 'large-array:result-shape', f'{k[:-6]} does not have the dims of its operands: {summ[k]} ({where})',
                         {'case': dict(where, observed=summ[k]), 'group': g}, c)
            for k in ('Qvec_nonfinite', 'hkl_nonfinite'):
                if (summ.get(k) or {}).get('n'):
                    flag(route + 'large-array:non-finite', f'{summ[k]["n"]} of {n} elements of {k[:-10]} are not finite on finite operands, first at '
                         f'flat index {summ[k]["flat_index"]} ({where})', {'case': dict(where, observed=summ[k]), 'group': g}, c)
            for k in ('Qel_join_mismatch', 'split_mismatch', 'rejoin_mismatch'):
                if summ.get(k):
                    flag(route + 'large-array:split-join-lossy', f'{k}: {summ[k]} components differ between the vector and its components ({where})',
                         {'case': dict(where, relation=k, mismatches=summ[k]), 'group': g}, c)
            smp = rr.get('sampled')
            if not isinstance(smp, dict):
                continue
            n_exact += len(smp.get('flat_index') or [])
            col, f = _Collect(), []
            statement_checks(col, [g], {'groups': [smp]}, f)
            bad = set()
            for (key, what, obj), d in zip(col.items, f):
                whole = {k: summ.get(k) for k in ('Qvec_definition', 'Qvec_norm_vs_scalar_Q', 'hkl_residual', 'kappa_inf_max') if k in summ}
                fi = smp['flat_index']
                at = fi[d['pixel']] if isinstance(d.get('pixel'), int) and d['pixel'] < len(fi) else None
                obj = dict(obj, case=dict(obj.get('case') or {}, **where, flat_indices_evaluated_exactly=fi, flat_index=at, whole_array_numpy=whole))
                # the known conditioning finding keeps its own key; everything else is a matter of the SIZE axis
                k2 = key if key.endswith('-kappa>=1e4') else route + 'large-array:' + key
                bad.add(k2)
                flag(k2, what + f' [operands of shape {c["shape"]} = {n} elements, through the {where["through"]}; whole array in numpy: {whole}]', obj, c)
            for k2 in ('Qvec:definition', 'Qvec:norm-vs-scalar-Q', 'hkl_vec_from_Q_vec:residual'):
                if route + 'large-array:' + k2 not in bad:
                    holds.setdefault(route + 'large-array:' + k2, []).append(c['shape'])
    for key, items in fails.items():
        c, what, obj = items[0]
        shapes_bad = [c_['shape'] for c_, _, _ in items]
        uniq = []
        for s_ in shapes_bad:
            if s_ not in uniq:
                uniq.append(s_)
        ok_ = [s_ for s_ in holds.get(key, []) if s_ not in uniq]
        txt = f'{what} -- fails for operand shapes {uniq[:12]}' + (f', holds in this run for shapes {ok_[:12]}: the result depends on the '
                                                                   f'number of elements' if ok_ else '')
        ctx.violation(key, txt, dict(obj, shapes_failing=uniq, shapes_holding=ok_))
        found.append(obj.get('case'))
    return {'cases': len(cases), 'shapes': [c['shape'] for c in cases], 'elements_total': n_elem, 'elements_evaluated_exactly': n_exact,
            'cases_also_through_graph': n_graph, 'explicit_Q': sum(1 for c in cases if c['Q']),
            'R_per_pixel': sum(1 for c in cases if c['R'].get('dim')),
            'beam_units': sorted({(c['incident_beam']['unit'], c['scattered_beam']['unit']) for c in cases}),
            'numpy': res.get('numpy')}


def beam_unit_counts(groups):
    out = {}
    for g in groups:
        k = f'{g["incident_beam"]["unit"]}/{g["scattered_beam"]["unit"]}'
        out[k] = out.get(k, 0) + 1
    return dict(sorted(out.items()))


HEADER = ('From Coq Require Import QArith ZArith String List.\n'
          'From Verif.Sem Require Import Field Val QInst Corr.\nFrom Run Require Import Corr.\n'
          'Import ListNotations.\nOpen Scope string_scope.\n'
          'Definition H : Q := 1.\nDefinition MN : Q := 1.\n')


def correspondence(ctx):
    rng = random.Random(ctx.seed)
    quick = ctx.tier == 'quick'
    groups = gen_groups(rng, 60 if quick else 700)
    # every B kind x handedness on every run (quick: one condition number each; thorough: four), independent generator state
    groups += gen_matrix_sweep(random.Random(ctx.seed * 104729 + 17), [None] if quick else [1.0, 1e2, 1e4, 1e6])
    # call histories, executed in the same process AFTER the independent groups (their ids start at HIST_ID0)
    hrng = random.Random(ctx.seed * 7919 + 5)
    order, by_hist = gen_histories(hrng, 8 if quick else 40, 7 if quick else 10)
    add_graph_specs(groups + order, hrng)
    res = ctx.run_impl('c08_impl.py', {'groups': groups + order})
    all_res = res['groups']
    hres = res['groups'][len(groups):]
    res = dict(res, groups=res['groups'][:len(groups)])
    terms, descs = [], []
    mutated = 0
    for g, r in zip(groups, res['groups']):
        if 'build_error' in r:
            ctx.note('harness could not build a group: ' + r['build_error'])
            continue
        mutated += not r.get('inputs_unchanged', True)
        # sweep groups: both pixels when B or U differ per pixel, else the first (the matrices are the same for both)
        px = [0] if g.get('sweep') and not (g['B'].get('dim') or g['U'].get('dim')) else None
        for t, d in cases_of(g, r, pixels=px, norm=not g.get('sweep')):
            terms.append(t)
            descs.append(d)
    n_plain = len(terms)
    for g, r in zip(order, hres):
        if 'build_error' in r:
            ctx.note('harness could not build a history step: ' + r['build_error'])
            continue
        mutated += not r.get('inputs_unchanged', True)
        # first pixel of every step against the (stateless) model; all pixels against the statement in history_checks
        for t, d in cases_of(g, r, pixels=[0], norm=False):
            terms.append(t)
            descs.append(dict(d, history=g['hist'], step=g['step'], changed=g['changed'], config=g['config']))
    fails, errors = ctx.coq_eval_shards(HEADER, terms, lambda k: 'Eval vm_compute in (report (map (check H MN) cases)).\n', shard=60)
    for name, e in errors:
        ctx.violation('corr-shard-error', f'correspondence shard {name} did not evaluate: {e[:300]}', {'shard': name, 'error': e}, found_input=False)
    for i, why in sorted(fails.items()):
        d = descs[i]
        rp = {'case': d, 'reason': why}
        if 'history' in d:
            rp['history'] = by_hist[d['history']][:d['step'] + 1]
        # same key for a step of a history as for an independent group: the model is stateless, so whether the disagreement
        # depends on the earlier calls is decided by history_checks (keys 'history:...'), which re-runs the step alone
        ctx.violation(f'{d["kernel"].split(" ")[0]}:{why.split(":")[0]}',
                      f'{d["kernel"]}: implementation differs from the model / defining algebra ({why}) on {d}', rp)
    found = []
    n_hist_steps = history_checks(ctx, groups + order, all_res, by_hist, found)
    n_inv = invariance_checks(ctx, rng, 8 if quick else 120, found)
    # SIZE axis (statement only, no Coq cases): independent generator state
    large = large_checks(ctx, gen_large(random.Random(ctx.seed * 15485863 + 29), LARGE_QUICK if quick else LARGE_QUICK + LARGE_MORE), found)
    if mutated:
        ctx.note(f'{mutated} groups had an operand modified by a call (C09 covers this)')
    kinds = {}
    for d in descs:
        kinds[d['kernel']] = kinds.get(d['kernel'], 0) + 1
    kaps = sorted({g['kappa_target'] for g in groups})
    axes = {}
    for g in order:
        for a in g['changed']:
            axes[a] = axes.get(a, 0) + 1
    ctx.coverage.update({
        'evaluations': len(terms) + n_inv,
        'distinct_nontrivial': len({repr(sorted((k, repr(v)) for k, v in d.items() if k != 'impl')) for d in descs if not isinstance(d['impl'], str)}),
        'rule': 'per group: wavelength 0.01..100 angstrom (angstrom/nm; float64/float32/int64; scalar or per-pixel), incident beam scalar, 5 scattered '
                'beams per pixel at uniform and near-degenerate angles ({0,pi/2,pi} +- {0,1e-12..1e-3}), beams in m / mm / DIMENSIONLESS (plain direction vectors of any norm; the two beams independently) with lengths 1e-3..1e3; '
                'R and U from exact rational unit quaternions (as rotation3 or as 3x3 linear_transform; R scalar or per-pixel), '
                'U 0-d or (1 in 5) one per pixel; B of EITHER handedness, condition numbers 1..1e6, in 1/angstrom: kind diag*(I+N) / Busing-Levy B of a '
                'triclinic cell (angles 60..120 deg) / dense O1*diag*O2, then as made / columns cyclically permuted (det > 0) or two columns '
                'swapped / one column negated / -B / two rows swapped (det < 0; weights 4:1:2:2:1:1), 0-d or (1 in 5) one B per pixel '
                'mixing both signs of det; plus a sweep with every kind x hand once (2 pixels, B in 1/angstrom / 1/nm / dimensionless, 1 in 3 '
                'as the pair [right-handed, mirrored] per pixel); hkl of the computed Q vectors or of random Q; '
                'non-trivial = a finite result was produced; plus rescaling (2^k, 3, 0.1) and rotation (incl. improper) of the beams; '
                'plus CALL HISTORIES in the same process: the same numbers re-used step by step with another unit (UB dimensionless, 1/angstrom, '
                '1/nm; wavelength angstrom, nm; beams m, mm; explicit Q 1/angstrom, 1/nm), dtype (float64/float32/int64), shape (scalar / '
                'per-pixel wavelength, R, U and B (the 0-d B is the first of the per-pixel ones, which mix both signs of det), 2 or 3 pixels), storage (rotation3 / matrix) and Q source; consecutive steps differ in one '
                '(15%: two) axes, 15% of the steps repeat an earlier step exactly, half of the histories run interleaved in pairs; all five '
                'kernels are called on every step and every step is compared with the model (first pixel) and with the statement (all pixels, '
                'value and unit); every group and step is ALSO evaluated through the graph entry points graph.tof.elastic_Q_vec / elastic_hkl '
                '(start wavelength or tof) + transform_coords and the statement evaluated on those results, after which the caller\'s copies of '
                'the returned graphs are modified (ub_matrix / Q_vec / hkl_vec node overridden, dict cleared; 1/3 left alone); a failing '
                'group is re-run alone and after its predecessors in fresh processes',
        'samples': descs[:2] + descs[n_plain // 2:n_plain // 2 + 2] + descs[n_plain:n_plain + 1] + descs[-1:],
        'per_kernel': kinds, 'kappa_targets': kaps, 'invariance_checks': n_inv,
        'beam_units_incident/scattered': beam_unit_counts(groups + order),
        'large_arrays': dict(large, rule='SIZE axis: operands of 4097, 65535, 65536, 65537, 2^17+1 and 300 x 400 elements (thorough and search: '
                             '2^k-1, 2^k, 2^k+1 for k = 8..16, 1e5+1, 2^18+1, 2^20+1, 1e6, 257x257, 3x50000, 1000x70, 70x1000): wavelengths '
                             '(per element, per wavelength bin, or 0-d; float64/float32/int64), scattered beams per pixel and explicit Q drawn in '
                             'the harness from a numpy seed, beams in m / mm / dimensionless, R and U generic rotations (no zero quaternion '
                             'component; R 0-d or tiled per pixel), B of either handedness with kappa <= 1e3 in any of three units; 1 case in 3 also '
                             'through graph.tof.elastic_Q_vec / elastic_hkl + transform_coords; the statement is evaluated on the whole arrays '
                             'in numpy float64 (ranking, non-finite, exact split/join) and with exact rationals on >= 9 sampled elements per case '
                             '(ends, middle, around 2^16, random) plus the worst element of every relation; no Coq cases'),
        'B_matrices': dict(class_counts(groups + order), kinds=B_KINDS, hands=B_HANDS,
                           sweep_groups=sum(1 for g in groups if g.get('sweep'))),
        'graph_entry_points': {'groups': sum(1 for r in all_res if isinstance(r.get('graph'), dict)),
                               'customisations': {str(k): sum(1 for g in groups + order if g['graph']['customise'] == k) for k in set(GRAPH_CUSTOM)},
                               'start': {k: sum(1 for g in groups + order if g['graph']['start'] == k) for k in ('wavelength', 'tof')},
                               'via': {k: sum(1 for g in groups + order if g['graph']['via'] == k) for k in ('specific', 'elastic')}},
        'call_histories': {'histories': len(by_hist), 'steps': n_hist_steps, 'coq_cases': len(terms) - n_plain, 'axis_changes': axes,
                           'exact_repeats': sum(1 for g in order if g['changed'] == ['repeat-of-earlier-step'])},
        'disagreements': len(fails), 'tolerance': {'Q_abs_in_units_of_2pi_over_lambda': 2e-15, 'norm_vs_scalar_Q': 1e-13, 'hkl': '64*kappa_inf*2^-53'},
        'scipp_version': res.get('scipp'),
    })


def search(ctx, broken):
    """an obligation broke: evaluate the property's own statement on the implementation (exact rational arithmetic on its outputs),
    on independent random groups AND on call histories (state kept between calls only shows in a sequence of calls)"""
    rng = random.Random(ctx.seed + 11)
    found = []
    order, by_hist = gen_histories(rng, 24, 10)
    groups = gen_groups(rng, 40)
    # every B kind x handedness x condition number 1, 1e2, 1e4, 1e6, 0-d and per pixel (no Coq here: the statement is cheap)
    groups += gen_matrix_sweep(rng, [1.0, 1e2, 1e4, 1e6])
    add_graph_specs(groups + order, rng)
    res = ctx.run_impl('c08_impl.py', {'groups': groups + order})
    history_checks(ctx, groups + order, res['groups'], by_hist, found)
    invariance_checks(ctx, rng, 24, found)
    # SIZE axis: a changed / never executed statement may sit behind a size test - many sizes around powers of two and of ten,
    # 1-d and 2-d, twice with independent operands
    for rep in range(2):
        large_checks(ctx, gen_large(rng, LARGE_QUICK + LARGE_MORE, id0=1000 * rep), found)
    return found


def replay(ctx, obj):
    """re-run the recorded input on the implementation and print observed vs required behaviour"""
    import json
    rp = obj.get('replay', {})
    case = rp.get('case') or rp
    print(json.dumps({k: obj.get(k) for k in ('property', 'key', 'what')}, indent=1, default=str)[:3000])
    if rp.get('history'):
        seq = rp['history']
        print(f'call history of {len(seq)} steps in one process (failing step recorded: {rp.get("failing_step", len(seq) - 1)})')
        res = ctx.run_impl('c08_impl.py', {'groups': seq})

        class PH:
            @staticmethod
            def violation(key, what, replay_obj, found_input=True):
                print('  STILL VIOLATED:', key, '::', what[:400])
        n_bad = 0
        for g, r in zip(seq, res['groups']):
            print(f'step {g.get("step")} (group {g["id"]}, changed {g.get("changed")}): config {g.get("config")}')
            for key in ('Qvec', 'UB', 'hkl'):
                if key in r:
                    v = r[key]
                    print('  ', key, '->', 'raises ' + v['error'] if 'error' in v else (kcorr.fmt(v['values'][0]), (v.get('unit') or {}).get('name')))
            f = []
            all_statement_checks(PH, [g], {'groups': [r]}, f)
            n_bad += len(f)
        if not n_bad:
            print('the defining relations hold on every step of this history')
        else:
            alone = ctx.run_impl('c08_impl.py', {'groups': [seq[-1]]})
            print('last step alone in a fresh process:', sorted(keys_of([seq[-1]], alone)) or 'satisfies the property')
        return 0
    if rp.get('group') and rp['group'].get('large'):
        c = rp['group']['large']
        print(f'large operands: shape {c["shape"]} (dims {c["dims"]}), numpy seed {c["seed"]}, beams in {c["incident_beam"]["unit"]} / '
              f'{c["scattered_beam"]["unit"]}, R {c["R"]["kind"]} dim {c["R"].get("dim")}, explicit Q {c["Q"]}, graph {c["graph"]}')
        found = []

        class PL:
            @staticmethod
            def violation(key, what, replay_obj, found_input=True):
                print('STILL VIOLATED:', key, '::', what[:600])

            @staticmethod
            def run_impl(script, payload):
                return ctx.run_impl(script, payload)

            @staticmethod
            def note(text):
                print('note:', text)
        cov = large_checks(PL, [c], found)
        print('evaluated:', {k: cov.get(k) for k in ('elements_total', 'elements_evaluated_exactly', 'cases_also_through_graph')})
        if not found:
            print('the defining relations hold on these operands (whole array in numpy, sampled and worst elements exactly)')
        return 0
    if rp.get('group'):
        g = rp['group']
        if rp.get('base_group'):      # beam-length independence: the base group and the rescaled one
            g = dict(g, id=1)
            both = ctx.run_impl('c08_impl.py', {'groups': [dict(rp['base_group'], id=0), g]})['groups']
            for name, r_ in zip(('base', 'rescaled'), both):
                v = r_.get('Qvec', {})
                print(name, 'beams in', [r_['operands'][n_]['unit']['name'] for n_ in ('incident_beam', 'scattered_beam')], 'Q_vec[0] ->',
                      'raises ' + v['error'] if 'error' in v else kcorr.fmt(v['values'][0]))
    elif 'scattered_beam' in case and isinstance(case.get('wavelength'), dict):
        w = case['wavelength']
        rot = lambda v: {'kind': 'quat' if len(v) == 4 else 'matrix', 'values': [[hexf(c) for c in v]], 'dim': None}  # noqa: E731
        ident = [0.0, 0.0, 0.0, 1.0]
        g = {'id': 0,
             'wavelength': {'values': [w['value'] if w['dtype'].startswith('int') else hexf(w['value'])], 'unit': w['unit'].replace('\u00c5', 'angstrom'),
                            'dtype': w['dtype'], 'dim': None},
             'incident_beam': vop([case['incident_beam']], case['incident_unit'], None),
             'scattered_beam': vop([case['scattered_beam']], case['scattered_unit'], 'p'),
             'R': rot(case.get('R', ident)), 'U': rot(case.get('U', ident)),
             'B': {'values': [hexf(c) for c in case.get('B', [1.0, 0, 0, 0, 1.0, 0, 0, 0, 1.0])], 'unit': '1/angstrom'}}
        if 'Q' in case:
            g['Q'] = vop([case['Q']], '1/angstrom', 'p')
    elif all(k in case for k in ('Q', 'R', 'U', 'B')) or all(k in case for k in ('wavelength_si', 'incident_beam', 'scattered_beam')):
        rot = lambda v: {'kind': 'quat' if len(v) == 4 else 'matrix', 'values': [[hexf(c) for c in v]], 'dim': None}  # noqa: E731
        ident = [0.0, 0.0, 0.0, 1.0]
        g = {'id': 0, 'wavelength': {'values': [hexf(case.get('wavelength_si', 1e-10))], 'unit': 'm', 'dtype': 'float64', 'dim': None},
             'incident_beam': vop([case.get('incident_beam', [0.0, 0.0, 1.0])], 'm', None),
             'scattered_beam': vop([case.get('scattered_beam', [1.0, 0.0, 0.0])], 'm', 'p'),
             'R': rot(case.get('R', ident)), 'U': rot(case.get('U', ident)),
             'B': {'values': [hexf(c) for c in case.get('B', [1.0, 0, 0, 0, 1.0, 0, 0, 0, 1.0])], 'unit': '1/angstrom'}}
        if 'Q' in case:
            g['Q'] = vop([[c / 1e10 for c in case['Q']]], '1/angstrom', 'p')      # recorded in 1/m
    else:
        print('this record carries no re-runnable operands (see the text above)')
        return 0
    res = ctx.run_impl('c08_impl.py', {'groups': [g]})
    r = res['groups'][0]
    for key in ('Qel', 'Qvec', 'two_theta', 'Qscalar', 'UB', 'hkl', 'hkl_el', 'rejoined'):
        if key in r:
            v = r[key]
            print(key, '->', 'raises ' + v['error'] if 'error' in v else
                  ({c: kcorr.fmt(x['values'][0]) for c, x in v['dict'].items()} if 'dict' in v else kcorr.fmt(v['values'][0])))
    found = []

    class P:   # print instead of recording
        @staticmethod
        def violation(key, what, replay_obj, found_input=True):
            print('STILL VIOLATED:', key, '::', what[:400])
    all_statement_checks(P, [g], res, found)
    if not found:
        print('the defining relations (Q = 2pi/lambda (e_i - e_f), |Q| = scalar Q, 2 pi R UB hkl = Q within 64 kappa u, UB = U*B, split/join exact) hold on this input')
    return 0
