"""C19 — plateau finding and in-phase filtering return exactly the defined selections.

Tie B (hand model + correspondence): coq/C19/Model.v is an executable Gallina model of
src/scippneutron/chopper/filtering.py over an abstract arithmetic carrier; coq/C19/Spec.v states the
property without reference to the code; coq/C19/Proofs*.v prove model = spec for ALL series; this file
generates series, runs the real implementation (tools/harness/c19_impl.py) and lets Coq compare the
observations with the model run on the same binary64 inputs (coq-run/C19/Corr.v); series with float32
coordinates / data are compared with the binary32 instances (Flocq, coq/C19/Carrier32.v, coq-run/C19/Corr32.v).
Call histories (the SAME DataArray / plateau array passed repeatedly, updated in place between the calls,
interleaved with calls on other objects) are flattened: every call is compared with the model evaluated on the
CURRENT content of its argument, and with the call on a fresh deep copy.
Series with ATTACHMENTS (variances of the data, a mask, a further coordinate; 30% of the stand-alone series): the bins
must hold every point with its attachments unchanged (Corr.v ObsAtt: plateau_bins of the same flags applied to the
attachments; coq/C19/ProofsAtt.v: attachments_travel / rows_unchanged), collapse_plateaus = scipp bins.mean (mean of the
unmasked points, variance sum(var)/n^2, NaN when every point is masked).
"""
import math
import random
import struct
from fractions import Fraction

ID = 'C19'
LEVEL = 'proof'
TRANSLATE = None
RUN_FILES = ['Properties.v', 'Corr.v', 'Corr32.v']
COQ_TIMEOUT = 600
TRUSTED = [
    'coq/C19/Model.v: hand-written model of find_plateaus/_derive/_check_total_tolerance/collapse_plateaus/'
    '_next_highest/_is_approximate_multiple/filter_in_phase (validated against the real functions on every run)',
    'modelled scipp primitives: cumsum, concat, group (one bin per distinct label, ascending, stable), bins.size, '
    'boolean-mask indexing, bins.mean/min/max (bins.mean skips masked events and propagates variances as sum/n^2; group moves '
    'whole rows: value, variance, coordinates, mask entries), sc.round (ties to even), sc.reciprocal, element-wise IEEE binary64 '
    '+ - / abs > <, int64 difference converted to double for the division',
    'Coq primitive floats (PrimFloat: IEEE-754 binary64 add/sub/mul/div/compare/next_up, hexadecimal literals, Prim2SF)',
    'float32: Flocq IEEE754.BinarySingleNaN at precision 24 / emax 128 (Bminus, Bdiv, Bleb, Bsucc, binary_normalize) as the '
    'binary32 arithmetic; modelled scipp dtype rules: float32 op float32 -> float32, float32 op float64 -> float64 (the '
    'float32 difference is formed first), float32 / int64 -> float32 (the integer rounded to nearest), comparison of a '
    'float32 with the float64 tolerance exact',
    'tools/harness/c19_impl.py + props/C19.py (generation, exact serialisation of binary64 as hex literals)',
]
ASSUMPTIONS = [
    'atol is given in the unit of the derivative (no unit conversion of the tolerance)',
    'attachments: variances are ignored by the slope test and the drift guard (scipp comparisons ignore variances; the guard '
    'uses .data, so masked points count); "its mean" of a plateau with masked points is scipp\'s bins.mean: the mean of the points '
    'that are not masked (NaN when all are), variance of the mean = sum of their variances / n^2 (compared to 4x the mean '
    'tolerance, relative); the interval holds ALL points of the plateau, masked or not; histories carry no attachments',
    'coordinates are finite and sorted ascending (find_plateaus refuses anything else); integer / datetime64 '
    'coordinate differences are below 2^53 so their conversion to double is exact',
    'the drift guard and the bin means use scipp\'s (not left-to-right) summation: the guard decision is compared '
    'with exact rationals outside a relative band of 1e-9 around the bound, means to 1e-12 of the mean magnitude',
    'in_phase_iff is proved over exact rationals; the binary64 decision is compared bit-exactly by the correspondence',
    'collapse interval theorem: proved for any coordinate order that is total on the occurring coordinates with '
    'next(x) above x; instantiated for int64/datetime64 (next = +1), exact rationals, and finite binary64 '
    '(next = nextafter(+inf), via Flocq: uses the FloatAxioms specifications of the primitive float operations) and '
    'finite binary32 (next = Flocq Bsucc at precision 24 = the least binary32 value above)',
    'float32 data: drift-guard decision compared outside a relative band of 5e-5, bin means to (n+2)*2^-24 of the mean '
    'magnitude (any binary32 summation order)',
    'call histories: in-place updates keep length, dtype and ascending order of the coordinate; the content of the '
    'argument at each call is read back from the object just before the call',
    'in-phase: n = 0 is an admissible integer on both sides, as in the design statement: |f| < rtol*|ref| is kept '
    '(f ~ 0*ref) and |f| > |ref|/rtol is kept (ref ~ 0*f); f = 0 is kept through the multiple side only',
]

HARNESS = 'c19_impl.py'
FLOATS = ('float', 'float32')
INTS = ('int64', 'int32')


# --------------------------------------------------------------------------- helpers
def cf(x):
    """Coq binary64 literal (hexadecimal, exact)"""
    h = float(x).hex()
    return f'({h})' if h.startswith('-') else h


def cfn(x):
    """like cf, NaN / infinities allowed (the mean of a plateau whose points are all masked is NaN)"""
    x = float(x)
    if x != x:
        return 'nan'
    if math.isinf(x):
        return 'infinity' if x > 0 else 'neg_infinity'
    return cf(x)


def cz(n):
    return f'({int(n)})%Z'


def r32(x):
    """round a double to the nearest binary32 value (ties to even)"""
    try:
        return struct.unpack('f', struct.pack('f', x))[0]
    except OverflowError:
        return math.copysign(math.inf, x)


def c32(x):
    """Coq binary32 value (Flocq) of a double that is representable in binary32: mk32 mantissa exponent"""
    x = float(x)
    if x == 0:
        return '(mk32 0 0)'
    m, e = math.frexp(x)
    mm = int(m * 2 ** 24)
    assert mm == m * 2 ** 24, x
    return f'(mk32 ({mm})%Z ({e - 24})%Z)'


def loguniform(rng, lo, hi):
    return math.exp(rng.uniform(math.log(lo), math.log(hi)))


def fdiv(a, b):
    if b == 0.0:
        if a == 0 or a != a:
            return math.nan
        return math.copysign(math.inf, a) * math.copysign(1.0, b)
    return a / b


def slopes_of(case):
    """the slopes exactly as the implementation computes them: IEEE binary64, or binary32 where scipp keeps float32
    (a binary32 operation is the binary64 one rounded once more: 53 >= 2*24+2)"""
    xs, ys = case['xv'], case['yv']
    y32 = case.get('ydtype') == 'float32'
    coord = case['coord']
    all32 = y32 and coord != 'float'               # float32 data over float32 / int64 / datetime64 coordinates
    out = []
    for i in range(len(xs) - 1):
        if coord == 'float':
            dx = xs[i + 1] - xs[i]
        elif coord == 'float32':
            dx = r32(xs[i + 1] - xs[i])
        else:
            dx = float(xs[i + 1] - xs[i])          # int kinds: exact integer difference, then to double / float
            if y32:
                dx = r32(dx)
        dy = ys[i + 1] - ys[i]
        if y32:
            dy = r32(dy)
        s = fdiv(dy, dx)
        out.append(r32(s) if all32 and math.isfinite(s) else s)
    return out


def exact_flags(case):
    xs, ys, atol = case['xv'], case['yv'], Fraction(case['atolv'])
    out = []
    for i in range(len(xs) - 1):
        dx = Fraction(xs[i + 1]) - Fraction(xs[i])
        if dx == 0:
            return None
        out.append(abs((Fraction(ys[i + 1]) - Fraction(ys[i])) / dx) > atol)
    return out


# --------------------------------------------------------------------------- plateau generator
def gen_att(rng, n, ydtype, y, scale):
    """attachments of a series: variances of the data (float dtypes), a mask, a further int64 coordinate"""
    kinds = ['mask', 'extra'] + (['var', 'var', 'var'] if ydtype in ('float64', 'float32') else [])
    chosen = {rng.choice(kinds)}
    for k in ('var', 'mask', 'extra'):
        if k in kinds and rng.random() < 0.4:
            chosen.add(k)
    att = {'var': None, 'mask': None, 'extra': None}
    if 'var' in chosen:
        m = rng.random()
        if m < 0.1:
            v = [rng.choice([0.0, 0.25, 1.0]) for _ in range(n)]
        else:
            s = loguniform(rng, 1e-4, 10.0) * max(scale, 1e-300) ** (2 if rng.random() < 0.5 else 0)
            v = [s * rng.uniform(0.2, 2.0) for _ in range(n)]
        att['var'] = [r32(x) for x in v] if ydtype == 'float32' else v
    if 'mask' in chosen:
        m = rng.random()
        p = 0.0 if m < 0.1 else 1.0 if m < 0.2 else rng.choice([0.1, 0.3, 0.7])
        att['mask'] = [1 if rng.random() < p else 0 for _ in range(n)]
    if 'extra' in chosen:
        att['extra'] = ([int(round(v)) for v in y] if rng.random() < 0.5 and all(abs(v) < 2 ** 60 for v in y)
                        else [rng.randint(-1000, 1000) for _ in range(n)])
    return att


def gen_series(rng, tier, n=None, coord=None, ydtype=None, xdtype='auto', att=False):
    """one series: coordinates (non-uniform, ascending), piecewise-constant levels + noise, steps near the tolerance"""
    if n is None:
        r = rng.random()
        if r < 0.10:
            n = rng.randint(2, 4)
        elif r < (0.90 if tier == 'quick' else 0.75):
            n = rng.randint(5, 60)
        else:
            n = rng.randint(61, 500)
    if coord is None:
        coord = rng.choice(['float'] * 5 + ['float32'] * 2 + ['int'] * 2 + ['datetime'] * 2)
    nice = rng.random() < 0.3
    yd = 'float64'
    want_xdtype, xdtype = xdtype, None
    # coordinate layout: independent random steps, or a regular grid (fixed sampling rate) whose interior points are
    # jittered (the end points, in half of the cases also the first step, stay on the grid), or exactly regular
    lay = rng.random()
    layout = 'jittered-grid' if lay < 0.12 else 'uniform' if lay < 0.15 else 'random-steps'
    grid = layout != 'random-steps'
    jit = set()
    if layout == 'jittered-grid':
        first = rng.choice([1, 2])
        jit = {i for i in range(first, n - 1) if rng.random() < 0.35}
        if not jit and n - 1 > first:
            jit = {rng.randrange(first, n - 1)}
    # coordinates (non-uniform, ascending)
    if coord in FLOATS:
        if nice:
            x = [rng.randint(-64, 64) / 8.0]
            if grid:
                h = rng.randint(1, 16) / 8.0
                x = [x[0] + i * h + (rng.choice([-3, -2, -1, 1, 2, 3]) * h / 8 if i in jit else 0.0) for i in range(n)]
            else:
                for _ in range(n - 1):
                    x.append(x[-1] + rng.randint(1, 16) / 8.0)
        else:
            x = [rng.uniform(-50, 50)]
            if grid:
                h = loguniform(rng, 0.05, 3.0)
                x = [x[0] + i * h + (rng.uniform(-0.4, 0.4) * h if i in jit else 0.0) for i in range(n)]
            else:
                for _ in range(n - 1):
                    x.append(x[-1] + loguniform(rng, 0.05, 3.0))
        if coord == 'float32':
            x = [r32(v) for v in x]
        if rng.random() < 0.05 and n > 3:        # ascending, not strictly
            for _ in range(rng.randint(1, 2)):
                k = rng.randrange(1, n)
                x[k] = x[k - 1]
        A = rng.choice([0.25, 0.5, 1.0, 2.0, 3.0]) if nice else loguniform(rng, 1e-2, 10)
        if rng.random() < (0.6 if coord == 'float32' else 0.12):
            yd = 'float32'
    elif coord == 'int':
        x = [rng.choice([rng.randint(-1000, 1000), 2 ** 40 + rng.randint(0, 10 ** 6)])]
        if want_xdtype == 'int32':
            x = [rng.randint(-1000, 1000)]
        if grid:
            h = rng.randint(3, 9)
            x = [x[0] + i * h + (rng.choice([-1, 1]) * rng.randint(1, (h - 1) // 2) if i in jit else 0) for i in range(n)]
        else:
            for _ in range(n - 1):
                x.append(x[-1] + rng.randint(1, 9))
        if abs(x[0]) <= 1000 and rng.random() < 0.35:
            xdtype = 'int32'
        if want_xdtype != 'auto':
            xdtype = want_xdtype
        A = rng.choice([0.25, 0.5, 1.0, 2.0]) if nice else loguniform(rng, 1e-2, 10)
        if nice and rng.random() < 0.4:
            yd = rng.choice(['int64', 'int64', 'int32'])
            A = float(rng.choice([1, 2, 3]))
        elif rng.random() < 0.15:
            yd = 'float32'
    else:
        x = [1_700_000_000_000_000_000 + rng.randint(0, 10 ** 15)]
        if grid:
            h = rng.randint(1, 16) * 2 ** 27 if nice else rng.randint(1000, 4_000_000_000)
            x = [x[0] + i * h + ((rng.choice([-3, -2, -1, 1, 2, 3]) * (h // 8) if nice else
                                  rng.choice([-1, 1]) * rng.randint(1, h // 2 - 1)) if i in jit else 0) for i in range(n)]
        else:
            for _ in range(n - 1):
                x.append(x[-1] + (rng.randint(1, 16) * 2 ** 27 if nice else rng.randint(1, 4_000_000_000)))
        A = rng.choice([0.25, 0.5, 1.0, 2.0]) * 2.0 ** -30 if nice else loguniform(rng, 1e-2, 10) * 1e-9
        if rng.random() < 0.15:
            yd = 'float32'
    if ydtype is not None:
        if ydtype in INTS and yd not in INTS:
            A = float(rng.choice([1, 2, 3]))
        yd = ydtype
    ydtype = yd
    dxs = [float(x[i + 1] - x[i]) for i in range(n - 1)]
    pos = sorted(d for d in dxs if d > 0) or [1.0]
    med = pos[len(pos) // 2]
    a = A * med * rng.uniform(0.05, 0.45)
    ramp_series = rng.random() < 0.12
    y = []
    level = rng.uniform(-20, 20)
    if nice:
        level = round(level * 16) / 16
    if ydtype in INTS:
        level = float(round(level))
    seg_left = 0
    ramp = False
    for i in range(n):
        if seg_left == 0:
            seg_left = rng.choice([rng.randint(1, 12), rng.randint(1, 12), rng.randint(10, 40)])
            ramp = ramp_series and rng.random() < 0.5 and seg_left >= 4
            if i > 0:
                dx = dxs[i - 1] or med
                jump = A * dx * (rng.uniform(0.9, 1.3) if rng.random() < 0.1 else rng.uniform(3, 50))
                level = y[-1] + rng.choice([-1, 1]) * jump
                if nice:
                    level = round(level * 64) / 64
                if ydtype in INTS:
                    level = float(round(level))
            y.append(level)
            seg_left -= 1
            continue
        dx = dxs[i - 1] or med
        c = rng.random()
        if ramp:
            v = y[-1] + 0.8 * A * dx
        elif c < 0.12:
            v = y[-1] + rng.choice([-1, 1]) * A * dx * (1 + rng.uniform(-1e-6, 1e-6))
        elif c < 0.22:
            v = y[-1] + rng.choice([-1, 1]) * A * dx
        else:
            v = level + rng.uniform(-a, a)
            if nice:
                v = level + round((v - level) * 256) / 256
        if ydtype in INTS:
            v = float(round(v))
        y.append(v)
        seg_left -= 1
    if ydtype == 'float32':
        y = [r32(v) for v in y]
    case = {'kind': 'plateau', 'coord': coord, 'ydtype': ydtype, 'xv': x, 'yv': y, 'nice': nice, 'A': A, 'layout': layout, 'xdtype': xdtype}
    if att:
        case['att'] = gen_att(rng, n, ydtype, y, a)
    return case


def pick_params(rng, case, A=None):
    """tolerance (nominal / exactly at a slope / one ulp from it) and min_n_points for the CURRENT content"""
    A = case['A'] if A is None else A
    n = len(case['xv'])
    sl = slopes_of(case)
    cands = [abs(s) for s in sl if 0.5 * A <= abs(s) <= 1.5 * A and math.isfinite(s)]
    m = rng.random()
    atol, how = A, 'nominal'
    if cands and m >= 0.30:
        s = rng.choice(cands)
        if m < 0.72:
            atol, how = s, 'at-a-slope'
        elif m < 0.86:
            atol, how = math.nextafter(s, math.inf), 'one-ulp-above-a-slope'
        else:
            atol, how = math.nextafter(s, 0.0), 'one-ulp-below-a-slope'
    case['atolv'] = atol
    case['atol_how'] = how
    q = rng.random()
    if q < 0.15:
        mn = 1
    elif q < 0.30:
        mn = 2
    elif q < 0.80:
        mn = rng.randint(1, min(n, 8))
    elif q < 0.95:
        mn = rng.randint(1, n)
    else:
        mn = n
    case['min_n'] = mn
    return case


def gen_plateau(rng, tier, att=None):
    """att: None = 30% of the series carry attachments; True = always (float data, so that variances are possible)"""
    if att:
        return pick_params(rng, gen_series(rng, tier, ydtype=rng.choice([None, None, 'float64', 'float32']), att=True))
    return pick_params(rng, gen_series(rng, tier, att=rng.random() < 0.3))


def hx(coord, v):
    return float(v).hex() if coord in FLOATS else int(v)


def series_payload(case):
    d = {'coord': case['coord'], 'ydtype': case['ydtype'], 'x': [hx(case['coord'], v) for v in case['xv']],
         'y': [float(v).hex() for v in case['yv']]}
    if case.get('xdtype'):
        d['xdtype'] = case['xdtype']
    a = case.get('att')
    if a:
        if a['var'] is not None:
            d['var'] = [float(v).hex() for v in a['var']]
        if a['mask'] is not None:
            d['mask'] = [int(v) for v in a['mask']]
        if a['extra'] is not None:
            d['extra'] = [int(v) for v in a['extra']]
    return d


def att_points(case):
    """per input point [variance (hex) | None, mask | None, further coordinate | None] — the encoding of the harness"""
    a = case.get('att') or {'var': None, 'mask': None, 'extra': None}
    n = len(case['xv'])
    return [[None if a['var'] is None else float(a['var'][i]).hex(), None if a['mask'] is None else int(a['mask'][i]),
             None if a['extra'] is None else int(a['extra'][i])] for i in range(n)]


def expected_meta(case):
    a = case.get('att') or {}
    return {'coords': sorted(['t'] + (['sp'] if a.get('extra') is not None else [])),
            'masks': ['bad'] if a.get('mask') is not None else [], 'has_var': a.get('var') is not None}


def payload_of(case):
    if case['kind'] == 'history':
        return case['payload']
    if case['kind'] == 'phase':
        return {'kind': 'phase', 'f': [float(v).hex() for v in case['fv']], 'fdtype': case.get('fdtype', 'float64'),
                'ref': float(case['refv']).hex(), 'rtol': float(case['rtolv']).hex()}
    d = {'kind': 'plateau', 'atol': float(case['atolv']).hex(), 'min_n': case['min_n']}
    d.update(series_payload(case))
    return d


# --------------------------------------------------------------------------- in-phase generator
def rint_q(q):
    f = math.floor(q)
    d = q - f
    if d < Fraction(1, 2):
        return f
    if d > Fraction(1, 2):
        return f + 1
    return f if f % 2 == 0 else f + 1


def phase_exact(f, ref, rtol):
    f, ref, rtol = Fraction(f), Fraction(ref), Fraction(rtol)
    q = f / ref
    a = abs(rint_q(q) - q) < rtol
    b = False
    if q != 0:
        q2 = 1 / q
        b = abs(rint_q(q2) - q2) < rtol
    return a or b


def phase_float(f, ref, rtol):
    """the implementation's own arithmetic (IEEE double; Python round() on floats is ties-to-even)"""
    def near(q):
        if math.isinf(q) or math.isnan(q):
            return False
        return abs(float(round(q)) - q) < rtol
    q = f / ref
    if q == 0:
        q2 = math.copysign(math.inf, q)
    else:
        try:
            q2 = 1.0 / q
        except OverflowError:
            q2 = math.inf
    return near(q) or near(q2)


def gen_phase(rng, n=None, fdtype=None):
    mode = rng.random()
    if mode < 0.25:      # exact dyadic arithmetic: elements exactly at the relative tolerance
        ref = rng.choice([1.0, 2.0, -2.0, 0.5])
        rtol = rng.choice([2.0 ** -10, 2.0 ** -6, 2.0 ** -20])
    else:
        ref = rng.choice([14.0, -14.0, 0.1, 70.0 / 3.0, 16.666666666666668, rng.uniform(0.5, 100) * rng.choice([-1, 1])])
        rtol = rng.choice([1e-6, 1e-3, 1e-9, 0.05, 0.01, 0.5, 2.0 ** -10])
    if n is None:
        n = rng.randint(1, 60)
    if fdtype is None:
        fdtype = rng.choice(['float64'] * 15 + ['float32'] * 3 + ['int64'] * 2)
    f = []
    for _ in range(n):
        k = rng.random()
        nn = rng.choice([1, 1, 2, 3, 4, 5, 6, 7, 10, 25, -1, -2, -3, 0])
        delta = rng.choice([0.0, 0.0, 0.5, -0.5, 0.99, -0.99, 1.0, -1.0, 1.01, -1.01, 2.0, -2.0]) * rtol
        if k < 0.35:
            f.append(ref * (nn + delta))
        elif k < 0.65:
            d = nn + delta
            f.append(ref / d if d != 0 else 0.0)
        elif k < 0.72:
            f.append(rng.choice([0.0, -0.0]))
        elif k < 0.80:
            f.append(ref * rng.choice([1e9, -1e9, 1e-9, -1e-9, 3.7e5, 2.9e-4]) * rng.uniform(0.5, 2))
        elif k < 0.85:
            f.append(ref * (abs(nn) + 0.5))       # ties of the rounding
        else:
            f.append(rng.uniform(-200, 200))
    if fdtype == 'float32':
        f = [r32(v) for v in f]
    elif fdtype == 'int64':
        f = [float(round(v)) + 0.0 for v in f]    # (+0.0: an int64 has no negative zero)
        f = [0.0 if v == 0 else v for v in f]
    return {'kind': 'phase', 'fv': f, 'fdtype': fdtype, 'refv': ref, 'rtolv': rtol}


# --------------------------------------------------------------------------- call histories
def gen_history(rng):
    """a call history over 1..3 long-lived objects (plateau series, sometimes a frequency array): the same object is
    passed again and again, its data / coordinate are updated in place between the calls, calls on the other objects
    are interleaved; the plateau array returned by find_plateaus is itself updated in place and collapsed again"""
    nobj = rng.choice([1, 2, 2, 3])
    objs, state = [], []
    for k in range(nobj):
        if rng.random() < 0.2:
            ph = gen_phase(rng, n=rng.randint(2, 16))
            objs.append({'kind': 'phase', 'f': [float(v).hex() for v in ph['fv']], 'fdtype': ph['fdtype']})
            state.append({'kind': 'phase', 'fv': list(ph['fv']), 'fdtype': ph['fdtype'], 'ref': ph['refv'], 'rtol': ph['rtolv'],
                          'dirty': True})
        else:
            s = gen_series(rng, 'quick', n=rng.randint(3, 28))
            d = series_payload(s)
            objs.append(d)
            s.update({'dirty': True, 'has_p': False, 'pdirty': False})
            state.append(s)
    steps = []
    prev = rng.randrange(nobj)

    def find_step(k):
        s = state[k]
        pick_params(rng, s)
        steps.append({'op': 'find', 'obj': k, 'atol': float(s['atolv']).hex(), 'min_n': s['min_n'], 'atol_how': s['atol_how']})
        s['dirty'] = False
        s['has_p'] = True
        s['pdirty'] = False

    def phase_step(k):
        s = state[k]
        if rng.random() < 0.3:
            other = gen_phase(rng, n=1)
            s['ref'], s['rtol'] = other['refv'], other['rtolv']
        steps.append({'op': 'phase', 'obj': k, 'ref': float(s['ref']).hex(), 'rtol': float(s['rtol']).hex()})
        s['dirty'] = False

    for _ in range(rng.randint(4, 9)):
        k = prev if rng.random() < 0.55 else rng.randrange(nobj)
        prev = k
        s = state[k]
        if s['kind'] == 'phase':
            if s['dirty'] or rng.random() < 0.5:
                phase_step(k)
                continue
            n = len(s['fv'])
            new = gen_phase(rng, n=n, fdtype=s['fdtype'])['fv']
            if rng.random() < 0.5:
                lo = rng.randrange(n)
                hi = rng.randint(lo + 1, n)
                s['fv'][lo:hi] = new[lo:hi]
                steps.append({'op': 'set', 'obj': k, 'how': rng.choice(['values', 'data_values']), 'lo': lo,
                              'y': [float(v).hex() for v in new[lo:hi]]})
            else:
                s['fv'] = list(new)
                steps.append({'op': 'set', 'obj': k, 'how': 'data', 'ydtype': s['fdtype'], 'y': [float(v).hex() for v in new]})
            s['dirty'] = True
            continue
        n = len(s['xv'])
        coord = s['coord']
        u = rng.random()
        if not s['has_p'] or u < 0.30:
            find_step(k)
        elif u < 0.68:                                   # update the series in place
            new = gen_series(rng, 'quick', n=n, coord=coord, ydtype=s['ydtype'], xdtype=s.get('xdtype'))
            how = rng.choice(['values', 'values', 'data_values', 'data', 'coord', 'coord_values'])
            if how in ('values', 'data_values'):
                lo = rng.randrange(n)
                hi = rng.randint(lo + 1, min(n, lo + 8))
                if rng.random() < 0.5:                   # a flat piece at another level
                    lvl = new['yv'][lo]
                    vals = [lvl] * (hi - lo)
                else:
                    vals = new['yv'][lo:hi]
                s['yv'][lo:hi] = vals
                steps.append({'op': 'set', 'obj': k, 'how': how, 'lo': lo, 'y': [float(v).hex() for v in vals]})
            elif how == 'data':
                s['yv'] = list(new['yv'])
                s['A'] = new['A']
                steps.append({'op': 'set', 'obj': k, 'how': 'data', 'ydtype': s['ydtype'],
                              'y': [float(v).hex() for v in new['yv']]})
            elif how == 'coord':
                s['xv'] = list(new['xv'])
                steps.append({'op': 'set', 'obj': k, 'how': 'coord', 'x': [hx(coord, v) for v in new['xv']]})
            else:                                        # stretch the tail: still ascending
                lo = rng.randrange(1, n) if n > 1 else 0
                if coord in FLOATS:
                    d = rng.choice([0.125, 0.5, 2.0, rng.uniform(0.01, 5)])
                    tail = [v + d for v in s['xv'][lo:]]
                    if coord == 'float32':
                        tail = [r32(v) for v in tail]
                elif coord == 'int':
                    d = rng.choice([1, 2, 7])
                    tail = [v + d for v in s['xv'][lo:]]
                else:
                    d = rng.choice([1, 2 ** 27, rng.randint(1, 4_000_000_000)])
                    tail = [v + d for v in s['xv'][lo:]]
                s['xv'][lo:] = tail
                steps.append({'op': 'set', 'obj': k, 'how': 'coord_values', 'lo': lo, 'x': [hx(coord, v) for v in tail]})
            s['dirty'] = True
        elif u < 0.82:                                   # update the plateau array in place
            how = rng.choice(['scale_data', 'shift_coord', 'event_value', 'event_coord', 'event_coord'])
            st = {'op': 'pset', 'obj': k, 'how': how}
            if how == 'shift_coord':
                if coord in FLOATS:
                    c = rng.choice([0.5, -3.0, rng.uniform(-5, 5), -s['xv'][-1]])
                    st['c'] = float(r32(c) if coord == 'float32' else c).hex()
                else:
                    st['c'] = rng.choice([1, -5, rng.randint(-10 ** 6, 10 ** 6)])
            elif how == 'event_value':
                v = rng.choice(s['yv']) + rng.choice([0.0, 1.0, -2.5, rng.uniform(-3, 3)])
                if s['ydtype'] in INTS:
                    v = float(round(v))
                elif s['ydtype'] == 'float32':
                    v = r32(v)
                st.update({'bin': rng.randrange(64), 'j': rng.randrange(64), 'v': float(v).hex()})
            elif how == 'event_coord':                   # anywhere: a bin need not stay sorted for collapse
                a, b = s['xv'][0], s['xv'][-1]
                if coord in FLOATS:
                    c = rng.choice([a - 1.0, b + 1.0, rng.uniform(a, b), rng.uniform(a, b), -b])
                    c = float(r32(c) if coord == 'float32' else c).hex()
                else:
                    c = rng.choice([a - 1, b + 1, rng.randint(a, b), rng.randint(a, b)])
                st.update({'bin': rng.randrange(64), 'j': rng.randrange(64), 'c': c})
            steps.append(st)
            s['pdirty'] = True
        else:
            steps.append({'op': 'collapse', 'obj': k})
            s['pdirty'] = False
    for k, s in enumerate(state):                        # every update is followed by a call
        if s['kind'] == 'phase':
            if s['dirty']:
                phase_step(k)
        else:
            if s['pdirty']:
                steps.append({'op': 'collapse', 'obj': k})
                s['pdirty'] = False
            if s['dirty']:
                find_step(k)
    return {'kind': 'history', 'payload': {'kind': 'history', 'objects': objs, 'steps': steps},
            'expected_content': None}


def unhx(coord, v):
    return float.fromhex(v) if coord in FLOATS else int(v)


def flatten_history(payload, hobs, hist_index=None):
    """every call of a history as an independent case on the CURRENT content of its argument (read back from the
    object just before the call): list of (flat case, observation)"""
    flat = []
    objs = payload['objects']
    for si, (st, o) in enumerate(zip(payload['steps'], hobs['steps'])):
        if o is None or o.get('skipped'):
            continue
        ob = objs[st['obj']]
        meta = {'history': hist_index, 'step': si, 'obj': st['obj']}
        if st['op'] == 'find':
            c = {'kind': 'plateau', 'coord': ob['coord'], 'ydtype': o['ydtype_now'],
                 'xv': [unhx(ob['coord'], v) for v in o['x']], 'yv': [float.fromhex(v) for v in o['y']],
                 'atolv': float.fromhex(st['atol']), 'min_n': st['min_n'], 'atol_how': st.get('atol_how', '?'),
                 'nice': None, 'hist': meta}
            flat.append((c, o))
        elif st['op'] == 'collapse':
            c = {'kind': 'collapse', 'coord': ob['coord'], 'ydtype': o['ydtype_now'],
                 'bins': [[(unhx(ob['coord'], p[0]), float.fromhex(p[1])) for p in b] for b in o['bins']], 'hist': meta}
            flat.append((c, o))
        elif st['op'] == 'phase':
            c = {'kind': 'phase', 'fv': [float.fromhex(v) for v in o['f']], 'fdtype': o['fdtype_now'],
                 'refv': float.fromhex(st['ref']), 'rtolv': float.fromhex(st['rtol']), 'hist': meta}
            flat.append((c, o))
    return flat


# --------------------------------------------------------------------------- the property, evaluated in Python
def spec_runs(case):
    """maximal runs of consecutive points whose successive slopes stay within atol, >= min_n points:
    list of (first, last) indices — the property statement itself, independent of the Coq model"""
    sl = slopes_of(case)
    atol = case['atolv']
    runs, start = [], 0
    for i, s in enumerate(sl):
        if abs(s) > atol:
            runs.append((start, i))
            start = i + 1
    runs.append((start, len(case['xv']) - 1))
    return [r for r in runs if r[1] - r[0] + 1 >= case['min_n']]


def collapse_violations(coord, ydtype, bins, col, att=None, colvar=None):
    """collapsing gives each plateau its mean and a half-open coordinate interval that contains all of its points;
    bins = [[(x, y), ...], ...] (current content), col = the observation [[mean, low, high], ...];
    att = per bin, per point [variance | None, mask | None, ...] (None: nothing attached): the mean is scipp's
    bins.mean — over the points that are not masked (NaN if there is none), with variance sum(var)/n^2 over the
    same points iff the data has variances; colvar = the observed variances of the means (None: no variances)"""
    if isinstance(col, dict):
        return [f'collapse_plateaus raises {col["error"]}']
    if len(col) != len(bins):
        return ['collapse: wrong number of plateaus']
    for k, (b, (m, lo, hi)) in enumerate(zip(bins, col)):
        seg_x = [p[0] for p in b]
        lo_v, hi_v = unhx(coord, lo), unhx(coord, hi)
        if not all(lo_v <= v < hi_v for v in seg_x):
            return [f'collapse: interval [{lo_v!r}, {hi_v!r}) does not contain all points {seg_x[:6]} of plateau {k} '
                    f'(coordinate dtype {coord})']
        ab = att[k] if att is not None else [[None, None, None]] * len(b)
        keep = [i for i in range(len(b)) if not ab[i][1]]
        has_var = any(a[0] is not None for a in ab)
        if (colvar is not None) != has_var:
            return [f'collapse: the means {"carry" if colvar is not None else "lost their"} variances although the points of '
                    f'the plateaus have {"variances" if has_var else "none"}']
        tol = Fraction(len(keep) + 2, 2 ** 24) if ydtype == 'float32' else Fraction(1, 10 ** 12)
        mv = float.fromhex(m)
        if not keep:
            if mv == mv:
                return [f'collapse: mean {mv!r} of plateau {k} whose points are all masked (scipp bins.mean: NaN)']
            continue
        seg_y = [b[i][1] for i in keep]
        em = sum(Fraction(v) for v in seg_y) / len(keep)
        mag = sum(abs(Fraction(v)) for v in seg_y) / len(keep)
        if mv != mv or math.isinf(mv) or abs(Fraction(mv) - em) > tol * mag:
            return [f'collapse: mean {mv!r} of plateau {k} differs from {float(em)!r}'
                    + (' (mean of the points that are not masked)' if len(keep) < len(b) else '')]
        if has_var:
            ev = sum(Fraction(float.fromhex(ab[i][0])) for i in keep) / len(keep) ** 2
            vv = float.fromhex(colvar[k])
            if vv != vv or math.isinf(vv) or abs(Fraction(vv) - ev) > 4 * tol * ev:
                return [f'collapse: variance {vv!r} of the mean of plateau {k} differs from sum(var)/n^2 = {float(ev)!r}']
    return []


def property_violations(case, obs):
    """compare one observation with the property text (used by search / replay)"""
    bad = []
    if obs.get('fresh_same') is False:
        h = case.get('hist') or {}
        bad.append(f'the call on the long-lived object (history step {h.get("step")}, object {h.get("obj")}) answers differently '
                   f'from the call on a fresh deep copy with the same content')
    if obs.get('input_unchanged') is False:
        bad.append('the call modified its argument')
    if case['kind'] == 'phase':
        if 'error' in obs:
            return [f'raises {obs["error"]}'] + bad
        want = [i for i, f in enumerate(case['fv']) if phase_float(f, case['refv'], case['rtolv'])]
        sure = [i for i, f in enumerate(case['fv'])
                if phase_float(f, case['refv'], case['rtolv']) == phase_exact(f, case['refv'], case['rtolv'])]
        got = [k[0] for k in obs['kept']]
        for i in sure:
            if (i in got) != (i in want):
                bad.insert(0, f'element {i} (f={case["fv"][i]!r}, ref={case["refv"]!r}, rtol={case["rtolv"]!r}) '
                           f'{"kept" if i in got else "dropped"} but is {"" if i in want else "not "}within rtol of an '
                           'integer multiple/divisor')
                break
        for i, v in obs['kept']:
            if i >= len(case['fv']) or float.fromhex(v) != case['fv'][i] or \
                    math.copysign(1, float.fromhex(v)) != math.copysign(1, case['fv'][i]):
                bad.append(f'kept element {i} changed')
                break
        if got != sorted(got):
            bad.append('kept elements out of order')
        return bad
    if case['kind'] == 'collapse':
        return collapse_violations(case['coord'], case['ydtype'], case['bins'], obs['collapsed'],
                                   colvar=obs.get('collapsed_var')) + bad
    if 'error' in obs:
        if obs['error'] != 'RuntimeError':
            bad.insert(0, f'raises {obs["error"]}: {obs.get("msg")}')
        return bad            # "whenever plateau finding returns"
    want = spec_runs(case)
    xs, ys = case['xv'], case['yv']
    coord = case['coord']

    def pt(i):
        return [hx(coord, xs[i]), float(ys[i]).hex()]
    exp = [[pt(i) for i in range(a, b + 1)] for a, b in want]
    if obs['bins'] != exp:
        got_sizes = [len(b) for b in obs['bins']]
        bad.insert(0, f'bins are not the maximal within-tolerance runs of the current content: expected runs {want[:12]} '
                   f'(sizes {[b - a + 1 for a, b in want][:12]}), got sizes {got_sizes[:12]}')
        return bad
    # ... each holding its points unchanged: also what travels with a point (variance, mask, further coordinates)
    if 'bin_meta' in obs and obs['bin_meta'] != expected_meta(case):
        bad.insert(0, f'bins do not hold their input points unchanged: the bin content has coordinates / masks / variances '
                   f'{obs["bin_meta"]}, the input series {expected_meta(case)}')
        return bad
    ap = att_points(case)
    exp_att = [[ap[i] for i in range(a, b + 1)] for a, b in want]
    if case.get('att') or 'att_bins' in obs:
        got_att = obs.get('att_bins')
        if got_att != exp_att:
            k = next((k for k, (g, e) in enumerate(zip(got_att or [], exp_att)) if g != e), 0)
            bad.insert(0, f'bins do not hold their input points unchanged: [variance, mask, further coordinate] of the points '
                       f'of plateau {k} are {str((got_att or [None])[k])[:160]}, in the input {str(exp_att[k])[:160]}')
            return bad
    bins = [[(xs[i], ys[i]) for i in range(a, b + 1)] for a, b in want]
    return collapse_violations(coord, case['ydtype'], bins, obs.get('collapsed'), att=exp_att,
                               colvar=obs.get('collapsed_var')) + bad


# --------------------------------------------------------------------------- Coq terms
def cx_term(coord):
    return cf if coord == 'float' else c32 if coord == 'float32' else cz


def att_term(a):
    """(variance (0 when absent), has variance, masked, [has mask; has further coordinate; its value])"""
    var, mask, extra = a
    b = lambda v: 'true' if v else 'false'
    return (f'({cf(float.fromhex(var)) if var is not None else cf(0.0)},{b(var is not None)},{b(bool(mask))},'
            f'[{cz(0 if mask is None else 1)};{cz(0 if extra is None else 1)};{cz(extra or 0)}])')


def obs_term(case, obs):
    cx = cx_term(case['coord'])

    def cxo(v):
        return cx(unhx(case['coord'], v))
    if 'error' in obs:
        return f'(ObsErr "{obs["error"]}")'
    bins = '[' + ';'.join('[' + ';'.join(f'({cxo(p[0])},{cf(float.fromhex(p[1]))})' for p in b) + ']'
                          for b in obs['bins']) + ']'
    col = obs['collapsed']
    if isinstance(col, dict):
        return None
    coll = '[' + ';'.join(f'({cfn(float.fromhex(m))},{cxo(lo)},{cxo(hi)})' for m, lo, hi in col) + ']'
    if case.get('att') or 'att_bins' in obs:
        ain = '[' + ';'.join(att_term(a) for a in att_points(case)) + ']'
        ab = '[' + ';'.join('[' + ';'.join(att_term(a) for a in b) + ']' for b in obs.get('att_bins') or []) + ']'
        cv = obs.get('collapsed_var')
        cvt = '[' + ';'.join(f'(true,{cfn(float.fromhex(v))})' if cv is not None else f'(false,{cf(0.0)})'
                             for v in (cv if cv is not None else col)) + ']'
        return f'(ObsAtt {bins} {coll} {ain} {ab} {cvt})'
    return f'(ObsBins {bins} {coll})'


def case_term(case, obs):
    """(group, Coq term): group '64' is evaluated with Corr.check, group '32' (float32 involved) with Corr32.check32"""
    if case['kind'] == 'phase':
        qs = 'true' if case['qsame'] else 'false'
        kept = '[' + ';'.join(f'({cz(i)},{cf(float.fromhex(v))})' for i, v in obs['kept']) + ']'
        fs = '[' + ';'.join(cf(v) for v in case['fv']) + ']'
        return '64', f'CaseP {fs} {cf(case["refv"])} {cf(case["rtolv"])} {qs} {kept}'
    coord = case['coord']
    v32 = case['ydtype'] == 'float32'
    b32 = 'true' if v32 else 'false'
    cx = cx_term(coord)
    if case['kind'] == 'collapse':
        bins = '[' + ';'.join('[' + ';'.join(f'({cx(p[0])},{cf(p[1])})' for p in b) + ']' for b in case['bins']) + ']'
        coll = '[' + ';'.join(f'({cf(float.fromhex(m))},{cx(unhx(coord, lo))},{cx(unhx(coord, hi))})'
                              for m, lo, hi in obs['collapsed']) + ']'
        if coord == 'float32':
            return '32', f'CaseCol32 {b32} {bins} {coll}'
        return '64', f'{"CaseColF" if coord == "float" else "CaseColZ"} {b32} {bins} {coll}'
    qs = 'true' if case['qsame'] else 'false'
    ot = obs_term(case, obs)
    ys = '[' + ';'.join(cf(v) for v in case['yv']) + ']'
    xs = '[' + ';'.join(cx(v) for v in case['xv']) + ']'
    tail = f'{xs} {ys} {cf(case["atolv"])} {cz(case["min_n"])} {qs} {ot}'
    if coord == 'float32':
        return '32', f'Case32 {b32} {tail}'
    if coord == 'float':
        return ('32', f'CaseFv32 {tail}') if v32 else ('64', f'CaseF {tail}')
    return ('32', f'CaseZv32 {tail}') if v32 else ('64', f'CaseZ {tail}')


def describe(case, obs=None, full=False):
    d = {k: case[k] for k in case if k not in ('xv', 'yv', 'fv', 'bins', 'payload', 'A', 'hist', 'att')}
    if case.get('att'):
        d['attachments'] = case['att'] if full else {k: v[:6] for k, v in case['att'].items() if v is not None}
    if case.get('hist'):
        d['history_step'] = {k: v for k, v in case['hist'].items() if k != 'payload'}
    if case['kind'] == 'phase':
        d['f'] = case['fv'] if full else case['fv'][:8]
        d['n'] = len(case['fv'])
    elif case['kind'] == 'collapse':
        d['bins'] = case['bins'] if full else [b[:4] for b in case['bins'][:4]]
    elif case['kind'] == 'plateau':
        d['n'] = len(case['xv'])
        d['x'] = case['xv'] if full else case['xv'][:6]
        d['y'] = case['yv'] if full else case['yv'][:6]
    if obs is not None:
        if 'error' in obs:
            d['impl'] = 'raises ' + obs['error']
        elif case['kind'] == 'phase':
            d['impl_kept_indices'] = [k[0] for k in obs['kept']][:40]
        elif case['kind'] == 'collapse':
            d['impl_collapsed'] = obs.get('collapsed') if full else (obs.get('collapsed') or [])[:4]
        elif case['kind'] == 'plateau':
            d['impl_bin_sizes'] = [len(b) for b in obs['bins']][:40]
            if full:
                d['impl_collapsed'] = obs.get('collapsed')
    return d


def annotate(c):
    if c['kind'] == 'plateau':
        sl = slopes_of(c)
        ex = exact_flags(c)
        c['qsame'] = ex is not None and ex == [abs(s) > c['atolv'] for s in sl]
        c['n_at_tol'] = sum(1 for s in sl if abs(s) == c['atolv'])
        c['n_within_1ulp'] = sum(1 for s in sl if math.isfinite(s) and
                                 abs(s) in (math.nextafter(c['atolv'], math.inf), math.nextafter(c['atolv'], 0.0)))
    elif c['kind'] == 'phase':
        c['qsame'] = all(phase_float(f, c['refv'], c['rtolv']) == phase_exact(f, c['refv'], c['rtolv'])
                         for f in c['fv'])
    return c


def kind_of(c):
    k = c['kind'] + ('-' + c['coord'] if c['kind'] in ('plateau', 'collapse') else '')
    if c.get('ydtype') == 'float32' or c.get('fdtype') == 'float32':
        k += '-float32data'
    if c.get('hist'):
        k = 'history-' + k
    return k


def gen_cases(rng, tier):
    n_pl = 600 if tier == 'quick' else 12000
    n_ph = 220 if tier == 'quick' else 5000
    n_hi = 70 if tier == 'quick' else 1500
    cases = [gen_plateau(rng, tier) for _ in range(n_pl)] + [gen_phase(rng) for _ in range(n_ph)]
    # a few fixed series: the shapes of the upstream tests and the documented corner cases
    fixed = [
        {'kind': 'plateau', 'coord': 'int', 'ydtype': 'float64', 'xv': list(range(12)), 'yv': [4.2] * 12,
         'atolv': 1e-7, 'min_n': 3, 'nice': True, 'atol_how': 'fixed'},
        {'kind': 'plateau', 'coord': 'float', 'ydtype': 'float64', 'xv': [0.0, 1.0], 'yv': [1.0, 2.0],
         'atolv': 1.0, 'min_n': 1, 'nice': True, 'atol_how': 'at-a-slope'},
        {'kind': 'plateau', 'coord': 'float', 'ydtype': 'float64', 'xv': [0.0, 1.0], 'yv': [1.0, 2.0],
         'atolv': math.nextafter(1.0, 0), 'min_n': 2, 'nice': True, 'atol_how': 'one-ulp-below-a-slope'},
        {'kind': 'plateau', 'coord': 'int', 'ydtype': 'int64', 'xv': [0, 1, 2, 3, 4, 5], 'yv': [3.0, 6, 1, 2, 3, 2],
         'atolv': 0.1, 'min_n': 2, 'nice': True, 'atol_how': 'fixed'},
        {'kind': 'plateau', 'coord': 'float32', 'ydtype': 'float32', 'xv': [r32(0.1), 1.5, 2.5, 16777216.0],
         'yv': [1.0, 1.0, r32(1.1), 7.0], 'atolv': 0.5, 'min_n': 1, 'nice': True, 'atol_how': 'fixed'},
        {'kind': 'phase', 'fv': [14., 28., 7., 14.000001, 0., -0.0, -14., 21., 4.6666666667, 13.9999999, 1e12, 1e-12],
         'refv': 14.0, 'rtolv': 1e-6},
    ]
    cases = fixed + cases + [gen_history(rng) for _ in range(n_hi)]
    for c in cases:
        annotate(c)
    return cases


def run_cases(ctx, cases):
    """run the harness; returns (flat list of (case, observation) with the calls of every history flattened, raw result)"""
    res = ctx.run_impl(HARNESS, {'cases': [payload_of(c) for c in cases]})
    flat = []
    for i, (c, o) in enumerate(zip(cases, res['cases'])):
        if c['kind'] != 'history':
            flat.append((c, o))
            continue
        for fc, fo in flatten_history(c['payload'], o, i):
            fc['hist']['payload'] = c['payload']
            flat.append((annotate(fc), fo))
    return flat, res


def replay_obj(c, o):
    if c.get('hist'):
        h = c['hist']
        return {'case': describe(c, o, True), 'payload': h['payload'], 'step': h['step'],
                'history_steps_before': h['payload']['steps'][:h['step'] + 1]}
    return {'case': describe(c, o, True), 'payload': payload_of(c)}


def hist_note(c):
    if not c.get('hist'):
        return ''
    h = c['hist']
    ops = [f"{s['op']}{'/' + s['how'] if 'how' in s else ''}(obj{s['obj']})" for s in h['payload']['steps'][:h['step'] + 1]]
    return f' [call history on long-lived objects: {" -> ".join(ops)}]'


def correspondence(ctx):
    rng = random.Random(ctx.seed)
    cases = gen_cases(rng, ctx.tier)
    flat, res = run_cases(ctx, cases)
    groups = {'64': ([], []), '32': ([], [])}
    for i, (c, o) in enumerate(flat):
        kind = kind_of(c)
        if o.get('fresh_same') is False:
            ctx.violation(f'{kind}:differs-from-fresh-copy',
                          f'{kind}: the call on a long-lived object answers differently from the same call on a fresh deep copy '
                          f'of its current content{hist_note(c)}: {describe(c, o)}; on the copy: {str(o.get("fresh"))[:300]}',
                          replay_obj(c, o))
        if o.get('input_unchanged') is False:
            ctx.violation(f'{kind}:input-modified', f'{kind}: the call modified its argument{hist_note(c)}: {describe(c, o)}',
                          replay_obj(c, o))
        if c['kind'] in ('plateau', 'collapse') and 'error' not in o:
            if isinstance(o['collapsed'], dict):
                ctx.violation(f'{kind}:collapse-raises', f'collapse_plateaus raises {o["collapsed"]["error"]} on the '
                              f'result of find_plateaus{hist_note(c)}: {describe(c, o)}', replay_obj(c, o))
                continue
            if c['kind'] == 'plateau' and 'bin_meta' in o and \
                    [o['bin_meta'][k] for k in ('coords', 'masks')] != [expected_meta(c)[k] for k in ('coords', 'masks')]:
                # names only; the content of variances / mask / further coordinate is compared in Coq (ObsAtt)
                ctx.violation(f'{kind}:bin-content-layout',
                              f'{kind}: the bins do not hold their input points unchanged: bin content has coordinates / masks / '
                              f'variances {o["bin_meta"]}, the input series {expected_meta(c)}: {describe(c, o)}', replay_obj(c, o))
            if c['kind'] == 'plateau' and o['plateau_coord'] != list(range(len(o['bins']))):
                ctx.violation(f'{kind}:plateau-coord', f'plateau coordinate is not 0..k-1: {o["plateau_coord"][:10]}',
                              replay_obj(c, o))
        if c['kind'] == 'phase' and 'error' in o:
            ctx.violation(f'{kind}:raises', f'filter_in_phase raises {o["error"]}{hist_note(c)}: {describe(c, o)}',
                          replay_obj(c, o))
            continue
        g, t = case_term(c, o)
        groups[g][0].append(t)
        groups[g][1].append(i)
    head = ('From Coq Require Import List ZArith QArith String PrimFloat.\n'
            'From Verif.Sem Require Import Corr.\nFrom Verif.C19 Require Import Carrier Model.\n')
    header = {'64': head + 'From Run Require Import Corr.\nImport ListNotations.\nOpen Scope float_scope.\n',
              '32': head + 'From Verif.C19 Require Import Carrier32.\nFrom Run Require Import Corr Corr32.\n'
                           'Import ListNotations.\nOpen Scope float_scope.\n'}
    fn = {'64': 'check', '32': 'check32'}
    n_fail = 0
    import threading
    out = {}

    def evaluate(g):
        out[g] = ctx.coq_eval_shards(header[g], groups[g][0],
                                     lambda k, g=g: f'Eval vm_compute in (report (map {fn[g]} cases)).\n',
                                     shard=25 if ctx.tier == 'quick' else 60, prefix='cases' + g)
    th = [threading.Thread(target=evaluate, args=(g,)) for g in ('64', '32') if groups[g][0]]
    for t in th:
        t.start()
    for t in th:
        t.join()
    for g in ('64', '32'):
        if g not in out:
            continue
        fails, errors = out[g]
        idx = groups[g][1]
        for name, e in errors:
            ctx.violation('corr-shard-error', f'correspondence shard {name} did not evaluate: {e[:300]}',
                          {'shard': name, 'error': e}, found_input=False)
        n_fail += len(fails)
        for j, why in sorted(fails.items()):
            c, o = flat[idx[j]]
            kind = kind_of(c)
            pv = property_violations(c, o)
            ro = replay_obj(c, o)
            ro.update({'reason': why, 'property_check': pv})
            ctx.violation(f'{kind}:{why}',
                          f'{kind}: implementation differs from the model ({why}){hist_note(c)}; property check: '
                          f'{pv or "no difference seen by the python spec"}; {describe(c, o)}', ro)
    # coverage
    pl = [(c, o) for c, o in flat if c['kind'] == 'plateau']
    ph = [(c, o) for c, o in flat if c['kind'] == 'phase']
    co = [(c, o) for c, o in flat if c['kind'] == 'collapse']
    hists = [c for c in cases if c['kind'] == 'history']
    hsteps = [s for h in hists for s in h['payload']['steps']]
    returned = [(c, o) for c, o in pl if 'error' not in o]
    nontrivial = {repr((payload_of(c) if not c.get('hist') else (c['hist']['history'], c['hist']['step'])))
                  for c, o in returned if len(o['bins']) >= 1}
    nontrivial |= {repr((payload_of(c) if not c.get('hist') else (c['hist']['history'], c['hist']['step'])))
                   for c, o in ph if 'kept' in o and 0 < len(o['kept']) < len(c['fv'])}
    nontrivial |= {repr((c['hist']['history'], c['hist']['step'])) for c, o in co if len(c['bins']) >= 1}
    sizes = sorted(len(c['xv']) for c, _ in pl)

    def count(seq, key):
        d = {}
        for v in seq:
            d[key(v)] = d.get(key(v), 0) + 1
        return dict(sorted(d.items()))
    ctx.coverage.update({
        'evaluations': len(groups['64'][0]) + len(groups['32'][0]),
        'distinct_nontrivial': len(nontrivial),
        'rule': 'random.Random(seed): plateau series of 2..500 points (mostly 5..60), non-uniform ascending float64 / float32 / int64 / '
                'datetime64[ns] coordinates (a third of the small int64 ones as int32; 85% independent random steps, 12% a regular grid with jittered interior points, 3% exactly regular; 5% of float series with repeated coordinates), data float64 / float32 (60% of the '
                'float32-coordinate series, ~13% of the others) / int64 / int32, piecewise-constant levels + noise, '
                'steps at (1 +- 1e-6) x tolerance, ramps (drift guard), 30% on dyadic grids (exact ties); 30% of the stand-alone series '
                'carry attachments (a non-empty subset of: variances of the data (float dtypes; in the dtype of the data; 10% from '
                '{0, 0.25, 1}), a mask (10% nothing masked, 10% everything, else 10/30/70% of the points), a further int64 '
                'coordinate): bins must hold them unchanged, collapse = mean of the unmasked points with variance sum(var)/n^2; the tolerance is the '
                'nominal one (30%) or |an actual slope| (42%: a slope EXACTLY at atol) or one ulp above/below it (28%); '
                'min_n_points 1..n; in-phase lists of 1..60 frequencies (float64 / float32 / int64): n*ref*(1+delta), ref/(n+delta) with '
                'delta in {0, +-0.5, +-0.99, +-1, +-1.01, +-2} x rtol, n in -3..25 incl. 0, +-0, ties of the rounding, '
                'huge/tiny, random; 25% in exact dyadic arithmetic.  Call histories: 1..3 long-lived objects (series of 3..28 '
                'points, 20% frequency arrays), 4..9 steps + closing calls: find_plateaus / filter_in_phase on the SAME object '
                '(55% the object of the previous step, else any: interleaving), in-place updates between the calls '
                '(da.values[a:b]=, da.data.values[a:b]=, da.data=, da.coords[t]=, da.coords[t].values[a:]=), in-place updates of the '
                'returned plateau array (bins.data*=2, bins.coords[t]+=c, single event value / coordinate, also out of order) '
                'followed by collapse_plateaus on the same array; every call is one evaluation on the content read back just '
                'before the call and is repeated afterwards on a deep copy taken at that moment.  '
                'non-trivial = find_plateaus returned >= 1 plateau, or filter_in_phase kept some but not all elements, or '
                'collapse of >= 1 plateau; distinct = distinct inputs / history steps',
        'plateau_cases': len(pl), 'phase_cases': len(ph), 'collapse_only_cases': len(co),
        'plateau_returned': len(returned), 'plateau_raised_RuntimeError': sum(1 for _, o in pl if o.get('error') == 'RuntimeError'),
        'plateau_other_errors': sorted({o['error'] for _, o in pl if 'error' in o and o['error'] != 'RuntimeError'}),
        'coord_kinds': {k: sum(1 for c, _ in pl if c['coord'] == k) for k in ('float', 'float32', 'int', 'datetime')},
        'data_dtypes': count(pl, lambda co_: co_[0]['ydtype']),
        'coordinate_layouts': count([c for c in cases if c['kind'] == 'plateau'], lambda c: c.get('layout', 'fixed')),
        'float32_coordinate_plateaus_collapsed': sum(len(o['bins']) for c, o in returned if c['coord'] == 'float32')
                                                 + sum(len(c['bins']) for c, _ in co if c['coord'] == 'float32'),
        'phase_dtypes': count(ph, lambda co_: co_[0].get('fdtype', 'float64')),
        'int64_data': sum(1 for c, _ in pl if c['ydtype'] in INTS),
        'int32_coordinates': sum(1 for c, o in pl if c.get('xdtype') == 'int32' or o.get('xdtype_now') == 'int32'),
        'series_length': {'min': sizes[0], 'median': sizes[len(sizes) // 2], 'max': sizes[-1]},
        'cases_with_a_slope_exactly_at_atol': sum(1 for c, _ in pl if c['n_at_tol'] > 0),
        'slopes_exactly_at_atol': sum(c['n_at_tol'] for c, _ in pl),
        'slopes_one_ulp_from_atol': sum(c['n_within_1ulp'] for c, _ in pl),
        'cases_where_exact_rationals_decide_differently': sum(1 for c, _ in pl if not c['qsame']),
        'plateaus_total': sum(len(o['bins']) for _, o in returned),
        'min_n_points': {'1': sum(1 for c, _ in pl if c['min_n'] == 1), 'n': sum(1 for c, _ in pl if c['min_n'] == len(c['xv'])),
                         'other': sum(1 for c, _ in pl if 1 < c['min_n'] < len(c['xv']))},
        'phase_elements': sum(len(c['fv']) for c, _ in ph),
        'phase_kept': sum(len(o.get('kept', [])) for _, o in ph),
        'phase_cases_float_vs_exact_differ': sum(1 for c, _ in ph if not c['qsame']),
        'histories': len(hists),
        'history_steps': count(hsteps, lambda s: s['op'] + ('/' + s['how'] if 'how' in s else '')),
        'history_calls_evaluated': sum(1 for c, _ in flat if c.get('hist')),
        'history_calls_on_an_object_updated_since_its_previous_call': sum(
            1 for h in hists for i, s in enumerate(h['payload']['steps'])
            if s['op'] in ('find', 'phase', 'collapse') and any(
                t['obj'] == s['obj'] and t['op'] in ('set', 'pset') for t in h['payload']['steps'][:i])),
        'history_calls_compared_with_fresh_copy': sum(1 for c, o in flat if c.get('hist') and 'fresh_same' in o),
        'series_with_attachments': {
            'total': sum(1 for c, _ in pl if c.get('att')),
            'variances': sum(1 for c, _ in pl if c.get('att') and c['att']['var'] is not None),
            'variances_float32': sum(1 for c, _ in pl if c.get('att') and c['att']['var'] is not None and c['ydtype'] == 'float32'),
            'mask': sum(1 for c, _ in pl if c.get('att') and c['att']['mask'] is not None),
            'further_coordinate': sum(1 for c, _ in pl if c.get('att') and c['att']['extra'] is not None),
            'returned_with_plateaus': sum(1 for c, o in returned if c.get('att') and len(o['bins']) >= 1),
            'plateaus_with_a_masked_point': sum(1 for c, o in returned if c.get('att') for b in o.get('att_bins') or []
                                                if any(a[1] for a in b)),
            'plateaus_fully_masked': sum(1 for c, o in returned if c.get('att') for b in o.get('att_bins') or []
                                         if b and all(a[1] for a in b)),
            'collapsed_means_with_variance': sum(len(o['collapsed_var']) for c, o in returned
                                                 if c.get('att') and o.get('collapsed_var') is not None),
        },
        'coq_groups': {g: len(groups[g][0]) for g in groups},
        'disagreements': n_fail,
        'samples': [describe(c, o) for c, o in (pl[:1] + pl[6:8] + ph[:1] + ph[-1:] + co[:1]
                                                 + [x for x in pl if x[0]['coord'] == 'float32'][:1])],
        'scipp_version': res.get('scipp'),
    })


def search(ctx, broken):
    """an obligation broke: evaluate the PROPERTY STATEMENT (python run-length / interval / nearest-integer
    spec above, no Coq model involved) on the implementation over a fresh set of series and call histories;
    every call of a history is judged on the content its argument has at that moment"""
    found = []
    for attempt in range(2):
        rng = random.Random(ctx.seed + 1 + 7919 * attempt)
        cases = gen_cases(rng, 'quick')
        if any('find_plateaus' in b or 'collapse_plateaus' in b or '_derive' in b or '_check_total' in b or '_next_highest' in b
               for b in broken or []) or attempt == 1:
            # a changed statement of the plateau functions that no series executed: series of every coordinate kind that
            # all carry attachments (variances / masks / further coordinates switch on further paths of scipp and the code)
            cases += [annotate(gen_plateau(rng, 'quick', att=True)) for _ in range(300)]
        flat, _ = run_cases(ctx, cases)
        for c, o in flat:
            pv = property_violations(c, o)
            if pv:
                kind = kind_of(c)
                ro = replay_obj(c, o)
                ro['property_check'] = pv
                ctx.violation(f'{kind}:property', f'{kind}: {pv[0]}{hist_note(c)}; {describe(c, o)}', ro)
                found.append(pv)
        if found:
            break
    return found


def replay(ctx, obj):
    import json
    rp = obj['replay']
    payload = rp.get('payload')
    if not payload:
        print(json.dumps(obj, indent=1))
        return 0
    res = ctx.run_impl(HARNESS, {'cases': [payload]})
    o = res['cases'][0]
    if payload['kind'] == 'history':
        rc = 0
        print('objects:', json.dumps(payload['objects'])[:2000])
        fl = {c['hist']['step']: (c, ob) for c, ob in flatten_history(payload, o, 0)}
        for si, st in enumerate(payload['steps']):
            print(f'step {si}:', json.dumps(st)[:400])
            if si in fl:
                c, ob = fl[si]
                annotate(c)
                print('   content at the call:', describe(c, ob, True))
                pv = property_violations(c, ob)
                print('   property check:', pv or 'ok')
                rc = rc or (1 if pv else 0)
        return rc
    if payload['kind'] == 'phase':
        c = {'kind': 'phase', 'fv': [float.fromhex(v) for v in payload['f']], 'refv': float.fromhex(payload['ref']),
             'rtolv': float.fromhex(payload['rtol']), 'fdtype': payload.get('fdtype', 'float64')}
        print('reference', c['refv'], 'rtol', c['rtolv'], 'dtype', c['fdtype'])
        print('frequencies', c['fv'])
        print('observed kept indices :', [k[0] for k in o.get('kept', [])] if 'kept' in o else o)
        print('required kept indices :', [i for i, f in enumerate(c['fv']) if phase_float(f, c['refv'], c['rtolv'])])
    else:
        c = {'kind': 'plateau', 'coord': payload['coord'], 'ydtype': payload['ydtype'],
             'xv': [unhx(payload['coord'], v) for v in payload['x']],
             'yv': [float.fromhex(v) for v in payload['y']], 'atolv': float.fromhex(payload['atol']),
             'min_n': payload['min_n']}
        if any(k in payload for k in ('var', 'mask', 'extra')):
            c['att'] = {'var': [float.fromhex(v) for v in payload['var']] if 'var' in payload else None,
                        'mask': payload.get('mask'), 'extra': payload.get('extra')}
            print('attachments (variances / mask / further coordinate):', c['att'])
        print('x =', c['xv'])
        print('y =', c['yv'])
        print('atol =', repr(c['atolv']), 'min_n_points =', c['min_n'], 'coord dtype =', c['coord'], 'data dtype =', c['ydtype'])
        print('slopes =', slopes_of(c))
        print('required plateaus (first,last):', spec_runs(c))
        if 'error' in o:
            print('observed: raises', o['error'], o.get('msg'))
        else:
            print('observed bins (sizes)        :', [len(b) for b in o['bins']])
            print('observed bins (x of points)  :', [[unhx(c['coord'], p[0]) for p in b] for b in o['bins']][:20])
            print('observed collapsed (mean, low, high):', o.get('collapsed'))
            if c.get('att') or 'att_bins' in o:
                print('observed bin content layout  :', o.get('bin_meta'))
                print('observed [variance, mask, further coordinate] per point of the bins:', str(o.get('att_bins'))[:600])
                print('observed variances of the means:', o.get('collapsed_var'))
    pv = property_violations(c, o)
    print('property check:', pv or 'no violation on this input')
    return 1 if pv else 0


LEVEL_TEXT = ('Proof (Coq, axiom-free): for every series (any length >= 1, any arithmetic carrier, hence also binary64) the '
              'group-id construction of find_plateaus returns exactly the maximal runs of consecutive points whose successive '
              'slopes are within the tolerance with at least min_n points - disjoint, ordered, complete, each bin the unchanged '
              'slice of the input - and returns iff the drift guard is silent; collapse gives the mean and [min, next(max)) '
              'containing every point (next = +1 for int64/datetime64, nextafter in binary64, the binary32 successor for float32 '
              'coordinates); filter_in_phase keeps f iff |f/ref-n|<rtol or |ref/f-n|<rtol for an integer n (exact '
              'rationals). The hand model is tied to the code by a bit-exact binary64 (PrimFloat) / binary32 (Flocq) correspondence '
              'executed in Coq on every run (~1200 evaluations quick) including slopes exactly at / one ulp from the tolerance, '
              'float32 / int32 dtypes, and call histories on long-lived objects updated in place (each call judged on the current '
              'content and against a fresh deep copy).')
LEVEL_NOTE = ('Tie is correspondence (B), not translation: the model of cumsum/group/bins is hand-written and validated against '
              'the real scipp on generated series each run. Drift-guard decision and means are compared against exact rationals '
              '(band 1e-9 / 1e-12) because scipp sums in a different order. in_phase_iff is over Q; the float decision is '
              'compared case by case. The binary64 interval theorem depends on FloatAxioms (primitive-float specs) and the real-number axioms; '
              'the binary32 one on the real-number axioms only (Flocq Bsucc_correct / Bleb_correct at precision 24). float32 data: guard '
              'band 5e-5, mean tolerance (n+2)*2^-24. Independence of the call history is checked on generated histories, not proved.')
TECHNIQUE = 'Coq proofs over an abstract carrier (lists, induction) + vm_compute correspondence with PrimFloat (binary64), Flocq binary32 and exact rationals; generated call histories'
