"""C19 — plateau finding and in-phase filtering return exactly the defined selections.

Tie B (hand model + correspondence): coq/C19/Model.v is an executable Gallina model of
src/scippneutron/chopper/filtering.py over an abstract arithmetic carrier; coq/C19/Spec.v states the
property without reference to the code; coq/C19/Proofs*.v prove model = spec for ALL series; this file
generates series, runs the real implementation (tools/harness/c19_impl.py) and lets Coq compare the
observations with the model run on the same binary64 inputs (coq-run/C19/Corr.v).
"""
import math
import random
from fractions import Fraction

ID = 'C19'
LEVEL = 'proof'
TRANSLATE = None
RUN_FILES = ['Properties.v', 'Corr.v']
COQ_TIMEOUT = 600
TRUSTED = [
    'coq/C19/Model.v: hand-written model of find_plateaus/_derive/_check_total_tolerance/collapse_plateaus/'
    '_next_highest/_is_approximate_multiple/filter_in_phase (validated against the real functions on every run)',
    'modelled scipp primitives: cumsum, concat, group (one bin per distinct label, ascending, stable), bins.size, '
    'boolean-mask indexing, bins.mean/min/max, sc.round (ties to even), sc.reciprocal, element-wise IEEE binary64 '
    '+ - / abs > <, int64 difference converted to double for the division',
    'Coq primitive floats (PrimFloat: IEEE-754 binary64 add/sub/mul/div/compare/next_up, hexadecimal literals, Prim2SF)',
    'tools/harness/c19_impl.py + props/C19.py (generation, exact serialisation of binary64 as hex literals)',
]
ASSUMPTIONS = [
    'atol is given in the unit of the derivative (no unit conversion of the tolerance); data without variances',
    'coordinates are finite and sorted ascending (find_plateaus refuses anything else); integer / datetime64 '
    'coordinate differences are below 2^53 so their conversion to double is exact',
    'the drift guard and the bin means use scipp\'s (not left-to-right) summation: the guard decision is compared '
    'with exact rationals outside a relative band of 1e-9 around the bound, means to 1e-12 of the mean magnitude',
    'in_phase_iff is proved over exact rationals; the binary64 decision is compared bit-exactly by the correspondence',
    'collapse interval theorem: proved for any coordinate order that is total on the occurring coordinates with '
    'next(x) above x; instantiated for int64/datetime64 (next = +1), exact rationals, and finite binary64 '
    '(next = nextafter(+inf), via Flocq: uses the FloatAxioms specifications of the primitive float operations)',
    'in-phase: n = 0 is an admissible integer on both sides, as in the design statement: |f| < rtol*|ref| is kept '
    '(f ~ 0*ref) and |f| > |ref|/rtol is kept (ref ~ 0*f); f = 0 is kept through the multiple side only',
]

HARNESS = 'c19_impl.py'


# --------------------------------------------------------------------------- helpers
def cf(x):
    """Coq binary64 literal (hexadecimal, exact)"""
    h = float(x).hex()
    return f'({h})' if h.startswith('-') else h


def cz(n):
    return f'({int(n)})%Z'


def loguniform(rng, lo, hi):
    return math.exp(rng.uniform(math.log(lo), math.log(hi)))


def slopes_of(case):
    """the slopes exactly as the implementation computes them (IEEE double)"""
    xs, ys = case['xv'], case['yv']
    out = []
    for i in range(len(xs) - 1):
        dx = float(xs[i + 1] - xs[i])          # int kinds: exact integer difference, then to double
        dy = ys[i + 1] - ys[i]
        if dx == 0.0:
            out.append(math.nan if dy == 0 else math.copysign(math.inf, dy))
        else:
            out.append(dy / dx)
    return out


def exact_flags(case):
    xs, ys, atol = case['xv'], case['yv'], Fraction(case['atolv'])
    out = []
    for i in range(len(xs) - 1):
        dx = Fraction(xs[i + 1]) - Fraction(xs[i])
        if dx == 0:
            return None
        out.append(abs((Fraction(ys[i + 1]) - Fraction(ys[i])) / dx) > atol)
    return out


# --------------------------------------------------------------------------- plateau generator
def gen_plateau(rng, tier):
    r = rng.random()
    if r < 0.10:
        n = rng.randint(2, 4)
    elif r < (0.90 if tier == 'quick' else 0.75):
        n = rng.randint(5, 60)
    else:
        n = rng.randint(61, 500)
    coord = rng.choice(['float'] * 6 + ['int'] * 2 + ['datetime'] * 2)
    nice = rng.random() < 0.3
    ydtype = 'float64'
    # coordinates (non-uniform, ascending)
    if coord == 'float':
        if nice:
            x = [rng.randint(-64, 64) / 8.0]
            for _ in range(n - 1):
                x.append(x[-1] + rng.randint(1, 16) / 8.0)
        else:
            x = [rng.uniform(-50, 50)]
            for _ in range(n - 1):
                x.append(x[-1] + loguniform(rng, 0.05, 3.0))
        if rng.random() < 0.05 and n > 3:        # ascending, not strictly
            for _ in range(rng.randint(1, 2)):
                k = rng.randrange(1, n)
                x[k] = x[k - 1]
        A = rng.choice([0.25, 0.5, 1.0, 2.0, 3.0]) if nice else loguniform(rng, 1e-2, 10)
    elif coord == 'int':
        x = [rng.choice([rng.randint(-1000, 1000), 2 ** 40 + rng.randint(0, 10 ** 6)])]
        for _ in range(n - 1):
            x.append(x[-1] + rng.randint(1, 9))
        A = rng.choice([0.25, 0.5, 1.0, 2.0]) if nice else loguniform(rng, 1e-2, 10)
        if nice and rng.random() < 0.4:
            ydtype = 'int64'
            A = float(rng.choice([1, 2, 3]))
    else:
        x = [1_700_000_000_000_000_000 + rng.randint(0, 10 ** 15)]
        for _ in range(n - 1):
            x.append(x[-1] + (rng.randint(1, 16) * 2 ** 27 if nice else rng.randint(1, 4_000_000_000)))
        A = rng.choice([0.25, 0.5, 1.0, 2.0]) * 2.0 ** -30 if nice else loguniform(rng, 1e-2, 10) * 1e-9
    dxs = [float(x[i + 1] - x[i]) for i in range(n - 1)]
    pos = sorted(d for d in dxs if d > 0) or [1.0]
    med = pos[len(pos) // 2]
    a = A * med * rng.uniform(0.05, 0.45)
    ramp_series = rng.random() < 0.12
    y = []
    level = rng.uniform(-20, 20)
    if nice:
        level = round(level * 16) / 16
    if ydtype == 'int64':
        level = float(round(level))
    seg_left = 0
    ramp = False
    for i in range(n):
        if seg_left == 0:
            seg_left = rng.choice([rng.randint(1, 12), rng.randint(1, 12), rng.randint(10, 40)])
            ramp = ramp_series and rng.random() < 0.5 and seg_left >= 4
            if i > 0:
                dx = dxs[i - 1] or med
                jump = A * dx * (rng.uniform(0.9, 1.3) if rng.random() < 0.1 else rng.uniform(3, 50))
                level = y[-1] + rng.choice([-1, 1]) * jump
                if nice:
                    level = round(level * 64) / 64
                if ydtype == 'int64':
                    level = float(round(level))
            y.append(level)
            seg_left -= 1
            continue
        dx = dxs[i - 1] or med
        c = rng.random()
        if ramp:
            v = y[-1] + 0.8 * A * dx
        elif c < 0.12:
            v = y[-1] + rng.choice([-1, 1]) * A * dx * (1 + rng.uniform(-1e-6, 1e-6))
        elif c < 0.22:
            v = y[-1] + rng.choice([-1, 1]) * A * dx
        else:
            v = level + rng.uniform(-a, a)
            if nice:
                v = level + round((v - level) * 256) / 256
        if ydtype == 'int64':
            v = float(round(v))
        y.append(v)
        seg_left -= 1
    case = {'kind': 'plateau', 'coord': coord, 'ydtype': ydtype, 'xv': x, 'yv': y, 'nice': nice}
    sl = slopes_of(case)
    cands = [abs(s) for s in sl if 0.5 * A <= abs(s) <= 1.5 * A and math.isfinite(s)]
    m = rng.random()
    atol, how = A, 'nominal'
    if cands and m >= 0.30:
        s = rng.choice(cands)
        if m < 0.72:
            atol, how = s, 'at-a-slope'
        elif m < 0.86:
            atol, how = math.nextafter(s, math.inf), 'one-ulp-above-a-slope'
        else:
            atol, how = math.nextafter(s, 0.0), 'one-ulp-below-a-slope'
    case['atolv'] = atol
    case['atol_how'] = how
    q = rng.random()
    if q < 0.15:
        mn = 1
    elif q < 0.30:
        mn = 2
    elif q < 0.80:
        mn = rng.randint(1, min(n, 8))
    elif q < 0.95:
        mn = rng.randint(1, n)
    else:
        mn = n
    case['min_n'] = mn
    return case


def payload_of(case):
    if case['kind'] == 'phase':
        return {'kind': 'phase', 'f': [float(v).hex() for v in case['fv']], 'ref': float(case['refv']).hex(),
                'rtol': float(case['rtolv']).hex()}
    return {'kind': 'plateau', 'coord': case['coord'], 'ydtype': case['ydtype'],
            'x': [float(v).hex() for v in case['xv']] if case['coord'] == 'float' else [int(v) for v in case['xv']],
            'y': [float(v).hex() for v in case['yv']], 'atol': float(case['atolv']).hex(), 'min_n': case['min_n']}


# --------------------------------------------------------------------------- in-phase generator
def rint_q(q):
    f = math.floor(q)
    d = q - f
    if d < Fraction(1, 2):
        return f
    if d > Fraction(1, 2):
        return f + 1
    return f if f % 2 == 0 else f + 1


def phase_exact(f, ref, rtol):
    f, ref, rtol = Fraction(f), Fraction(ref), Fraction(rtol)
    q = f / ref
    a = abs(rint_q(q) - q) < rtol
    b = False
    if q != 0:
        q2 = 1 / q
        b = abs(rint_q(q2) - q2) < rtol
    return a or b


def phase_float(f, ref, rtol):
    """the implementation's own arithmetic (IEEE double; Python round() on floats is ties-to-even)"""
    def near(q):
        if math.isinf(q) or math.isnan(q):
            return False
        return abs(float(round(q)) - q) < rtol
    q = f / ref
    if q == 0:
        q2 = math.copysign(math.inf, q)
    else:
        try:
            q2 = 1.0 / q
        except OverflowError:
            q2 = math.inf
    return near(q) or near(q2)


def gen_phase(rng):
    mode = rng.random()
    if mode < 0.25:      # exact dyadic arithmetic: elements exactly at the relative tolerance
        ref = rng.choice([1.0, 2.0, -2.0, 0.5])
        rtol = rng.choice([2.0 ** -10, 2.0 ** -6, 2.0 ** -20])
    else:
        ref = rng.choice([14.0, -14.0, 0.1, 70.0 / 3.0, 16.666666666666668, rng.uniform(0.5, 100) * rng.choice([-1, 1])])
        rtol = rng.choice([1e-6, 1e-3, 1e-9, 0.05, 0.01, 0.5, 2.0 ** -10])
    n = rng.randint(1, 60)
    f = []
    for _ in range(n):
        k = rng.random()
        nn = rng.choice([1, 1, 2, 3, 4, 5, 6, 7, 10, 25, -1, -2, -3, 0])
        delta = rng.choice([0.0, 0.0, 0.5, -0.5, 0.99, -0.99, 1.0, -1.0, 1.01, -1.01, 2.0, -2.0]) * rtol
        if k < 0.35:
            f.append(ref * (nn + delta))
        elif k < 0.65:
            d = nn + delta
            f.append(ref / d if d != 0 else 0.0)
        elif k < 0.72:
            f.append(rng.choice([0.0, -0.0]))
        elif k < 0.80:
            f.append(ref * rng.choice([1e9, -1e9, 1e-9, -1e-9, 3.7e5, 2.9e-4]) * rng.uniform(0.5, 2))
        elif k < 0.85:
            f.append(ref * (abs(nn) + 0.5))       # ties of the rounding
        else:
            f.append(rng.uniform(-200, 200))
    return {'kind': 'phase', 'fv': f, 'refv': ref, 'rtolv': rtol}


# --------------------------------------------------------------------------- the property, evaluated in Python
def spec_runs(case):
    """maximal runs of consecutive points whose successive slopes stay within atol, >= min_n points:
    list of (first, last) indices — the property statement itself, independent of the Coq model"""
    sl = slopes_of(case)
    atol = case['atolv']
    runs, start = [], 0
    for i, s in enumerate(sl):
        if abs(s) > atol:
            runs.append((start, i))
            start = i + 1
    runs.append((start, len(case['xv']) - 1))
    return [r for r in runs if r[1] - r[0] + 1 >= case['min_n']]


def property_violations(case, obs):
    """compare one observation with the property text (used by search / replay)"""
    bad = []
    if case['kind'] == 'phase':
        if 'error' in obs:
            return [f'raises {obs["error"]}']
        want = [i for i, f in enumerate(case['fv']) if phase_float(f, case['refv'], case['rtolv'])]
        sure = [i for i, f in enumerate(case['fv'])
                if phase_float(f, case['refv'], case['rtolv']) == phase_exact(f, case['refv'], case['rtolv'])]
        got = [k[0] for k in obs['kept']]
        for i in sure:
            if (i in got) != (i in want):
                bad.append(f'element {i} (f={case["fv"][i]!r}, ref={case["refv"]!r}, rtol={case["rtolv"]!r}) '
                           f'{"kept" if i in got else "dropped"} but is {"" if i in want else "not "}within rtol of an '
                           'integer multiple/divisor')
                break
        for i, v in obs['kept']:
            if float.fromhex(v) != case['fv'][i] or math.copysign(1, float.fromhex(v)) != math.copysign(1, case['fv'][i]):
                bad.append(f'kept element {i} changed')
                break
        if got != sorted(got):
            bad.append('kept elements out of order')
        return bad
    if 'error' in obs:
        if obs['error'] != 'RuntimeError':
            bad.append(f'raises {obs["error"]}: {obs.get("msg")}')
        return bad            # "whenever plateau finding returns"
    want = spec_runs(case)
    xs, ys = case['xv'], case['yv']

    def pt(i):
        return [float(xs[i]).hex() if case['coord'] == 'float' else int(xs[i]), float(ys[i]).hex()]
    exp = [[pt(i) for i in range(a, b + 1)] for a, b in want]
    if obs['bins'] != exp:
        got_sizes = [len(b) for b in obs['bins']]
        bad.append(f'bins are not the maximal within-tolerance runs: expected runs {want[:12]} '
                   f'(sizes {[b - a + 1 for a, b in want][:12]}), got sizes {got_sizes[:12]}')
        return bad
    col = obs.get('collapsed')
    if isinstance(col, dict):
        bad.append(f'collapse_plateaus raises {col["error"]}')
        return bad
    if len(col) != len(want):
        bad.append('collapse: wrong number of plateaus')
        return bad
    for (a, b), (m, lo, hi) in zip(want, col):
        seg_x = xs[a:b + 1]
        lo_v = float.fromhex(lo) if case['coord'] == 'float' else lo
        hi_v = float.fromhex(hi) if case['coord'] == 'float' else hi
        if not all(lo_v <= v < hi_v for v in seg_x):
            bad.append(f'collapse: interval [{lo_v!r}, {hi_v!r}) does not contain all points {seg_x[:6]} of plateau ({a},{b})')
            break
        em = sum(Fraction(v) for v in ys[a:b + 1]) / (b - a + 1)
        mag = sum(abs(Fraction(v)) for v in ys[a:b + 1]) / (b - a + 1)
        if abs(Fraction(float.fromhex(m)) - em) > Fraction(1, 10 ** 12) * mag:
            bad.append(f'collapse: mean {float.fromhex(m)!r} of plateau ({a},{b}) differs from {float(em)!r}')
            break
    return bad


# --------------------------------------------------------------------------- Coq terms
def obs_term(case, obs):
    cx = cf if case['coord'] == 'float' else cz

    def cxo(v):
        return cf(float.fromhex(v)) if case['coord'] == 'float' else cz(v)
    if 'error' in obs:
        return f'(ObsErr "{obs["error"]}")'
    bins = '[' + ';'.join('[' + ';'.join(f'({cxo(p[0])},{cf(float.fromhex(p[1]))})' for p in b) + ']'
                          for b in obs['bins']) + ']'
    col = obs['collapsed']
    if isinstance(col, dict):
        return None
    coll = '[' + ';'.join(f'({cf(float.fromhex(m))},{cxo(lo)},{cxo(hi)})' for m, lo, hi in col) + ']'
    return f'(ObsBins {bins} {coll})'


def case_term(case, obs):
    qs = 'true' if case['qsame'] else 'false'
    if case['kind'] == 'phase':
        kept = '[' + ';'.join(f'({cz(i)},{cf(float.fromhex(v))})' for i, v in obs['kept']) + ']'
        fs = '[' + ';'.join(cf(v) for v in case['fv']) + ']'
        return f'CaseP {fs} {cf(case["refv"])} {cf(case["rtolv"])} {qs} {kept}'
    ot = obs_term(case, obs)
    ys = '[' + ';'.join(cf(v) for v in case['yv']) + ']'
    if case['coord'] == 'float':
        xs = '[' + ';'.join(cf(v) for v in case['xv']) + ']'
        return f'CaseF {xs} {ys} {cf(case["atolv"])} {cz(case["min_n"])} {qs} {ot}'
    xs = '[' + ';'.join(cz(v) for v in case['xv']) + ']'
    return f'CaseZ {xs} {ys} {cf(case["atolv"])} {cz(case["min_n"])} {qs} {ot}'


def describe(case, obs=None, full=False):
    d = {k: case[k] for k in case if k not in ('xv', 'yv', 'fv')}
    if case['kind'] == 'phase':
        d['f'] = case['fv'] if full else case['fv'][:8]
        d['n'] = len(case['fv'])
    else:
        d['n'] = len(case['xv'])
        d['x'] = case['xv'] if full else case['xv'][:6]
        d['y'] = case['yv'] if full else case['yv'][:6]
    if obs is not None:
        if 'error' in obs:
            d['impl'] = 'raises ' + obs['error']
        elif case['kind'] == 'phase':
            d['impl_kept_indices'] = [k[0] for k in obs['kept']][:40]
        else:
            d['impl_bin_sizes'] = [len(b) for b in obs['bins']][:40]
            if full:
                d['impl_collapsed'] = obs.get('collapsed')
    return d


def gen_cases(rng, tier):
    n_pl = 800 if tier == 'quick' else 15000
    n_ph = 300 if tier == 'quick' else 6000
    cases = [gen_plateau(rng, tier) for _ in range(n_pl)] + [gen_phase(rng) for _ in range(n_ph)]
    # a few fixed series: the shapes of the upstream tests and the documented corner cases
    fixed = [
        {'kind': 'plateau', 'coord': 'int', 'ydtype': 'float64', 'xv': list(range(12)), 'yv': [4.2] * 12,
         'atolv': 1e-7, 'min_n': 3, 'nice': True, 'atol_how': 'fixed'},
        {'kind': 'plateau', 'coord': 'float', 'ydtype': 'float64', 'xv': [0.0, 1.0], 'yv': [1.0, 2.0],
         'atolv': 1.0, 'min_n': 1, 'nice': True, 'atol_how': 'at-a-slope'},
        {'kind': 'plateau', 'coord': 'float', 'ydtype': 'float64', 'xv': [0.0, 1.0], 'yv': [1.0, 2.0],
         'atolv': math.nextafter(1.0, 0), 'min_n': 2, 'nice': True, 'atol_how': 'one-ulp-below-a-slope'},
        {'kind': 'plateau', 'coord': 'int', 'ydtype': 'int64', 'xv': [0, 1, 2, 3, 4, 5], 'yv': [3.0, 6, 1, 2, 3, 2],
         'atolv': 0.1, 'min_n': 2, 'nice': True, 'atol_how': 'fixed'},
        {'kind': 'phase', 'fv': [14., 28., 7., 14.000001, 0., -0.0, -14., 21., 4.6666666667, 13.9999999, 1e12, 1e-12],
         'refv': 14.0, 'rtolv': 1e-6},
    ]
    cases = fixed + cases
    for c in cases:
        if c['kind'] == 'plateau':
            sl = slopes_of(c)
            ex = exact_flags(c)
            c['qsame'] = ex is not None and ex == [abs(s) > c['atolv'] for s in sl]
            c['n_at_tol'] = sum(1 for s in sl if abs(s) == c['atolv'])
            c['n_within_1ulp'] = sum(1 for s in sl if math.isfinite(s) and
                                     abs(s) in (math.nextafter(c['atolv'], math.inf), math.nextafter(c['atolv'], 0.0)))
        else:
            c['qsame'] = all(phase_float(f, c['refv'], c['rtolv']) == phase_exact(f, c['refv'], c['rtolv'])
                             for f in c['fv'])
    return cases


def correspondence(ctx):
    rng = random.Random(ctx.seed)
    cases = gen_cases(rng, ctx.tier)
    res = ctx.run_impl(HARNESS, {'cases': [payload_of(c) for c in cases]})
    obs = res['cases']
    terms, idx = [], []
    for i, (c, o) in enumerate(zip(cases, obs)):
        kind = c['kind'] + ('-' + c['coord'] if c['kind'] == 'plateau' else '')
        if c['kind'] == 'plateau' and 'error' not in o:
            if isinstance(o['collapsed'], dict):
                ctx.violation(f'{kind}:collapse-raises', f'collapse_plateaus raises {o["collapsed"]["error"]} on the '
                              f'result of find_plateaus: {describe(c, o)}', {'case': describe(c, o, True), 'payload': payload_of(c)})
                continue
            if not o.get('input_unchanged', True):
                ctx.violation(f'{kind}:input-modified', f'find_plateaus modified its input: {describe(c, o)}',
                              {'case': describe(c, o, True), 'payload': payload_of(c)})
            if o['plateau_coord'] != list(range(len(o['bins']))):
                ctx.violation(f'{kind}:plateau-coord', f'plateau coordinate is not 0..k-1: {o["plateau_coord"][:10]}',
                              {'case': describe(c, o, True), 'payload': payload_of(c)})
        if c['kind'] == 'phase' and 'error' in o:
            ctx.violation('phase:raises', f'filter_in_phase raises {o["error"]}: {describe(c, o)}',
                          {'case': describe(c, o, True), 'payload': payload_of(c)})
            continue
        terms.append(case_term(c, o))
        idx.append(i)
    header = ('From Coq Require Import List ZArith QArith String PrimFloat.\n'
              'From Verif.Sem Require Import Corr.\nFrom Verif.C19 Require Import Carrier Model.\n'
              'From Run Require Import Corr.\nImport ListNotations.\nOpen Scope float_scope.\n')
    fails, errors = ctx.coq_eval_shards(header, terms, lambda k: 'Eval vm_compute in (report (map check cases)).\n',
                                        shard=25 if ctx.tier == 'quick' else 60)
    for name, e in errors:
        ctx.violation('corr-shard-error', f'correspondence shard {name} did not evaluate: {e[:300]}',
                      {'shard': name, 'error': e}, found_input=False)
    for j, why in sorted(fails.items()):
        c, o = cases[idx[j]], obs[idx[j]]
        kind = c['kind'] + ('-' + c['coord'] if c['kind'] == 'plateau' else '')
        pv = property_violations(c, o)
        ctx.violation(f'{kind}:{why}',
                      f'{kind}: implementation differs from the model ({why}); property check: {pv or "no difference seen by the python spec"}; {describe(c, o)}',
                      {'case': describe(c, o, True), 'payload': payload_of(c), 'reason': why, 'property_check': pv})
    # coverage
    pl = [(c, o) for c, o in zip(cases, obs) if c['kind'] == 'plateau']
    ph = [(c, o) for c, o in zip(cases, obs) if c['kind'] == 'phase']
    returned = [(c, o) for c, o in pl if 'error' not in o]
    nontrivial = {repr(payload_of(c)) for c, o in returned if len(o['bins']) >= 1}
    nontrivial |= {repr(payload_of(c)) for c, o in ph if 'kept' in o and 0 < len(o['kept']) < len(c['fv'])}
    sizes = sorted(len(c['xv']) for c, _ in pl)
    ctx.coverage.update({
        'evaluations': len(terms),
        'distinct_nontrivial': len(nontrivial),
        'rule': 'random.Random(seed): plateau series of 2..500 points (mostly 5..60), non-uniform ascending float64 / int64 / '
                'datetime64[ns] coordinates (5% of float series with repeated coordinates), piecewise-constant levels + noise, '
                'steps at (1 +- 1e-6) x tolerance, ramps (drift guard), 30% on dyadic grids (exact ties); the tolerance is the '
                'nominal one (30%) or |an actual slope| (42%: a slope EXACTLY at atol) or one ulp above/below it (28%); '
                'min_n_points 1..n; in-phase lists of 1..60 frequencies: n*ref*(1+delta), ref/(n+delta) with '
                'delta in {0, +-0.5, +-0.99, +-1, +-1.01, +-2} x rtol, n in -3..25 incl. 0, +-0, ties of the rounding, '
                'huge/tiny, random; 25% in exact dyadic arithmetic.  non-trivial = find_plateaus returned >= 1 plateau, '
                'or filter_in_phase kept some but not all elements; distinct = distinct inputs',
        'plateau_cases': len(pl), 'phase_cases': len(ph),
        'plateau_returned': len(returned), 'plateau_raised_RuntimeError': sum(1 for _, o in pl if o.get('error') == 'RuntimeError'),
        'plateau_other_errors': sorted({o['error'] for _, o in pl if 'error' in o and o['error'] != 'RuntimeError'}),
        'coord_kinds': {k: sum(1 for c, _ in pl if c['coord'] == k) for k in ('float', 'int', 'datetime')},
        'int64_data': sum(1 for c, _ in pl if c['ydtype'] == 'int64'),
        'series_length': {'min': sizes[0], 'median': sizes[len(sizes) // 2], 'max': sizes[-1]},
        'cases_with_a_slope_exactly_at_atol': sum(1 for c, _ in pl if c['n_at_tol'] > 0),
        'slopes_exactly_at_atol': sum(c['n_at_tol'] for c, _ in pl),
        'slopes_one_ulp_from_atol': sum(c['n_within_1ulp'] for c, _ in pl),
        'cases_where_exact_rationals_decide_differently': sum(1 for c, _ in pl if not c['qsame']),
        'plateaus_total': sum(len(o['bins']) for _, o in returned),
        'min_n_points': {'1': sum(1 for c, _ in pl if c['min_n'] == 1), 'n': sum(1 for c, _ in pl if c['min_n'] == len(c['xv'])),
                         'other': sum(1 for c, _ in pl if 1 < c['min_n'] < len(c['xv']))},
        'phase_elements': sum(len(c['fv']) for c, _ in ph),
        'phase_kept': sum(len(o.get('kept', [])) for _, o in ph),
        'phase_cases_float_vs_exact_differ': sum(1 for c, _ in ph if not c['qsame']),
        'disagreements': len(fails),
        'samples': [describe(c, o) for c, o in (pl[:1] + pl[5:7] + ph[:1] + ph[-1:])],
        'scipp_version': res.get('scipp'),
    })


def search(ctx, broken):
    """an obligation broke: evaluate the PROPERTY STATEMENT (python run-length / interval / nearest-integer
    spec above, no Coq model involved) on the implementation over a fresh set of series"""
    rng = random.Random(ctx.seed + 1)
    cases = gen_cases(rng, 'quick')
    res = ctx.run_impl(HARNESS, {'cases': [payload_of(c) for c in cases]})
    found = []
    for c, o in zip(cases, res['cases']):
        pv = property_violations(c, o)
        if pv:
            kind = c['kind'] + ('-' + c['coord'] if c['kind'] == 'plateau' else '')
            ctx.violation(f'{kind}:property', f'{kind}: {pv[0]}; {describe(c, o)}',
                          {'case': describe(c, o, True), 'payload': payload_of(c), 'property_check': pv})
            found.append(pv)
    return found


def replay(ctx, obj):
    import json
    rp = obj['replay']
    payload = rp.get('payload')
    if not payload:
        print(json.dumps(obj, indent=1))
        return 0
    res = ctx.run_impl(HARNESS, {'cases': [payload]})
    o = res['cases'][0]
    if payload['kind'] == 'phase':
        c = {'kind': 'phase', 'fv': [float.fromhex(v) for v in payload['f']], 'refv': float.fromhex(payload['ref']),
             'rtolv': float.fromhex(payload['rtol'])}
        print('reference', c['refv'], 'rtol', c['rtolv'])
        print('frequencies', c['fv'])
        print('observed kept indices :', [k[0] for k in o.get('kept', [])] if 'kept' in o else o)
        print('required kept indices :', [i for i, f in enumerate(c['fv']) if phase_float(f, c['refv'], c['rtolv'])])
    else:
        c = {'kind': 'plateau', 'coord': payload['coord'], 'ydtype': payload['ydtype'],
             'xv': [float.fromhex(v) for v in payload['x']] if payload['coord'] == 'float' else payload['x'],
             'yv': [float.fromhex(v) for v in payload['y']], 'atolv': float.fromhex(payload['atol']),
             'min_n': payload['min_n']}
        print('x =', c['xv'])
        print('y =', c['yv'])
        print('atol =', repr(c['atolv']), 'min_n_points =', c['min_n'], 'coord dtype =', c['coord'])
        print('slopes =', slopes_of(c))
        print('required plateaus (first,last):', spec_runs(c))
        if 'error' in o:
            print('observed: raises', o['error'], o.get('msg'))
        else:
            pos, runs = 0, []
            print('observed bins (sizes)        :', [len(b) for b in o['bins']])
            print('observed bins (x of points)  :', [[p[0] if c['coord'] != 'float' else float.fromhex(p[0]) for p in b] for b in o['bins']][:20])
            print('observed collapsed (mean, low, high):', o.get('collapsed'))
    pv = property_violations(c, o)
    print('property check:', pv or 'no violation on this input')
    return 1 if pv else 0


LEVEL_TEXT = ('Proof (Coq, axiom-free): for every series (any length >= 1, any arithmetic carrier, hence also binary64) the '
              'group-id construction of find_plateaus returns exactly the maximal runs of consecutive points whose successive '
              'slopes are within the tolerance with at least min_n points - disjoint, ordered, complete, each bin the unchanged '
              'slice of the input - and returns iff the drift guard is silent; collapse gives the mean and [min, next(max)) '
              'containing every point; filter_in_phase keeps f iff |f/ref-n|<rtol or |ref/f-n|<rtol for an integer n (exact '
              'rationals). The hand model is tied to the code by a bit-exact binary64 (PrimFloat) correspondence executed in Coq '
              'on every run (~1100 cases quick) including slopes exactly at / one ulp from the tolerance.')
LEVEL_NOTE = ('Tie is correspondence (B), not translation: the model of cumsum/group/bins is hand-written and validated against '
              'the real scipp on generated series each run. Drift-guard decision and means are compared against exact rationals '
              '(band 1e-9 / 1e-12) because scipp sums in a different order. in_phase_iff is over Q; the float decision is '
              'compared case by case. The binary64 interval theorem depends on FloatAxioms (primitive-float specs) and the real-number axioms.')
TECHNIQUE = 'Coq proofs over an abstract carrier (lists, induction) + vm_compute correspondence with PrimFloat (binary64) and exact rationals'
