"""C01 - elastic TOF kinematics reproduce the de Broglie / Bragg definitions."""
import random
import kcorr
from kcorr import operand, loguniform

ID = 'C01'
LEVEL = 'proof'
TRANSLATE = {'modules': [
    {'py': 'src/scippneutron/_utils/__init__.py', 'coq': 'GenUtils',
     'functions': ['elem_unit', 'elem_dtype', 'float_dtype', 'as_float_type']},
    {'py': 'src/scippneutron/conversion/tof.py', 'coq': 'GenTof',
     'imports': {'elem_unit': 'GenUtils', 'elem_dtype': 'GenUtils', 'as_float_type': 'GenUtils'},
     'functions': ['wavelength_from_tof', 'dspacing_from_tof', '_energy_constant', 'energy_from_tof',
                   'energy_from_wavelength', 'wavelength_from_energy', '_wavelength_Q_conversions',
                   'Q_from_wavelength', 'wavelength_from_Q', 'dspacing_from_wavelength',
                   'dspacing_from_energy']},
]}
RUN_FILES = ['Tie.v', 'Properties.v', 'FloatErr.v', 'FloatErrTrig.v', 'FloatErr32.v', 'Corr.v']
TRUSTED = [
    'tools/py2coq.py (syntactic translator, fail-closed)',
    'coq/Sem/Val.v: model of scipp unit algebra, dtype promotion, to_unit, astype, sqrt, sin (element-wise)',
    'scipp broadcasting is pointwise BY DIMENSION LABEL, independent of dim order and memory layout (modelled in '
    'coq-run/C01/Corr.v: flat / merge_dims / acheck pick the operand elements of every result element by label and require the '
    'result to span the union of the operand dims; exercised with scalar/1-d/2-d-broadcast operands and per-pixel n-d operands in '
    'same / different dim order, transposed views, offset and strided slices, square and non-square grids)',
    'coq/Sem/QInst.v rational approximations of sqrt/sin (correspondence only, not used in proofs)',
    'tools/harness/kernels_impl.py + lib/kcorr.py (exact serialisation of operands/results)',
    'coq/Sem/FlInst.v, FlInstT.v, FlInstS.v: rounding-error instances of the arithmetic record (Flocq FLX 53 / FLX 24 round-to-nearest-even, '
    'unbounded exponent); FlInstS is set-valued: every * / sqrt sin may cast either operand to binary32/binary64 and rounds the result to '
    'binary32/binary64; comparisons there decide on exact values (no C01 kernel compares numbers)',
]
ASSUMPTIONS = [
    'IEEE arithmetic without overflow/underflow of intermediates (float32 cases are generated in natural units only)',
    'FloatErr.v: wavelength_from_tof, energy_from_tof, energy_from_wavelength, wavelength_from_energy with float64 operands: every '
    'rounding step (binary64, unbounded exponent range = no overflow/underflow) is accounted for by theorem: relative error <= 5e-15',
    'FloatErrTrig.v: dspacing_from_tof/_wavelength/_energy, Q_from_wavelength, wavelength_from_Q with float64 operands and 0 < two_theta <= PI: '
    'every rounding step (constants, unit multipliers, rounded half angle) accounted for by theorem, relative error <= 4e-15, under the named '
    'hypothesis "libm sin within 1 ulp": for every binary64 y the library sine returns sin y with relative error <= 2^-52 (hypothesis of each '
    'theorem, not an axiom)',
    'FloatErr32.v: all nine kernels with float32 (or mixed) operands: every value obtainable with any placement of float32/float64 casts and '
    'binary32-or-binary64 rounding of every operation is within 5e-6 (property: 1e-5), under "libm sinf/sin within 1 ulp of binary32 '
    '(relative 2^-23) on its actual argument" and no overflow/underflow',
    'correspondence tolerance: 1e-12 double (scipp unit-conversion factors carry up to ~4e-14), 2e-6 single; the property allows 1e-11 / 1e-5',
]
M = 'scippneutron.conversion.tof:'
# kernel / composition name -> (operand kinds in model argument order, expression)
KERNELS = {
    'wavelength_from_tof': (['tof', 'Ltotal'], {'call': M + 'wavelength_from_tof', 'args': {'tof': '$tof', 'Ltotal': '$Ltotal'}}),
    'dspacing_from_tof': (['tof', 'Ltotal', 'two_theta'], {'call': M + 'dspacing_from_tof', 'args': {'tof': '$tof', 'Ltotal': '$Ltotal', 'two_theta': '$two_theta'}}),
    'energy_from_tof': (['tof', 'Ltotal'], {'call': M + 'energy_from_tof', 'args': {'tof': '$tof', 'Ltotal': '$Ltotal'}}),
    'energy_from_wavelength': (['wavelength'], {'call': M + 'energy_from_wavelength', 'args': {'wavelength': '$wavelength'}}),
    'wavelength_from_energy': (['energy'], {'call': M + 'wavelength_from_energy', 'args': {'energy': '$energy'}}),
    'Q_from_wavelength': (['wavelength', 'two_theta'], {'call': M + 'Q_from_wavelength', 'args': {'wavelength': '$wavelength', 'two_theta': '$two_theta'}}),
    'wavelength_from_Q': (['Q', 'two_theta'], {'call': M + 'wavelength_from_Q', 'args': {'Q': '$Q', 'two_theta': '$two_theta'}}),
    'dspacing_from_wavelength': (['wavelength', 'two_theta'], {'call': M + 'dspacing_from_wavelength', 'args': {'wavelength': '$wavelength', 'two_theta': '$two_theta'}}),
    'dspacing_from_energy': (['energy', 'two_theta'], {'call': M + 'dspacing_from_energy', 'args': {'energy': '$energy', 'two_theta': '$two_theta'}}),
}
_wl = KERNELS['wavelength_from_tof'][1]
KERNELS.update({
    'tof>wavelength>energy': (['tof', 'Ltotal'], {'call': M + 'energy_from_wavelength', 'args': {'wavelength': _wl}}),
    'tof>wavelength>dspacing': (['tof', 'Ltotal', 'two_theta'], {'call': M + 'dspacing_from_wavelength', 'args': {'wavelength': _wl, 'two_theta': '$two_theta'}}),
    'energy>wavelength>dspacing': (['energy', 'two_theta'], {'call': M + 'dspacing_from_wavelength', 'args': {'wavelength': KERNELS['wavelength_from_energy'][1], 'two_theta': '$two_theta'}}),
    'tof>wavelength>Q': (['tof', 'Ltotal', 'two_theta'], {'call': M + 'Q_from_wavelength', 'args': {'wavelength': _wl, 'two_theta': '$two_theta'}}),
    'wavelength>energy>wavelength': (['wavelength'], {'call': M + 'wavelength_from_energy', 'args': {'energy': KERNELS['energy_from_wavelength'][1]}}),
    'energy>wavelength>energy': (['energy'], {'call': M + 'energy_from_wavelength', 'args': {'wavelength': KERNELS['wavelength_from_energy'][1]}}),
    'wavelength>Q>wavelength': (['wavelength', 'two_theta'], {'call': M + 'wavelength_from_Q', 'args': {'Q': KERNELS['Q_from_wavelength'][1], 'two_theta': '$two_theta'}}),
})
KIND = {'tof': 'time', 'Ltotal': 'length', 'wavelength': 'length', 'energy': 'energy', 'Q': 'invlength',
        'two_theta': 'angle'}
# natural units / ranges for single precision (no underflow of the folded constants)
NAT = {
    'tof': ([('us', 1e-6), ('ms', 1e-3)], (1e-5, 1e-1)),
    'Ltotal': ([('m', 1.0), ('mm', 1e-3)], (0.1, 200.0)),
    'wavelength': ([('angstrom', 1e-10), ('nm', 1e-9)], (1e-11, 5e-9)),
    'energy': ([('meV', 1.602176634e-22), ('eV', 1.602176634e-19)], (1e-24, 1e-18)),
    'Q': ([('1/angstrom', 1e10), ('1/nm', 1e9)], (1e8, 5e11)),
    'two_theta': ([('rad', 1.0), ('deg', 0.017453292519943295)], (1e-3, 3.14159)),
}


# pixel grids (ny, nx) of the per-pixel operand classes: square and non-square, a length-1 dim
GRIDS = [(2, 2), (3, 3), (2, 3), (3, 2), (3, 3), (1, 3), (4, 2)]
OLD_MODES = ['scalar', '1d', '1d', '2d']
ND_MODES = ['pix', 'pix', 'pixp']


def _layout(rng, dims):
    """memory layout of one n-d operand: contiguous in its own dim order, a transposed view of a buffer stored
    in another dim order, and / or a (strided, offset) slice of a larger buffer"""
    lay = {}
    if len(dims) >= 2 and rng.random() < 0.35:
        store = dims[:]
        while store == dims:
            rng.shuffle(store)
        lay['store'] = store
    if dims and rng.random() < 0.3:
        lay['pad'] = {rng.choice(dims): [rng.randint(0, 2), rng.randint(0, 2), rng.choice([1, 1, 2])]}
    return lay or None


def plan_nd(rng, order, mode):
    """labelled dims / shape / layout per operand for the per-pixel classes.  'pix': every per-pixel operand (Ltotal,
    two_theta, or the data operand itself) lives on the same (y, x) grid, each in its OWN dim order and layout; the data
    operand may instead be an event axis, a dense (y, x, event) block or a scalar.  'pixp': one operand per pixel,
    another one only per row / per column of the same grid."""
    ny, nx = rng.choice(GRIDS)
    size = {'y': ny, 'x': nx, 'event': 3}

    def grid():
        d = ['y', 'x']
        if rng.random() < 0.5:
            d.reverse()
        return d

    def data(kinds):
        k = rng.choice(kinds)
        if k == 'events':
            return ['event']
        if k == 'pixel':
            return grid()
        if k == 'dense3':
            d = ['y', 'x', 'event']
            rng.shuffle(d)
            return d
        if k == 'line':
            return [rng.choice(['y', 'x'])]
        return []
    n = len(order)
    if n == 1:
        dims = [data(['pixel', 'pixel', 'dense3'])]
    elif mode == 'pix':
        dims = [data(['pixel', 'pixel', 'events', 'dense3'] if n == 2 else ['events', 'events', 'pixel', 'dense3', 'scalar'])]
        dims += [grid() for _ in range(n - 1)]
        # make sure the class "same grid, different dim order" is frequent
        if rng.random() < 0.6:
            two = [i for i, d in enumerate(dims) if sorted(d) == ['x', 'y']]
            if len(two) >= 2:
                dims[two[-1]] = list(reversed(dims[two[0]]))
    else:
        rest = [grid()] + [[rng.choice(['y', 'x'])] for _ in range(n - 2)]
        rng.shuffle(rest)
        dims = [data(['pixel', 'events', 'line', 'dense3'] if n == 2 else ['events', 'pixel', 'line', 'scalar'])] + rest
        if n == 2 and len(dims[0]) < 2 and len(dims[1]) < 2:
            dims[1] = grid()
    return [{'dims': d, 'shape': [size[x] for x in d], 'layout': _layout(rng, d)} for d in dims]


def gen_groups(rng, n_groups, names=None, modes=None):
    import math
    groups = []
    names = list(names or KERNELS)
    modes = modes or (OLD_MODES + ND_MODES)
    for gi in range(n_groups):
        kname = names[gi % len(names)]
        order, expr = KERNELS[kname]
        mode = rng.choice(modes)
        single = rng.random() < 0.3      # the data operand in float32
        plan = plan_nd(rng, order, mode) if mode in ND_MODES else None
        ops = {}

        def put(nm, op, pos):
            if plan is not None:
                op.pop('dim', None)
                op['dims'], op['shape'] = plan[pos]['dims'], plan[pos]['shape']
                if plan[pos]['layout']:
                    op['layout'] = plan[pos]['layout']
            ops[nm] = op
        for pos, nm in enumerate(order):
            if plan is not None:
                dim, n = 'x', 1
                for s_ in plan[pos]['shape']:
                    n *= s_
            elif mode == 'scalar':
                dim, n = None, 1
            elif mode == '1d':
                dim, n = 'x', 6
            else:
                dim, n = ('x', 5) if pos == 0 else ('y', 3)
            if nm == 'two_theta':
                vals = [rng.choice([math.pi, math.pi / 2, 1e-6, 1e-3, rng.uniform(1e-3, math.pi)])
                        for _ in range(n)]
                vals = [min(v, math.pi) for v in vals]
                # a single-precision angle next to a double-precision data operand is a valid mix: the result is
                # float64 and must be double-accurate w.r.t. the angle as stored
                dt = rng.choice(['float64', 'float32']) if single else rng.choice(['float64', 'float64', 'float32'])
                unit = rng.choice(NAT[nm][0])
                if rng.random() < 0.15:
                    # integer angles (whole degrees / whole radians) are valid operands
                    dt = rng.choice(['int64', 'int32'])
                    vals = [math.radians(rng.randint(1, 179)) for _ in range(n)] if unit[0] == 'deg' \
                        else [float(rng.randint(1, 3)) for _ in range(n)]
                    put(nm, {'values': [int(round(v / unit[1])) for v in vals], 'unit': unit[0], 'dtype': dt, 'dim': dim}, pos)
                    continue
                if unit[0] == 'deg':    # stay inside (0, pi] after the deg->rad rounding
                    vals = [min(v, 3.1415) for v in vals]
                put(nm, operand(rng, 'angle', vals, dtype=dt, dim=dim, unit=unit), pos)
                continue
            if single:
                units, (lo, hi) = NAT[nm]
                unit = rng.choice(units)
                dt = 'float32' if pos == 0 else rng.choice(['float32', 'float64', 'int64'])
                vals = [loguniform(rng, lo, hi) for _ in range(n)]
                if dt == 'int64':
                    vals = [max(v, unit[1]) for v in vals]
            else:
                unit = rng.choice(kcorr.UNITS[KIND[nm]])
                dt = rng.choice(['float64', 'float64', 'float64', 'int64']) if pos == 0 else \
                    rng.choice(['float64', 'float64', 'float32', 'int64'])
                if nm in ('wavelength', 'energy', 'Q') and dt == 'int64' and pos == 0:
                    dt = 'float64'
                vals = [loguniform(rng, 1e-9, 1e9) for _ in range(n)]
                if dt == 'int64':
                    # whole numbers of the unit; for the time-of-flight also large tick counts (ns / us clocks: up to
                    # 9e9 ticks - squaring them in int64 overflowed before fix 'energy_from_tof ... int64')
                    cap = 9e9 if (nm == 'tof' and rng.random() < 0.5) else 3e4
                    vals = [min(max(v, unit[1]), cap * unit[1]) for v in vals]
                if dt == 'float32':
                    vals = [min(max(v, 1e-30 * unit[1]), 1e30 * unit[1]) for v in vals]
            put(nm, operand(rng, KIND[nm], vals, dtype=dt, dim=dim, unit=unit), pos)
        groups.append({'id': gi, 'kname': kname, 'expr': expr, 'operands': ops, 'single': single, 'mode': mode})
    return groups


def shape_class(g):
    """input class of a group for the coverage record: mode, whether two per-pixel operands differ in dim order,
    which layouts occur"""
    if g['mode'] not in ND_MODES:
        return g['mode']
    two = [tuple(o['dims']) for o in g['operands'].values() if len(o.get('dims') or []) == 2]
    lays = set()
    for o in g['operands'].values():
        lay = o.get('layout') or {}
        if 'store' in lay:
            lays.add('transposed-view')
        if 'pad' in lay:
            lays.add('strided-slice' if list(lay['pad'].values())[0][2] > 1 else 'offset-slice')
    sq = {tuple(sorted(zip(o['dims'], o['shape']))) for o in g['operands'].values() if len(o.get('dims') or []) >= 2}
    shp = ''
    for o in g['operands'].values():
        if len(o.get('dims') or []) >= 2:
            sz = dict(zip(o['dims'], o['shape']))
            shp = 'square' if sz.get('x') == sz.get('y') else 'non-square'
    order = 'different-dim-order' if len(set(two)) > 1 else ('same-dim-order' if len(two) > 1 else 'one-2d-operand')
    if any(len(o.get('dims') or []) == 3 for o in g['operands'].values()):
        order += '+dense-3d'
    return f'{g["mode"]}:{shp}:{order}' + (':' + '+'.join(sorted(lays)) if lays else '')


def correspondence(ctx):
    rng = random.Random(ctx.seed)
    n_groups = 190 if ctx.tier == 'quick' else 4500
    groups = gen_groups(rng, n_groups)
    res = ctx.run_impl('kernels_impl.py', {'groups': [{k: g[k] for k in ('id', 'expr', 'operands')} for g in groups]})
    h = res['constants']['h']['value']
    mn = res['constants']['m_n']['value']
    terms, descs = [], []
    aterms, adescs = [], []          # whole-array cases: Coq matches the elements by dim label (Corr.v acheck)
    mutated = 0
    classes = {}
    for g, r in zip(groups, res['groups']):
        if 'build_error' in r:
            ctx.note(f'group {g["id"]} ({g["kname"]}, {g["mode"]}) could not be built: {r["build_error"]}')
            continue
        if not r.get('inputs_unchanged', True):
            mutated += 1
        res_dtype = (r.get('result') or {}).get('dtype')
        # the promised accuracy follows the RESULT's precision class (property: 1e-11 double / 1e-5 single;
        # we hold 1e-12 / 2e-6): a float64 result must be double-accurate w.r.t. the operands as stored
        any32 = res_dtype == 'float32'
        tol = '(1 # 1000000000000)' if not any32 else '(2 # 1000000)'
        if '>' in g['kname'] and not any32:
            tol = '(3 # 1000000000000)'
        cl = shape_class(g)
        classes[cl] = classes.get(cl, 0) + 1
        if g['mode'] in ND_MODES:
            ac = kcorr.array_case(g['kname'], KERNELS[g['kname']][0], g, r, tol)
            if ac is None:
                ctx.violation(f'{g["kname"]}:result-not-a-variable', f'{g["kname"]} did not return a numeric variable with a unit '
                              f'for the operands {g["operands"]}', {'group': {k: g[k] for k in ("kname", "expr", "operands")},
                                                                    'result': r.get('result')})
                continue
            aterms.append(ac[0])
            adescs.append(ac[1])
            continue
        for t, d in kcorr.element_cases(g['kname'], KERNELS[g['kname']][0], g, r, tol):
            terms.append(t)
            descs.append(d)
    header = ('From Coq Require Import QArith ZArith String List.\n'
              'From Verif.Sem Require Import Field Val QInst Corr.\nFrom Run Require Import Corr.\n'
              'Import ListNotations.\nOpen Scope string_scope.\n'
              f'Definition H : Q := {kcorr.q(h)}.\nDefinition MN : Q := {kcorr.q(mn)}.\n')
    # the two families of shards are independent: evaluate them side by side
    from concurrent.futures import ThreadPoolExecutor
    with ThreadPoolExecutor(max_workers=2) as ex:
        f1 = ex.submit(ctx.coq_eval_shards, header, terms,
                       lambda k: 'Eval vm_compute in (report (map (check H MN) cases)).\n', 200)
        f2 = ex.submit(ctx.coq_eval_shards, header, aterms,
                       lambda k: 'Eval vm_compute in (report (map (acheck H MN) cases)).\n', 10, 'acases')
        fails, errors = f1.result()
        afails, aerrors = f2.result()
    for name, e in errors + aerrors:
        ctx.violation('corr-shard-error', f'correspondence shard {name} did not evaluate: {e[:300]}', {'shard': name, 'error': e}, found_input=False)
    seen = set()
    for i, why in sorted(fails.items()):
        d = descs[i]
        key = f'{d["kernel"]}:{why.split(":")[0]}'
        if why == 'value-single-precision-level':
            pass   # one class per kernel: a float64 result that is only single-precision accurate
        if key in seen:
            continue
        seen.add(key)
        ctx.violation(key, f'{d["kernel"]}: implementation differs from the de Broglie/Bragg model ({why}) on {d}',
                      {'case': d, 'reason': why})
    for i, why in sorted(afails.items()):
        reason, _, kk = why.partition('@')
        ds = adescs[i]
        d = ds[int(kk)] if kk.isdigit() and int(kk) < len(ds) else ds[0]
        key = f'{d["kernel"]}:{reason.split(":")[0]}:per-pixel'
        if key in seen:
            continue
        seen.add(key)
        brief = {k: d[k] for k in ('kernel', 'operands', 'impl', 'element', 'arrays') if k in d}
        ctx.violation(key, f'{d["kernel"]} on labelled n-d operands: implementation differs from the de Broglie/Bragg model '
                           f'({reason}; elements matched by dimension label) on {brief}',
                      {'case': d, 'reason': why, 'class': shape_class(groups_by_id(groups, d, adescs, i))})
    if mutated:
        ctx.note(f'{mutated} groups had an operand modified by the call (C09 covers this)')
    kinds = {}
    alld = descs + [d for ds in adescs for d in ds]
    for d in alld:
        kinds[d['kernel']] = kinds.get(d['kernel'], 0) + 1
    distinct = len({repr(d['operands']) + d['kernel'] for d in alld if not isinstance(d['impl'], str)})

    def slim(d):
        return {k: v for k, v in d.items() if k != 'group_operands'}
    ctx.coverage.update({
        'evaluations': len(alld),
        'distinct_nontrivial': distinct,
        'rule': 'element-wise cases from random operand groups (units x dtypes x scalar/1-d/2-d broadcast/per-pixel n-d operands '
                'in same and different dim order, transposed views, offset/strided slices, square and non-square grids) over '
                '1e-9..1e9 SI; n-d groups are handed to Coq as labelled arrays and matched element by element BY DIMENSION LABEL '
                'there (Corr.v acheck), result dims = union of the operand dims; '
                'non-trivial = the implementation returned a finite value (not an exception); distinct = distinct (kernel, operands)',
        'samples': [slim(d) for d in descs[:3] + descs[-1:] + (adescs[0][:1] if adescs else [])],
        'per_kernel': kinds,
        'shape_classes': classes,
        'nd_summary': {t: sum(n for c, n in classes.items() if t in c) for t in
                       ('pix:', 'pixp:', 'different-dim-order', 'same-dim-order', 'dense-3d', 'transposed-view', 'offset-slice',
                        'strided-slice', ':square', 'non-square')},
        'array_cases': len(aterms),
        'disagreements': len(fails) + len(afails),
        'constants': {'h': kcorr.fmt(h), 'm_n': kcorr.fmt(mn)},
        'scipp_version': res.get('scipp'),
    })


def groups_by_id(groups, d, adescs, i):
    """the request group an array description came from"""
    for g in groups:
        if g['mode'] in ND_MODES and g['kname'] == d['kernel'] and \
                {n: g['operands'][n] for n in KERNELS[g['kname']][0]} == d.get('group_operands'):
            return g
    return {'mode': 'pix', 'operands': d.get('group_operands') or {}}


def _calls(expr):
    """names of the kernels called by an expression of KERNELS"""
    if not isinstance(expr, dict):
        return set()
    out = {expr['call'].split(':')[-1]}
    for e in expr.get('args', {}).values():
        out |= _calls(e)
    return out


# helpers of tof.py -> public kernels through which they are reached
HELPERS = {'_energy_constant': {'energy_from_tof'},
           '_wavelength_Q_conversions': {'Q_from_wavelength', 'wavelength_from_Q'}}


def changed_functions():
    """`<file>:<function>` of every statement of the anchored files that differs from the pinned text (static)"""
    try:
        import covtie
        import vlib
        return sorted({c.split(': ')[0] for c in covtie.changed(vlib.VERIF, vlib.REPO, ID, None)})
    except Exception:
        return []


def focus_kernels(broken):
    """kernel / composition names that exercise the functions named by the broken obligations
    (`exercise:<file>:<function>`, `Tie.v:<kernel>_...`, ...); [] = no particular function can be told"""
    fns = set()
    publics = {k for k in KERNELS if '>' not in k}
    for b in broken or []:
        for fn in sorted(publics | set(HELPERS), key=len, reverse=True):
            if fn in str(b):
                fns |= HELPERS.get(fn, {fn})
    return [k for k, (_, e) in KERNELS.items() if _calls(e) & fns]


def search(ctx, broken):
    """an obligation broke: the correspondence above already compares the regenerated model and the
    implementation against each other; here the property's own statement (closed formulas in exact
    rational arithmetic, constants from scipp) is evaluated against the implementation, over every operand class
    of the generator (scalar / 1-d / broadcast / per-pixel n-d in any dim order and memory layout); two thirds of
    the cases go to the kernels that reach the functions named by the broken obligations."""
    import json
    from fractions import Fraction
    rng = random.Random(ctx.seed + 1)
    # which kernels to concentrate on: the functions whose text changed (static), else those named by the broken
    # obligations (when the translation fails every obligation of Tie.v breaks, which names nothing in particular)
    focus = focus_kernels(changed_functions()) or focus_kernels(broken)
    if len(focus) == len(KERNELS):
        focus = []
    groups = gen_groups(rng, 70 if focus else 110)
    if focus:
        more = gen_groups(rng, 60, names=focus) + gen_groups(rng, 60, names=focus, modes=ND_MODES)
    else:
        more = gen_groups(rng, 80, modes=ND_MODES)
    for i, g in enumerate(more):
        g['id'] = len(groups) + i
    groups += more
    ctx.coverage['search'] = {'groups': len(groups), 'focus_kernels': focus}
    res = ctx.run_impl('kernels_impl.py', {'groups': [{k: g[k] for k in ('id', 'expr', 'operands')} for g in groups]})
    found = []
    # the closed formulas need sin/sqrt; use Python floats (accurate to ~1e-15 here) with the property's
    # own gates 1e-11 / 1e-5
    import math
    hq = kcorr.fmt(res['constants']['h']['value'])
    mq = kcorr.fmt(res['constants']['m_n']['value'])

    def si(st, i):
        v = st['values'][i if len(st['values']) > 1 else 0]
        return float(Fraction(int(v[0]), int(v[1]))) * float(Fraction(int(st['unit']['mult'][0]), int(st['unit']['mult'][1])))
    FORM = {
        'wavelength_from_tof': lambda t, L: hq * t / (mq * L),
        'energy_from_tof': lambda t, L: mq * L * L / (2 * t * t),
        'dspacing_from_tof': lambda t, L, th: hq * t / (mq * L * 2 * math.sin(th / 2)),
        'energy_from_wavelength': lambda l: hq * hq / (2 * mq * l * l),
        'wavelength_from_energy': lambda E: hq / math.sqrt(2 * mq * E),
        'Q_from_wavelength': lambda l, th: 4 * math.pi * math.sin(th / 2) / l,
        'wavelength_from_Q': lambda Q, th: 4 * math.pi * math.sin(th / 2) / Q,
        'dspacing_from_wavelength': lambda l, th: l / (2 * math.sin(th / 2)),
        'dspacing_from_energy': lambda E, th: hq / (math.sqrt(8 * mq * E) * math.sin(th / 2)),
    }
    # routes and round trips: the quantity the composition must reproduce (property: routes agree, round trips
    # are identities), as a formula of the operands
    FORM.update({
        'tof>wavelength>energy': FORM['energy_from_tof'],
        'tof>wavelength>dspacing': FORM['dspacing_from_tof'],
        'energy>wavelength>dspacing': FORM['dspacing_from_energy'],
        'tof>wavelength>Q': lambda t, L, th: 4 * math.pi * math.sin(th / 2) * mq * L / (hq * t),
        'wavelength>energy>wavelength': lambda l: l,
        'energy>wavelength>energy': lambda E: E,
        'wavelength>Q>wavelength': lambda l, th: l,
    })
    seen = set()
    for g, r in zip(groups, res['groups']):
        if g['kname'] not in FORM or 'build_error' in r:
            continue
        order = KERNELS[g['kname']][0]
        gdesc = {'kernel': g['kname'], 'class': shape_class(g), 'arrays': kcorr.layout_of(g, order),
                 'group_operands': {n: g['operands'][n] for n in order}}
        if 'result' not in r:
            # every generated operand group is physically valid (positive finite values, angles in (0, pi], one
            # size per dim label): an exception is not an answer the property allows
            key = f'{g["kname"]}:raises-{r.get("error")}'
            if key not in seen:
                seen.add(key)
                d = dict(gdesc, impl='raises ' + str(r.get('error')), error_text=r.get('error_text'))
                ctx.violation(key, f'{g["kname"]} raises {r.get("error")} ({(r.get("error_text") or "")[:120]}) for a valid operand '
                                   f'group ({gdesc["class"]}; {gdesc["arrays"]})', d)
                found.append(d)
            continue
        rr = r['result']
        if rr.get('unit') is None or 'shape' not in rr:
            continue
        # labelled shape of the result = union of the operands' labelled dims
        want_dims = {}
        for nm in order:
            st = r['operands'][nm]
            want_dims.update(zip(st['dims'], st.get('shape') or []))
        if dict(zip(rr['dims'], rr['shape'])) != want_dims or len(rr['dims']) != len(want_dims):
            key = f'{g["kname"]}:result-dims'
            if key not in seen:
                seen.add(key)
                d = dict(gdesc, result_dims=rr['dims'], result_shape=rr['shape'], expected=want_dims)
                ctx.violation(key, f'{g["kname"]} returns dims {rr["dims"]} {rr["shape"]} where the operands span {want_dims}', d)
                found.append(d)
            continue
        n_el = 1
        for s in rr['shape']:
            n_el *= s
        tol = 1e-11 if rr['dtype'] != 'float32' else 1e-5      # the property's own bounds
        if '>' in g['kname']:
            tol *= 3
        for k in range(n_el):
            idx = dict(zip(rr['dims'], kcorr.unravel(k, rr['shape'])))
            pos = {nm: kcorr.flat_index(r['operands'][nm], idx) for nm in order}      # by dimension label
            args = [si(r['operands'][nm], pos[nm]) for nm in order]
            v = rr['values'][k]
            if isinstance(v, str):
                continue        # non-finite element: the correspondence reports those (impl-NaN / impl-infinite)
            else:
                got = float(Fraction(int(v[0]), int(v[1]))) * float(Fraction(int(rr['unit']['mult'][0]), int(rr['unit']['mult'][1])))
            want = FORM[g['kname']](*args)
            if not (abs(got - want) <= tol * abs(want)):
                key = f'{g["kname"]}:formula'
                if key in seen:
                    break
                seen.add(key)
                d = {'kernel': g['kname'], 'si_args': args, 'impl_si': got, 'formula_si': want,
                     'operands': {nm: kcorr.describe(r['operands'][nm], pos[nm]) for nm in order}}
                if g['mode'] in ND_MODES:
                    d.update(gdesc, element=idx, result_dims=rr['dims'])
                ctx.violation(key, f'{g["kname"]} returns {got} (SI) where the definition gives {want}'
                              + (f' (element {idx} of {gdesc["class"]}, {gdesc["arrays"]})' if g['mode'] in ND_MODES else ''), d)
                found.append(d)
                break
    return found


def replay(ctx, obj):
    import json
    print(json.dumps(obj, indent=1))
    case = obj['replay'].get('case') or obj['replay']
    gops = case.get('group_operands')
    if gops and case.get('kernel') in KERNELS:
        # labelled n-d operands: run the implementation again on exactly these arrays (dims / shape / memory layout as given)
        try:
            r = ctx.run_impl('kernels_impl.py', {'no_history_pass': True, 'groups': [
                {'id': 0, 'expr': KERNELS[case['kernel']][1], 'operands': gops}]})['groups'][0]
            if 'result' in r:
                rr = r['result']
                print(f'{case["kernel"]} -> dims {rr["dims"]} shape {rr["shape"]} unit {rr["unit"]["name"]} {rr["dtype"]}: '
                      f'{[kcorr.fmt(v) for v in rr["values"]]}')
            else:
                print(f'{case["kernel"]} raises {r.get("error")}: {r.get("error_text")}')
        except Exception as ex:  # noqa: BLE001
            print('re-run failed:', ex)
        print('operands: tools/harness/kernels_impl.py build_operand(<group_operands[name]>) builds each array '
              '(values in C order of dims/shape; layout.store = memory order, layout.pad = slice of a larger buffer)')
        return 0
    print('re-run: PYTHONPATH=/repo/src /venv/bin/python -c "from scippneutron.conversion import tof; ..." with the operands above')
    return 0

LEVEL_TEXT = ('Proof: for all positive inputs in arbitrary units and all numeric dtypes, each of the nine elastic kernels as '
              'regenerated from tof.py on this run denotes the de Broglie/Bragg formula in the documented unit and float class; '
              'routes agree and round trips are identities (over R, h and m_n arbitrary positive). The model of scipp '
              'primitives is validated against the real scipp by ~1.8e3 (quick) element-wise cases (of which ~1e3 from labelled n-d operand arrays, matched by dimension label inside Coq) compared inside Coq against exact rationals.')
LEVEL_NOTE = ('Trusted: Coq kernel; std-lib real-number axioms (sig_forall_dec, sig_not_dec, functional_extensionality_dep, classic); '
              'py2coq translator; Sem/Val.v model of scipp element semantics; accumulated rounding error bounded by theorem for all nine kernels in binary64 and binary32 '
              '(FloatErr*.v; named hypotheses: libm sine within 1 ulp, no overflow/underflow).')
TECHNIQUE = 'Coq proof on regenerated terms (cbv + field over R) + vm_compute correspondence against the implementation'
