"""C01 - elastic TOF kinematics reproduce the de Broglie / Bragg definitions."""
import random
import kcorr
from kcorr import operand, loguniform

ID = 'C01'
LEVEL = 'proof'
TRANSLATE = {'modules': [
    {'py': 'src/scippneutron/_utils/__init__.py', 'coq': 'GenUtils',
     'functions': ['elem_unit', 'elem_dtype', 'float_dtype', 'as_float_type']},
    {'py': 'src/scippneutron/conversion/tof.py', 'coq': 'GenTof',
     'imports': {'elem_unit': 'GenUtils', 'elem_dtype': 'GenUtils', 'as_float_type': 'GenUtils'},
     'functions': ['wavelength_from_tof', 'dspacing_from_tof', '_energy_constant', 'energy_from_tof',
                   'energy_from_wavelength', 'wavelength_from_energy', '_wavelength_Q_conversions',
                   'Q_from_wavelength', 'wavelength_from_Q', 'dspacing_from_wavelength',
                   'dspacing_from_energy']},
]}
RUN_FILES = ['Tie.v', 'Properties.v', 'FloatErr.v', 'FloatErrTrig.v', 'FloatErr32.v', 'Corr.v']
TRUSTED = [
    'tools/py2coq.py (syntactic translator, fail-closed)',
    'coq/Sem/Val.v: model of scipp unit algebra, dtype promotion, to_unit, astype, sqrt, sin (element-wise)',
    'scipp broadcasting is pointwise (modelled; exercised with scalar/1-d/2-d operands)',
    'coq/Sem/QInst.v rational approximations of sqrt/sin (correspondence only, not used in proofs)',
    'tools/harness/kernels_impl.py + lib/kcorr.py (exact serialisation of operands/results)',
    'coq/Sem/FlInst.v, FlInstT.v, FlInstS.v: rounding-error instances of the arithmetic record (Flocq FLX 53 / FLX 24 round-to-nearest-even, '
    'unbounded exponent); FlInstS is set-valued: every * / sqrt sin may cast either operand to binary32/binary64 and rounds the result to '
    'binary32/binary64; comparisons there decide on exact values (no C01 kernel compares numbers)',
]
ASSUMPTIONS = [
    'IEEE arithmetic without overflow/underflow of intermediates (float32 cases are generated in natural units only)',
    'FloatErr.v: wavelength_from_tof, energy_from_tof, energy_from_wavelength, wavelength_from_energy with float64 operands: every '
    'rounding step (binary64, unbounded exponent range = no overflow/underflow) is accounted for by theorem: relative error <= 5e-15',
    'FloatErrTrig.v: dspacing_from_tof/_wavelength/_energy, Q_from_wavelength, wavelength_from_Q with float64 operands and 0 < two_theta <= PI: '
    'every rounding step (constants, unit multipliers, rounded half angle) accounted for by theorem, relative error <= 4e-15, under the named '
    'hypothesis "libm sin within 1 ulp": for every binary64 y the library sine returns sin y with relative error <= 2^-52 (hypothesis of each '
    'theorem, not an axiom)',
    'FloatErr32.v: all nine kernels with float32 (or mixed) operands: every value obtainable with any placement of float32/float64 casts and '
    'binary32-or-binary64 rounding of every operation is within 5e-6 (property: 1e-5), under "libm sinf/sin within 1 ulp of binary32 '
    '(relative 2^-23) on its actual argument" and no overflow/underflow',
    'correspondence tolerance: 1e-12 double (scipp unit-conversion factors carry up to ~4e-14), 2e-6 single; the property allows 1e-11 / 1e-5',
]
M = 'scippneutron.conversion.tof:'
# kernel / composition name -> (operand kinds in model argument order, expression)
KERNELS = {
    'wavelength_from_tof': (['tof', 'Ltotal'], {'call': M + 'wavelength_from_tof', 'args': {'tof': '$tof', 'Ltotal': '$Ltotal'}}),
    'dspacing_from_tof': (['tof', 'Ltotal', 'two_theta'], {'call': M + 'dspacing_from_tof', 'args': {'tof': '$tof', 'Ltotal': '$Ltotal', 'two_theta': '$two_theta'}}),
    'energy_from_tof': (['tof', 'Ltotal'], {'call': M + 'energy_from_tof', 'args': {'tof': '$tof', 'Ltotal': '$Ltotal'}}),
    'energy_from_wavelength': (['wavelength'], {'call': M + 'energy_from_wavelength', 'args': {'wavelength': '$wavelength'}}),
    'wavelength_from_energy': (['energy'], {'call': M + 'wavelength_from_energy', 'args': {'energy': '$energy'}}),
    'Q_from_wavelength': (['wavelength', 'two_theta'], {'call': M + 'Q_from_wavelength', 'args': {'wavelength': '$wavelength', 'two_theta': '$two_theta'}}),
    'wavelength_from_Q': (['Q', 'two_theta'], {'call': M + 'wavelength_from_Q', 'args': {'Q': '$Q', 'two_theta': '$two_theta'}}),
    'dspacing_from_wavelength': (['wavelength', 'two_theta'], {'call': M + 'dspacing_from_wavelength', 'args': {'wavelength': '$wavelength', 'two_theta': '$two_theta'}}),
    'dspacing_from_energy': (['energy', 'two_theta'], {'call': M + 'dspacing_from_energy', 'args': {'energy': '$energy', 'two_theta': '$two_theta'}}),
}
_wl = KERNELS['wavelength_from_tof'][1]
KERNELS.update({
    'tof>wavelength>energy': (['tof', 'Ltotal'], {'call': M + 'energy_from_wavelength', 'args': {'wavelength': _wl}}),
    'tof>wavelength>dspacing': (['tof', 'Ltotal', 'two_theta'], {'call': M + 'dspacing_from_wavelength', 'args': {'wavelength': _wl, 'two_theta': '$two_theta'}}),
    'energy>wavelength>dspacing': (['energy', 'two_theta'], {'call': M + 'dspacing_from_wavelength', 'args': {'wavelength': KERNELS['wavelength_from_energy'][1], 'two_theta': '$two_theta'}}),
    'tof>wavelength>Q': (['tof', 'Ltotal', 'two_theta'], {'call': M + 'Q_from_wavelength', 'args': {'wavelength': _wl, 'two_theta': '$two_theta'}}),
    'wavelength>energy>wavelength': (['wavelength'], {'call': M + 'wavelength_from_energy', 'args': {'energy': KERNELS['energy_from_wavelength'][1]}}),
    'energy>wavelength>energy': (['energy'], {'call': M + 'energy_from_wavelength', 'args': {'wavelength': KERNELS['wavelength_from_energy'][1]}}),
    'wavelength>Q>wavelength': (['wavelength', 'two_theta'], {'call': M + 'wavelength_from_Q', 'args': {'Q': KERNELS['Q_from_wavelength'][1], 'two_theta': '$two_theta'}}),
})
KIND = {'tof': 'time', 'Ltotal': 'length', 'wavelength': 'length', 'energy': 'energy', 'Q': 'invlength',
        'two_theta': 'angle'}
# natural units / ranges for single precision (no underflow of the folded constants)
NAT = {
    'tof': ([('us', 1e-6), ('ms', 1e-3)], (1e-5, 1e-1)),
    'Ltotal': ([('m', 1.0), ('mm', 1e-3)], (0.1, 200.0)),
    'wavelength': ([('angstrom', 1e-10), ('nm', 1e-9)], (1e-11, 5e-9)),
    'energy': ([('meV', 1.602176634e-22), ('eV', 1.602176634e-19)], (1e-24, 1e-18)),
    'Q': ([('1/angstrom', 1e10), ('1/nm', 1e9)], (1e8, 5e11)),
    'two_theta': ([('rad', 1.0), ('deg', 0.017453292519943295)], (1e-3, 3.14159)),
}


def gen_groups(rng, n_groups):
    import math
    groups = []
    names = list(KERNELS)
    for gi in range(n_groups):
        kname = names[gi % len(names)]
        order, expr = KERNELS[kname]
        mode = rng.choice(['scalar', '1d', '1d', '2d'])
        single = rng.random() < 0.3      # the data operand in float32
        ops = {}
        for pos, nm in enumerate(order):
            if mode == 'scalar':
                dim, n = None, 1
            elif mode == '1d':
                dim, n = 'x', 6
            else:
                dim, n = ('x', 5) if pos == 0 else ('y', 3)
            if nm == 'two_theta':
                vals = [rng.choice([math.pi, math.pi / 2, 1e-6, 1e-3, rng.uniform(1e-3, math.pi)])
                        for _ in range(n)]
                vals = [min(v, math.pi) for v in vals]
                # a single-precision angle next to a double-precision data operand is a valid mix: the result is
                # float64 and must be double-accurate w.r.t. the angle as stored
                dt = rng.choice(['float64', 'float32']) if single else rng.choice(['float64', 'float64', 'float32'])
                unit = rng.choice(NAT[nm][0])
                if rng.random() < 0.15:
                    # integer angles (whole degrees / whole radians) are valid operands
                    dt = rng.choice(['int64', 'int32'])
                    vals = [math.radians(rng.randint(1, 179)) for _ in range(n)] if unit[0] == 'deg' \
                        else [float(rng.randint(1, 3)) for _ in range(n)]
                    ops[nm] = {'values': [int(round(v / unit[1])) for v in vals], 'unit': unit[0], 'dtype': dt, 'dim': dim}
                    continue
                if unit[0] == 'deg':    # stay inside (0, pi] after the deg->rad rounding
                    vals = [min(v, 3.1415) for v in vals]
                ops[nm] = operand(rng, 'angle', vals, dtype=dt, dim=dim, unit=unit)
                continue
            if single:
                units, (lo, hi) = NAT[nm]
                unit = rng.choice(units)
                dt = 'float32' if pos == 0 else rng.choice(['float32', 'float64', 'int64'])
                vals = [loguniform(rng, lo, hi) for _ in range(n)]
                if dt == 'int64':
                    vals = [max(v, unit[1]) for v in vals]
            else:
                unit = rng.choice(kcorr.UNITS[KIND[nm]])
                dt = rng.choice(['float64', 'float64', 'float64', 'int64']) if pos == 0 else \
                    rng.choice(['float64', 'float64', 'float32', 'int64'])
                if nm in ('wavelength', 'energy', 'Q') and dt == 'int64' and pos == 0:
                    dt = 'float64'
                vals = [loguniform(rng, 1e-9, 1e9) for _ in range(n)]
                if dt == 'int64':
                    vals = [min(max(v, unit[1]), 3e4 * unit[1]) for v in vals]
                if dt == 'float32':
                    vals = [min(max(v, 1e-30 * unit[1]), 1e30 * unit[1]) for v in vals]
            ops[nm] = operand(rng, KIND[nm], vals, dtype=dt, dim=dim, unit=unit)
        groups.append({'id': gi, 'kname': kname, 'expr': expr, 'operands': ops, 'single': single})
    return groups


def correspondence(ctx):
    rng = random.Random(ctx.seed)
    n_groups = 160 if ctx.tier == 'quick' else 4000
    groups = gen_groups(rng, n_groups)
    res = ctx.run_impl('kernels_impl.py', {'groups': [{k: g[k] for k in ('id', 'expr', 'operands')} for g in groups]})
    h = res['constants']['h']['value']
    mn = res['constants']['m_n']['value']
    terms, descs = [], []
    mutated = 0
    for g, r in zip(groups, res['groups']):
        if 'build_error' in r:
            continue
        if not r.get('inputs_unchanged', True):
            mutated += 1
        res_dtype = (r.get('result') or {}).get('dtype')
        # the promised accuracy follows the RESULT's precision class (property: 1e-11 double / 1e-5 single;
        # we hold 1e-12 / 2e-6): a float64 result must be double-accurate w.r.t. the operands as stored
        any32 = res_dtype == 'float32'
        tol = '(1 # 1000000000000)' if not any32 else '(2 # 1000000)'
        if '>' in g['kname'] and not any32:
            tol = '(3 # 1000000000000)'
        for t, d in kcorr.element_cases(g['kname'], KERNELS[g['kname']][0], g, r, tol):
            terms.append(t)
            descs.append(d)
    header = ('From Coq Require Import QArith ZArith String List.\n'
              'From Verif.Sem Require Import Field Val QInst Corr.\nFrom Run Require Import Corr.\n'
              'Import ListNotations.\nOpen Scope string_scope.\n'
              f'Definition H : Q := {kcorr.q(h)}.\nDefinition MN : Q := {kcorr.q(mn)}.\n')
    fails, errors = ctx.coq_eval_shards(header, terms, lambda k: 'Eval vm_compute in (report (map (check H MN) cases)).\n')
    for name, e in errors:
        ctx.violation('corr-shard-error', f'correspondence shard {name} did not evaluate: {e[:300]}', {'shard': name, 'error': e}, found_input=False)
    seen = set()
    for i, why in sorted(fails.items()):
        d = descs[i]
        key = f'{d["kernel"]}:{why.split(":")[0]}'
        if why == 'value-single-precision-level':
            pass   # one class per kernel: a float64 result that is only single-precision accurate
        if key in seen:
            continue
        seen.add(key)
        ctx.violation(key, f'{d["kernel"]}: implementation differs from the de Broglie/Bragg model ({why}) on {d}',
                      {'case': d, 'reason': why})
    if mutated:
        ctx.note(f'{mutated} groups had an operand modified by the call (C09 covers this)')
    kinds = {}
    for d in descs:
        kinds[d['kernel']] = kinds.get(d['kernel'], 0) + 1
    distinct = len({repr(d['operands']) + d['kernel'] for d in descs if not isinstance(d['impl'], str)})
    ctx.coverage.update({
        'evaluations': len(terms),
        'distinct_nontrivial': distinct,
        'rule': 'element-wise cases from random operand groups (units x dtypes x scalar/1-d/2-d broadcast) over 1e-9..1e9 SI; '
                'non-trivial = the implementation returned a finite value (not an exception); distinct = distinct (kernel, operands)',
        'samples': descs[:3] + descs[-2:],
        'per_kernel': kinds,
        'disagreements': len(fails),
        'constants': {'h': kcorr.fmt(h), 'm_n': kcorr.fmt(mn)},
        'scipp_version': res.get('scipp'),
    })


def search(ctx, broken):
    """an obligation broke: the correspondence above already compares the regenerated model and the
    implementation against each other; here the property's own statement (closed formulas in exact
    rational arithmetic, constants from scipp) is evaluated against the implementation."""
    import json
    from fractions import Fraction
    rng = random.Random(ctx.seed + 1)
    groups = gen_groups(rng, 120)
    res = ctx.run_impl('kernels_impl.py', {'groups': [{k: g[k] for k in ('id', 'expr', 'operands')} for g in groups]})
    found = []
    # the closed formulas need sin/sqrt; use Python floats (accurate to ~1e-15 here) with the property's
    # own gates 1e-11 / 1e-5
    import math
    hq = kcorr.fmt(res['constants']['h']['value'])
    mq = kcorr.fmt(res['constants']['m_n']['value'])

    def si(st, i):
        v = st['values'][i if len(st['values']) > 1 else 0]
        return float(Fraction(int(v[0]), int(v[1]))) * float(Fraction(int(st['unit']['mult'][0]), int(st['unit']['mult'][1])))
    FORM = {
        'wavelength_from_tof': lambda t, L: hq * t / (mq * L),
        'energy_from_tof': lambda t, L: mq * L * L / (2 * t * t),
        'dspacing_from_tof': lambda t, L, th: hq * t / (mq * L * 2 * math.sin(th / 2)),
        'energy_from_wavelength': lambda l: hq * hq / (2 * mq * l * l),
        'wavelength_from_energy': lambda E: hq / math.sqrt(2 * mq * E),
        'Q_from_wavelength': lambda l, th: 4 * math.pi * math.sin(th / 2) / l,
        'wavelength_from_Q': lambda Q, th: 4 * math.pi * math.sin(th / 2) / Q,
        'dspacing_from_wavelength': lambda l, th: l / (2 * math.sin(th / 2)),
        'dspacing_from_energy': lambda E, th: hq / (math.sqrt(8 * mq * E) * math.sin(th / 2)),
    }
    for g, r in zip(groups, res['groups']):
        if g['kname'] not in FORM or 'result' not in r:
            continue
        rr = r['result']
        order = KERNELS[g['kname']][0]
        n_el = 1
        for s in rr['shape']:
            n_el *= s
        for k in range(n_el):
            idx = dict(zip(rr['dims'], kcorr.unravel(k, rr['shape'])))
            args = []
            for nm in order:
                st = r['operands'][nm]
                args.append(si(st, idx.get(st['dims'][0], 0) if st['dims'] else 0))
            v = rr['values'][k]
            if isinstance(v, str):
                continue
            got = float(Fraction(int(v[0]), int(v[1]))) * float(Fraction(int(rr['unit']['mult'][0]), int(rr['unit']['mult'][1])))
            want = FORM[g['kname']](*args)
            tol = 1e-11 if rr['dtype'] != 'float32' else 1e-5      # the property's own bounds
            if not (abs(got - want) <= tol * abs(want)):
                d = {'kernel': g['kname'], 'si_args': args, 'impl_si': got, 'formula_si': want,
                     'operands': {nm: kcorr.describe(r['operands'][nm], idx.get(r['operands'][nm]['dims'][0], 0) if r['operands'][nm]['dims'] else 0) for nm in order}}
                ctx.violation(f'{g["kname"]}:formula', f'{g["kname"]} returns {got} (SI) where the definition gives {want}', d)
                found.append(d)
                break
    return found


def replay(ctx, obj):
    import json
    print(json.dumps(obj, indent=1))
    case = obj['replay'].get('case') or obj['replay']
    print('re-run: PYTHONPATH=/repo/src /venv/bin/python -c "from scippneutron.conversion import tof; ..." with the operands above')
    return 0

LEVEL_TEXT = ('Proof: for all positive inputs in arbitrary units and all numeric dtypes, each of the nine elastic kernels as '
              'regenerated from tof.py on this run denotes the de Broglie/Bragg formula in the documented unit and float class; '
              'routes agree and round trips are identities (over R, h and m_n arbitrary positive). The model of scipp '
              'primitives is validated against the real scipp by ~1e3 (quick) element-wise cases compared inside Coq against exact rationals.')
LEVEL_NOTE = ('Trusted: Coq kernel; std-lib real-number axioms (sig_forall_dec, sig_not_dec, functional_extensionality_dep, classic); '
              'py2coq translator; Sem/Val.v model of scipp element semantics; accumulated rounding error bounded by theorem for all nine kernels in binary64 and binary32 '
              '(FloatErr*.v; named hypotheses: libm sine within 1 ulp, no overflow/underflow).')
TECHNIQUE = 'Coq proof on regenerated terms (cbv + field over R) + vm_compute correspondence against the implementation'
