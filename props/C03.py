"""C03 — straight-beamline geometry equals its Euclidean definition; 2theta is stable."""
import math
import random
from fractions import Fraction

import kcorr
from kcorr import hexf, loguniform, q, dims_term

ID = 'C03'
LEVEL = 'proof'
TRANSLATE = {
    # sc.atan2(y=, x=, out=): value model in coq/C03/SemExt.v (out only names the buffer)
    'sigs': {'sc.atan2': ['sc_atan2_out', [], [['y', '!'], ['x', '!'], ['out', None]]]},
    'modules': [
        {'py': 'src/scippneutron/conversion/beamline.py', 'coq': 'GenBeamline', 'requires': ['Verif.C03.SemExt'],
         'functions': ['L1', 'L2', 'straight_incident_beam', 'straight_scattered_beam', 'total_beam_length',
                       'total_straight_beam_length_no_scatter', 'two_theta']},
    ]}
RUN_FILES = ['Tie.v', 'Properties.v', 'Corr.v']
TRUSTED = [
    'tools/py2coq.py (syntactic translator, fail-closed); in-place statements `b2 += b1`, `res *= 2` are translated as rebinding '
    '(value semantics; aliasing is C09)',
    'coq/Sem/Val.v: model of scipp vector arithmetic, sc.norm, unit algebra, atan2; coq/C03/SemExt.v: sc.atan2(out=) has the value of sc.atan2',
    'coq/Sem/RInst.v: atan2 defined by cases from atan; multiplier equality in + - is not decided over R (fail-closed: lemmas are stated '
    'for operands sharing one unit); decided over Q and compared with scipp\'s UnitError',
    'scipp broadcasting is pointwise (modelled; exercised with scalar / per-pixel operands; shape refusals are compared as outcomes)',
    'coq/Sem/QInst.v rational qsqrt/qatan2 (~1e-40; correspondence only, never in a proof)',
    'tools/harness/kernels_impl.py + lib/kcorr.py (exact serialisation of operands/results)',
]
ASSUMPTIONS = [
    'theorems are over exact reals for non-zero beams; scipp vectors are float64 only (float32 arrays are widened on construction, probed), '
    'so the float32 clause of the property applies to scalar L1/L2 in total_beam_length only',
    'the absolute 1e-15 rad accuracy is PARTIAL: proved conditioning of Kahan\'s form (relative errors eps in |e1+e2|,|e1-e2| move the angle '
    'by <= 3 eps for all angles; acos loses sqrt(2 eps)) and composition with an atan2 of relative error u; NOT proved that binary64 '
    'evaluation of the normalisations/difference/norms achieves such an eps - validated per case: |impl - exact| <= 4e-15 on near-degenerate inputs',
]
LEVEL_TEXT = ('Proof: for all positions/beams (non-zero, any length unit) the seven kernels regenerated from beamline.py on this run denote '
              'sample-source, position-sample, their Euclidean norms, the sum, |position-source| and angle(b1,b2)=acos(b1.b2/|b1||b2|); '
              'the angle is in [0,pi], symmetric, invariant under positive rescaling of either beam and under a common orthogonal map + '
              'translation of the three positions. Conditioning of Kahan vs acos proved; float accuracy validated (4e-15 abs) in Coq against '
              'the exact-rational model on near-degenerate inputs.')
LEVEL_NOTE = ('Trusted: Coq kernel; std-lib real axioms (sig_forall_dec, sig_not_dec, functional_extensionality_dep, classic); py2coq; '
              'Sem/Val.v + C03/SemExt.v model of scipp element semantics; rounding covered by tolerance, not theorem (abs accuracy is _partial).')
TECHNIQUE = ('Coq proof on regenerated terms (cbv, then Kahan lemma of Vec/Vec3.v with field side conditions) + vm_compute correspondence '
             'against exact rationals + invariance checks on the implementation compared in Coq')

M = 'scippneutron.conversion.beamline:'
# kernel -> (vector operands in model order, scalar operands in model order, expression)
_inc = {'call': M + 'straight_incident_beam', 'args': {'source_position': '$source', 'sample_position': '$sample'}}
_sca = {'call': M + 'straight_scattered_beam', 'args': {'position': '$position', 'sample_position': '$sample'}}
_l1 = {'call': M + 'L1', 'args': {'incident_beam': _inc}}
_l2 = {'call': M + 'L2', 'args': {'scattered_beam': _sca}}
KERNELS = {
    'L1': (['b1'], [], {'call': M + 'L1', 'args': {'incident_beam': '$b1'}}),
    'L2': (['b1'], [], {'call': M + 'L2', 'args': {'scattered_beam': '$b1'}}),
    'incident_beam': (['source', 'sample'], [], _inc),
    'scattered_beam': (['position', 'sample'], [], _sca),
    'Ltotal': ([], ['l1', 'l2'], {'call': M + 'total_beam_length', 'args': {'L1': '$l1', 'L2': '$l2'}}),
    'Ltotal_no_scatter': (['source', 'position'], [],
                          {'call': M + 'total_straight_beam_length_no_scatter', 'args': {'source_position': '$source', 'position': '$position'}}),
    'two_theta': (['b1', 'b2'], [], {'call': M + 'two_theta', 'args': {'incident_beam': '$b1', 'scattered_beam': '$b2'}}),
    'pos>L1': (['source', 'sample', 'position'], [], _l1),
    'pos>L2': (['source', 'sample', 'position'], [], _l2),
    'pos>Ltotal': (['source', 'sample', 'position'], [], {'call': M + 'total_beam_length', 'args': {'L1': _l1, 'L2': _l2}}),
    'pos>two_theta': (['source', 'sample', 'position'], [], {'call': M + 'two_theta', 'args': {'incident_beam': _inc, 'scattered_beam': _sca}}),
}
ANGLE = {'two_theta', 'pos>two_theta'}
LUNITS = ['m', 'mm', 'km']
TOL_ANGLE = Fraction(4, 10 ** 15)
BASES = [0.0, math.pi / 2, math.pi]
DELTAS = [0.0, 1e-12, 1e-9, 1e-6, 1e-3]
# integer quaternions (a,b,c,d) -> exact rational rotation matrices (entries k/n, n = a^2+b^2+c^2+d^2)
QUATS = [(1, 2, 2, 4), (2, 3, 6, 0), (1, 4, 8, 0), (2, 1, 2, 0), (1, 1, 1, 1), (3, 4, 12, 0), (1, 2, 4, 10), (0, 1, 0, 0), (5, 1, 1, 3)]


def rot_matrix(qt):
    a, b, c, d = qt
    n = a * a + b * b + c * c + d * d
    return [[Fraction(a * a + b * b - c * c - d * d, n), Fraction(2 * (b * c - a * d), n), Fraction(2 * (b * d + a * c), n)],
            [Fraction(2 * (b * c + a * d), n), Fraction(a * a - b * b + c * c - d * d, n), Fraction(2 * (c * d - a * b), n)],
            [Fraction(2 * (b * d - a * c), n), Fraction(2 * (c * d + a * b), n), Fraction(a * a - b * b - c * c + d * d, n)]]


def rand_unit(rng):
    while True:
        v = [rng.gauss(0, 1) for _ in range(3)]
        n = math.sqrt(sum(c * c for c in v))
        if n > 1e-3:
            return [c / n for c in v]


def perp(rng, u):
    while True:
        w = rand_unit(rng)
        d = sum(a * b for a, b in zip(u, w))
        w = [a - d * b for a, b in zip(w, u)]
        n = math.sqrt(sum(c * c for c in w))
        if n > 1e-2:
            return [c / n for c in w]


def beam_pair(rng, kind=None):
    """two beams with a prescribed (approximate) angle; returns (b1, b2, description)"""
    u = rand_unit(rng)
    w = perp(rng, u)
    n1, n2 = loguniform(rng, 1e-6, 1e6), loguniform(rng, 1e-6, 1e6)
    kind = kind or rng.choice(['near', 'near', 'near', 'uniform', 'exact', 'axis', 'near-axis'])
    if kind == 'near-axis':
        # incident beam ALMOST along a coordinate axis: transverse components 1e-13 .. 1e-6 of its length (absolute
        # "is it aligned" thresholds in the beam's own unit treat such a beam as aligned); the other beam anywhere
        ax = rng.choice([0, 1, 2])
        sg = rng.choice([1.0, -1.0])
        b1 = [loguniform(rng, 1e-13, 1e-6) * rng.choice([1.0, -1.0]) for _ in range(3)]
        b1[ax] = sg
        if rng.random() < 0.5:
            n1 = loguniform(rng, 1e-6, 1e-2)
        b1 = [c * n1 for c in b1]
        al = rng.uniform(0, math.pi)
        e2 = [math.cos(al) * a + math.sin(al) * b for a, b in zip(u, w)]
        pair = ([c * n2 for c in e2], b1) if rng.random() < 0.3 else (b1, [c * n2 for c in e2])
        return pair[0], pair[1], 'axis-near'
    if kind == 'uniform':
        al = rng.uniform(0, math.pi)
        e2 = [math.cos(al) * a + math.sin(al) * b for a, b in zip(u, w)]
        d = f'uniform:{al:.6g}'
    elif kind == 'exact':
        # exactly parallel / antiparallel / perpendicular stored vectors
        which = rng.choice(['0', 'pi', 'pi/2'])
        if which == 'pi/2':
            a, b, c = rng.randint(1, 999), rng.randint(1, 999), rng.randint(-999, 999)
            u, e2 = [float(a), float(b), 0.0], [float(-b), float(a), 0.0]
            if rng.random() < 0.5:
                u, e2 = [0.0, float(a), float(c)], [float(b), 0.0, 0.0]
            n1 = n2 = 1.0
            k1, k2 = 2.0 ** rng.randint(-20, 20), 2.0 ** rng.randint(-20, 20)
            return [c * k1 for c in u], [c * k2 for c in e2], 'exact:pi/2'
        k = 2.0 ** rng.randint(-12, 12) * rng.choice([1.0, 3.0, 0.1])
        b1 = [c * n1 for c in u]
        b2 = [(-c if which == 'pi' else c) * k for c in b1]
        return b1, b2, 'exact:' + which
    elif kind == 'axis':
        ax = [[1.0, 0, 0], [0, 1.0, 0], [0, 0, 1.0], [-1.0, 0, 0], [0, 0, -1.0]]
        return [c * n1 for c in rng.choice(ax)], [c * n2 for c in rng.choice(ax)], 'axis'
    else:
        base = rng.choice(BASES)
        dl = rng.choice(DELTAS) * rng.choice([1, -1])
        c0, s0 = {0.0: (1.0, 0.0), math.pi / 2: (0.0, 1.0), math.pi: (-1.0, 0.0)}[base]
        # rotate (c0, s0) by dl without cancellation
        cd, sd = math.cos(dl), math.sin(dl)
        ca, sa = c0 * cd - s0 * sd, s0 * cd + c0 * sd
        e2 = [ca * a + sa * b for a, b in zip(u, w)]
        d = f'near:{base:.4g}{dl:+.0e}'
    return [c * n1 for c in u], [c * n2 for c in e2], d


def vop(vecs, unit, dim):
    return {'values': [[hexf(c) for c in v] for v in vecs], 'unit': unit, 'dtype': 'vector3', 'dim': dim}


SHAPES = {'ss': (None, None), 'sp': (None, 'p'), 'pp': ('p', 'p'), 'ps': ('p', None), 'xy': ('x', 'y')}


def gen_groups(rng, n_tt, n_other, kinds=None):
    groups = []
    gid = 0
    npix = 6
    shapes = ['sp', 'pp', 'sp', 'pp', 'ss', 'ps', 'xy']
    for i in range(n_tt):
        shape = shapes[i % len(shapes)]
        d1, d2 = SHAPES[shape]
        n1 = npix if d1 else 1
        n2 = (npix if shape != 'xy' else 3) if d2 else 1
        pairs = [beam_pair(rng, rng.choice(kinds) if kinds else None) for _ in range(max(n1, n2))]
        u1, u2 = rng.choice(LUNITS), rng.choice(LUNITS)
        ops = {'b1': vop([p[0] for p in pairs[:n1]], u1, d1), 'b2': vop([p[1] for p in pairs[:n2]], u2, d2)}
        groups.append({'id': gid, 'kname': 'two_theta', 'shape': shape, 'operands': ops, 'angles': [p[2] for p in pairs]})
        gid += 1
    others = ['L1', 'L2', 'incident_beam', 'scattered_beam', 'Ltotal', 'Ltotal_no_scatter', 'pos>L1', 'pos>L2', 'pos>Ltotal',
              'pos>two_theta', 'pos>two_theta']
    for i in range(n_other):
        kname = others[i % len(others)]
        vo, so, _ = KERNELS[kname]
        unit = rng.choice(LUNITS)
        mixed = rng.random() < 0.12 and kname != 'Ltotal'     # operands in different length units: scipp refuses -, +
        ops = {}
        if kname == 'Ltotal':
            dts = [rng.choice(['float64', 'float64', 'float32', 'int64']) for _ in range(2)]
            un = [unit, unit if rng.random() < 0.85 else rng.choice(LUNITS)]
            for nm, dt, uu in zip(so, dts, un):
                dim = rng.choice([None, 'p'])
                vals = [loguniform(rng, 1e-6, 1e6) for _ in range(npix if dim else 1)]
                if dt == 'int64':
                    vals = [max(1, min(30000, int(v))) for v in vals]
                else:
                    vals = [hexf(v) for v in vals]
                ops[nm] = {'values': vals, 'unit': uu, 'dtype': dt, 'dim': dim}
        else:
            scale = loguniform(rng, 1e-6, 1e6)
            for j, nm in enumerate(vo):
                dim = 'p' if (nm in ('position', 'b1') or rng.random() < 0.3) else None
                n = npix if dim else 1
                vecs = []
                for _ in range(n):
                    if kname.startswith('pos>') and nm == 'position' and rng.random() < 0.5:
                        # detector nearly along / against the incident beam or nearly perpendicular: built later
                        vecs.append(None)
                    else:
                        vecs.append([rng.uniform(-1, 1) * scale for _ in range(3)])
                ops[nm] = {'vecs': vecs, 'unit': (rng.choice(LUNITS) if (mixed and j == 1) else unit), 'dim': dim}
            if 'position' in ops and 'sample' in ops and 'source' in ops:
                src, smp = ops['source']['vecs'][0], ops['sample']['vecs'][0]
                for k, v in enumerate(ops['position']['vecs']):
                    if v is None:
                        s_k = ops['source']['vecs'][k if len(ops['source']['vecs']) > 1 else 0]
                        m_k = ops['sample']['vecs'][k if len(ops['sample']['vecs']) > 1 else 0]
                        inc = [a - b for a, b in zip(m_k, s_k)]
                        # the near-degenerate construction relative to the actual incident beam
                        n_inc = math.sqrt(sum(c * c for c in inc)) or 1.0
                        u = [c / n_inc for c in inc]
                        w = perp(rng, u)
                        base = rng.choice(BASES)
                        dl = rng.choice(DELTAS) * rng.choice([1, -1])
                        c0, s0 = {0.0: (1.0, 0.0), math.pi / 2: (0.0, 1.0), math.pi: (-1.0, 0.0)}[base]
                        ca, sa = c0 * math.cos(dl) - s0 * math.sin(dl), s0 * math.cos(dl) + c0 * math.sin(dl)
                        L = loguniform(rng, 0.01, 100) * n_inc
                        ops['position']['vecs'][k] = [m + L * (ca * a + sa * b) for m, a, b in zip(m_k, u, w)]
            if kname.startswith('pos>') or kname in ('Ltotal_no_scatter', 'incident_beam', 'scattered_beam'):
                # the whole beamline far from the origin of the coordinate system (a third of the groups): differences of
                # positions stay exact to rounding, expanded squares |p|^2 - 2 p.s + |s|^2 cancel
                if rng.random() < 0.34 and not mixed:
                    off = [rng.uniform(-1, 1) * scale * loguniform(rng, 1e2, 1e6) for _ in range(3)]
                    for nm in ops:
                        ops[nm]['vecs'] = [[c + o_ for c, o_ in zip(v, off)] for v in ops[nm]['vecs']]
            for nm in list(ops):
                o = ops[nm]
                ops[nm] = vop(o['vecs'], o['unit'], o['dim'])
        groups.append({'id': gid, 'kname': kname, 'shape': 'mixed-units' if mixed else 'same-units', 'operands': ops})
        gid += 1
    return groups


def fr(pair):
    return Fraction(int(pair[0]), int(pair[1]))


def vin_term(st, i):
    v = st['values'][i if len(st['values']) > 1 else 0]
    return f'(mkvin {q(v[0])} {q(v[1])} {q(v[2])} {q(st["unit"]["mult"])} {dims_term(st["unit"]["dims"])})'


def vdesc(st, i):
    v = st['values'][i if len(st['values']) > 1 else 0]
    return {'value': [float(fr(c)) for c in v], 'unit': st['unit']['name']}


def qfrac(x):
    x = Fraction(x)
    return f'(({x.numerator}) # {x.denominator})'


def cases_of(g, r):
    """element-wise Coq cases + descriptions for one executed group"""
    kname = g['kname']
    vo, so, _ = KERNELS[kname]
    ops = r['operands']
    out = []
    absolute = kname in ANGLE
    any32 = any(ops[n]['dtype'] == 'float32' for n in so)
    tol = qfrac(TOL_ANGLE) if absolute else ('(1 # 1000000000000000)' if not any32 else '(2 # 10000000)')
    flag = 'true' if absolute else 'false'
    if 'error' in r:
        vt = '[' + '; '.join(vin_term(ops[n], 0) for n in vo) + ']'
        st = '[' + '; '.join(kcorr.inp_term(ops[n], 0) for n in so) + ']'
        desc = {'kernel': kname, 'shape': g.get('shape'), 'operands': {n: (vdesc(ops[n], 0) if n in vo else kcorr.describe(ops[n], 0)) for n in vo + so},
                'operand_dims': {n: ops[n]['dims'] for n in vo + so}, 'impl': 'raises ' + r['error']}
        out.append((f'(mkcc "{kname}" {vt} {st} (OutErr "{r["error"]}") {tol} {flag})', desc))
        return out
    res = r['result']
    n_el = 1
    for s in res['shape']:
        n_el *= s
    for k in range(n_el):
        idx = dict(zip(res['dims'], kcorr.unravel(k, res['shape'])))
        pick = lambda st: idx.get(st['dims'][0], 0) if st['dims'] else 0  # noqa: E731
        vt = '[' + '; '.join(vin_term(ops[n], pick(ops[n])) for n in vo) + ']'
        st = '[' + '; '.join(kcorr.inp_term(ops[n], pick(ops[n])) for n in so) + ']'
        ot = kcorr.out_term(res, k)
        if ot is None:
            continue
        desc = {'kernel': kname, 'shape': g.get('shape'),
                'operands': {n: (vdesc(ops[n], pick(ops[n])) if n in vo else kcorr.describe(ops[n], pick(ops[n]))) for n in vo + so},
                'impl': {'value': kcorr.fmt(res['values'][k]), 'unit': res['unit']['name'], 'dtype': res['dtype']}}
        if 'angles' in g:
            desc['constructed_angle'] = g['angles'][min(k, len(g['angles']) - 1)] if g['shape'] != 'xy' else None
        out.append((f'(mkcc "{kname}" {vt} {st} {ot} {tol} {flag})', desc))
    return out


# ------------------------------------------------------------------ the property's own statement on the implementation
def exact_norm(a):
    s = a[0] * a[0] + a[1] * a[1] + a[2] * a[2]
    return math.sqrt(float(s)) if s else 0.0


def invariance_groups(rng, n):
    """groups whose results are compared with each other (impl vs impl): symmetry, rescaling, rigid motion"""
    groups = []
    npix = 6
    for i in range(n):
        pairs = [beam_pair(rng) for _ in range(npix)]
        b1s, b2s = [p[0] for p in pairs], [p[1] for p in pairs]
        u1, u2 = rng.choice(LUNITS), rng.choice(LUNITS)
        base = {'b1': vop(b1s, u1, 'p'), 'b2': vop(b2s, u2, 'p')}
        k1, k2 = 2.0 ** rng.randint(-30, 30), rng.choice([3.0, 2.0 ** rng.randint(-30, 30)])
        variants = {
            'base': base,
            'sym': {'b1': vop(b2s, u2, 'p'), 'b2': vop(b1s, u1, 'p')},
            'scale': {'b1': vop([[c * k1 for c in v] for v in b1s], u1, 'p'), 'b2': vop([[c * k2 for c in v] for v in b2s], u2, 'p')},
            'unit': {'b1': vop(b1s, rng.choice(LUNITS), 'p'), 'b2': vop(b2s, rng.choice(LUNITS), 'p')},
        }
        groups.append({'kind': 'beams', 'variants': variants, 'k': (k1, k2), 'angles': [p[2] for p in pairs]})
    for i in range(n):
        qt = rng.choice(QUATS)
        R = [[float(c) for c in row] for row in rot_matrix(qt)]
        if rng.random() < 0.3:     # improper orthogonal map (reflection)
            R = [[-c for c in row] for row in R]
        scale = loguniform(rng, 1e-3, 1e3)
        src = [rng.uniform(-1, 1) * scale for _ in range(3)]
        smp = [rng.uniform(-1, 1) * scale for _ in range(3)]
        inc = [a - b for a, b in zip(smp, src)]
        n_inc = math.sqrt(sum(c * c for c in inc))
        pos = []
        for _ in range(npix):
            u = [c / n_inc for c in inc]
            w = perp(rng, u)
            al = rng.choice([rng.uniform(0, math.pi), rng.choice(BASES) + rng.choice(DELTAS) * rng.choice([1, -1])])
            L = loguniform(rng, 0.1, 10) * n_inc
            pos.append([m + L * (math.cos(al) * a + math.sin(al) * b) for m, a, b in zip(smp, u, w)])
        t = [rng.uniform(-1, 1) * scale for _ in range(3)]
        mv = lambda p: [sum(R[r][c] * p[c] for c in range(3)) + t[r] for r in range(3)]  # noqa: E731
        unit = rng.choice(LUNITS)
        variants = {
            'base': {'source': vop([src], unit, None), 'sample': vop([smp], unit, None), 'position': vop(pos, unit, 'p')},
            'rigid': {'source': vop([mv(src)], unit, None), 'sample': vop([mv(smp)], unit, None), 'position': vop([mv(p) for p in pos], unit, 'p')},
        }
        # rounding of the moved positions perturbs each beam by <= ~4u(|p| + |t|); the angle moves by that over the beam length
        mag = max(max(abs(c) for c in src + smp + t), max(abs(c) for p in pos for c in p))
        lmin = min([n_inc] + [math.sqrt(sum((a - b) ** 2 for a, b in zip(p, smp))) for p in pos])
        groups.append({'kind': 'positions', 'variants': variants, 'quat': qt, 't': t,
                       'tol': 1e-14 + 16 * 2.3e-16 * mag / lmin})
    return groups


def run_invariance(ctx, rng, n):
    igroups = invariance_groups(rng, n)
    req = []
    for gi, g in enumerate(igroups):
        for vn, ops in g['variants'].items():
            kn = 'two_theta' if g['kind'] == 'beams' else 'pos>two_theta'
            req.append({'id': f'{gi}:{vn}', 'expr': KERNELS[kn][2], 'operands': ops})
    res = ctx.run_impl('kernels_impl.py', {'groups': req})
    by = {r['id']: r for r in res['groups']}
    terms, descs = [], []
    range_terms = []
    for gi, g in enumerate(igroups):
        b = by[f'{gi}:base']
        if 'result' not in b:
            descs.append({'check': 'base-raises', 'group': gi, 'error': b.get('error')})
            terms.append('(mki "base-raises" 0 1 0)')
            continue
        bv = b['result']['values']
        for vn in g['variants']:
            if vn == 'base':
                continue
            o = by[f'{gi}:{vn}']
            if 'result' not in o:
                descs.append({'check': vn + '-raises', 'group': gi, 'error': o.get('error'), 'operands': {k: vdesc(v, 0) for k, v in o.get('operands', {}).items()}})
                terms.append(f'(mki "{vn}-raises" 0 1 0)')
                continue
            tol = g.get('tol', 8e-15)
            if vn == 'scale' and g['k'][1] != 3.0:
                tol = 1e-15      # powers of two: the normalised beams are bit-identical
            for k, (x, y) in enumerate(zip(bv, o['result']['values'])):
                if isinstance(x, str) or isinstance(y, str):
                    continue
                terms.append(f'(mki "{vn}" {q(x)} {q(y)} {qfrac(Fraction(tol))})')
                descs.append({'check': vn, 'group': gi, 'pixel': k, 'base': float(fr(x)), 'variant': float(fr(y)), 'tol': tol,
                              'operands_base': {n: vdesc(st, k) for n, st in b['operands'].items()},
                              'operands_variant': {n: vdesc(st, k) for n, st in o['operands'].items()},
                              **({'quat': g['quat'], 't': g['t']} if 'quat' in g else {'k': g['k']})})
        for k, x in enumerate(bv):
            if not isinstance(x, str):
                range_terms.append((q(x), {'check': 'range', 'group': gi, 'pixel': k, 'value': float(fr(x)),
                                           'operands': {n: vdesc(st, k) for n, st in b['operands'].items()}}))
    return terms, descs, range_terms


HEADER = ('From Coq Require Import QArith ZArith String List.\n'
          'From Verif.Sem Require Import Field Val QInst Corr.\nFrom Run Require Import Corr.\n'
          'Import ListNotations.\nOpen Scope string_scope.\n'
          'Definition H : Q := 1.\nDefinition MN : Q := 1.\n')


def correspondence(ctx):
    rng = random.Random(ctx.seed)
    quick = ctx.tier == 'quick'
    groups = gen_groups(rng, 140 if quick else 2000, 110 if quick else 1600)
    res = ctx.run_impl('kernels_impl.py', {'groups': [{'id': g['id'], 'expr': KERNELS[g['kname']][2], 'operands': g['operands']} for g in groups]})
    terms, descs = [], []
    for g, r in zip(groups, res['groups']):
        if 'build_error' in r:
            ctx.note('harness could not build a group: ' + r['build_error'])
            continue
        for t, d in cases_of(g, r):
            terms.append(t)
            descs.append(d)
    fails, errors = ctx.coq_eval_shards(HEADER, terms, lambda k: 'Eval vm_compute in (report (map (check H MN) cases)).\n', shard=60)
    for name, e in errors:
        ctx.violation('corr-shard-error', f'correspondence shard {name} did not evaluate: {e[:300]}', {'shard': name, 'error': e}, found_input=False)
    for i, why in sorted(fails.items()):
        d = descs[i]
        reason = why.split(':')[0]
        key = f'{d["kernel"]}:{reason}' + (f':shape-{d["shape"]}' if reason.startswith('impl-raises') else '')
        ctx.violation(key, f'{d["kernel"]}: implementation differs from the Euclidean model ({why}) on {d}', {'case': d, 'reason': why})
    # the property's own statement, implementation against implementation (compared in Coq)
    iterms, idescs, rterms = run_invariance(ctx, rng, 20 if quick else 200)
    ifails, ierrors = ctx.coq_eval_shards(HEADER, iterms, lambda k: 'Eval vm_compute in (report (map icheck cases)).\n', shard=400, prefix='inv')
    rfails, rerrors = ctx.coq_eval_shards(HEADER, [t for t, _ in rterms], lambda k: 'Eval vm_compute in (report (map in_range cases)).\n',
                                          shard=400, prefix='rng')
    for name, e in ierrors + rerrors:
        ctx.violation('corr-shard-error', f'invariance shard {name} did not evaluate: {e[:300]}', {'shard': name, 'error': e}, found_input=False)
    for i, why in sorted(ifails.items()):
        d = idescs[i]
        ctx.violation(f'two_theta:invariance-{d["check"]}', f'two_theta is not invariant under {d["check"]}: {d}', {'case': d})
    for i, why in sorted(rfails.items()):
        ctx.violation('two_theta:range', f'two_theta outside [0, pi]: {rterms[i][1]}', {'case': rterms[i][1]})
    kinds = {}
    for d in descs:
        kinds[d['kernel']] = kinds.get(d['kernel'], 0) + 1
    angle_classes = {}
    for d in descs:
        a = d.get('constructed_angle')
        if a:
            angle_classes[a.split(':')[0] + ':' + (a.split(':')[1][:6] if a.startswith('near') else '')] = \
                angle_classes.get(a.split(':')[0] + ':' + (a.split(':')[1][:6] if a.startswith('near') else ''), 0) + 1
    ctx.coverage.update({
        'evaluations': len(terms) + len(iterms) + len(rterms),
        'distinct_nontrivial': len({repr(d['operands']) + d['kernel'] for d in descs if isinstance(d['impl'], dict)}),
        'rule': 'element-wise cases (incl. incident beams within 1e-13..1e-6 of a coordinate axis, and a third of the position groups displaced 1e2..1e6 beam lengths from the origin): beams with norms 1e-6..1e6 in mm/m/km, angles {0,pi/2,pi} +- {0,1e-12,1e-9,1e-6,1e-3}, uniform, exactly '
                'parallel/antiparallel/perpendicular, axis-aligned; operand shapes scalar/per-pixel in all combinations (ss,sp,pp,ps,xy); '
                'positions source/sample/detector with detectors near the beam axis; mixed length units (refusal); scalar L1/L2 in '
                'float64/float32/int64; non-trivial = a finite result element; plus impl-vs-impl symmetry / rescaling (2^k, 3) / unit change / '
                'rigid motion (exact rational rotations from integer quaternions, reflections, translations) and range checks',
        'samples': descs[:2] + descs[len(descs) // 2:len(descs) // 2 + 2] + descs[-1:],
        'per_kernel': kinds,
        'angle_classes': angle_classes,
        'invariance_checks': len(iterms), 'range_checks': len(rterms),
        'disagreements': len(fails) + len(ifails) + len(rfails),
        'tolerance': {'two_theta_abs': float(TOL_ANGLE), 'lengths_rel': 1e-15},
        'scipp_version': res.get('scipp'),
    })


def search(ctx, broken):
    """an obligation broke: evaluate the property's own statement on the implementation — Euclidean formulas in exact rational
    arithmetic (independent of the regenerated model), near-degenerate angles first."""
    rng = random.Random(ctx.seed + 7)
    found = []
    groups = gen_groups(rng, 60, 330)
    # beams almost along a coordinate axis, many of them short (absolute alignment thresholds), scalar and per-pixel
    extra = gen_groups(rng, 240, 0, kinds=['near-axis', 'near-axis', 'axis', 'near'])
    for g in extra:
        g['id'] += len(groups)
    groups += extra
    res = ctx.run_impl('kernels_impl.py', {'groups': [{'id': g['id'], 'expr': KERNELS[g['kname']][2], 'operands': g['operands']} for g in groups]})
    for g, r in zip(groups, res['groups']):
        if 'result' not in r:
            if 'error' in r and g.get('shape') not in ('mixed-units',) and not (g['kname'] == 'Ltotal'):
                d = {'kernel': g['kname'], 'shape': g.get('shape'), 'error': r['error'], 'operand_dims': {n: o['dims'] for n, o in r['operands'].items()}}
                ctx.violation(f'{g["kname"]}:impl-raises-{r["error"]}:shape-{g.get("shape")}', f'{g["kname"]} raises {r["error"]} on valid operands {d}', d)
                found.append(d)
            continue
        kname = g['kname']
        vo, so, _ = KERNELS[kname]
        ops, rr = r['operands'], r['result']
        n_el = 1
        for s in rr['shape']:
            n_el *= s
        for k in range(n_el):
            idx = dict(zip(rr['dims'], kcorr.unravel(k, rr['shape'])))
            pick = lambda st: idx.get(st['dims'][0], 0) if st['dims'] else 0  # noqa: E731
            V = {}
            for n in vo:
                st = ops[n]
                v = st['values'][pick(st) if len(st['values']) > 1 else 0]
                m = fr(st['unit']['mult'])
                V[n] = [fr(c) * m for c in v]
            out = rr['values'][k]
            if rr['dtype'] == 'vector3':
                if any(isinstance(c, str) for c in out):
                    continue
                got = [float(fr(c) * fr(rr['unit']['mult'])) for c in out]
                a, b = (V['sample'], V['source']) if kname == 'incident_beam' else (V['position'], V['sample'])
                want = [float(x - y) for x, y in zip(a, b)]
                sc = sum(abs(c) for c in want) or 1.0
                bad = any(abs(x - y) > 1e-14 * sc for x, y in zip(got, want))
            else:
                if isinstance(out, str):
                    if kname in ANGLE:
                        continue   # NaN for a zero beam
                    got, want, bad = out, None, True
                else:
                    got = float(fr(out) * fr(rr['unit']['mult']))
                    sub = lambda a, b: [x - y for x, y in zip(a, b)]  # noqa: E731
                    if kname in ('L1', 'L2'):
                        want = exact_norm(V['b1'])
                    elif kname == 'Ltotal':
                        want = sum(float(fr(ops[n]['values'][pick(ops[n]) if len(ops[n]['values']) > 1 else 0]) * fr(ops[n]['unit']['mult'])) for n in so)
                    elif kname == 'Ltotal_no_scatter':
                        want = exact_norm(sub(V['position'], V['source']))
                    elif kname == 'pos>L1':
                        want = exact_norm(sub(V['sample'], V['source']))
                    elif kname == 'pos>L2':
                        want = exact_norm(sub(V['position'], V['sample']))
                    elif kname == 'pos>Ltotal':
                        want = exact_norm(sub(V['sample'], V['source'])) + exact_norm(sub(V['position'], V['sample']))
                    elif kname == 'two_theta':
                        want = py_angle(V['b1'], V['b2'])
                    else:
                        want = py_angle(sub(V['sample'], V['source']), sub(V['position'], V['sample']))
                    if want != want:
                        continue
                    if kname in ANGLE:
                        bad = abs(got - want) > 6e-15 or not (0.0 <= got <= math.pi + 1e-15)
                    else:
                        bad = abs(got - want) > (1e-14 if not any(ops[n]['dtype'] == 'float32' for n in so) else 1e-6) * abs(want)
            if bad:
                d = {'kernel': kname, 'got_si': got, 'euclidean_si': want,
                     'operands': {n: (vdesc(ops[n], pick(ops[n])) if n in vo else kcorr.describe(ops[n], pick(ops[n]))) for n in vo + so}}
                ctx.violation(f'{kname}:euclid', f'{kname} returns {got} where the Euclidean definition gives {want}', d)
                found.append(d)
                break
    # invariances (implementation against implementation)
    iterms, idescs, rterms = run_invariance(ctx, rng, 10)
    for t, d in zip(iterms, idescs):
        if d['check'].endswith('-raises') or abs(d.get('base', 0) - d.get('variant', 0)) > d.get('tol', 0):
            ctx.violation(f'two_theta:invariance-{d["check"]}', f'two_theta is not invariant under {d["check"]}: {d}', {'case': d})
            found.append(d)
            break
    return found


def py_angle(a, b):
    """independent oracle: exact rational dot and cross products, then one float atan2 (error ~4e-16)"""
    cx = (a[1] * b[2] - a[2] * b[1], a[2] * b[0] - a[0] * b[2], a[0] * b[1] - a[1] * b[0])
    dot = a[0] * b[0] + a[1] * b[1] + a[2] * b[2]
    c2 = cx[0] * cx[0] + cx[1] * cx[1] + cx[2] * cx[2]
    na = a[0] * a[0] + a[1] * a[1] + a[2] * a[2]
    nb = b[0] * b[0] + b[1] * b[1] + b[2] * b[2]
    if na == 0 or nb == 0:
        return float('nan')
    # normalise exactly before converting to float: sin^2 = c2/(na nb), cos = dot/sqrt(na nb)
    s2 = c2 / (na * nb)
    sgn = 1.0 if dot >= 0 else -1.0
    c2_ = dot * dot / (na * nb)
    return math.atan2(math.sqrt(float(s2)), sgn * math.sqrt(float(c2_)))


def replay(ctx, obj):
    """re-run the recorded input on the implementation and print observed vs required behaviour"""
    import json
    rp = obj.get('replay', {})
    case = rp.get('case') or rp
    print(json.dumps({k: obj.get(k) for k in ('property', 'key', 'what')}, indent=1, default=str))
    sets = []
    if case.get('operands') and case.get('kernel') in KERNELS:
        sets.append((case['kernel'], case['operands'], case.get('operand_dims', {})))
    for nm in ('operands_base', 'operands_variant'):
        if case.get(nm):
            sets.append(('two_theta' if 'b1' in case[nm] else 'pos>two_theta', case[nm], {}))
    for kname, ops, dims in sets:
        built = {}
        for n, o in ops.items():
            dim = (dims.get(n) or [None])[0]
            if isinstance(o['value'], list):
                built[n] = vop([o['value']], o['unit'], dim)
            else:
                v = o['value']
                built[n] = {'values': [v if o['dtype'].startswith('int') else hexf(v)], 'unit': o['unit'], 'dtype': o['dtype'], 'dim': dim}
        res = ctx.run_impl('kernels_impl.py', {'groups': [{'id': 0, 'expr': KERNELS[kname][2], 'operands': built}]})['groups'][0]
        if 'error' in res:
            print(f'{kname}: implementation raises {res["error"]}: {res.get("error_text")}  (operand dims {dims})')
            print('required: the Euclidean value for every broadcastable combination of scalar / per-pixel operands')
            continue
        rr = res['result']
        val = rr['values'][0]
        print(f'{kname}: implementation returns {kcorr.fmt(val)} {rr["unit"]["name"]}')
        V = {n: [fr(c) * fr(res['operands'][n]['unit']['mult']) for c in res['operands'][n]['values'][0]]
             for n in ops if res['operands'][n]['dtype'] == 'vector3'}
        sub = lambda a, b: [x - y for x, y in zip(a, b)]  # noqa: E731
        if kname == 'two_theta':
            print('required (Euclidean angle, exact rational dot/cross + atan2):', py_angle(V['b1'], V['b2']), 'rad +- 4e-15')
        elif kname == 'pos>two_theta':
            print('required:', py_angle(sub(V['sample'], V['source']), sub(V['position'], V['sample'])), 'rad +- 4e-15')
    return 0
