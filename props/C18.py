"""C18 — cylinder absorption: path lengths, quadrature and transmission are geometric.

Every run:
  TRANSLATE      tools/py2coq.py regenerates the scalar helpers that fit the translator subset:
                 _minimum/_maximum/_max0/_positive_interval_intersection, Cylinder.center, Cylinder.volume
                 (cylinder.py), _transmission_fraction (base.py), Material.attenuation_coefficient,
                 reference_wavelength;
  pre_build      Run.GenQuad  = disk12 / disk55 / disk256_cheb of the CURRENT quadratures.py and numpy's
                                leggauss(5..15) / chebgauss(7..35) as exact rationals of the floats,
                 Run.GenAngle = which angle formula Cylinder.quadrature uses (asin|z x a| or atan2(|z x a|, z.a));
  coq-run/C18    Corr.v (comparison functions), Tie.v (table facts by vm_compute lifted to R; the regenerated
                 helpers equal the hand model), Properties.v (property theorems + Print Assumptions);
  correspondence path lengths of rays of six classes on random solids and of rays starting exactly ON the boundary
                 (end-face planes, edge circles, lateral surface; directions exactly perpendicular / parallel to the
                 axis, tangent, tilted) of solids on a dyadic grid, compared with the closed-solid value of the exact
                 model; every quadrature point (exact inside test), weights,
                 the model's points, transmission values and their range / monotonicity / invariances,
                 all compared INSIDE Coq with the hand model coq/C18/Model.v run at exact rationals.
"""
import ast
import json
import math
import os
import random
from fractions import Fraction

import vlib

ID = 'C18'
LEVEL = 'proof'
TRANSLATE = {
    'modules': [
        {'py': 'src/scippneutron/atoms/__init__.py', 'coq': 'GenAtoms', 'functions': ['reference_wavelength']},
        {'py': 'src/scippneutron/absorption/material.py', 'coq': 'GenMaterial',
         'imports': {'reference_wavelength': 'GenAtoms'},
         'functions': ['Material.attenuation_coefficient'], 'requires': ['Verif.C18.SemExt']},
        {'py': 'src/scippneutron/absorption/cylinder.py', 'coq': 'GenCyl',
         'functions': ['_minimum', '_maximum', '_max0', '_positive_interval_intersection',
                       'Cylinder.center', 'Cylinder.volume'],
         'requires': ['Verif.C18.SemExt']},
        {'py': 'src/scippneutron/absorption/base.py', 'coq': 'GenBase', 'functions': ['_transmission_fraction'],
         'requires': ['Verif.C18.SemExt'],
         'section': ["Variable m_attenuation_coefficient : forall O' : Fops, val O' -> val O' -> val O'."]},
    ],
    'methods': {'attenuation_coefficient': ['m_attenuation_coefficient', ['wavelength'], []]},
}
GEN_FILES = ['GenQuad.v', 'GenAngle.v']
RUN_FILES = ['Corr.v', 'Tie.v', 'Properties.v']
COQ_TIMEOUT = 900
TRUSTED = [
    'coq/C18/Model.v: HAND model of Cylinder.beam_intersection, _line_infinite_cylinder_intersection, _line_slab_intersection, '
    '_positive_interval_intersection, quadrature, _cylinder_quadrature_from_product, the Chebyshev weight normalisation, '
    'compute_transmission_map (tied to the code by the correspondence; the min/max/max0/interval helpers, center, volume and '
    '_transmission_fraction additionally by translation, Tie.v)',
    'modelled library behaviour: sc.cross/dot/norm component formulas, sc.where = selection, IEEE +-inf/NaN ordering, '
    'rotations_from_rotvecs(u)*p = Rodrigues rotation about u/|u| by |u|, numpy repeat/tile order, round() = half-to-even',
    'tools/py2coq.py (syntactic translator, fail-closed); coq/Sem/Val.v model of scipp unit algebra, where, comparisons, .to(unit=), exp',
    'coq/C18/SemExt.v: dataclass instances as attribute records',
    'numpy.polynomial leggauss/chebgauss are taken as data (their values are regenerated each run, facts about them are checked, not proved)',
    'coq/Sem/QInst.v rational approximations of sqrt/sin/cos/atan2/asin/exp (correspondence only, relative error < 1e-30)',
    'tools/harness/c18_impl.py + props/C18.py (case generation, exact dyadic serialisation of every observed float); comparisons are executed by Coq',
    'props/C18.py decisions_robust: selects the rays that are compared with the exact model of the closed solid without the backward-error '
    'bracket (every floating-point comparison of beam_intersection evaluated exactly or far from its threshold); it assumes that scipp '
    'evaluates dot / cross with separately rounded products (no fused multiply-add: a x a = 0 and equal products cancel -- observed); '
    'a wrong selection can only cause a false alarm or a weaker (bracket) comparison',
    'Interval tactic (Coq library) for the bounds |table sum - PI|',
]
ASSUMPTIONS = [
    'theorems are over exact reals for unit axis and unit direction; floating-point evaluation is covered by the correspondence: '
    'path lengths within 1e-12 max(r,h) (+1e-14 |base-start|) of the exact value of the stored operands (rays whose every floating-point '
    'decision is evaluated exactly or far from its threshold -- in particular rays that start exactly on an end face, an edge circle or the '
    'lateral surface of a solid with grid coordinates: 1e-12 max(r,h) + 1e-13 |base-start| of the closed-solid value, no bracket), and for nearly tangent rays '
    'between the exact values for radius r(1-+d), height h(1-+2d), d = min(1e-3, 1e-14 (1+|b|/r)/|n x a|) (backward error of the square root)',
    'quadrature_points_inside is stated for axes with |z x a| = 0 or >= 1e-10 (the source does not rotate below that threshold: '
    'for 0 < |z x a| < 1e-10 the rule is placed for the axis +-z, i.e. tilted by < 1e-10 rad)',
    'sum of weights = volume: _cylinder_quadrature_from_product normalises the disk weights to PI (fix 1fd06eb), the Chebyshev line '
    'weights are normalised to 2 by the source: the sum is EXACTLY the volume for medium/expensive (theorem) and within 4e-12 r^2 h / 2 '
    'for cheap (numpy Gauss-Legendre weights sum to 2 within 1e-12, checked on the regenerated tables)',
    'moments: degree <= 1 for every kind and degree <= 3 along the axis for the Gauss-Legendre rule are proved as identities in the table '
    'moments; the table moments themselves are checked to 1e-12 by vm_compute, not proved; higher disk degrees are not claimed',
    'rigid-motion / other-end invariance is proved for path lengths; for the transmission MAP it holds only up to the quadrature error '
    '(the placed disk rule is not rotation invariant): checked on the implementation with tolerance 4e-2 / 4e-3 / 5e-4 for '
    "'cheap'/'medium'/'expensive' at mu*r <= 1, 0.2 <= h/r <= 5",
    "the Monte-Carlo kinds ('mc') are outside the property (not deterministic)",
]
LEVEL_TEXT = ('Proof (Coq, reals): the model\'s cylinder/slab intervals are exactly the ray parameters inside the solid, the returned '
              'length is the length of {t>=0 : inside}, invariant under rigid motions and under describing the solid from its other end; the solid is closed: '
              'a ray perpendicular to the axis from any point of the closed slab (end-face planes included) has the length of its part within the radius, the same at '
              'every height (r from center_of_base and from the top centre), a ray parallel to the axis from any point of the closed solid (lateral surface included) '
              'at height z has length h - z / z; '
              'with the atan2 angle every placed quadrature point is inside for every admissible unit axis, weights are positive and sum to '
              'the volume (exactly for the Chebyshev kinds, 4e-12 relative for Gauss-Legendre), centroid and axial moments are exact in the table moments; the transmission of any positive rule '
              'lies in (0, sum w/V], equals sum w/V without attenuation and decreases with mu.  The asin angle of the unfixed source is refuted.')
LEVEL_NOTE = ('Trusted: Coq kernel, std-lib real axioms, Interval; the hand model (validated per run against the implementation on rays of all '
              'classes, all quadrature points, weights, transmission values), py2coq + Sem/Val.v for the translated helpers.')
TECHNIQUE = ('hand-written executable Gallina model generic over the arithmetic (proofs at R with nsatz/lra/interval, execution at Q) + '
             'translated scalar helpers proved equal to the model + tables regenerated each run + vm_compute correspondence with exact '
             'dyadic data and a monotone-bracket comparison for ill-conditioned (tangent) rays')

KINDS = ['cheap', 'medium', 'expensive']
DISK = {'cheap': 'disk12', 'medium': 'disk55', 'expensive': 'disk256_cheb'}
NDISK_FALLBACK = {'cheap': 12, 'medium': 55, 'expensive': 257}
INV_TOL = {'cheap': 4e-2, 'medium': 4e-3, 'expensive': 5e-4}
ONE_TOL = {'cheap': 1e-12, 'medium': 1e-12, 'expensive': 1e-12}


# ------------------------------------------------------------------ exact dyadic serialisation
def dyad(x):
    """float -> (m, e) with x = m * 2^e exactly, m odd or 0"""
    x = float(x)
    if x == 0.0:
        return 0, 0
    m, e = math.frexp(x)
    m = int(m * (1 << 53))
    e -= 53
    while m % 2 == 0:
        m //= 2
        e += 1
    return m, e


def fx(h):
    return float.fromhex(h) if isinstance(h, str) else float(h)


def d_term(x):
    m, e = dyad(fx(x))
    return f'({"N" if m < 0 else "P"} {abs(m)}%uint63 ({e}))'


def v_term(v):
    return '(' + ', '.join(d_term(c) for c in v) + ')'


def dq_term(x):
    m, e = dyad(fx(x))
    return f'(dq ({m}) ({e}))'


def cyl_term(st):
    return f'(mkcd {v_term(st["axis"])} {v_term(st["base"])} {d_term(st["r"])} {d_term(st["h"])})'


def hx(x):
    return float(x).hex()


# ------------------------------------------------------------------ generation of Run.GenQuad / Run.GenAngle
def classify_angle(src):
    """which angle formula multiplies the rotation vector in Cylinder.quadrature"""
    tree = ast.parse(src)
    for node in ast.walk(tree):
        if isinstance(node, ast.ClassDef) and node.name == 'Cylinder':
            for f in node.body:
                if isinstance(f, ast.FunctionDef) and f.name == 'quadrature':
                    zs = set()
                    for st in ast.walk(f):
                        if (isinstance(st, ast.Assign) and len(st.targets) == 1 and isinstance(st.targets[0], ast.Name)
                                and ast.unparse(st.value).replace(' ', '') in ('sc.vector([0,0,1])', 'sc.vector([0,0,1.0])',
                                                                               'sc.vector([0.0,0.0,1.0])')):
                            zs.add(st.targets[0].id)
                    for st in ast.walk(f):
                        if (isinstance(st, ast.AugAssign) and isinstance(st.op, ast.Mult) and isinstance(st.target, ast.Name)
                                and st.target.id == 'u' and isinstance(st.value, ast.BinOp) and isinstance(st.value.op, ast.Div)
                                and isinstance(st.value.right, ast.Name) and st.value.right.id == 'un'):
                            e = st.value.left
                            text = ast.unparse(e)
                            if text.replace(' ', '') == 'sc.asin(un)':
                                return text, 'AngAsin'
                            if (isinstance(e, ast.Call) and ast.unparse(e.func) == 'sc.atan2' and not e.args
                                    and {k.arg for k in e.keywords} == {'x', 'y'}):
                                kw = {k.arg: k.value for k in e.keywords}
                                y_ok = isinstance(kw['y'], ast.Name) and kw['y'].id == 'un'
                                x = kw['x']
                                x_ok = False
                                if isinstance(x, ast.Call) and ast.unparse(x.func) == 'sc.dot' and len(x.args) == 2:
                                    parts = [ast.unparse(a).replace(' ', '') for a in x.args]
                                    zlike = [p for p in parts if p in zs or p in ('sc.vector([0,0,1])', 'sc.vector([0,0,1.0])')]
                                    x_ok = 'self.symmetry_line' in parts and len(zlike) == 1
                                if y_ok and x_ok:
                                    return text, 'AngAtan2'
                            return text, None
    return '<not found>', None


def pre_build(ctx):
    res = ctx.run_impl('c18_impl.py', {'mode': 'tables'})
    out = ['(* GENERATED by props/C18.py pre_build from the CURRENT scippneutron/absorption/quadratures.py and numpy —',
           '   do not edit. Every entry is the exact rational value of the float literal. *)',
           'From Coq Require Import ZArith QArith List.', 'From Verif.C18 Require Import QData.',
           'Import ListNotations.', '']
    for name in ('disk12', 'disk55', 'disk256_cheb'):
        rows = res['disk'][name]
        out.append(f'Definition {name} : list (Q * Q * Q) := [')
        out.append(';\n'.join(f'  ({dq_term(x)}, {dq_term(y)}, {dq_term(w)})' for x, y, w in rows))
        out.append('].\n')
    for nm, key in (('leg_tables', 'leg'), ('cheb_tables', 'cheb')):
        out.append(f'Definition {nm} : list (Z * list (Q * Q)) := [')
        ents = []
        for k in sorted(res[key], key=int):
            ents.append(f'  ({int(k)}%Z, [' + '; '.join(f'({dq_term(x)}, {dq_term(w)})' for x, w in res[key][k]) + '])')
        out.append(';\n'.join(ents))
        out.append('].\n')
    with open(os.path.join(ctx.build, 'GenQuad.v'), 'w') as f:
        f.write('\n'.join(out))
    ctx.tables = res
    src = open(os.path.join(vlib.REPO, 'src/scippneutron/absorption/cylinder.py'), encoding='utf-8').read()
    text, mode = classify_angle(src)
    ctx.angle = (text, mode)
    with open(os.path.join(ctx.build, 'GenAngle.v'), 'w') as f:
        f.write('(* GENERATED by props/C18.py pre_build: the angle expression in Cylinder.quadrature (u *= <angle> / un). *)\n'
                'From Coq Require Import String.\nFrom Verif.C18 Require Import Model.\nOpen Scope string_scope.\n'
                f'Definition angle_src : string := "{text.replace(chr(34), chr(34) * 2)}".\n'
                f'Definition angle_known : bool := {"true" if mode else "false"}.\n'
                f'Definition src_angle_mode : angle_mode := {mode or "AngAtan2"}.\n')
    ctx.note(f'angle formula in Cylinder.quadrature: {text}  ->  {mode or "UNRECOGNISED"}')


# ------------------------------------------------------------------ case generation
def loguniform(rng, lo, hi):
    return math.exp(rng.uniform(math.log(lo), math.log(hi)))


def unitvec(rng):
    while True:
        v = [rng.gauss(0, 1) for _ in range(3)]
        n = math.sqrt(sum(x * x for x in v))
        if n > 1e-3:
            return [x / n for x in v]


def normalise(v):
    n = math.sqrt(sum(x * x for x in v))
    return [x / n for x in v]


def cross(a, b):
    return [a[1] * b[2] - a[2] * b[1], a[2] * b[0] - a[0] * b[2], a[0] * b[1] - a[1] * b[0]]


def frame(rng, a):
    while True:
        e1 = cross(a, unitvec(rng))
        n = math.sqrt(sum(x * x for x in e1))
        if n > 0.1:
            break
    e1 = [x / n for x in e1]
    return e1, cross(a, e1)


def lin(*terms):
    out = [0.0, 0.0, 0.0]
    for k, v in terms:
        for i in range(3):
            out[i] += k * v[i]
    return out


SPECIAL_AXES = [
    ('+z', [0.0, 0.0, 1.0]), ('-z', [0.0, 0.0, -1.0]), ('+x', [1.0, 0.0, 0.0]), ('-x', [-1.0, 0.0, 0.0]),
    ('+y', [0.0, 1.0, 0.0]), ('-y', [0.0, -1.0, 0.0]), ('F8b-witness', [0.0, 0.6, -0.8]),
    ('near+z', normalise([3e-7, -4e-7, 1.0])), ('near-z', normalise([2e-6, 1e-6, -1.0])),
    ('below-threshold+z', normalise([3e-11, 4e-11, 1.0])), ('below-threshold-z', normalise([-5e-11, 2e-11, -1.0])),
    ('equator', normalise([0.6, -0.8, 0.0])), ('all-negative', normalise([-1.0, -2.0, -2.0])),
]


def axis_class(a):
    un = math.hypot(a[0], a[1])
    if un == 0.0:
        return 'exact-z' if a[2] > 0 else 'exact-minus-z'
    if un < 1e-10:
        return 'below-threshold'
    return 'z-negative' if a[2] < 0 else 'z-nonnegative'


def gen_cylinder(rng, i):
    if i < len(SPECIAL_AXES):
        aname, a = SPECIAL_AXES[i]
    else:
        aname, a = 'random', unitvec(rng)
    style = rng.choice(['origin', 'near', 'far'])
    base = [0.0, 0.0, 0.0] if style == 'origin' else \
        [rng.uniform(-1, 1) * (10.0 if style == 'near' else 1e3) for _ in range(3)]
    r = loguniform(rng, 1e-3, 1e3)
    h = loguniform(rng, 1e-3, 1e3)
    shape = rng.random()
    if shape < 0.5:                           # comparable dimensions half of the time
        h = r * loguniform(rng, 0.05, 20.0)
        h = min(max(h, 1e-3), 1e3)
    elif shape < 0.6:                         # needle: h/r = 1e4 .. 1e6
        r = loguniform(rng, 1e-3, 1e-1)
        h = min(r * loguniform(rng, 1e4, 1e6), 1e3)
    elif shape < 0.7:                         # wafer: r/h = 1e4 .. 1e6
        h = loguniform(rng, 1e-3, 1e-1)
        r = min(h * loguniform(rng, 1e4, 1e6), 1e3)
    return {'axis': a, 'axis_name': aname, 'base': base, 'r': r, 'h': h, 'unit': rng.choice(['mm', 'm'])}


# ------------------------------------------------------------------ radius / height / base in DIFFERENT length units
# metres per unit.  The dataclass stores what it is given: Cylinder.quadrature / volume / center must convert.  The
# current source adds center_of_base and symmetry_line * height (center, hence quadrature: height and base must share
# a unit, otherwise scipp raises UnitError) and subtracts r^2-terms from base^2-terms in beam_intersection (UnitError
# whenever the radius has another unit than the base): a refusal (exception) is an admissible outcome, a returned
# value is not exempt -- it is converted to the unit of center_of_base and compared like any other.
LENGTH_UNITS = {'um': Fraction(1, 10 ** 6), 'mm': Fraction(1, 1000), 'cm': Fraction(1, 100), 'm': Fraction(1)}
MIXED_PATTERNS = ['radius-differs', 'radius-differs', 'radius-differs', 'height-differs', 'all-differ']


def gen_mixed_cylinder(rng, i):
    """a solid 1e-3..1e3 (numbers as given, each in its own unit) whose radius (and, for the refusal classes, height)
    is given in another length unit than center_of_base; `r`, `h` are the numbers as given, `unit` the unit of the base"""
    if i < len(SPECIAL_AXES):
        aname, a = SPECIAL_AXES[(5 * i + 6) % len(SPECIAL_AXES)]      # the F8b witness first, then through the list
    else:
        aname, a = 'random', unitvec(rng)
    pattern = MIXED_PATTERNS[i % len(MIXED_PATTERNS)]
    bu = rng.choice(['mm', 'cm', 'm'])
    ru = rng.choice([x for x in LENGTH_UNITS if x != bu])
    hu = bu if pattern == 'radius-differs' else rng.choice([x for x in LENGTH_UNITS if x != bu])
    if pattern == 'height-differs':
        ru = bu
    f_r = float(LENGTH_UNITS[bu] / LENGTH_UNITS[ru])                  # number in ru = number in bu * f_r
    f_h = float(LENGTH_UNITS[bu] / LENGTH_UNITS[hu])
    for _ in range(200):
        h_b = loguniform(rng, 1e-3, 1e3) / f_h                        # the height in the unit of the base
        ratio = loguniform(rng, 0.05, 20.0) if rng.random() < 0.7 else loguniform(rng, 1e-4, 1e4)
        r_b = h_b / ratio
        if 1e-3 <= r_b * f_r <= 1e3:
            break
    else:
        r_b = 1.0 / f_r
    style = rng.choice(['origin', 'near', 'far'])
    base = [0.0, 0.0, 0.0] if style == 'origin' else \
        [rng.uniform(-1, 1) * (10.0 if style == 'near' else 1e3) for _ in range(3)]
    # round numbers as a user writes them every third time (3 mm, 0.3 cm)
    r, h = r_b * f_r, h_b * f_h
    if i % 3 == 0:
        r, h = float(f'{r:.1g}'), float(f'{h:.1g}')
    return {'axis': a, 'axis_name': aname, 'base': base, 'r': r, 'h': h, 'unit': bu, 'r_unit': ru, 'h_unit': hu,
            'pattern': pattern,
            'r_in_base_unit': float(Fraction(r) * LENGTH_UNITS[ru] / LENGTH_UNITS[bu]),
            'h_in_base_unit': float(Fraction(h) * LENGTH_UNITS[hu] / LENGTH_UNITS[bu])}


def gen_rays(rng, c, n_each):
    a, B, r, h = c['axis'], c['base'], c['r'], c['h']
    e1, e2 = frame(rng, a)
    rays = []
    for _ in range(n_each):
        # start inside
        rho, ph, z = r * math.sqrt(rng.random()), rng.uniform(0, 2 * math.pi), h * rng.random()
        s = lin((1, B), (z, a), (rho * math.cos(ph), e1), (rho * math.sin(ph), e2))
        rays.append({'cls': 'inside', 's': s, 'n': unitvec(rng)})
        # start outside: aimed at the solid, or anywhere
        s = lin((1, B), (loguniform(rng, 0.1, 100) * max(r, h), unitvec(rng)))
        if rng.random() < 0.7:
            tgt = lin((1, B), (h * rng.random(), a), (r * rng.random(), e1))
            n = normalise([t - x for t, x in zip(tgt, s)])
        else:
            n = unitvec(rng)
        rays.append({'cls': 'outside', 's': s, 'n': n})
        # parallel to the axis (exactly +-a) or to the end faces (exactly perpendicular where representable)
        rho = r * rng.uniform(0, 1.5)
        s = lin((1, B), (rng.uniform(-2, 3) * h, a), (rho, e1))
        if rng.random() < 0.6:
            n = [x * rng.choice([1.0, -1.0]) for x in a]
        else:
            n = [x * rng.choice([1.0, -1.0]) for x in (e1 if rng.random() < 0.5 else e2)]
        rays.append({'cls': 'parallel', 's': s, 'n': n})
        # tangent to the lateral surface (optionally tilted along the axis), or grazing the rim of an end face
        ph = rng.uniform(0, 2 * math.pi)
        radial = lin((math.cos(ph), e1), (math.sin(ph), e2))
        tang = lin((-math.sin(ph), e1), (math.cos(ph), e2))
        if rng.random() < 0.7:
            p = lin((1, B), (rng.random() * h, a), (r, radial))
            tilt = rng.choice([0.0, 0.3, 1.2, 1.5])
            n = normalise(lin((math.cos(tilt), tang), (math.sin(tilt), a)))
        else:
            p = lin((1, B), (rng.choice([0.0, h]), a), (r, radial))
            n = normalise(lin((rng.uniform(-1, 1), tang), (rng.uniform(-1, 1), a), (rng.uniform(-0.2, 0.2), radial)))
        s = lin((1, p), (-loguniform(rng, 0.1, 100) * r, n))
        rays.append({'cls': 'tangent', 's': s, 'n': n})
        # NEARLY parallel to the axis (tilt 1e-9 .. 1e-2, chosen around r/h for slender solids so that the side wall
        # decides), starting inside or next to the solid
        lo_t, hi_t = (max(1e-9, 0.05 * r / h), min(1e-2, 50 * r / h)) if r / h < 1e-3 else (1e-9, 1e-3)
        tilt = loguniform(rng, lo_t, max(hi_t, lo_t * 10))
        ph = rng.uniform(0, 2 * math.pi)
        n = normalise(lin((rng.choice([1.0, -1.0]), a), (tilt * math.cos(ph), e1), (tilt * math.sin(ph), e2)))
        rho = r * rng.choice([0.0, rng.random(), rng.uniform(1.0, 2.0)])
        ph2 = rng.uniform(0, 2 * math.pi)
        s = lin((1, B), (rng.uniform(-0.5, 1.5) * h, a), (rho * math.cos(ph2), e1), (rho * math.sin(ph2), e2))
        rays.append({'cls': 'near-parallel', 's': s, 'n': n})
        # NEARLY perpendicular to the axis (n.a = 1e-9 .. 1e-2, around h/r for flat solids so that the end faces decide)
        lo_t, hi_t = (max(1e-9, 0.05 * h / r), min(1e-2, 50 * h / r)) if h / r < 1e-3 else (1e-9, 1e-3)
        tilt = loguniform(rng, lo_t, max(hi_t, lo_t * 10))
        ph = rng.uniform(0, 2 * math.pi)
        n = normalise(lin((tilt * rng.choice([1.0, -1.0]), a), (math.cos(ph), e1), (math.sin(ph), e2)))
        z = h * rng.choice([0.5, rng.random(), rng.uniform(-1.0, 0.0), rng.uniform(1.0, 2.0)])
        s = lin((1, B), (z, a), (rng.uniform(-1.5, 1.5) * r, e1), (rng.uniform(-1.5, 1.5) * r, e2))
        rays.append({'cls': 'near-perpendicular', 's': s, 'n': n})
    return rays


# ------------------------------------------------------------------ exactly representable solids, rays ON the boundary
# Closed solid: a ray that starts in an end-face plane and runs exactly perpendicular to the axis, or starts on the
# lateral surface and runs exactly parallel to the axis, stays in the boundary of the solid and its path length is the
# chord / the remaining height (Spec.inside is closed; path_length_is_measure).  The implementation decides these cases
# with ==, <=, >= on floating-point dot products, so they are only well defined when those dot products are evaluated
# exactly: the solids below have coordinates on a dyadic grid (multiples of q = 2^e) and axes that are coordinate axes or
# lie in a coordinate plane (any angle; the third coordinate axis is then an exactly perpendicular direction).
INPLANE_SPECIAL = [(0.6, -0.8), (0.6, 0.8), (-0.8, -0.6), (0.28, -0.96), (math.sqrt(0.5), math.sqrt(0.5)), (-0.96, 0.28)]
BOUNDARY_POSITIONS = ['on-base-centre', 'on-top-centre', 'on-base-face', 'on-top-face', 'on-base-edge', 'on-top-edge',
                      'in-base-plane-outside', 'in-top-plane-outside', 'on-lateral', 'grid-interior', 'grid-beyond-base',
                      'grid-beyond-top']


def unit3(k, sign=1.0):
    v = [0.0, 0.0, 0.0]
    v[k] = sign
    return v


def gen_exact_cylinder(rng, i):
    if i < 6 or (i >= 12 and rng.random() < 0.4):
        k, sign = (i // 2, 1.0 if i % 2 == 0 else -1.0) if i < 6 else (rng.randrange(3), rng.choice([1.0, -1.0]))
        a = unit3(k, sign)
        e1 = unit3((k + 1) % 3, rng.choice([1.0, -1.0]))
        aname, aligned, p = 'grid:' + '+-'[sign < 0] + 'xyz'[k], True, None
    else:
        p = i % 3 if i < 12 else rng.randrange(3)              # the coordinate axis perpendicular to the symmetry axis
        if i < 12:
            c, s = INPLANE_SPECIAL[i - 6]
        else:
            th = rng.uniform(0, 2 * math.pi)
            c, s = math.cos(th), math.sin(th)
            n = math.hypot(c, s)
            c, s = c / n, s / n
        a = [0.0, 0.0, 0.0]
        a[(p + 1) % 3], a[(p + 2) % 3] = c, s
        e1 = unit3(p, rng.choice([1.0, -1.0]))
        aname, aligned = 'grid:in-plane-' + ['yz', 'zx', 'xy'][p], False
    e2 = cross(a, e1)
    q = 2.0 ** rng.randint(-9, 4)
    mr, mh = rng.randint(1, 60), rng.randint(1, 60)
    style = rng.choice(['origin', 'near', 'far'])
    kmax = {'origin': 0, 'near': 64, 'far': 1 << 20}[style]
    base = [q * rng.randint(-kmax, kmax) for _ in range(3)]
    if not aligned and style != 'origin':                      # anywhere within the plane of the axis
        for j in ((p + 1) % 3, (p + 2) % 3):
            base[j] = rng.uniform(-1, 1) * (10.0 if style == 'near' else 1e3)
    return {'axis': a, 'axis_name': aname, 'base': base, 'r': mr * q, 'h': mh * q, 'unit': rng.choice(['mm', 'm']),
            'e1': e1, 'e2': e2, 'q': q, 'mr': mr, 'mh': mh, 'aligned': aligned}


def gen_boundary_rays(rng, c, n_tilted=2):
    """start points exactly in the base / top plane (centre, face, edge circle, outside the disk), on the lateral
    surface, and (controls) strictly inside / beyond the caps; directions exactly perpendicular to the axis (inward,
    outward, tangent, oblique), exactly parallel (both senses) and tilted inward / outward"""
    a, B, r, h, q = c['axis'], c['base'], c['r'], c['h'], c['q']
    mr, mh = c['mr'], c['mh']
    rays = []
    for pos in BOUNDARY_POSITIONS:
        us = [c['e1'], [-x for x in c['e1']]] + ([c['e2'], [-x for x in c['e2']]] if c['aligned'] else [])
        u = rng.choice(us)
        rho_in = q * (rng.randint(1, mr - 1) if mr > 1 else 0.5)
        z_in = q * (rng.randint(1, mh - 1) if mh > 1 else 0.5)
        z, rho = {'on-base-centre': (0.0, 0.0), 'on-top-centre': (h, 0.0), 'on-base-face': (0.0, rho_in), 'on-top-face': (h, rho_in),
                  'on-base-edge': (0.0, r), 'on-top-edge': (h, r),
                  'in-base-plane-outside': (0.0, r + q * rng.randint(1, 2 * mr)), 'in-top-plane-outside': (h, r + q * rng.randint(1, 2 * mr)),
                  'on-lateral': (z_in, r), 'grid-interior': (z_in, rho_in),
                  'grid-beyond-base': (-q * rng.randint(1, 2 * mh), rho_in), 'grid-beyond-top': (h + q * rng.randint(1, 2 * mh), rho_in)}[pos]
        s = lin((1, B), (z, a), (rho, u))
        w = cross(a, u)
        sg = rng.choice([1.0, -1.0])
        dirs = [('perp-inward', [-x for x in u]), ('perp-outward', list(u)), ('perp-tangent', [sg * x for x in w]),
                ('perp-oblique', lin((rng.choice([0.8, -0.8]), u), (rng.choice([0.6, -0.6]), w))),
                ('axial-up', list(a)), ('axial-down', [-x for x in a])]
        tilted = [(f'tilted-{"out" if su > 0 else "in"}-{"up" if sa > 0 else "down"}', su, sa) for su in (1.0, -1.0) for sa in (1.0, -1.0)]
        for name, su, sa in rng.sample(tilted, n_tilted):
            cu, ca = rng.choice([(1.0, 1.0), (0.6, 0.8), (0.8, 0.6)])
            dirs.append((name, normalise(lin((su * cu, u), (sa * ca, a)))))
        for dname, n in dirs:
            rays.append({'cls': pos, 's': s, 'n': n, 'dir': dname})
    return rays


def isdbl(fr):
    try:
        return Fraction(float(fr)) == fr
    except OverflowError:
        return False


def fl_dot(u, v):
    """(exact value of u.v, whether the floating-point evaluation gives exactly that value in any order of summation):
    every product and every partial sum is a double, or there are two non-zero products and they cancel (scipp's
    dot / cross are not contracted to fused multiply-adds: a x a == 0 and (0,.8,.6).(0,.6,-.8) == 0 are observed)"""
    pr = [x * y for x, y in zip(u, v)]
    E = sum(pr)
    nz = [x for x in pr if x != 0]
    if not nz or (len(nz) == 2 and nz[0] == -nz[1]):
        return E, True
    return E, all(isdbl(x) for x in pr) and all(isdbl(x) for x in (pr[0] + pr[1], pr[0] + pr[2], pr[1] + pr[2], E))


def fl_cross(u, v):
    out, ok = [], True
    for j, k in ((1, 2), (2, 0), (0, 1)):
        p1, p2 = u[j] * v[k], u[k] * v[j]
        out.append(p1 - p2)
        ok = ok and (p1 == p2 or (isdbl(p1) and isdbl(p2) and isdbl(p1 - p2)))
    return out, ok


def decisions_robust(st, s, n):
    """True when every comparison beam_intersection takes on this ray (direction parallel to the end faces? start
    between the planes? direction parallel to the axis? start within the radius? discriminant >= 0?) has the same
    outcome in floating point as in exact arithmetic on the stored operands -- the compared quantity is either
    evaluated exactly or far from its threshold -- and the result is well conditioned (|n.a|, |n x a| zero or >= 0.3,
    discriminant zero-and-exact or not small).  Such rays are compared with the exact model directly (CRayX); all others
    with the backward-error bracket (CRay)."""
    a = [Fraction(x) for x in st['axis']]
    B = [Fraction(x) for x in st['base']]
    r, h = Fraction(st['r']), Fraction(st['h'])
    sF = [Fraction(x) for x in s]
    nF = [Fraction(x) for x in n]
    b = [x - y for x, y in zip(B, sF)]
    b_ok = all(isdbl(x) for x in b)
    bda, bda_ok = fl_dot(b, a)
    bda_ok = bda_ok and b_ok
    nda, nda_ok = fl_dot(nF, a)
    if nda == 0:
        if not nda_ok:
            return False
        scale = max(sum(abs(x) for x in b), h)
        for thr in (0, -h):
            if bda == thr:
                if not bda_ok:
                    return False
            elif abs(bda - thr) <= scale / 10 ** 9:
                return False
    elif abs(nda) < Fraction(3, 10):
        return False
    nxa, nxa_ok = fl_cross(nF, a)
    nsq, nsq_ok = fl_dot(nxa, nxa)
    nsq_ok = nsq_ok and nxa_ok
    if nsq == 0:
        if not nxa_ok:
            return False
        w = [x - bda * y for x, y in zip(b, a)]
        E = sum(x * x for x in w)
        if E == r * r:
            if not (bda_ok and all(isdbl(bda * y) for y in a) and all(isdbl(x) for x in w) and fl_dot(w, w)[1]):
                return False
        elif abs(E - r * r) <= max(E, r * r) / 10 ** 9:
            return False
    elif nsq < Fraction(9, 100):
        return False
    else:
        bn, bn_ok = fl_dot(b, nxa)
        s2 = nsq * r * r - bn * bn
        ex = (nsq_ok and bn_ok and b_ok and isdbl(r * r) and isdbl(nsq * r * r) and isdbl(bn * bn) and isdbl(s2))
        if not ex and abs(s2) <= (nsq * r * r + bn * bn) / 100:
            return False
    return True


def rand_rotation(rng):
    k = unitvec(rng)
    th = rng.uniform(0.2, math.pi)
    c, s = math.cos(th), math.sin(th)
    K = [[0, -k[2], k[1]], [k[2], 0, -k[0]], [-k[1], k[0], 0]]
    M = [[(c if i == j else 0.0) + s * K[i][j] + (1 - c) * k[i] * k[j] for j in range(3)] for i in range(3)]
    if rng.random() < 0.3:                     # an improper orthogonal map (reflection) as well
        M = [[-x for x in row] for row in M]
    return M


def gen_trans(rng, kind, i):
    a = SPECIAL_AXES[6][1] if i == 0 else unitvec(rng)
    if i % 2 == 1:
        a = [a[0], a[1], -abs(a[2])]          # below the equator every other case
    unit = rng.choice(['mm', 'm'])
    r = loguniform(rng, 0.3, 30.0) if unit == 'mm' else loguniform(rng, 3e-4, 3e-2)
    h = r * loguniform(rng, 0.2, 5.0)
    base = [rng.uniform(-50, 50) * r for _ in range(3)]
    r_mm = r if unit == 'mm' else r * 1e3
    # mu = density * (sigma_s + sigma_a * lambda / 1.7982): mu * r <= 1 at the largest wavelength
    lam = sorted(loguniform(rng, 0.1, 20.0) for _ in range(3))
    mu_max = rng.choice([0.05, 0.3, 1.0]) / r_mm
    density = loguniform(rng, 1e-3, 1e3)
    frac = rng.random()
    sigma_s = frac * mu_max / density
    sigma_a = (1 - frac) * mu_max / density / (lam[-1] / 1.7982)
    det_unit = rng.choice(['m', 'mm'])
    cen = [b + h / 2 * x for b, x in zip(base, a)]
    f = (1e-3 if unit == 'mm' else 1.0) / (1e-3 if det_unit == 'mm' else 1.0)
    dets = []
    for _ in range(3):
        d = unitvec(rng)
        dist = loguniform(rng, 3, 3000) * max(r, h)
        dets.append([(c + dist * x) * f for c, x in zip(cen, d)])
    return {'cyl': {'axis': [hx(x) for x in a], 'base': [hx(x) for x in base], 'r': hx(r), 'h': hx(h), 'unit': unit},
            'kind': kind, 'sigma_s': hx(sigma_s), 'sigma_a': hx(sigma_a), 'density': hx(density),
            'wavelengths': [hx(x) for x in lam], 'beam': [hx(x) for x in unitvec(rng)],
            'dets': [[hx(x) for x in d] for d in dets], 'det_unit': det_unit,
            'variants': [{'M': [[hx(x) for x in row] for row in rand_rotation(rng)],
                          'tr': [hx(rng.uniform(-100, 100) * r) for _ in range(3)]}, {'flip': True}],
            'to_det': f}


IDENT = [[1.0, 0.0, 0.0], [0.0, 1.0, 0.0], [0.0, 0.0, 1.0]]
SIZE_CLASSES = {'small': (3e-4, 3e-3), 'medium': (3e-3, 3e-2), 'large': (3e-2, 3e-1)}      # radius in metres
DET_MODES = ['near', 'mixed', 'far']
# detectors: 'near' = 1.5..100 sample extents from the centre of the sample (extent = sqrt(r^2 + (h/2)^2), the
# largest distance of a point of the solid from its centre), 'far' = 100..1e5 extents


def rounding_tol(D, r, h):
    """relative tolerance for comparing the transmission of a set-up that sits D away from the coordinate origin
    with a translated copy: positions carry absolute errors of a few ulp(D), i.e. 2e-16 D / min(r, h) relative
    to the solid; 1e-13 D / min(r, h) leaves a factor 450 for the Lipschitz constant of the path lengths"""
    return 1e-9 + 1e-13 * D / min(r, h)


def gen_trans_displaced(rng, kind, i, n_det=4):
    """sample, beam and detectors 1 .. 1e3 m away from the coordinate origin (positions given relative to a
    source or a moderator, say), detectors near the sample, far from it, or both; variants: the same set-up
    translated back to the origin (pure translation: the placed rule is the same, agreement to rounding) and
    rotated + translated to another place (agreement to the accuracy of the quadrature)"""
    a = SPECIAL_AXES[(i // 4) % len(SPECIAL_AXES)][1] if i % 4 == 3 else unitvec(rng)
    if i % 2 == 1:
        a = [a[0], a[1], -abs(a[2])]
    unit = rng.choice(['mm', 'm'])
    u_m = 1e-3 if unit == 'mm' else 1.0                       # metres per unit of the cylinder
    size = list(SIZE_CLASSES)[i % 3]
    detmode = DET_MODES[(i + i // 3) % 3]                      # every (size, detector mode) pair within 9 consecutive cases
    r = loguniform(rng, *SIZE_CLASSES[size]) / u_m
    h = r * loguniform(rng, 0.2, 5.0)
    D = loguniform(rng, 1.0, 1e3) / u_m
    if rng.random() < 0.3:                                    # along a coordinate axis (z = beam line, typically)
        dirn = [0.0, 0.0, 0.0]
        dirn[rng.choice([0, 1, 2])] = rng.choice([1.0, -1.0])
    else:
        dirn = unitvec(rng)
    shift = [D * x for x in dirn]
    base0 = [rng.uniform(-2, 2) * r for _ in range(3)]
    base = [b + t for b, t in zip(base0, shift)]
    r_mm = r * u_m * 1e3
    lam = sorted(loguniform(rng, 0.1, 20.0) for _ in range(3))
    mu_max = rng.choice([0.05, 0.3, 1.0]) / r_mm
    density = loguniform(rng, 1e-3, 1e3)
    frac = rng.random()
    sigma_s = frac * mu_max / density
    sigma_a = (1 - frac) * mu_max / density / (lam[-1] / 1.7982)
    det_unit = rng.choice(['m', 'mm'])
    f = u_m / (1e-3 if det_unit == 'mm' else 1.0)
    ext = math.sqrt(r * r + h * h / 4)
    cen0 = [b + h / 2 * x for b, x in zip(base0, a)]
    dets, det_cls, det_dist = [], [], []
    for j in range(n_det):
        near = detmode == 'near' or (detmode == 'mixed' and j % 2 == 0)
        dist = (loguniform(rng, 1.5, 100.0) if near else loguniform(rng, 100.0, 1e5)) * ext
        d = unitvec(rng)
        dets.append([((c + dist * x) + t) * f for c, x, t in zip(cen0, d, shift)])
        det_cls.append('near' if near else 'far')
        det_dist.append(dist / ext)
    if rng.random() < 0.5:                                    # rotated about (a neighbourhood of) the origin ...
        M = rand_rotation(rng)
        tr2 = [-sum(M[i2][j2] * shift[j2] for j2 in range(3)) for i2 in range(3)]
    else:                                                     # ... or taken to another far-away place
        M = rand_rotation(rng)
        tr2 = [loguniform(rng, 1.0, 1e3) / u_m * x for x in unitvec(rng)]
    return {'cyl': {'axis': [hx(x) for x in a], 'base': [hx(x) for x in base], 'r': hx(r), 'h': hx(h), 'unit': unit},
            'kind': kind, 'sigma_s': hx(sigma_s), 'sigma_a': hx(sigma_a), 'density': hx(density),
            'wavelengths': [hx(x) for x in lam], 'beam': [hx(x) for x in unitvec(rng)],
            'dets': [[hx(x) for x in d] for d in dets], 'det_unit': det_unit,
            'variants': [{'name': 'translate', 'M': [[hx(x) for x in row] for row in IDENT], 'tr': [hx(-x) for x in shift]},
                         {'name': 'rigid', 'M': [[hx(x) for x in row] for row in M], 'tr': [hx(x) for x in tr2]},
                         {'flip': True}],
            'to_det': f,
            'displaced': {'size': size, 'detectors': detmode, 'det_class': det_cls, 'det_distance_in_extents': det_dist,
                          'displacement_m': D * u_m, 'displacement_in_extents': D / ext,
                          'rounding_tol': {'translate': rounding_tol(D, r, h),
                                           'rigid': rounding_tol(2 * D + math.sqrt(sum(x * x for x in tr2)), r, h)}}}


# ------------------------------------------------------------------ the correspondence
HEADER = ('From Coq Require Import QArith ZArith String List Uint63.\n'
          'From Verif.Sem Require Import Field QInst Corr.\nFrom Verif.C18 Require Import Model QData.\n'
          'From Run Require Import GenQuad GenAngle Corr.\nImport ListNotations.\nOpen Scope string_scope.\n')
FOOTER = 'Eval vm_compute in (report (map check cases)).\n'


N_MIXED = {True: 15, False: 150}                # quick / thorough: solids with radius / height / base in different units
N_EXACT = {True: 14, False: 90}                 # quick / thorough: 6 coordinate axes, 6 special in-plane axes, then random


def cyl_payload(c, kinds=(), scalar=False, with_cls=True):
    """a generated solid with its rays as harness input; scalar: additionally evaluate the first ray of every start
    position one at a time with 0-d operands"""
    out = {'axis': [hx(x) for x in c['axis']], 'base': [hx(x) for x in c['base']], 'r': hx(c['r']), 'h': hx(c['h']),
           'unit': c['unit'], 'kinds': list(kinds), 'axis_name': c['axis_name'],
           'rays': [dict({'s': [hx(x) for x in ry['s']], 'n': [hx(x) for x in ry['n']]},
                         **({'cls': ry['cls'], 'dir': ry.get('dir', '')} if with_cls else {})) for ry in c['rays']]}
    for k in ('r_unit', 'h_unit', 'pattern'):
        if k in c:
            out[k] = c[k]
    if scalar:
        seen, idx = set(), []
        for i, ry in enumerate(c['rays']):
            if ry['cls'] not in seen:
                seen.add(ry['cls'])
                idx.append(i)
        out['scalar_idx'] = idx
    return out


def build_payload(rng, tier, seed=0):
    n_cyl = 40 if tier == 'quick' else 400
    cyls = []
    for i in range(n_cyl):
        c = gen_cylinder(rng, i)
        kinds = ['cheap']
        if i % 3 == 0 or i < len(SPECIAL_AXES):
            kinds.append('medium')
        if i % 10 == 6 or (tier != 'quick' and i % 4 == 1):
            kinds.append('expensive')
        c['rays'] = gen_rays(rng, c, 4 if tier == 'quick' else 8)
        cyls.append({'axis': [hx(x) for x in c['axis']], 'base': [hx(x) for x in c['base']], 'r': hx(c['r']), 'h': hx(c['h']),
                     'unit': c['unit'], 'kinds': kinds, 'axis_name': c['axis_name'],
                     'rays': [{'s': [hx(x) for x in ry['s']], 'n': [hx(x) for x in ry['n']], 'cls': ry['cls']} for ry in c['rays']]})
    # solids on a dyadic grid with rays starting exactly ON the boundary (end-face planes, edge circles, lateral surface)
    # (their own random stream: the cases that follow stay what they were)
    rx = random.Random(f'C18-grid-{seed}')
    for i in range(N_EXACT[tier == 'quick']):
        c = gen_exact_cylinder(rx, i)
        c['rays'] = gen_boundary_rays(rx, c, 2)
        cyls.append(cyl_payload(c, scalar=True))
    # radius / height / base in different length units (their own random stream)
    rm = random.Random(f'C18-mixed-units-{seed}')
    for i in range(N_MIXED[tier == 'quick']):
        c = gen_mixed_cylinder(rm, i)
        # two rays in the unit of the base, from the solid as it is meant (lengths in the unit of the base)
        c['rays'] = gen_rays(rm, dict(c, r=c['r_in_base_unit'], h=c['h_in_base_unit']), 1)[:2]
        kinds = ['cheap'] + (['medium'] if i % 5 == 1 else []) + (['expensive'] if tier != 'quick' and i % 10 == 7 else [])
        cyls.append(cyl_payload(c, kinds=kinds))
    trans = []
    for kind, n in (('cheap', 8), ('medium', 4), ('expensive', 2)):
        for i in range(n if tier == 'quick' else 6 * n):
            trans.append(gen_trans(rng, kind, i))
    # the whole set-up far from the coordinate origin, detectors near the sample / far / both
    for kind, n in (('cheap', 9), ('medium', 6), ('expensive', 3)):
        for i in range(n if tier == 'quick' else 4 * n):
            trans.append(gen_trans_displaced(rng, kind, i))
    # no attenuation at all: T must be 1
    for kind in KINDS:
        t = gen_trans(rng, kind, 1)
        t['sigma_s'] = hx(0.0)
        t['sigma_a'] = hx(0.0)
        t['variants'] = []
        trans.append(t)
    t = gen_trans_displaced(rng, 'cheap', 0)
    t['sigma_s'] = hx(0.0)
    t['sigma_a'] = hx(0.0)
    t['variants'] = []
    trans.append(t)
    return {'mode': 'run', 'cyls': cyls, 'trans': trans}


def correspondence(ctx):
    rng = random.Random(ctx.seed)
    payload = build_payload(rng, ctx.tier, ctx.seed)
    res = ctx.run_impl('c18_impl.py', payload)
    terms, descs = [], []

    def add(term, desc):
        terms.append(term)
        descs.append(desc)

    tables = getattr(ctx, 'tables', None) or ctx.run_impl('c18_impl.py', {'mode': 'tables'})
    ndisk = {k: len(tables['disk'][DISK[k]]) for k in KINDS}
    # table checks (to 1e-12) — on the tables of this run
    for ki, kind in enumerate(KINDS):
        add(f'(CTable "disk-sum" {ki} 0)', {'what': 'table', 'check': 'disk-sum', 'table': DISK[kind]})
        add(f'(CTable "disk-moment1" {ki} 0)', {'what': 'table', 'check': 'disk-moment1', 'table': DISK[kind]})
    for k in range(5, 16):
        for chk in ('line-sum', 'line-moment1', 'line-moment23'):
            add(f'(CTable "{chk}" 0 {k})', {'what': 'table', 'check': chk, 'table': f'leggauss({k})'})
    for k in (7, 11, 16, 25, 35):
        for chk in ('line-sum', 'line-moment1'):
            add(f'(CTable "{chk}" 1 {k})', {'what': 'table', 'check': chk, 'table': f'normalised chebgauss({k})'})

    n_rays = n_points = n_scalar = n_mixed_points = 0
    mixed_count, refusals = {}, {}
    cls_count, exact_count, dir_count = {}, {}, {}
    axis_count = {}
    for ci, (c, r) in enumerate(zip(payload['cyls'], res['cyls'])):
        cdesc = {'axis': [fx(x) for x in c['axis']], 'base': [fx(x) for x in c['base']], 'r': fx(c['r']), 'h': fx(c['h']),
                 'unit': c['unit'], 'axis_name': c['axis_name']}
        pattern = c.get('pattern')                    # radius / height given in another unit than center_of_base
        if pattern:
            cdesc.update(r_unit=c['r_unit'], h_unit=c['h_unit'], base_unit=c['unit'], units=pattern)
            mixed_count[pattern] = mixed_count.get(pattern, 0) + 1
        if 'error' in r:
            ctx.violation('impl-raises', f'implementation raised on a valid cylinder {cdesc}: {r["error"]}',
                          {'cylinder': c, 'error': r['error']})
            continue
        st = r['stored']
        ct = cyl_term(st)
        if pattern:
            # radius and height in the unit of center_of_base (st: converted by scipp) against the conversion done here
            for nm in 'rh':
                want = float(Fraction(fx(c[nm])) * LENGTH_UNITS[c[nm + '_unit']] / LENGTH_UNITS[c['unit']])
                if not (abs(fx(st[nm]) - want) <= 1e-14 * want and fx(st[nm + '_raw']) == fx(c[nm])):
                    ctx.violation('mixed-units:stored', f'the cylinder does not hold the {nm} it was given: {cdesc} -> {st}',
                                  {'case': dict(cdesc, what='inside', kind='cheap'), 'stored': st})
            cdesc.update(r_in_base_unit=fx(st['r']), h_in_base_unit=fx(st['h']))

            def refusal(entry, msg, kind=None):
                """an entry point raised on a solid given in mixed units: admissible where the units of the operands the
                source adds differ (height vs base: center, quadrature; radius vs base: beam_intersection)"""
                refusals[f'{entry}:{pattern}'] = refusals.get(f'{entry}:{pattern}', 0) + 1
                if pattern == 'radius-differs' and entry != 'beam_intersection':
                    ctx.violation(f'mixed-units:{entry}:raises',
                                  f'Cylinder.{entry} raised on a cylinder whose radius is given in {c["r_unit"]} and whose height and base '
                                  f'are given in {c["unit"]}: {msg}: {cdesc}',
                                  {'case': dict(cdesc, what='inside', kind=kind or 'cheap'), 'error': msg})
            if 'L_error' in r:
                refusal('beam_intersection', r['L_error'])
            for kind, msg in r.get('quad_error', {}).items():
                refusal('quadrature', msg, kind)
            if 'volume_error' in r:
                ctx.violation('mixed-units:volume:raises', f'Cylinder.volume raised: {r["volume_error"]}: {cdesc}',
                              {'case': dict(cdesc, what='inside', kind='cheap'), 'error': r['volume_error']})
            if 'center_error' in r:
                refusal('center', r['center_error'])
        # volume and centre as reported (in the unit of center_of_base)
        if 'volume' in r:
            add(f'(CVol {ct} {d_term(r["volume"])})', {'what': 'volume', 'cylinder': cdesc, 'volume': fx(r['volume']),
                                                      'volume_unit': r.get('volume_unit')})
        if 'center' in r:
            add(f'(CCen {ct} {v_term(r["center"])})', {'what': 'centre', 'cylinder': cdesc, 'centre': [fx(x) for x in r['center']]})
        acls = axis_class([fx(x) for x in st['axis']])
        axis_count[acls] = axis_count.get(acls, 0) + 1
        stf = {'axis': [fx(x) for x in st['axis']], 'base': [fx(x) for x in st['base']], 'r': fx(st['r']), 'h': fx(st['h'])}
        for ry, L in zip(c['rays'], r.get('L', [])):
            d = {'what': 'ray', 'class': ry['cls'], 'cylinder': cdesc, 'start': [fx(x) for x in ry['s']],
                 'direction': [fx(x) for x in ry['n']], 'impl_length': L if not L.startswith(('n', 'i', '-i')) else L}
            if ry.get('dir'):
                d['direction_class'] = ry['dir']
            if L in ('nan', 'inf', '-inf'):
                ctx.violation(f'path:{ry["cls"]}:non-finite', f'beam_intersection returned {L} for {d}', {'case': d})
                continue
            d['impl_length'] = fx(L)
            # every comparison the implementation takes on this ray is decided alike in floating point and exactly
            # (operands evaluated exactly, or far from the threshold): the closed-solid value of the exact model is
            # the reference (CRayX); otherwise the backward-error bracket (CRay)
            exact = decisions_robust(stf, d['start'], d['direction'])
            d['comparison'] = 'exact-model' if exact else 'bracket'
            add(f'({"CRayX" if exact else "CRay"} {ct} {v_term(ry["s"])} {v_term(ry["n"])} {d_term(L)})', d)
            n_rays += 1
            cls_count[ry['cls']] = cls_count.get(ry['cls'], 0) + 1
            if exact:
                exact_count[ry['cls']] = exact_count.get(ry['cls'], 0) + 1
            if ry.get('dir'):
                k2 = ry['dir'].split('-')[0] + (':exact' if exact else ':bracket')
                dir_count[k2] = dir_count.get(k2, 0) + 1
        for i, L1 in ([r['L_scalar_check']] if 'L_scalar_check' in r else []) + r.get('L_scalar_checks', []):
            if r['L'][i] != L1:
                ctx.violation('path:array-vs-scalar', f'beam_intersection differs between array and 0-d operands: {r["L"][i]} vs {L1}',
                              {'cylinder': c, 'ray': c['rays'][i]})
            n_scalar += 1
        for kind in c['kinds']:
            if kind not in r['quad']:
                continue                                  # refused (mixed units), see above
            q = r['quad'][kind]
            ki = KINDS.index(kind)
            pts, ws = q['points'], q['weights']
            kk = len(pts) // max(1, ndisk[kind])
            base_desc = {'cylinder': cdesc, 'kind': kind, 'k': kk, 'n_points': len(pts), 'axis_class': acls}
            n_points += len(pts)
            # every point, exact inside test, in chunks
            for lo in range(0, len(pts), 1500):
                chunk = pts[lo:lo + 1500]
                add(f'(CInside {ct} 12 [' + '; '.join(v_term(p) for p in chunk) + '])',
                    dict(base_desc, what='inside', first_index=lo))
            if pattern:
                n_mixed_points += len(pts)
                # k is selected from the stored numbers (self.height / self.radius).value, whatever their units
                add(f'(CWeightsU {ct} {d_term(st["r_raw"])} {d_term(st["h_raw"])} {ki} {kk} [' + '; '.join(d_term(w) for w in ws) + '])',
                    dict(base_desc, what='weights', weight_unit=q.get('w_unit')))
            else:
                add(f'(CWeights {ct} {ki} {kk} [' + '; '.join(d_term(w) for w in ws) + '])', dict(base_desc, what='weights'))
            # the model's points: all of them for small rules, a sample otherwise
            idx = list(range(len(pts))) if len(pts) <= 200 else sorted(rng.sample(range(len(pts)), 120)) + [0, len(pts) - 1]
            add(f'(CQuad {ct} {ki} {kk} [' + '; '.join(f'({i}%Z, {v_term(pts[i])}, {d_term(ws[i])})' for i in idx) + '])',
                dict(base_desc, what='quad-model', indices=len(idx)))

    n_T = n_disp = n_model = 0
    disp_seen = []
    for t, r in zip(payload['trans'], res['trans']):
        kind = t['kind']
        ki = KINDS.index(kind)
        tdesc = {'what': 'transmission', 'kind': kind, 'cylinder': {k: ([fx(x) for x in v] if isinstance(v, list) else (fx(v) if k in 'rh' else v))
                                                                     for k, v in t['cyl'].items()},
                 'sigma_s_mm2': fx(t['sigma_s']), 'sigma_a_mm2': fx(t['sigma_a']), 'density_per_mm3': fx(t['density']),
                 'wavelengths_angstrom': [fx(x) for x in t['wavelengths']], 'beam': [fx(x) for x in t['beam']],
                 'dets': [[fx(x) for x in d] for d in t['dets']], 'det_unit': t['det_unit'], 'payload': t}
        if 'error' in r:
            ctx.violation('transmission:impl-raises', f'compute_transmission_map raised: {r["error"]}', {'case': tdesc})
            continue
        T = r['T']
        disp = t.get('displaced')
        if disp:
            tdesc['displaced'] = disp
            n_disp += 1
            for cls_, dist_ in zip(disp['det_class'], disp['det_distance_in_extents']):
                disp_seen.append((disp['displacement_in_extents'], dist_, cls_, disp['size']))
        acls = axis_class([fx(x) for x in t['cyl']['axis']])
        no_att = fx(t['sigma_s']) == 0.0 and fx(t['sigma_a']) == 0.0
        hr = fx(t['cyl']['h']) / fx(t['cyl']['r'])
        mult, lo_k, hi_k = {'cheap': (5, 5, 15), 'medium': (7, 7, 25), 'expensive': (11, 11, 35)}[kind]
        kk = round(max(min(mult * hr, hi_k), lo_k))
        for di, row in enumerate(T):
            for wi, v in enumerate(row):
                d = dict(tdesc, det_index=di, wavelength_index=wi, axis_class=acls)
                if v in ('nan', 'inf', '-inf'):
                    ctx.violation('transmission:non-finite', f'transmission is {v}: {d}', {'case': d})
                    continue
                d['T'] = fx(v)
                n_T += 1
                add(f'(CTprop "range" {d_term(v)} {d_term(0.0)} {d_term(ONE_TOL[kind])})', dict(d, check='range'))
                if no_att:
                    add(f'(CTprop "one" {d_term(v)} {d_term(0.0)} {d_term(ONE_TOL[kind])})', dict(d, check='no-attenuation'))
                if wi + 1 < len(row) and row[wi + 1] not in ('nan', 'inf', '-inf'):
                    # wavelengths ascending => mu ascending => T descending
                    add(f'(CTprop "mono" {d_term(v)} {d_term(row[wi + 1])} {d_term(1e-13)})', dict(d, check='monotone'))
                for vi, var in enumerate(r.get('variants', [])):
                    v2 = var['T'][di][wi]
                    name = 'flip' if t['variants'][vi].get('flip') else t['variants'][vi].get('name', 'rigid')
                    if v2 in ('nan', 'inf', '-inf'):
                        ctx.violation(f'transmission:{name}:non-finite', f'transmission of the moved scene is {v2}', {'case': d})
                        continue
                    add(f'(CTprop "inv" {d_term(v)} {d_term(v2)} {d_term(inv_tol(t, name, di))})',
                        dict(d, check=name, T_moved=fx(v2), moved_axis=[fx(x) for x in var['axis']], moved_base=[fx(x) for x in var['base']],
                             tolerance=inv_tol(t, name, di), moved_axis_class=axis_class([fx(x) for x in var['axis']])))
            # the model's transmission (per-point outgoing directions), every wavelength: 'cheap' rule, first detector (displaced
            # set-ups: first two detectors -- mode 'mixed': one near, one far); 'medium' rule, first detector
            n_mod = {'cheap': 2 if disp else 1, 'medium': 1}.get(kind, 0)
            if di < n_mod and not any(v in ('nan', 'inf', '-inf') for v in row):
                add(f'(CTransL {cyl_term(t["cyl"])} {ki} {kk} {d_term(t["to_det"])} {v_term(t["beam"])} {v_term(t["dets"][di])} ['
                    + '; '.join(f'({d_term(m)}, {d_term(v)})' for m, v in zip(r['mu'], row)) + '])',
                    dict(tdesc, det_index=di, axis_class=acls, check='model', mu_per_unit=[fx(m) for m in r['mu']], T=[fx(v) for v in row]))
                n_model += len(row)

    # cheap cases first is irrelevant; keep shards balanced: heavy terms spread by interleaving
    order = sorted(range(len(terms)), key=lambda i: (i * 7919) % len(terms))
    terms_s = [terms[i] for i in order]
    descs_s = [descs[i] for i in order]
    shard = max(8, min(60, len(terms_s) // (6 * vlib.NCPU) + 1))      # ~6 shards per core: the slow ones do not form a long tail
    fails, errors = ctx.coq_eval_shards(HEADER, terms_s, lambda k: FOOTER, shard=shard, timeout=1500)
    for name, e in errors:
        ctx.violation('corr-shard-error', f'correspondence shard {name} did not evaluate: {e[:300]}', {'shard': name, 'error': e},
                      found_input=False)
    for i, why in sorted(fails.items()):
        d = descs_s[i]
        ctx.violation(violation_key(d, why), f'{why}: {brief(d)}', {'case': d if d.get('what') == 'transmission' else strip(d), 'reason': why})
    ctx.coverage.update({
        'evaluations': len(terms),
        'distinct_nontrivial': n_rays + n_points + n_T,
        'rule': 'cylinders: 13 special axes (+-x,+-y,+-z, (0,.6,-.8), near +-z, below the 1e-10 threshold, equator, all-negative) then uniform '
                'on the sphere; base at 0 / within 10 / within 1e3; r,h log-uniform 1e-3..1e3 (half with 0.05<=h/r<=20), unit mm or m; '
                'rays per cylinder: inside start, outside start (aimed/not), exactly parallel to axis or end faces, tangent to the lateral '
                'surface (tilted) or grazing a rim, NEARLY parallel to the axis (tilt 1e-9..1e-2, around r/h for needles), NEARLY perpendicular '
                '(n.a 1e-9..1e-2, around h/r for wafers); 10% needles (h/r 1e4..1e6), 10% wafers; '
                'GRID solids (coordinates multiples of 2^e, r and h 1..60 grid steps, 2e-3..1e3; the 6 coordinate axes, 6 special and then random '
                'axes at any angle within a coordinate plane; base at 0 / near / far, anywhere within the plane of the axis) with start points '
                'exactly ON the boundary: centre of the base / top face, on a face, on an edge circle, in a face plane outside the disk, '
                'on the lateral surface (+ strictly inside / beyond a cap as controls), each with directions exactly perpendicular to the '
                'axis (inward, outward, tangent, oblique), exactly parallel (both senses) and tilted inward / outward; a ray whose every '
                'floating-point decision (n.a == 0, 0 <= -(b.a) <= h, n x a == 0, |b_perp| <= r, discriminant >= 0) is evaluated exactly or far '
                'from its threshold is compared with the closed-solid value of the exact model to 1e-12 max(r,h) + 1e-13 |b| (no bracket); '
                'one ray per start position also with 0-d operands; '
                'MIXED UNITS: solids whose radius (3 of 5), height (1 of 5) or both (1 of 5) are given in another length unit '
                '(um / mm / cm / m) than center_of_base (mm / cm / m), numbers 1e-3..1e3 each in its own unit, round numbers every third, '
                'all axis classes: quadrature (every point inside, weights, model points), volume and center converted to the unit '
                'of the base and compared with the model of the solid in that unit; beam_intersection with two rays; an entry point '
                'that raises where the source adds operands of different units (height vs base: center, quadrature; radius vs base: '
                'beam_intersection) counts as a refusal, a returned value is compared; '
                'quadrature kinds cheap (all), medium (1/3 + special axes), expensive (1/10); '
                'transmission: mu*r in {0.05,0.3,1}, lambda 0.1..20 A, detectors 3..3000 sizes away in random directions, units m/mm, '
                'a random (possibly improper) orthogonal map + translation and the other-end description; '
                'DISPLACED set-ups: sample, beam and detectors 1..1e3 m from the coordinate origin (random direction or along a coordinate '
                'axis), radius 0.3 mm..0.3 m (small / medium / large), 4 detectors near the sample (1.5..100 sample extents), far '
                '(100..1e5 extents) or both in one call, all kinds; compared with the same set-up translated back to the origin '
                '(tolerance 1e-9 + 1e-13 D/min(r,h): rounding only), with a rotated + translated copy (quadrature tolerance) and, for '
                "'cheap' (a near and a far detector) and 'medium' (one detector), with the model (per-point outgoing directions)",
        'observed': {'rays': n_rays, 'ray_classes': cls_count, 'rays_compared_with_the_exact_model': exact_count,
                     'boundary_ray_directions': dir_count, 'rays_repeated_with_0d_operands': n_scalar,
                     'quadrature_points_tested': n_points, 'axis_classes': axis_count,
                     'mixed_unit_solids': mixed_count, 'mixed_unit_refusals': refusals,
                     'mixed_unit_quadrature_points_tested': n_mixed_points,
                     'transmission_values': n_T, 'transmission_values_vs_model': n_model, 'angle_formula': getattr(ctx, 'angle', None),
                     'displaced_setups': n_disp,
                     'displaced_detectors': {c: sum(1 for x in disp_seen if x[2] == c) for c in ('near', 'far')},
                     'displaced_sizes': {c: sum(1 for x in disp_seen if x[3] == c) // 4 for c in SIZE_CLASSES},
                     'displacement_in_extents_range': [min((x[0] for x in disp_seen), default=None), max((x[0] for x in disp_seen), default=None)],
                     'near_detector_distance_in_extents_range': [min((x[1] for x in disp_seen if x[2] == 'near'), default=None),
                                                                 max((x[1] for x in disp_seen if x[2] == 'near'), default=None)],
                     'origin_distance_over_1e4_extents_with_near_detector': sum(1 for x in disp_seen if x[2] == 'near' and x[0] > 1e4)},
        'samples': [strip(d) for d in descs if d.get('what') == 'ray'][:3] + [strip(d) for d in descs if d.get('what') == 'transmission'][:1],
        'disagreements': len(fails),
    })


def inv_tol(t, name, di):
    """relative tolerance of an invariance comparison: a pure translation leaves the placed rule as it is (agreement to
    rounding); a rotation / the other-end description re-orients the disk rule (accuracy of the quadrature kind; for
    detectors within 100 sample extents the outgoing direction varies over the sample and the error of the rule is
    larger: twice the far-detector tolerance)"""
    disp = t.get('displaced')
    if not disp:
        return INV_TOL[t['kind']]
    if name == 'translate':
        return disp['rounding_tol']['translate']
    return INV_TOL[t['kind']] * (2.0 if disp['det_class'][di] == 'near' else 1.0) + disp['rounding_tol']['rigid']


def trans_class(d):
    """input class of a transmission case, for violation keys"""
    disp = d.get('displaced')
    if not disp:
        return ''
    di = d.get('det_index')
    cls = disp['det_class'][di] if di is not None and di < len(disp['det_class']) else disp['detectors']
    return f':displaced-det-{cls}'


def strip(d):
    d = {k: v for k, v in d.items() if k != 'payload'}
    return d


def brief(d):
    s = json.dumps(strip(d), default=str)
    return s if len(s) < 700 else s[:700] + '...'


def violation_key(d, why):
    w = d.get('what')
    if w == 'table':
        return f'table:{d["check"]}:{d["table"]}'
    if w == 'ray':
        return f'path:{d["class"]}'
    mx = ':mixed-units' if isinstance(d.get('cylinder'), dict) and d['cylinder'].get('units') else ''
    if w == 'inside':
        return f'quadrature:outside:axis-{d["axis_class"]}{mx}'
    if w == 'weights':
        return f'weights:{why}:{d["kind"]}{mx}'
    if w == 'quad-model':
        return f'quadrature:model:{d["kind"]}:axis-{d["axis_class"]}{mx}'
    if w in ('volume', 'centre'):
        return f'{w}{mx}'
    if w == 'transmission':
        chk = d.get('check')
        if chk in ('rigid', 'flip', 'translate'):
            return f'transmission:{chk}:{d["kind"]}:axis-{d["axis_class"]}{trans_class(d)}'
        return f'transmission:{chk}:{d["kind"]}{trans_class(d)}'
    return 'corr:' + why


# ------------------------------------------------------------------ search: the property statement on the implementation
def search(ctx, broken):
    """evaluate the property statement itself on the implementation (no model): quadrature points inside the solid,
    path length = length of the part of the ray inside the solid, transmission in (0, 1], = 1 without attenuation,
    decreasing in the attenuation, unchanged by rigid motions (translations: to rounding) and by the other-end
    description -- over more set-ups than the correspondence (no Coq evaluation is needed here)"""
    found = []
    for fn in (search_quadrature, search_transmission, search_paths):
        try:
            found += fn(ctx, broken)
        except Exception as ex:  # noqa: BLE001
            ctx.note(f'search: {fn.__name__} did not finish: {type(ex).__name__}: {str(ex)[:200]}')
    return found


def in_base_unit(c):
    """the solid with radius and height expressed in the unit of center_of_base (conversion done here, exactly)"""
    u = c['unit']
    out = dict(c)
    for nm in 'rh':
        out[nm] = hx(float(Fraction(fx(c[nm])) * LENGTH_UNITS.get(c.get(nm + '_unit', u), 1) / LENGTH_UNITS.get(u, 1)))
    return out


def quad_statement(c, q):
    """the property statement on one returned rule (points in the unit of center_of_base, weights in that unit cubed):
    every point inside the solid, weights positive and summing to the volume, centroid = centre of the solid,
    second radial moment = PI r^4 h / 2 (degree 2 in the disk: exact for every tabulated disk rule to 1e-6).
    Returns [(key suffix, text, detail)]"""
    cb = in_base_unit(c)
    out = []
    bad = outside_points(cb, q['points'])
    if bad:
        out.append(('outside', f'returns {len(bad)} points outside the solid, worst {bad[0]}', bad[0]))
    a = [fx(x) for x in c['axis']]
    b = [Fraction(fx(x)) for x in c['base']]
    r, h = fx(cb['r']), fx(cb['h'])
    ws = [fx(w) for w in q['weights']]
    V = math.pi * r * r * h
    if not all(w > 0 for w in ws):
        out.append(('weight-not-positive', f'has a weight <= 0: {min(ws)!r}', min(ws)))
    if not abs(math.fsum(ws) - V) <= 1e-9 * V:
        out.append(('weight-sum', f'weights sum to {math.fsum(ws)!r}, the volume is {V!r}', math.fsum(ws) / V))
    aF = [Fraction(x) for x in a]
    aa = sum(x * x for x in aF)
    dF = [[Fraction(fx(x)) - y for x, y in zip(p, b)] for p in q['points']]
    ds = [[float(x) for x in d] for d in dF]
    cen = [math.fsum(w * d[j] for w, d in zip(ws, ds)) / V for j in range(3)]
    wantc = [x * h / 2 for x in a]
    if not all(abs(x - y) <= 1e-9 * max(r, h) + 1e-12 * float(max(abs(z) for z in b)) for x, y in zip(cen, wantc)):
        out.append(('centroid', f'centroid (relative to the base) {cen}, the centre of the solid is at {wantc}', cen))
    # squared distance from the axis line, exactly (needles: |d|^2 - (d.a)^2 cancels 10 digits and more)
    m2 = math.fsum(w * float(sum(x * x for x in d) - sum(x * y for x, y in zip(d, aF)) ** 2 / aa) for w, d in zip(ws, dF))
    want2 = math.pi * r ** 4 * h / 2
    if not abs(m2 - want2) <= 1e-6 * want2 + 1e-10 * V * r * float(max(abs(z) for z in b)):
        out.append(('radial-moment', f'second radial moment {m2!r}, of the solid {want2!r} (ratio {m2 / want2:.6g})', m2 / want2))
    return out


def search_quadrature(ctx, broken):
    """solids in one unit and solids whose radius / height are given in another length unit than the base; every kind"""
    rng = random.Random(ctx.seed + 1)
    found = []
    cyls = []
    for i in range(30):
        c = gen_cylinder(rng, i)
        cyls.append({'axis': [hx(x) for x in c['axis']], 'base': [hx(x) for x in c['base']], 'r': hx(c['r']), 'h': hx(c['h']),
                     'unit': c['unit'], 'kinds': ['cheap'] + (['medium'] if i % 3 == 0 else []) + (['expensive'] if i % 10 == 4 else []),
                     'rays': []})
    for i in range(45 if ctx.tier == 'quick' else 300):
        c = gen_mixed_cylinder(rng, i)
        c['rays'] = []
        cyls.append(cyl_payload(c, kinds=['cheap'] + (['medium'] if i % 3 == 1 else []) + (['expensive'] if i % 10 == 7 else []),
                                with_cls=False))
    res = ctx.run_impl('c18_impl.py', {'mode': 'run', 'cyls': cyls, 'trans': []})
    for c, r in zip(cyls, res['cyls']):
        if 'error' in r:
            continue
        a = [fx(x) for x in c['axis']]
        mx = ':mixed-units' if c.get('pattern') else ''
        units = (f' (radius in {c["r_unit"]}, height in {c["h_unit"]}, base in {c["unit"]})' if mx else f' ({c["unit"]})')
        for kind, q in r['quad'].items():
            for what, text, detail in quad_statement(c, q):
                key = f'quadrature:outside:axis-{axis_class(a)}{mx}' if what == 'outside' else f'quadrature:{what}:{kind}{mx}'
                cyl = {k: c[k] for k in ('axis', 'base', 'r', 'h', 'unit', 'r_unit', 'h_unit', 'pattern') if k in c}
                ctx.violation(key, f'Cylinder.quadrature("{kind}") {text}: axis {a}, r={fx(c["r"])}, h={fx(c["h"])}{units}',
                              {'cylinder': cyl, 'kind': kind, 'statement': what, 'observed': detail, 'found_by': 'search'})
                found.append(key)
    return found


def search_transmission(ctx, broken):
    """range, T(no attenuation) = 1, monotone in the wavelength, invariance under translation / rigid motion / other end,
    on set-ups at the origin and displaced by 1..1e3 m with detectors near and far (float comparison of observed values)"""
    rng = random.Random(ctx.seed + 2)
    thorough = ctx.tier != 'quick'
    trans = []
    for kind, n_disp, n_org in (('cheap', 36, 10), ('medium', 18, 5), ('expensive', 6, 2)):
        for i in range(n_disp * (3 if thorough else 1)):
            trans.append(gen_trans_displaced(rng, kind, i, n_det=6))
        for i in range(n_org * (3 if thorough else 1)):
            trans.append(gen_trans(rng, kind, i))
        for gen in (gen_trans_displaced, gen_trans):
            t = gen(rng, kind, 1)
            t['sigma_s'] = t['sigma_a'] = hx(0.0)
            trans.append(t)
    res = ctx.run_impl('c18_impl.py', {'mode': 'run', 'cyls': [], 'trans': trans})
    found = []

    def report(chk, t, di, wi, text, extra):
        d = {'what': 'transmission', 'kind': t['kind'], 'check': chk, 'det_index': di, 'wavelength_index': wi,
             'axis_class': axis_class([fx(x) for x in t['cyl']['axis']]),
             'cylinder': {k: ([fx(x) for x in v] if isinstance(v, list) else (fx(v) if k in 'rh' else v)) for k, v in t['cyl'].items()},
             'wavelengths_angstrom': [fx(x) for x in t['wavelengths']], 'beam': [fx(x) for x in t['beam']],
             'dets': [[fx(x) for x in dd] for dd in t['dets']], 'det_unit': t['det_unit'], 'payload': t}
        if t.get('displaced'):
            d['displaced'] = t['displaced']
        d.update(extra)
        key = violation_key(d, chk)
        ctx.violation(key, f'{text}: {brief(d)}', {'case': d, 'reason': chk, 'found_by': 'search'})
        found.append(key)

    for t, r in zip(trans, res['trans']):
        if 'error' in r:
            ctx.violation('transmission:impl-raises', f'compute_transmission_map raised: {r["error"]}', {'case': {'what': 'transmission', 'payload': t}})
            found.append('transmission:impl-raises')
            continue
        no_att = fx(t['sigma_s']) == 0.0 and fx(t['sigma_a']) == 0.0
        for di, row in enumerate(r['T']):
            vals = [float(v) if v in ('nan', 'inf', '-inf') else fx(v) for v in row]
            for wi, v in enumerate(vals):
                if not (0.0 < v <= 1.0 + 1e-12):
                    report('range', t, di, wi, f'transmission {v!r} outside (0, 1]', {'T': v})
                    continue
                if no_att and abs(v - 1.0) > 1e-12:
                    report('no-attenuation', t, di, wi, f'transmission without attenuation is {v!r}, not 1', {'T': v})
                if wi + 1 < len(vals) and not vals[wi + 1] <= v * (1 + 1e-13):
                    report('monotone', t, di, wi, f'transmission grows with the attenuation: {v!r} -> {vals[wi + 1]!r}', {'T': v, 'T_next': vals[wi + 1]})
                for vi, var in enumerate(r.get('variants', [])):
                    name = 'flip' if t['variants'][vi].get('flip') else t['variants'][vi].get('name', 'rigid')
                    v2 = var['T'][di][wi]
                    v2 = float(v2) if v2 in ('nan', 'inf', '-inf') else fx(v2)
                    tol = inv_tol(t, name, di)
                    if not abs(v - v2) <= tol * v:
                        what = {'translate': 'translated together (no rotation)', 'rigid': 'moved together rigidly',
                                'flip': 'described from its other end'}[name]
                        report(name, t, di, wi, f'transmission changes from {v!r} to {v2!r} (relative {abs(v - v2) / v:.3g}, tolerance {tol:.3g}) when '
                                                f'the set-up is {what}',
                               {'T': v, 'T_moved': v2, 'tolerance': tol, 'moved_axis': [fx(x) for x in var['axis']],
                                'moved_base': [fx(x) for x in var['base']]})
    return found


def ray_length_reference(c, s, n):
    """length of {t >= 0 : s + t n inside the solid} from the definition of `inside` (unit axis a):
    0 <= (p - b).a <= h and |(p - b) x a| <= r.  Coefficients exact (Fractions), one float square root.
    Returns (length, conditioning) -- conditioning small = nearly tangent (the caller skips those)."""
    a = [Fraction(x) for x in c['axis']]
    b = [Fraction(x) for x in c['base']]
    r, h = Fraction(c['r']), Fraction(c['h'])
    s = [Fraction(x) for x in s]
    n = [Fraction(x) for x in n]
    d = [x - y for x, y in zip(s, b)]
    lo, hi = Fraction(0), None                 # hi None = +inf
    da, na = sum(x * y for x, y in zip(d, a)), sum(x * y for x, y in zip(n, a))
    cond = 1.0
    if na == 0:
        if not (0 <= da <= h):
            return 0.0, 1.0
    else:
        t0, t1 = sorted([-da / na, (h - da) / na])
        lo, hi = max(lo, t0), t1
    dxa, nxa = cross(d, a), cross(n, a)
    aa = sum(x * x for x in a)                 # the stored axis is a unit vector to rounding only: |p x a|^2 / |a|^2 is the
    A = sum(x * x for x in nxa) / aa           # squared distance of p from the axis line for any a (a start point exactly r
    B = sum(x * y for x, y in zip(dxa, nxa)) / aa      # away from the axis is ON the lateral surface, C = 0)
    C = sum(x * x for x in dxa) / aa - r * r
    if A == 0:
        if C > 0:
            return 0.0, 1.0
    else:
        disc = B * B - A * C
        if disc <= 0:
            return 0.0, abs(float(disc)) / max(float(B * B), float(abs(A * C)), 1e-300)
        cond = float(disc) / max(float(B * B), float(abs(A * C)), 1e-300)
        q = math.sqrt(float(disc))
        t0, t1 = (float(-B) - q) / float(A), (float(-B) + q) / float(A)
        lo = max(float(lo), t0)
        hi = t1 if hi is None else min(float(hi), t1)
    if hi is None:
        return math.inf, cond
    return max(0.0, float(hi) - float(lo)), cond


def search_paths(ctx, broken):
    """the length of {t >= 0 : start + t direction inside the CLOSED solid} from the definition of `inside`, on random
    solids (rays of the six classes) and on grid solids with start points exactly on the end-face planes, edge circles
    and the lateral surface and directions exactly perpendicular / parallel to the axis, tangent, tilted; every ray as
    an element of an array and the boundary rays also one at a time (0-d operands)"""
    rng = random.Random(ctx.seed + 3)
    cyls, gen = [], []
    for i in range(60 if ctx.tier == 'quick' else 300):
        c = gen_cylinder(rng, i)
        c['rays'] = gen_rays(rng, c, 3)
        gen.append(c)
        cyls.append(cyl_payload(c, with_cls=False))
    for i in range(60 if ctx.tier == 'quick' else 300):
        c = gen_exact_cylinder(rng, i)
        c['rays'] = gen_boundary_rays(rng, c, 4)
        gen.append(c)
        cyls.append(cyl_payload(c, scalar=True, with_cls=False))
    res = ctx.run_impl('c18_impl.py', {'mode': 'run', 'cyls': cyls, 'trans': []})
    found = []
    for c, r in zip(gen, res['cyls']):
        if 'error' in r or 'L' not in r:
            continue
        st = {'axis': [fx(x) for x in r['stored']['axis']], 'base': [fx(x) for x in r['stored']['base']],
              'r': fx(r['stored']['r']), 'h': fx(r['stored']['h'])}
        for i, L1 in r.get('L_scalar_checks', []):
            if r['L'][i] != L1:
                ry = c['rays'][i]
                d = {'what': 'ray', 'class': ry['cls'], 'direction_class': ry.get('dir'), 'cylinder': dict(st, unit=c['unit'], axis_name=c['axis_name']),
                     'start': ry['s'], 'direction': ry['n'], 'impl_length_in_array': r['L'][i], 'impl_length_0d': L1}
                ctx.violation('path:array-vs-scalar', f'beam_intersection differs between array and 0-d operands: {brief(d)}',
                              {'case': d, 'found_by': 'search'})
                found.append('path:array-vs-scalar')
        for ry, L in zip(c['rays'], r['L']):
            Lf = float(L) if L in ('nan', 'inf', '-inf') else fx(L)
            want, cond = ray_length_reference(st, ry['s'], ry['n'])
            if ry.get('dir'):
                # a start point ON the boundary: the statement is evaluated where the floating-point operands decide
                # every comparison as exact arithmetic does (then exactly tangent rays, cond = 0, are included)
                if not decisions_robust(st, ry['s'], ry['n']) or not math.isfinite(want):
                    continue
            elif cond < 1e-6 or not math.isfinite(want):
                continue                               # nearly tangent: the correspondence brackets those
            dist = math.sqrt(sum((x - y) ** 2 for x, y in zip(ry['s'], st['base'])))
            tol = 1e-7 * max(st['r'], st['h']) + 1e-9 * dist
            if not abs(Lf - want) <= tol:
                key = f'path:{ry["cls"]}'
                d = {'what': 'ray', 'class': ry['cls'], 'cylinder': dict(st, unit=c['unit'], axis_name=c['axis_name']),
                     'start': ry['s'], 'direction': ry['n'], 'impl_length': Lf, 'length_inside_solid': want}
                if ry.get('dir'):
                    d['direction_class'] = ry['dir']
                ctx.violation(key, f'beam_intersection returns {Lf!r}; the part of the ray inside the solid has length {want!r}: {brief(d)}',
                              {'case': d, 'found_by': 'search'})
                found.append(key)
    return found


def outside_points(c, pts, tol=1e-9):
    a = [Fraction(fx(x)) for x in c['axis']]
    b = [Fraction(fx(x)) for x in c['base']]
    r, h = Fraction(fx(c['r'])), Fraction(fx(c['h']))
    t = Fraction(tol) * max(r, h)
    aa = sum(x * x for x in a)
    bad = []
    for i, p in enumerate(pts):
        d = [Fraction(fx(x)) - y for x, y in zip(p, b)]
        da = sum(x * y for x, y in zip(d, a))
        rad2 = sum(x * x for x in d) * aa - da * da
        if not (-t <= da <= h + t and rad2 <= (r + t) ** 2 * aa):
            bad.append({'index': i, 'point': [fx(x) for x in p], 'axial': float(da), 'radial': math.sqrt(max(0.0, float(rad2 / aa)))})
    bad.sort(key=lambda x: -max(x['radial'] / float(r), abs(x['axial']) / float(h)))
    return bad


def replay(ctx, obj):
    rep = obj.get('replay', obj)
    case = rep.get('case') or rep
    print(json.dumps({k: v for k, v in case.items() if k != 'payload'}, indent=1, default=str)[:3000])
    cyl = case.get('cylinder')
    if isinstance(cyl, dict) and 'axis' in cyl and case.get('what') in ('inside', 'quad-model', 'weights', None):
        c = {'axis': [hx(fx(x)) for x in cyl['axis']], 'base': [hx(fx(x)) for x in cyl['base']], 'r': hx(fx(cyl['r'])), 'h': hx(fx(cyl['h'])),
             'unit': cyl.get('unit', 'mm'), 'kinds': [case.get('kind', 'cheap')], 'rays': []}
        for k in ('r_unit', 'h_unit'):
            if cyl.get(k):
                c[k] = cyl[k]
        res = ctx.run_impl('c18_impl.py', {'mode': 'run', 'cyls': [c], 'trans': []})
        r0 = res['cyls'][0]
        if c['kinds'][0] not in r0.get('quad', {}):
            print('Cylinder.quadrature raised:', r0.get('error') or r0.get('quad_error'))
            return 1
        fails = quad_statement(c, r0['quad'][c['kinds'][0]])
        print('required: every quadrature point inside the solid, positive weights that sum to the volume, centroid at the centre, '
              'second radial moment PI r^4 h / 2; observed: ' + ('; '.join(t for _, t, _ in fails) if fails else 'all hold'))
        return 1 if fails else 0
    if case.get('what') == 'ray':
        cyl = case['cylinder']
        c = {'axis': [hx(x) for x in cyl['axis']], 'base': [hx(x) for x in cyl['base']], 'r': hx(cyl['r']), 'h': hx(cyl['h']),
             'unit': cyl.get('unit', 'mm'), 'kinds': [], 'rays': [{'s': [hx(x) for x in case['start']], 'n': [hx(x) for x in case['direction']]}]}
        res = ctx.run_impl('c18_impl.py', {'mode': 'run', 'cyls': [c], 'trans': []})
        L = res['cyls'][0]['L'][0]
        Lf = float(L) if L in ('nan', 'inf', '-inf') else fx(L)
        st = {'axis': list(cyl['axis']), 'base': list(cyl['base']), 'r': cyl['r'], 'h': cyl['h']}
        want, cond = ray_length_reference(st, case['start'], case['direction'])
        print(f'observed path length: {Lf!r}; required: the length of the part of the ray inside the (closed) solid = {want!r}'
              f' (conditioning of the tangency {cond:.3g})')
        if not math.isfinite(Lf):
            return 1
        if cond < 1e-6 and not decisions_robust(st, case['start'], case['direction']):
            return 1                                   # nearly tangent: the Coq bracket decided
        dist = math.sqrt(sum((x - y) ** 2 for x, y in zip(case['start'], st['base'])))
        return 0 if abs(Lf - want) <= 1e-7 * max(st['r'], st['h']) + 1e-9 * dist else 1
    if case.get('what') == 'transmission' and 'payload' in (rep.get('case') or {}):
        t = rep['case']['payload']
        res = ctx.run_impl('c18_impl.py', {'mode': 'run', 'cyls': [], 'trans': [t]})
        r = res['trans'][0]
        chk, di, wi = case.get('check'), case.get('det_index'), case.get('wavelength_index')
        if chk in ('translate', 'rigid', 'flip') and 'error' not in r and di is not None and wi is not None:
            for vi, var in enumerate(r.get('variants', [])):
                name = 'flip' if t['variants'][vi].get('flip') else t['variants'][vi].get('name', 'rigid')
                if name != chk:
                    continue
                v, v2 = fx(r['T'][di][wi]), fx(var['T'][di][wi])
                tol = inv_tol(t, name, di)
                print(f'required: the transmission of the moved set-up ({name}) agrees within {tol:.3g} (relative); observed: {v!r} vs {v2!r}, '
                      f'relative difference {abs(v - v2) / v:.3g}')
                return 1 if not abs(v - v2) <= tol * v else 0
        print('observed:', json.dumps(r)[:1500])
        return 1
    return 1
