"""C04 - gravity-corrected angles follow the documented construction on every code path."""
import json
import math
import random
from fractions import Fraction

import kcorr

ID = 'C04'
LEVEL = 'proof'
TRANSLATE = {
    'sigs': {'sc.atan2': ['sc_atan2_o', [], [['y', '!'], ['x', '!'], ['out', None]]],
             'sc.sqrt': ['sc_sqrt_o', ['x'], [['out', None]]],
             'sc.abs': ['sc_abs_o', ['x'], [['out', None]]],
             'sc.reciprocal': ['sc_reciprocal_u', ['x'], []],
             'sc.any': ['sc_any', ['x'], []],
             'set': ['py_set', ['x'], []]},
    'methods': {'issubset': ['m_issubset', ['other'], []]},
    'modules': [
        {'py': 'src/scippneutron/_utils/__init__.py', 'coq': 'GenUtils', 'functions': ['elem_unit', 'elem_dtype']},
        {'py': 'src/scippneutron/conversion/beamline.py', 'coq': 'GenBeamline',
         'imports': {'elem_unit': 'GenUtils', 'elem_dtype': 'GenUtils'},
         'requires': ['Verif.C04.SemExt'],
         # `set(distance.dims).issubset(drop.dims)` is a fact about array shapes: a Section variable, so
         # every theorem holds for both answers
         'section': ['Variable dims_subset : bool.',
                     'Let m_issubset (O0 : Fops) := issubset_with O0 dims_subset.'],
         'functions': ['L1', 'L2', 'two_theta', 'beam_aligned_unit_vectors', '_drop_due_to_gravity',
                       'scattering_angles_with_gravity', '_scattering_angles_with_gravity_generic',
                       '_scattering_angles_with_gravity_orthogonal_coords', 'scattering_angle_in_yz_plane']},
    ]}
# Tie.v: everything independent of the vector the general path feeds to two_theta; Corr.v: executable
# model; TieGeneric.v: the general path (breaks on a tree with finding F1); Properties.v: the theorems
RUN_FILES = ['Tie.v', 'Corr.v', 'TieGeneric.v', 'Properties.v']
COQ_TIMEOUT = 600
TRUSTED = [
    'tools/py2coq.py (syntactic translator, fail-closed; `del x` = the name becomes unbound)',
    'coq/Sem/Val.v + coq/C04/SemExt.v: model of scipp element semantics (vector +,-,*,/ ; norm, dot, cross; unit algebra incl. '
    'sqrt/reciprocal of units and to(unit=); to(dtype=); atan2 with identical float dtypes; abs; comparisons; out= returns the '
    'functional result and demands the result dtype; in-place operators rebind the name)',
    'coq/Sem/RInst.v: the R instance does not decide equality of unit multipliers in + - < where (fail-closed, see file); '
    'the Q instance used by the correspondence does (to 1e-9)',
    'sc.any(cond) is modelled per element (0-d incident beam / gravity: exact; for ARRAYS of incident beams the '
    'implementation chooses one path for all elements - by generic_is_construction / orthogonal_is_construction '
    'either choice is the construction outside the band 0 < |g.b1| <= 1e-10 |g|)',
    'set(distance.dims).issubset(drop.dims) (array shapes) is a Section variable: theorems hold for both answers',
    'coq/Sem/QInst.v rational sqrt/atan2 (2^-140; correspondence only, not used in proofs)',
    'tools/harness/c04_impl.py (exact serialisation of operands/results)',
]
ASSUMPTIONS = [
    'theorems are over exact reals; rounding is covered by the correspondence tolerance (1e-13 rad absolute for float64 '
    'wavelength, 2e-6 rad for float32)',
    'the incident beam is not numerically parallel to gravity (|horizontal part| >= 1e-10 in the unit the beam is stored in), '
    'gravity and the raised beam are non-zero; wavelength float32/float64 (an integer wavelength makes the drop an integer: out of scope)',
    'inside the dispatch band 0 < |g.b1| <= 1e-10 |g| the optimised path returns the angle to the HORIZONTAL direction of the '
    'beam (proved: C04_public_in_band_partial); that this differs from the construction by at most the tilt (<= 1e-10 rad) is '
    'measured by the correspondence, not proved - continuity in the tilt is therefore proved only as "one expression on both '
    'sides of the threshold and at tilt 0" (paths_agree, public_is_construction)',
    'float signed zero: atan2(-0.0, x<0) = -pi in IEEE, +pi over R (not generated)',
]
LEVEL_TEXT = ('Proof: for all units of beams/wavelength/gravity, both float classes and every incident beam not parallel to gravity, '
              'the regenerated _drop_due_to_gravity is |g| m_n^2 lambda^2 L2^2/(2h^2) in the unit of distance; the general path returns '
              'angle(b1, b2 + delta e_y) and atan2(y_d+delta, x_d); the optimised path returns the same two values when g.b1 = 0 '
              '(paths agree on the dispatch boundary); hence the public function is the construction for g.b1 = 0 or |g.b1| > 1e-10|g|, '
              'tends to the gravity-free angle for lambda = 0, exceeds it for detectors above a horizontal beam; the reflectometry variant '
              'is atan2(|y_d+delta|, z_d) and raises ValueError beyond the threshold. Model validated against scipp inside Coq on '
              'tilts 0..1 rad, all octants, random gravity directions, dense/binned, float32/64.')
LEVEL_NOTE = ('Trusted: Coq kernel; std-lib real axioms; py2coq; Sem/Val.v + C04/SemExt.v model of scipp; rounding by tolerance; '
              'the 1e-10 band of the optimised path is characterised but its distance to the construction only measured.')
TECHNIQUE = ('Coq proof on regenerated terms (helper calls rewritten to canonical values, cbv, field over R; Kahan formula = acos, '
             'in-plane formula = angle via orthonormal frame) + vm_compute correspondence of model AND independent spec against the implementation')

TILTS = [0.0, 1e-12, 1e-11, 1e-10 * (1 - 1e-3), 1e-10 * (1 + 1e-3), 1e-9, 1e-6, 1e-3, 0.1, 1.0]
LEN_UNITS = [('m', 1.0), ('mm', 1e-3), ('cm', 1e-2)]
WL_UNITS = [('angstrom', 1e-10), ('nm', 1e-9), ('m', 1.0)]
G_UNITS = [('m/s^2', 1.0), ('mm/s^2', 1e-3), ('m/ms^2', 1e6)]
OCT = [(sx, sy, sz) for sx in (1, -1) for sy in (1, -1) for sz in (1, -1)]
hx = kcorr.hexf


def unit_vec(rng):
    while True:
        v = [rng.gauss(0, 1) for _ in range(3)]
        n = math.sqrt(sum(c * c for c in v))
        if n > 0.1:
            return [c / n for c in v]


def frame(rng, canonical):
    """(up, u, w): up = -g/|g|, u horizontal beam direction, w = up x u"""
    if canonical:
        return [0.0, 1.0, 0.0], [0.0, 0.0, 1.0], [1.0, 0.0, 0.0]
    up = unit_vec(rng)
    while True:
        t = unit_vec(rng)
        d = sum(a * b for a, b in zip(t, up))
        u = [a - d * b for a, b in zip(t, up)]
        n = math.sqrt(sum(c * c for c in u))
        if n > 0.3:
            u = [c / n for c in u]
            break
    w = [up[1] * u[2] - up[2] * u[1], up[2] * u[0] - up[0] * u[2], up[0] * u[1] - up[1] * u[0]]
    return up, u, w


def make_group(rng, gid, fn, tilt, layout, wl_dtype, canonical=None, gmag=None, unit_len=None):
    canonical = rng.random() < 0.3 if canonical is None else canonical
    up, u, w = frame(rng, canonical)
    if gmag is None:
        gmag = rng.choice([9.81, 9.81, 100.0, 1e-11, kcorr.loguniform(rng, 1e-3, 100.0)])
    gu = rng.choice(G_UNITS) if not canonical else G_UNITS[0]
    g_si = [-gmag * c for c in up]
    sgn = rng.choice([1, -1])
    b1u = rng.choice(LEN_UNITS)
    # numeric length 1 (in its own unit) for the threshold cases, so that `tilt` is the dispatch variable
    L1 = 1.0 if (unit_len if unit_len is not None else (tilt < 1e-8 or rng.random() < 0.5)) else rng.uniform(0.5, 30.0)
    b1_num = [L1 * (math.cos(tilt) * a + sgn * math.sin(tilt) * b) for a, b in zip(u, up)]
    b2u = rng.choice(LEN_UNITS)
    octs = list(OCT)
    rng.shuffle(octs)
    b2 = []
    for (sx, sy, sz) in octs:
        a, b, c = (kcorr.loguniform(rng, 0.05, 5.0) for _ in range(3))
        si = [sx * a * w[i] + sy * b * up[i] + sz * c * u[i] for i in range(3)]
        b2.append([x / b2u[1] for x in si])
    wlu = rng.choice(WL_UNITS if wl_dtype == 'float64' else WL_UNITS[:2])
    n_wl = {'zip': 8, 'outer': 3, 'binned': 16, 'scalar': 1}[layout]
    wl_si = [rng.choice([0.0, 1e-13, 1e-10, 1.8e-10, 1e-9, 1e-8, rng.uniform(0, 1e-8), rng.uniform(0, 2e-9)]) for _ in range(n_wl)]
    return {'id': gid, 'fn': fn, 'tilt': tilt, 'layout': layout,
            'b1': [hx(c) for c in b1_num], 'b1_unit': b1u[0],
            'g': [hx(c / gu[1]) for c in g_si], 'g_unit': gu[0],
            'b2': [[hx(c) for c in v] for v in b2], 'b2_unit': b2u[0],
            'wl': [hx(x / wlu[1]) for x in wl_si], 'wl_unit': wlu[0], 'wl_dtype': wl_dtype}


# ---- detectors CLOSE TO THE BEAM AXIS (direct-beam / SANS centre / reflectometry pixels): gravity-free 2theta
# from 1e-6 to 5e-2 rad and within 1e-6..1e-2 of pi, measured from the ACTUAL (tilted) incident beam
AXIS_ANGLES = [1e-6, 1e-5, 1e-4, 1e-3, 1e-2, 5e-2]
AXIS_ANTI = [1e-6, 1e-4, 1e-2]
AXIS_WL = [0.0, 1e-13, 1e-11, 1e-10, 1.8e-10, 5e-10, 1e-9]


def make_axis_group(rng, gid, fn, tilt, layout, wl_dtype, canonical=None):
    """like make_group, but the 8 detectors lie on narrow cones around the incident beam (6) and around its
    continuation backwards (2), at random azimuths; L2 0.5..20 m"""
    g = make_group(rng, gid, fn, tilt, layout, wl_dtype, canonical=canonical,
                   gmag=rng.choice([9.81, 9.81, 100.0, kcorr.loguniform(rng, 1e-3, 100.0)]))
    b1 = [float.fromhex(c) for c in g['b1']]
    n = math.sqrt(sum(c * c for c in b1))
    e = [c / n for c in b1]
    # two directions orthogonal to the beam
    k = min(range(3), key=lambda i: abs(e[i]))
    t = [1.0 if i == k else 0.0 for i in range(3)]
    d = sum(a * b for a, b in zip(t, e))
    p = [a - d * b for a, b in zip(t, e)]
    pn = math.sqrt(sum(c * c for c in p))
    p = [c / pn for c in p]
    q_ = [e[1] * p[2] - e[2] * p[1], e[2] * p[0] - e[0] * p[2], e[0] * p[1] - e[1] * p[0]]
    b2m = dict(LEN_UNITS)[g['b2_unit']]
    angles = [rng.choice(AXIS_ANGLES) * rng.uniform(1.0, 2.0) for _ in range(2)] + rng.sample(AXIS_ANGLES, 4) \
        + [math.pi - a for a in rng.sample(AXIS_ANTI, 2)]
    rng.shuffle(angles)
    b2 = []
    for th in angles:
        az = rng.uniform(0, 2 * math.pi)
        L2 = kcorr.loguniform(rng, 0.5, 20.0)
        si = [L2 * (math.cos(th) * e[i] + math.sin(th) * (math.cos(az) * p[i] + math.sin(az) * q_[i])) for i in range(3)]
        b2.append([hx(x / b2m) for x in si])
    g['b2'] = b2
    g['axis'] = True
    wm = dict(WL_UNITS)[g['wl_unit']]
    g['wl'] = [hx(rng.choice(AXIS_WL + [rng.uniform(0, 2e-9)]) / wm) for _ in g['wl']]
    return g


def gen_axis_groups(rng, tier, gid):
    groups = []
    for _ in range(1 if tier == 'quick' else 8):
        # optimised path (tilt 0), inside the dispatch band, general path (small and large tilt)
        for tilt, layout, dt in [(0.0, 'zip', 'float64'), (0.0, 'zip', 'float32'), (0.0, 'binned', 'float64'),
                                 (1e-11, 'zip', 'float64'),
                                 (1e-6, 'zip', 'float64'), (1e-3, 'zip', 'float32'), (0.1, 'zip', 'float64'), (1.0, 'binned', 'float32')]:
            groups.append(make_axis_group(rng, gid, 'sawg', tilt, layout, dt))
            gid += 1
        for dt in ('float64', 'float32'):
            groups.append(make_axis_group(rng, gid, 'yz', 0.0, 'zip', dt))
            gid += 1
    return groups


def gen_groups(rng, tier):
    groups = []
    reps = 1 if tier == 'quick' else 12
    gid = 0
    for _ in range(reps):
        for tilt in TILTS:
            for k in range(4):
                layout = ['zip', 'outer', 'binned', 'zip'][k]
                dt = 'float32' if k == 3 else 'float64'
                groups.append(make_group(rng, gid, 'sawg', tilt, layout, dt))
                gid += 1
        for tilt in TILTS:
            groups.append(make_group(rng, gid, 'yz', tilt, rng.choice(['zip', 'binned']), rng.choice(['float64', 'float64', 'float32'])))
            gid += 1
        for k in range(6):
            groups.append(make_group(rng, gid, 'drop', 0.0, ['zip', 'outer', 'binned', 'scalar', 'zip', 'zip'][k],
                                     'float32' if k >= 4 else 'float64'))
            gid += 1
        # incident beam parallel to gravity: refused
        groups.append(make_group(rng, gid, 'sawg', math.pi / 2, 'zip', 'float64', unit_len=True))
        gid += 1
    groups += gen_axis_groups(rng, tier, gid)
    return groups


def fr(pair):
    return Fraction(int(pair[0]), int(pair[1]))


def vin_term(vals, unit):
    return (f'(mkvin {kcorr.q(vals[0])} {kcorr.q(vals[1])} {kcorr.q(vals[2])} {kcorr.q(unit["mult"])} '
            f'{kcorr.dims_term(unit["dims"])})')


def out_of(desc, k):
    u = desc['unit']
    v = desc['values'][k]
    sc_, dm, dt = kcorr.q(u['mult']), kcorr.dims_term(u['dims']), kcorr.DT[desc['dtype']]
    if v == 'nan':
        return f'(OutNaN {sc_} {dm} {dt})'
    if v in ('inf', '-inf'):
        return f'(OutInf {sc_} {dm} {dt})'
    return f'(OutVal {kcorr.q(v)} {sc_} {dm} {dt})'


def band_of(st):
    """(in dispatch band?, tilt of the stored beam out of the horizontal) from the stored numbers"""
    b1 = [float(fr(c)) for c in st['b1']['values']]
    g = [float(fr(c)) for c in st['g']['values']]
    gn = math.sqrt(sum(c * c for c in g))
    bn = math.sqrt(sum(c * c for c in b1))
    dot = abs(sum(a * b for a, b in zip(g, b1)))
    return dot <= 1e-10 * gn, (dot / (gn * bn) if gn * bn > 0 else 0.0)


def cases_of(g, r):
    """-> list of (coq term, description)"""
    out = []
    st = r['stored']
    f32 = st['wl']['dtype'] == 'float32'
    tol = '(2 # 1000000)' if f32 else '(1 # 10000000000000)'
    if g['fn'] == 'drop':
        tol = '(1 # 1000000)' if f32 else '(1 # 1000000000000)'      # relative
    # relative accuracy for small angles / floor / widening of phi near the e_z axis (see Corr.v: tol_small, tol_phi)
    extra = '(1 # 100000) (1 # 1000000000000) (1 # 2)' if f32 else '(1 # 1000000000) (5 # 1000000000000000) (1 # 10)'
    inband, tilt_act = band_of(st)
    band = kcorr.q([str(Fraction(1.05 * tilt_act + 1e-16).numerator), str(Fraction(1.05 * tilt_act + 1e-16).denominator)]) \
        if (inband and g['fn'] == 'sawg') else '0'
    b1t = vin_term(st['b1']['values'], st['b1']['unit'])
    gt = vin_term(st['g']['values'], st['g']['unit'])
    wu = st['wl']['unit']

    def wl_term(j):
        return (f'(mkinp {kcorr.q(st["wl"]["values"][j])} {kcorr.q(wu["mult"])} {kcorr.dims_term(wu["dims"])} '
                f'{kcorr.DT[st["wl"]["dtype"]]})')

    def desc(i, j, impl):
        return {'fn': g['fn'], 'tilt': g['tilt'], 'layout': g['layout'], 'in_dispatch_band': inband, 'near_axis': bool(g.get('axis')),
                'b1': [float(fr(c)) for c in st['b1']['values']], 'b1_unit': st['b1']['unit']['name'],
                'g': [float(fr(c)) for c in st['g']['values']], 'g_unit': st['g']['unit']['name'],
                'b2': [float(fr(c)) for c in st['b2']['values'][i]], 'b2_unit': st['b2']['unit']['name'],
                'wavelength': float(fr(st['wl']['values'][j])), 'wavelength_unit': wu['name'], 'wavelength_dtype': st['wl']['dtype'],
                'impl': impl, 'group': {k: g[k] for k in ('fn', 'layout', 'b1', 'b1_unit', 'g', 'g_unit', 'b2', 'b2_unit', 'wl', 'wl_unit', 'wl_dtype')},
                'element': [i, j]}
    ds = 'true' if g['layout'] != 'outer' else 'false'
    if 'error' in r:
        b2t = vin_term(st['b2']['values'][0], st['b2']['unit'])
        t = f'(mkg "{g["fn"]}" {ds} {b1t} {b2t} {wl_term(0)} {gt} (OutErr "{r["error"]}") (OutErr "{r["error"]}") {tol} {band} {extra})'
        out.append((t, desc(0, 0, 'raises ' + r['error'])))
        return out
    res = r['result']
    names = {'sawg': ('two_theta', 'phi'), 'yz': ('gamma', 'gamma'), 'drop': ('drop', 'drop')}[g['fn']]
    for k, (i, j) in enumerate(r['pairs']):
        b2t = vin_term(st['b2']['values'][i], st['b2']['unit'])
        o1, o2 = out_of(res[names[0]], k), out_of(res[names[1]], k)
        impl = {n: kcorr.fmt(res[n]['values'][k]) for n in set(names)}
        impl['dtype'] = res[names[0]]['dtype']
        t = f'(mkg "{g["fn"]}" {ds} {b1t} {b2t} {wl_term(j)} {gt} {o1} {o2} {tol} {band} {extra})'
        out.append((t, desc(i, j, impl)))
    return out


def correspondence(ctx):
    rng = random.Random(ctx.seed)
    groups = gen_groups(rng, ctx.tier)
    res = ctx.run_impl('c04_impl.py', {'groups': groups})
    h, mn = res['constants']['h']['value'], res['constants']['m_n']['value']
    terms, descs = [], []
    mutated = 0
    for g, r in zip(groups, res['groups']):
        if 'build_error' in r:
            ctx.note('harness could not build a group: ' + r['build_error'])
            continue
        if not r.get('inputs_unchanged', True):
            mutated += 1
        for t, d in cases_of(g, r):
            terms.append(t)
            descs.append(d)
    header = ('From Coq Require Import QArith ZArith String List.\n'
              'From Verif.Sem Require Import Field Val QInst Corr.\nFrom Run Require Import Corr.\n'
              'Import ListNotations.\nOpen Scope string_scope.\n'
              f'Definition H : Q := {kcorr.q(h)}.\nDefinition MN : Q := {kcorr.q(mn)}.\n')
    fails, errors = ctx.coq_eval_shards(header, terms, lambda k: 'Eval vm_compute in (report (map (check H MN) cases)).\n',
                                        shard=60)
    for name, e in errors:
        ctx.violation('corr-shard-error', f'correspondence shard {name} did not evaluate: {e[:300]}', {'shard': name, 'error': e}, found_input=False)
    for i, why in sorted(fails.items()):
        d = descs[i]
        cls = ':'.join(why.split(':')[:2])
        path = 'band' if d['in_dispatch_band'] else 'general'
        ctx.violation(f'{d["fn"]}:{path}:{cls}',
                      f'{d["fn"]} ({path} path, tilt {d["tilt"]}): implementation differs from the '
                      f'{"documented construction" if why.startswith("spec") else "model"} ({why}): impl {d["impl"]} for b1={d["b1"]} {d["b1_unit"]}, '
                      f'b2={d["b2"]} {d["b2_unit"]}, lambda={d["wavelength"]} {d["wavelength_unit"]}, g={d["g"]} {d["g_unit"]}',
                      {'kind': 'case', 'case': d, 'reason': why})
    if mutated:
        ctx.note(f'{mutated} groups had an operand modified by the call (C09 covers this)')
    kinds = {}
    for d in descs:
        k = f'{d["fn"]}/{d["layout"]}/{d["wavelength_dtype"]}' + ('/near-axis' if d.get('near_axis') else '')
        kinds[k] = kinds.get(k, 0) + 1
    ctx.coverage.update({
        'evaluations': len(terms),
        'distinct_nontrivial': len({json.dumps([d['fn'], d['b1'], d['b2'], d['g'], d['wavelength'], d['wavelength_dtype']])
                                    for d in descs if isinstance(d['impl'], dict)}),
        'rule': 'groups: tilt in {0,1e-12,1e-11,1e-10(1-1e-3),1e-10(1+1e-3),1e-9,1e-6,1e-3,0.1,1} x {zip,outer,binned,float32}; '
                'gravity |g| in {9.81,100,1e-11,loguniform 1e-3..100} in random directions (30% canonical -y), units m/s^2, mm/s^2, m/ms^2; '
                '8 detectors per group (one per octant of the beam-aligned frame, components 0.05..5 m) in m/mm/cm; wavelength 0..100 angstrom '
                'incl. 0 in angstrom/nm/m, float64 and float32; yz-plane variant at every tilt (ValueError beyond the threshold); '
                '_drop_due_to_gravity; one beam parallel to gravity. '
                'NEAR-AXIS groups: 8 detectors on cones around the actual incident beam with gravity-free 2theta in {1e-6,1e-5,1e-4,1e-3,1e-2,5e-2} '
                '(x1..2) rad and pi - {1e-6,1e-4,1e-2}, random azimuth, L2 0.5..20 m, wavelength 0..20 angstrom incl. 0; tilt 0 (optimised path; '
                'zip float64, zip float32, binned float64), 1e-11 (band), 1e-6/1e-3/0.1/1 (general path; float64 and float32), yz variant float64/float32. '
                'tolerance: 1e-13 rad (float64) / 2e-6 rad (float32) absolute AND, for angles in the forward hemisphere, relative 1e-9 / 1e-5 of '
                '(tan(gravity-free angle) + drop angle) but never tighter than 5e-15 / 1e-12 rad; phi: absolute tolerance x c0/rho where the raised beam '
                'is within sine rho < c0 (0.1 / 0.5) of the e_z axis. non-trivial = the implementation returned a value (not an exception)',
        'samples': [{k: d[k] for k in d if k != 'group'} for d in (descs[:2] + descs[len(descs) // 2:len(descs) // 2 + 2] + descs[-1:])],
        'per_kind': kinds,
        'disagreements': len(fails),
        'constants': {'h': kcorr.fmt(h), 'm_n': kcorr.fmt(mn)},
        'scipp_version': res.get('scipp'),
    })
    # the three consequences named by the property, evaluated on the implementation (cheap: always)
    consequences(ctx)


# ---------------------------------------------------------------------------------------------------
def _grp(gid, fn, b1, b2s, wl_angstrom, g, dtype='float64'):
    return {'id': gid, 'fn': fn, 'layout': 'zip' if len(b2s) > 1 else 'scalar',
            'b1': [hx(c) for c in b1], 'b1_unit': 'm', 'g': [hx(c) for c in g], 'g_unit': 'm/s^2',
            'b2': [[hx(c) for c in v] for v in b2s], 'b2_unit': 'm',
            'wl': [hx(wl_angstrom)] * len(b2s), 'wl_unit': 'angstrom', 'wl_dtype': dtype}


def _vals(r, name):
    return [float(fr(v)) for v in r['result'][name]['values']]


def consequences(ctx):
    """the property's own statement on the implementation: continuity across the dispatch threshold,
    limit lambda -> 0 / g -> 0, monotonic sign for detectors above a horizontal beam"""
    rng = random.Random(ctx.seed + 4)
    found = []
    configs = [([0.0, 1.0, 0.0], [0.0, 0.0, 1.0], [1.0, 0.0, 0.0], 9.81, 10.0, [[0.3, 0.4, 2.0]])]   # the F1 witness first
    for _ in range(6 if ctx.tier == 'quick' else 40):
        up, u, w = frame(rng, False)
        gm = rng.choice([9.81, 100.0, kcorr.loguniform(rng, 0.1, 100.0)])
        lam = rng.choice([10.0, 100.0, rng.uniform(1, 30)])
        dets = []
        for _ in range(4):     # detectors ABOVE the beam axis and downstream
            a, b, c = rng.uniform(-2, 2), rng.uniform(0.1, 2), rng.uniform(0.5, 5)
            dets.append([a * w[i] + b * up[i] + c * u[i] for i in range(3)])
        configs.append((up, u, w, gm, lam, dets))
    groups = []
    meta = []
    for ci, (up, u, w, gm, lam, dets) in enumerate(configs):
        g = [-gm * c for c in up]

        def b1_at(t):
            return [math.cos(t) * a + math.sin(t) * b for a, b in zip(u, up)]
        for nm, b1, wl, gg in [('t0', b1_at(0.0), lam, g), ('t2e-10', b1_at(2e-10), lam, g), ('t1e-9', b1_at(1e-9), lam, g),
                               ('t1e-3', b1_at(1e-3), lam, g),
                               ('t0_lam0', b1_at(0.0), 1e-6, g), ('t1e-3_lam0', b1_at(1e-3), 1e-6, g),
                               ('t0_g0', b1_at(0.0), lam, [c * 1e-9 / gm for c in g]), ('t1e-3_g0', b1_at(1e-3), lam, [c * 1e-9 / gm for c in g])]:
            groups.append(_grp(len(groups), 'sawg', b1, dets, wl, gg))
            meta.append((ci, nm, 'sawg'))
        for nm, t in [('free_t0', 0.0), ('free_t1e-9', 1e-9), ('free_t1e-3', 1e-3)]:
            groups.append(_grp(len(groups), 'two_theta', b1_at(t), dets, lam, g))
            meta.append((ci, nm, 'two_theta'))
    res = ctx.run_impl('c04_impl.py', {'groups': groups})
    tab = {}
    for (ci, nm, fn), g, r in zip(meta, groups, res['groups']):
        if 'result' not in r:
            ctx.violation(f'consequence:raises:{nm}', f'scattering_angles_with_gravity raised {r.get("error")} ({r.get("error_text")}) on a regular input',
                          {'kind': 'consequence', 'groups': [g]})
            continue
        tab[(ci, nm)] = (g, _vals(r, 'two_theta'))
    n_checks = 0
    for ci, cfg in enumerate(configs):
        def get(nm):
            return tab.get((ci, nm), (None, None))
        g0, v0 = get('t0')
        if v0 is None:
            continue
        for k in range(len(v0)):
            def viol(key, text, names):
                gs = [dict(get(n)[0], b2=[get(n)[0]['b2'][k]], wl=[get(n)[0]['wl'][k]], layout='scalar') for n in names]
                obj = {'kind': 'consequence', 'check': key, 'groups': gs,
                       'values': {n: get(n)[1][k] for n in names},
                       'input': {'g_m_s2': [float.fromhex(c) for c in g0['g']], 'b2_m': [float.fromhex(c) for c in g0['b2'][k]],
                                 'lambda_angstrom': float.fromhex(g0['wl'][k])}}
                ctx.violation(key, text + f' [g={obj["input"]["g_m_s2"]} m/s^2, b2={obj["input"]["b2_m"]} m, lambda={obj["input"]["lambda_angstrom"]} angstrom]', obj)
                found.append(obj)
            # 1. continuity across the dispatch threshold
            n_checks += 1
            _, v2 = get('t2e-10')
            if v2 is not None and not abs(v2[k] - v0[k]) <= 1e-9:
                viol('continuity:dispatch-threshold',
                     f'two_theta jumps by {v2[k] - v0[k]:.3e} rad when the incident beam is tilted by 2e-10 rad out of the horizontal '
                     f'(tilt 0: {v0[k]!r}, tilt 2e-10: {v2[k]!r}; required |difference| <= 1e-9)', ['t0', 't2e-10'])
            # 2. limits: lambda -> 0 and g -> 0 give the gravity-free angle on both paths
            for tn, fn_ in [('t0', 'free_t0'), ('t1e-3', 'free_t1e-3')]:
                _, fv = get(fn_)
                for lim in ('lam0', 'g0'):
                    _, lv = get(f'{tn}_{lim}')
                    n_checks += 1
                    if lv is not None and fv is not None and not abs(lv[k] - fv[k]) <= 1e-9:
                        viol(f'limit:{lim}:{"optimised" if tn == "t0" else "general"}',
                             f'two_theta does not tend to the gravity-free angle for {"lambda" if lim == "lam0" else "g"} -> 0 '
                             f'({lv[k]!r} vs {fv[k]!r})', [f'{tn}_{lim}', fn_])
            # 3. sign: detectors above a horizontal beam see a LARGER angle with gravity (beam horizontal to 0 / 1e-9 rad)
            for tn, fn_ in [('t0', 'free_t0'), ('t1e-9', 'free_t1e-9')]:
                _, gv = get(tn)
                _, fv = get(fn_)
                n_checks += 1
                if gv is not None and fv is not None and not gv[k] > fv[k]:
                    viol(f'sign:detector-above-horizontal-beam:{"optimised" if tn == "t0" else "general"}',
                         f'detector above a horizontal beam (tilt {tn[1:]} rad): gravity-corrected two_theta {gv[k]!r} is not larger than the '
                         f'gravity-free angle {fv[k]!r} - the beam was lowered instead of raised', [tn, fn_])
    # 4. per-pixel incident beams: element k of the result for an ARRAY of incident beams equals the result of the scalar call
    #    with beam k; the reflectometry variant must refuse the array as soon as ONE beam is not perpendicular to gravity
    groups, meta = [], []
    for ci in range(3 if ctx.tier == 'quick' else 12):
        up, u, w = frame(rng, False)
        gm = rng.choice([9.81, 100.0])
        g = [-gm * c for c in up]
        lam = rng.uniform(2, 30)
        tilts = [0.0, rng.choice([0.05, 1e-3, 1e-6]), 0.0]
        b1s = [[math.cos(t) * a + math.sin(t) * b for a, b in zip(u, up)] for t in tilts]
        dets = []
        for _ in range(3):
            a, b, c = rng.uniform(-2, 2), rng.uniform(-2, 2), rng.uniform(0.5, 5)
            dets.append([a * w[i] + b * up[i] + c * u[i] for i in range(3)])
        for fn in ('sawg', 'yz'):
            for sel, nm in (([0, 1, 2], 'mixed'), ([0, 2], 'all-perpendicular')):
                grp = _grp(len(groups), fn, b1s[0], [dets[i] for i in sel], lam, g)
                grp['b1s'] = [[hx(c) for c in b1s[i]] for i in sel]
                grp['layout'] = 'zip'
                groups.append(grp)
                meta.append((ci, fn, nm, sel, None))
                for i in sel:
                    groups.append(_grp(len(groups), fn, b1s[i], [dets[i]], lam, g))
                    meta.append((ci, fn, nm, sel, i))
    res = ctx.run_impl('c04_impl.py', {'groups': groups})
    by = {}
    for m, g_, r in zip(meta, groups, res['groups']):
        by[m[:3] + (m[4],)] = (g_, r)
    for (ci, fn, nm, sel, i), g_, r in zip(meta, groups, res['groups']):
        if i is not None:
            continue
        n_checks += 1
        name = 'two_theta' if fn == 'sawg' else 'gamma'
        scal = [by[(ci, fn, nm, k)][1] for k in sel]
        want_raise = fn == 'yz' and nm == 'mixed'
        desc = {'kind': 'consequence', 'check': f'array-incident-beam:{fn}:{nm}', 'groups': [g_] + [by[(ci, fn, nm, k)][0] for k in sel]}
        if want_raise:
            if 'result' in r:
                ctx.violation('refusal:array-incident-beam', 'scattering_angle_in_yz_plane returned angles for an ARRAY of incident beams one of which '
                              f'is tilted out of the horizontal (it raises ValueError for that beam alone): {_vals(r, name)}', desc)
                found.append(desc)
            continue
        if 'result' not in r:
            if all('result' in x for x in scal):
                ctx.violation(f'array-incident-beam:{fn}:raises', f'{fn} raises {r.get("error")} for an array of incident beams each of which is accepted alone', desc)
                found.append(desc)
            continue
        av = _vals(r, name)
        for k, x in enumerate(scal):
            if 'result' in x and not abs(av[k] - _vals(x, name)[0]) <= 1e-9:
                ctx.violation(f'array-incident-beam:{fn}:value', f'{fn} element {k} for an array of incident beams is {av[k]!r}, the scalar call with that beam '
                              f'gives {_vals(x, name)[0]!r}', desc)
                found.append(desc)
                break
    n_checks += consequences_axis(ctx, found)
    ctx.coverage['consequence_checks'] = n_checks
    return found


def consequences_axis(ctx, found, seed_shift=0):
    """limit lambda -> 0 and 'larger than the gravity-free angle' for detectors CLOSE TO THE BEAM AXIS (gravity-free
    2theta 1e-6..5e-2 rad, above the beam), float64 and float32 wavelength, optimised path (tilt 0) and general path
    (tilt 1e-9: horizontal beam; 1e-3: limit only).  The limit is demanded with RELATIVE accuracy (1e-9 resp. 1e-5 of the
    gravity-free angle, never tighter than 5e-15 / 1e-12 rad)."""
    rng = random.Random(ctx.seed + 11 + seed_shift)
    groups, meta = [], []
    n_cfg = 3 if ctx.tier == 'quick' else 12
    for ci in range(n_cfg):
        up, u, w = frame(rng, ci == 0)
        gm = rng.choice([9.81, 100.0])
        lam = rng.choice([10.0, 30.0])
        g = [-gm * c for c in up]
        for tilt in (0.0, 1e-9, 1e-3):
            e = [math.cos(tilt) * a + math.sin(tilt) * b for a, b in zip(u, up)]
            q_ = [-math.sin(tilt) * a + math.cos(tilt) * b for a, b in zip(u, up)]
            dets = []
            for th in AXIS_ANGLES:
                th = th * rng.uniform(1.0, 2.0)
                az = rng.uniform(math.pi / 6, 5 * math.pi / 6)
                L2 = kcorr.loguniform(rng, 0.5, 20.0)
                dets.append([L2 * (math.cos(th) * e[i] + math.sin(th) * (math.cos(az) * w[i] + math.sin(az) * q_[i])) for i in range(3)])
            for dt in ('float64', 'float32'):
                for nm, fn, wl in (('grav', 'sawg', lam), ('lam0', 'sawg', 1e-6), ('free', 'two_theta', lam)):
                    if nm == 'free' and dt == 'float32':
                        continue
                    groups.append(_grp(len(groups), fn, e, dets, wl, g, dt))
                    meta.append((ci, tilt, dt, nm))
    res = ctx.run_impl('c04_impl.py', {'groups': groups})
    tab = {}
    for m, g_, r in zip(meta, groups, res['groups']):
        if 'result' not in r:
            ctx.violation(f'consequence:near-axis:raises:{m[3]}', f'{g_["fn"]} raised {r.get("error")} ({r.get("error_text")}) for detectors close to the beam axis',
                          {'kind': 'consequence', 'groups': [g_]})
            found.append({'groups': [g_]})
            continue
        tab[m] = (g_, _vals(r, 'two_theta'))
    n = 0
    seen = set()
    for (ci, tilt, dt, nm), (g0, gv) in sorted(tab.items()):
        if nm != 'grav':
            continue
        free = tab.get((ci, tilt, 'float64', 'free'))
        lim = tab.get((ci, tilt, dt, 'lam0'))
        if free is None:
            continue
        path = 'optimised' if tilt == 0.0 else 'general'
        rel, floor, cap = (1e-9, 5e-15, 1e-9) if dt == 'float64' else (1e-5, 1e-12, 2e-6)
        for k, fv in enumerate(free[1]):
            def viol(key, text, pairs):
                if key in seen:      # one concrete input per class
                    return
                seen.add(key)
                gs = [dict(x[0], b2=[x[0]['b2'][k]], wl=[x[0]['wl'][k]], layout='scalar') for _, x in pairs]
                obj = {'kind': 'consequence', 'check': key, 'groups': gs, 'values': {n_: x[1][k] for n_, x in pairs},
                       'input': {'g_m_s2': [float.fromhex(c) for c in g0['g']], 'b1_m': [float.fromhex(c) for c in g0['b1']],
                                 'b2_m': [float.fromhex(c) for c in g0['b2'][k]], 'wavelength_dtype': dt,
                                 'gravity_free_two_theta': fv}}
                ctx.violation(key, text + f' [g={obj["input"]["g_m_s2"]} m/s^2, b1={obj["input"]["b1_m"]} m, b2={obj["input"]["b2_m"]} m, {dt} wavelength]', obj)
                found.append(obj)
            if lim is not None:
                n += 1
                tol = min(cap, max(rel * fv, floor))
                if not abs(lim[1][k] - fv) <= tol:
                    viol(f'limit:lam0:{path}:near-axis:{dt}',
                         f'detector {fv:.3e} rad from the beam axis: two_theta for lambda -> 0 (1e-6 angstrom) is {lim[1][k]!r}, the gravity-free '
                         f'angle is {fv!r} (difference {lim[1][k] - fv:.3e}, allowed {tol:.3e})', [('lam0', lim), ('free', free)])
            if tilt <= 1e-9:
                n += 1
                if not gv[k] > fv:
                    viol(f'sign:detector-above-horizontal-beam:{path}:near-axis:{dt}',
                         f'detector {fv:.3e} rad from the axis of a horizontal beam and above it (tilt {tilt} rad): gravity-corrected two_theta '
                         f'{gv[k]!r} is not larger than the gravity-free angle {fv!r}', [('grav', (g0, gv)), ('free', free)])
    ctx.coverage['near_axis_consequence_checks'] = n
    return n


# ---------------------------------------------------------------------------------------------------
# The documented construction in 70-digit decimal arithmetic on the operands exactly as stored.  Used ONLY by
# search() (an obligation broke - possibly the model no longer compiles, so that Coq cannot compare): it evaluates the
# property statement "result = construction" on the implementation with the tolerances of the Coq comparison.
from decimal import Decimal, localcontext

HP_PREC = 70


def _dq(pair):
    return Decimal(int(pair[0])) / Decimal(int(pair[1]))


def _d_atan(t):
    """atan of a Decimal t >= 0 (current context precision)"""
    if t > 1:
        return _d_pi() / 2 - _d_atan(1 / t)
    k = 0
    while t > Decimal('0.05'):
        t = t / (1 + (1 + t * t).sqrt())
        k += 1
    s, term, n, t2 = t, t, 1, t * t
    while True:
        term = -term * t2
        n += 2
        a = term / n
        s += a
        if abs(a) < Decimal(10) ** (-HP_PREC - 5):
            break
    return s * (2 ** k)


_PI = []


def _d_pi():
    if not _PI:
        _PI.append(None)   # guard against recursion: Machin, arguments < 1
        _PI[0] = 16 * _d_atan(Decimal(1) / 5) - 4 * _d_atan(Decimal(1) / 239)
    return _PI[0]


def _d_atan2(y, x):
    if x == 0 and y == 0:
        return Decimal(0)
    if x == 0:
        return _d_pi() / 2 if y > 0 else -_d_pi() / 2
    a = _d_atan(abs(y) / abs(x))
    if x < 0:
        a = _d_pi() - a
    return a if y >= 0 else -a


def hp_construction(st, i, j, consts):
    """-> dict of Decimals (SI / rad) for detector i, wavelength j of the stored operands `st`"""
    with localcontext() as c:
        c.prec = HP_PREC
        def v3(o, vals):
            m = _dq(o['unit']['mult'])
            return [_dq(x) * m for x in vals]
        dot = lambda a, b: sum((x * y for x, y in zip(a, b)), Decimal(0))
        nrm = lambda a: dot(a, a).sqrt()
        cross = lambda a, b: [a[1] * b[2] - a[2] * b[1], a[2] * b[0] - a[0] * b[2], a[0] * b[1] - a[1] * b[0]]
        b1 = v3(st['b1'], st['b1']['values'][:3])
        b2 = v3(st['b2'], st['b2']['values'][i])
        g = v3(st['g'], st['g']['values'])
        lam = _dq(st['wl']['values'][j]) * _dq(st['wl']['unit']['mult'])
        h, mn = _dq(consts['h']['value']) * _dq(consts['h']['unit']['mult']), _dq(consts['m_n']['value']) * _dq(consts['m_n']['unit']['mult'])
        gn = nrm(g)
        ey = [-x / gn for x in g]
        z = [a - dot(b1, ey) * e for a, e in zip(b1, ey)]
        zn = nrm(z)
        out = {'g_dot_b1_over_g': abs(dot(g, b1)) / gn / _dq(st['b1']['unit']['mult']), 'horizontal': zn}
        if zn == 0:
            return out
        ez = [x / zn for x in z]
        ex = cross(ey, ez)
        L2 = nrm(b2)
        d = gn * mn * mn * lam * lam * dot(b2, b2) / (2 * h * h)
        cc = [a + d * e for a, e in zip(b2, ey)]
        yd = dot(b2, ey)
        sin_free = nrm(cross(b1, b2))
        cos_free = dot(b1, b2)
        out.update({
            'delta': d, 'L2': L2,
            'two_theta': _d_atan2(nrm(cross(b1, cc)), dot(b1, cc)),
            'phi': _d_atan2(dot(cc, ey), dot(cc, ex)),
            'gamma': _d_atan2(abs(yd + d), dot(b2, ez)),
            'free': _d_atan2(sin_free, cos_free),
            # conditioning scales: the size of the quantities the angle is assembled from
            'scale_tt': (sin_free / cos_free + d / L2) if cos_free > 0 else None,
            'scale_gamma': ((abs(yd) + d) / dot(b2, ez)) if dot(b2, ez) > 0 else None,
            # phi = atan2(y', x) is ill-conditioned where the raised beam is close to the e_z axis
            'rho': (dot(cc, ey) ** 2 + dot(cc, ex) ** 2).sqrt() / nrm(cc) if nrm(cc) > 0 else Decimal(0),
        })
        # all values are plain Decimals; leave the context
        return out


def search(ctx, broken):
    """an obligation broke (a proof, the model no longer compiles / evaluates, or a changed statement that no harness
    process executed): evaluate the property's own statement on the implementation.
    1. the consequences (continuity across the dispatch threshold, limits, sign; also close to the beam axis) already
       ran at the end of correspondence(): re-use their findings and those of the Coq comparison;
    2. otherwise compare the implementation with the documented construction (70-digit decimal arithmetic on the stored
       operands, tolerances of the Coq comparison) on a fresh stream of the correspondence's input classes - every
       entry point, both paths, the dispatch band, detectors close to the beam axis, float32/64, dense/binned."""
    have = [v.replay for v in ctx.violations if isinstance(v.replay, dict) and v.replay.get('kind') in ('consequence', 'case')]
    if any(x.get('kind') == 'case' for x in have):
        return have                       # the Coq comparison already produced concrete elements
    found = have + construction_search(ctx, max_keys=4)
    if not found:
        consequences_axis(ctx, found, seed_shift=101)
    return found


def construction_search(ctx, max_keys=6):
    rng = random.Random(ctx.seed + 17)
    groups = gen_groups(rng, ctx.tier)
    gid = len(groups)
    for _ in range(2):
        more = gen_axis_groups(rng, 'quick', gid)
        groups += more
        gid += len(more)
    res = ctx.run_impl('c04_impl.py', {'groups': groups})
    consts = res['constants']
    found, keys, n = [], set(), 0
    for g, r in zip(groups, res['groups']):
        if 'build_error' in r:
            continue
        st = r['stored']
        f32 = st['wl']['dtype'] == 'float32'
        atol = Decimal('2e-6') if f32 else Decimal('1e-13')
        rel, floor, c0 = (Decimal('1e-5'), Decimal('1e-12'), Decimal('0.5')) if f32 else (Decimal('1e-9'), Decimal('5e-15'), Decimal('0.1'))
        inband, tilt_act = band_of(st)
        for k, (_, d) in enumerate(cases_of(g, r)):
            i, j = d['element']
            hp = hp_construction(st, i, j, consts)
            n += 1
            if 'two_theta' not in hp or hp['horizontal'] / _dq(st['b1']['unit']['mult']) < Decimal('1e-6'):
                continue                                   # incident beam (numerically) parallel to gravity: not quantified over
            ratio = hp['g_dot_b1_over_g'] / Decimal('1e-10')
            beyond, within = ratio > Decimal('1.000001'), ratio < Decimal('0.999999')
            band = Decimal(1.05 * tilt_act + 1e-16) if (inband and g['fn'] == 'sawg') else Decimal(0)
            bad = []      # (name, observed, required, allowed)
            raised = not isinstance(d['impl'], dict)
            if g['fn'] == 'yz' and not (beyond or within):
                continue                                   # on the refusal threshold: either answer
            if g['fn'] == 'yz' and beyond:
                if d['impl'] != 'raises ValueError':
                    bad.append(('refusal', d['impl'], 'ValueError (incident beam not perpendicular to gravity)', ''))
            elif raised:
                bad.append(('raises', d['impl'], 'a value', ''))
            elif g['fn'] == 'drop':
                v = r['result']['drop']['values'][k]
                x = None if isinstance(v, str) else _dq(v) * _dq(r['result']['drop']['unit']['mult'])
                rt = (Decimal('1e-6') if f32 else Decimal('1e-12')) * hp['delta']
                if x is None or abs(x - hp['delta']) > rt:
                    bad.append(('drop', v if x is None else float(x), hp['delta'], rt))
            else:
                if g['fn'] == 'sawg':
                    t1 = (min(atol, max(rel * hp['scale_tt'], floor)) if hp['scale_tt'] is not None else atol) + band
                    t2 = (Decimal(1000) if hp['rho'] <= 0 else atol if hp['rho'] >= c0 else atol * c0 / hp['rho']) + band
                    todo = [('two_theta', hp['two_theta'], t1), ('phi', hp['phi'], t2)]
                else:
                    todo = [('gamma', hp['gamma'], min(atol, max(rel * hp['scale_gamma'], floor)) if hp['scale_gamma'] is not None else atol)]
                for name, req, tol in todo:
                    v = r['result'][name]['values'][k]
                    x = None if isinstance(v, str) else _dq(v)
                    if x is None or abs(x - req) > tol:
                        bad.append((name, v if x is None else float(x), req, tol))
            for name, obs, req, tol in bad:
                path = 'band' if inband else 'general'
                if inband and tilt_act == 0.0:
                    path = 'optimised'
                near = 'near-axis' if g.get('axis') else 'wide'
                key = f'construction:{g["fn"]}:{path}:{name}:{near}:{st["wl"]["dtype"]}'
                if key in keys or len(keys) >= max_keys:
                    continue
                keys.add(key)
                what = (f'{g["fn"]} ({path} path, tilt {g["tilt"]}, {st["wl"]["dtype"]} wavelength, {near} detector): {name} is {obs!r}, '
                        f'the documented construction gives {req if isinstance(req, str) else float(req)!r}'
                        + (f' (difference {float(Decimal(obs) - req):.3e}, allowed {float(tol):.3e}; gravity-free angle {float(hp["free"]):.3e} rad)'
                           if isinstance(obs, float) and not isinstance(req, str) else '')
                        + f': b1={d["b1"]} {d["b1_unit"]}, b2={d["b2"]} {d["b2_unit"]}, lambda={d["wavelength"]} {d["wavelength_unit"]}, g={d["g"]} {d["g_unit"]}')
                obj = {'kind': 'case', 'case': d, 'reason': f'search:{name}', 'required': str(req), 'allowed': str(tol)}
                ctx.violation(key, what, obj)
                found.append(obj)
    ctx.coverage['search_construction_evaluations'] = n
    return found


def replay(ctx, obj):
    rp = obj['replay']
    print(json.dumps({k: obj[k] for k in ('property', 'key', 'what')}, indent=1))
    import vlib
    groups = rp.get('groups') or ([rp['case']['group']] if 'case' in rp else [])
    for i, g in enumerate(groups):
        g = dict(g, id=i)
        g.setdefault('layout', 'zip')
    res = ctx.run_impl('c04_impl.py', {'groups': [dict(g, id=i) for i, g in enumerate(groups)]})
    for g, r in zip(groups, res['groups']):
        print('fn', g['fn'], 'b1', [float.fromhex(c) for c in g['b1']], g['b1_unit'], 'g', [float.fromhex(c) for c in g['g']], g['g_unit'])
        if 'result' in r:
            for nm, d in r['result'].items():
                print('  ', nm, [float(fr(v)) if not isinstance(v, str) else v for v in d['values']][:8], d['unit']['name'])
        else:
            print('   raises', r.get('error'), r.get('error_text'))
    if 'values' in rp:
        print('recorded:', rp['values'])
    if 'case' in rp:
        c = rp['case']
        print('element', c['element'], 'observed', c['impl'], '| required by the construction (float evaluation, for the reader):',
              py_construction(c))
    return 0


def py_construction(c):
    """the documented construction in plain floats (replay output only; never used to judge)"""
    table = dict(LEN_UNITS + WL_UNITS + G_UNITS)
    def mult(u):
        return table[u]
    grp = c.get('group', {})      # the unit spellings of the request (scipp prints angstrom as a symbol)
    b1 = [x * mult(grp.get('b1_unit', c['b1_unit'])) for x in c['b1']]
    b2 = [x * mult(grp.get('b2_unit', c['b2_unit'])) for x in c['b2']]
    g = [x * mult(grp.get('g_unit', c['g_unit'])) for x in c['g']]
    lam = c['wavelength'] * mult(grp.get('wl_unit', c['wavelength_unit']))
    h, mn = 6.62607015e-34, 1.67492750056e-27
    dot = lambda a, b: sum(x * y for x, y in zip(a, b))
    nrm = lambda a: math.sqrt(dot(a, a))
    cross = lambda a, b: [a[1] * b[2] - a[2] * b[1], a[2] * b[0] - a[0] * b[2], a[0] * b[1] - a[1] * b[0]]
    ey = [-x / nrm(g) for x in g]
    z = [a - dot(b1, ey) * e for a, e in zip(b1, ey)]
    ez = [x / nrm(z) for x in z]
    ex = cross(ey, ez)
    d = nrm(g) * mn ** 2 * lam ** 2 * dot(b2, b2) / (2 * h ** 2)
    cc = [a + d * e for a, e in zip(b2, ey)]
    return {'delta_m': d, 'two_theta': math.atan2(nrm(cross(b1, cc)), dot(b1, cc)), 'phi': math.atan2(dot(cc, ey), dot(cc, ex)),
            'gamma_yz': math.atan2(abs(dot(b2, ey) + d), dot(b2, ez))}
