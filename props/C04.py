"""C04 - gravity-corrected angles follow the documented construction on every code path."""
import json
import math
import random
from fractions import Fraction

import kcorr

ID = 'C04'
LEVEL = 'proof'
TRANSLATE = {
    'sigs': {'sc.atan2': ['sc_atan2_o', [], [['y', '!'], ['x', '!'], ['out', None]]],
             'sc.sqrt': ['sc_sqrt_o', ['x'], [['out', None]]],
             'sc.abs': ['sc_abs_o', ['x'], [['out', None]]],
             'sc.reciprocal': ['sc_reciprocal_u', ['x'], []],
             'sc.any': ['sc_any', ['x'], []],
             'set': ['py_set', ['x'], []]},
    'methods': {'issubset': ['m_issubset', ['other'], []]},
    'modules': [
        {'py': 'src/scippneutron/_utils/__init__.py', 'coq': 'GenUtils', 'functions': ['elem_unit', 'elem_dtype']},
        {'py': 'src/scippneutron/conversion/beamline.py', 'coq': 'GenBeamline',
         'imports': {'elem_unit': 'GenUtils', 'elem_dtype': 'GenUtils'},
         'requires': ['Verif.C04.SemExt'],
         # `set(distance.dims).issubset(drop.dims)` is a fact about array shapes: a Section variable, so
         # every theorem holds for both answers
         'section': ['Variable dims_subset : bool.',
                     'Let m_issubset (O0 : Fops) := issubset_with O0 dims_subset.'],
         'functions': ['L1', 'L2', 'two_theta', 'beam_aligned_unit_vectors', '_drop_due_to_gravity',
                       'scattering_angles_with_gravity', '_scattering_angles_with_gravity_generic',
                       '_scattering_angles_with_gravity_orthogonal_coords', 'scattering_angle_in_yz_plane']},
    ]}
# Tie.v: everything independent of the vector the general path feeds to two_theta; Corr.v: executable
# model; TieGeneric.v: the general path (breaks on a tree with finding F1); Properties.v: the theorems
RUN_FILES = ['Tie.v', 'Corr.v', 'TieGeneric.v', 'Properties.v']
COQ_TIMEOUT = 600
TRUSTED = [
    'tools/py2coq.py (syntactic translator, fail-closed; `del x` = the name becomes unbound)',
    'coq/Sem/Val.v + coq/C04/SemExt.v: model of scipp element semantics (vector +,-,*,/ ; norm, dot, cross; unit algebra incl. '
    'sqrt/reciprocal of units and to(unit=); to(dtype=); atan2 with identical float dtypes; abs; comparisons; out= returns the '
    'functional result and demands the result dtype; in-place operators rebind the name)',
    'coq/Sem/RInst.v: the R instance does not decide equality of unit multipliers in + - < where (fail-closed, see file); '
    'the Q instance used by the correspondence does (to 1e-9)',
    'sc.any(cond) is modelled per element (0-d incident beam / gravity: exact; for ARRAYS of incident beams the '
    'implementation chooses one path for all elements - by generic_is_construction / orthogonal_is_construction '
    'either choice is the construction outside the band 0 < |g.b1| <= 1e-10 |g|)',
    'set(distance.dims).issubset(drop.dims) (array shapes) is a Section variable: theorems hold for both answers',
    'coq/Sem/QInst.v rational sqrt/atan2 (2^-140; correspondence only, not used in proofs)',
    'tools/harness/c04_impl.py (exact serialisation of operands/results)',
]
ASSUMPTIONS = [
    'theorems are over exact reals; rounding is covered by the correspondence tolerance (1e-13 rad absolute for float64 '
    'wavelength, 2e-6 rad for float32)',
    'the incident beam is not numerically parallel to gravity (|horizontal part| >= 1e-10 in the unit the beam is stored in), '
    'gravity and the raised beam are non-zero; wavelength float32/float64 (an integer wavelength makes the drop an integer: out of scope)',
    'inside the dispatch band 0 < |g.b1| <= 1e-10 |g| the optimised path returns the angle to the HORIZONTAL direction of the '
    'beam (proved: C04_public_in_band_partial); that this differs from the construction by at most the tilt (<= 1e-10 rad) is '
    'measured by the correspondence, not proved - continuity in the tilt is therefore proved only as "one expression on both '
    'sides of the threshold and at tilt 0" (paths_agree, public_is_construction)',
    'float signed zero: atan2(-0.0, x<0) = -pi in IEEE, +pi over R (not generated)',
]
LEVEL_TEXT = ('Proof: for all units of beams/wavelength/gravity, both float classes and every incident beam not parallel to gravity, '
              'the regenerated _drop_due_to_gravity is |g| m_n^2 lambda^2 L2^2/(2h^2) in the unit of distance; the general path returns '
              'angle(b1, b2 + delta e_y) and atan2(y_d+delta, x_d); the optimised path returns the same two values when g.b1 = 0 '
              '(paths agree on the dispatch boundary); hence the public function is the construction for g.b1 = 0 or |g.b1| > 1e-10|g|, '
              'tends to the gravity-free angle for lambda = 0, exceeds it for detectors above a horizontal beam; the reflectometry variant '
              'is atan2(|y_d+delta|, z_d) and raises ValueError beyond the threshold. Model validated against scipp inside Coq on '
              'tilts 0..1 rad, all octants, random gravity directions, dense/binned, float32/64.')
LEVEL_NOTE = ('Trusted: Coq kernel; std-lib real axioms; py2coq; Sem/Val.v + C04/SemExt.v model of scipp; rounding by tolerance; '
              'the 1e-10 band of the optimised path is characterised but its distance to the construction only measured.')
TECHNIQUE = ('Coq proof on regenerated terms (helper calls rewritten to canonical values, cbv, field over R; Kahan formula = acos, '
             'in-plane formula = angle via orthonormal frame) + vm_compute correspondence of model AND independent spec against the implementation')

TILTS = [0.0, 1e-12, 1e-11, 1e-10 * (1 - 1e-3), 1e-10 * (1 + 1e-3), 1e-9, 1e-6, 1e-3, 0.1, 1.0]
LEN_UNITS = [('m', 1.0), ('mm', 1e-3), ('cm', 1e-2)]
WL_UNITS = [('angstrom', 1e-10), ('nm', 1e-9), ('m', 1.0)]
G_UNITS = [('m/s^2', 1.0), ('mm/s^2', 1e-3), ('m/ms^2', 1e6)]
OCT = [(sx, sy, sz) for sx in (1, -1) for sy in (1, -1) for sz in (1, -1)]
hx = kcorr.hexf


def unit_vec(rng):
    while True:
        v = [rng.gauss(0, 1) for _ in range(3)]
        n = math.sqrt(sum(c * c for c in v))
        if n > 0.1:
            return [c / n for c in v]


def frame(rng, canonical):
    """(up, u, w): up = -g/|g|, u horizontal beam direction, w = up x u"""
    if canonical:
        return [0.0, 1.0, 0.0], [0.0, 0.0, 1.0], [1.0, 0.0, 0.0]
    up = unit_vec(rng)
    while True:
        t = unit_vec(rng)
        d = sum(a * b for a, b in zip(t, up))
        u = [a - d * b for a, b in zip(t, up)]
        n = math.sqrt(sum(c * c for c in u))
        if n > 0.3:
            u = [c / n for c in u]
            break
    w = [up[1] * u[2] - up[2] * u[1], up[2] * u[0] - up[0] * u[2], up[0] * u[1] - up[1] * u[0]]
    return up, u, w


def make_group(rng, gid, fn, tilt, layout, wl_dtype, canonical=None, gmag=None, unit_len=None):
    canonical = rng.random() < 0.3 if canonical is None else canonical
    up, u, w = frame(rng, canonical)
    if gmag is None:
        gmag = rng.choice([9.81, 9.81, 100.0, 1e-11, kcorr.loguniform(rng, 1e-3, 100.0)])
    gu = rng.choice(G_UNITS) if not canonical else G_UNITS[0]
    g_si = [-gmag * c for c in up]
    sgn = rng.choice([1, -1])
    b1u = rng.choice(LEN_UNITS)
    # numeric length 1 (in its own unit) for the threshold cases, so that `tilt` is the dispatch variable
    L1 = 1.0 if (unit_len if unit_len is not None else (tilt < 1e-8 or rng.random() < 0.5)) else rng.uniform(0.5, 30.0)
    b1_num = [L1 * (math.cos(tilt) * a + sgn * math.sin(tilt) * b) for a, b in zip(u, up)]
    b2u = rng.choice(LEN_UNITS)
    octs = list(OCT)
    rng.shuffle(octs)
    b2 = []
    for (sx, sy, sz) in octs:
        a, b, c = (kcorr.loguniform(rng, 0.05, 5.0) for _ in range(3))
        si = [sx * a * w[i] + sy * b * up[i] + sz * c * u[i] for i in range(3)]
        b2.append([x / b2u[1] for x in si])
    wlu = rng.choice(WL_UNITS if wl_dtype == 'float64' else WL_UNITS[:2])
    n_wl = {'zip': 8, 'outer': 3, 'binned': 16, 'scalar': 1}[layout]
    wl_si = [rng.choice([0.0, 1e-13, 1e-10, 1.8e-10, 1e-9, 1e-8, rng.uniform(0, 1e-8), rng.uniform(0, 2e-9)]) for _ in range(n_wl)]
    return {'id': gid, 'fn': fn, 'tilt': tilt, 'layout': layout,
            'b1': [hx(c) for c in b1_num], 'b1_unit': b1u[0],
            'g': [hx(c / gu[1]) for c in g_si], 'g_unit': gu[0],
            'b2': [[hx(c) for c in v] for v in b2], 'b2_unit': b2u[0],
            'wl': [hx(x / wlu[1]) for x in wl_si], 'wl_unit': wlu[0], 'wl_dtype': wl_dtype}


def gen_groups(rng, tier):
    groups = []
    reps = 1 if tier == 'quick' else 12
    gid = 0
    for _ in range(reps):
        for tilt in TILTS:
            for k in range(4):
                layout = ['zip', 'outer', 'binned', 'zip'][k]
                dt = 'float32' if k == 3 else 'float64'
                groups.append(make_group(rng, gid, 'sawg', tilt, layout, dt))
                gid += 1
        for tilt in TILTS:
            groups.append(make_group(rng, gid, 'yz', tilt, rng.choice(['zip', 'binned']), rng.choice(['float64', 'float64', 'float32'])))
            gid += 1
        for k in range(6):
            groups.append(make_group(rng, gid, 'drop', 0.0, ['zip', 'outer', 'binned', 'scalar', 'zip', 'zip'][k],
                                     'float32' if k >= 4 else 'float64'))
            gid += 1
        # incident beam parallel to gravity: refused
        groups.append(make_group(rng, gid, 'sawg', math.pi / 2, 'zip', 'float64', unit_len=True))
        gid += 1
    return groups


def fr(pair):
    return Fraction(int(pair[0]), int(pair[1]))


def vin_term(vals, unit):
    return (f'(mkvin {kcorr.q(vals[0])} {kcorr.q(vals[1])} {kcorr.q(vals[2])} {kcorr.q(unit["mult"])} '
            f'{kcorr.dims_term(unit["dims"])})')


def out_of(desc, k):
    u = desc['unit']
    v = desc['values'][k]
    sc_, dm, dt = kcorr.q(u['mult']), kcorr.dims_term(u['dims']), kcorr.DT[desc['dtype']]
    if v == 'nan':
        return f'(OutNaN {sc_} {dm} {dt})'
    if v in ('inf', '-inf'):
        return f'(OutInf {sc_} {dm} {dt})'
    return f'(OutVal {kcorr.q(v)} {sc_} {dm} {dt})'


def band_of(st):
    """(in dispatch band?, tilt of the stored beam out of the horizontal) from the stored numbers"""
    b1 = [float(fr(c)) for c in st['b1']['values']]
    g = [float(fr(c)) for c in st['g']['values']]
    gn = math.sqrt(sum(c * c for c in g))
    bn = math.sqrt(sum(c * c for c in b1))
    dot = abs(sum(a * b for a, b in zip(g, b1)))
    return dot <= 1e-10 * gn, (dot / (gn * bn) if gn * bn > 0 else 0.0)


def cases_of(g, r):
    """-> list of (coq term, description)"""
    out = []
    st = r['stored']
    f32 = st['wl']['dtype'] == 'float32'
    tol = '(2 # 1000000)' if f32 else '(1 # 10000000000000)'
    if g['fn'] == 'drop':
        tol = '(1 # 1000000)' if f32 else '(1 # 1000000000000)'      # relative
    inband, tilt_act = band_of(st)
    band = kcorr.q([str(Fraction(1.05 * tilt_act + 1e-16).numerator), str(Fraction(1.05 * tilt_act + 1e-16).denominator)]) \
        if (inband and g['fn'] == 'sawg') else '0'
    b1t = vin_term(st['b1']['values'], st['b1']['unit'])
    gt = vin_term(st['g']['values'], st['g']['unit'])
    wu = st['wl']['unit']

    def wl_term(j):
        return (f'(mkinp {kcorr.q(st["wl"]["values"][j])} {kcorr.q(wu["mult"])} {kcorr.dims_term(wu["dims"])} '
                f'{kcorr.DT[st["wl"]["dtype"]]})')

    def desc(i, j, impl):
        return {'fn': g['fn'], 'tilt': g['tilt'], 'layout': g['layout'], 'in_dispatch_band': inband,
                'b1': [float(fr(c)) for c in st['b1']['values']], 'b1_unit': st['b1']['unit']['name'],
                'g': [float(fr(c)) for c in st['g']['values']], 'g_unit': st['g']['unit']['name'],
                'b2': [float(fr(c)) for c in st['b2']['values'][i]], 'b2_unit': st['b2']['unit']['name'],
                'wavelength': float(fr(st['wl']['values'][j])), 'wavelength_unit': wu['name'], 'wavelength_dtype': st['wl']['dtype'],
                'impl': impl, 'group': {k: g[k] for k in ('fn', 'layout', 'b1', 'b1_unit', 'g', 'g_unit', 'b2', 'b2_unit', 'wl', 'wl_unit', 'wl_dtype')},
                'element': [i, j]}
    ds = 'true' if g['layout'] != 'outer' else 'false'
    if 'error' in r:
        b2t = vin_term(st['b2']['values'][0], st['b2']['unit'])
        t = f'(mkg "{g["fn"]}" {ds} {b1t} {b2t} {wl_term(0)} {gt} (OutErr "{r["error"]}") (OutErr "{r["error"]}") {tol} {band})'
        out.append((t, desc(0, 0, 'raises ' + r['error'])))
        return out
    res = r['result']
    names = {'sawg': ('two_theta', 'phi'), 'yz': ('gamma', 'gamma'), 'drop': ('drop', 'drop')}[g['fn']]
    for k, (i, j) in enumerate(r['pairs']):
        b2t = vin_term(st['b2']['values'][i], st['b2']['unit'])
        o1, o2 = out_of(res[names[0]], k), out_of(res[names[1]], k)
        impl = {n: kcorr.fmt(res[n]['values'][k]) for n in set(names)}
        impl['dtype'] = res[names[0]]['dtype']
        t = f'(mkg "{g["fn"]}" {ds} {b1t} {b2t} {wl_term(j)} {gt} {o1} {o2} {tol} {band})'
        out.append((t, desc(i, j, impl)))
    return out


def correspondence(ctx):
    rng = random.Random(ctx.seed)
    groups = gen_groups(rng, ctx.tier)
    res = ctx.run_impl('c04_impl.py', {'groups': groups})
    h, mn = res['constants']['h']['value'], res['constants']['m_n']['value']
    terms, descs = [], []
    mutated = 0
    for g, r in zip(groups, res['groups']):
        if 'build_error' in r:
            ctx.note('harness could not build a group: ' + r['build_error'])
            continue
        if not r.get('inputs_unchanged', True):
            mutated += 1
        for t, d in cases_of(g, r):
            terms.append(t)
            descs.append(d)
    header = ('From Coq Require Import QArith ZArith String List.\n'
              'From Verif.Sem Require Import Field Val QInst Corr.\nFrom Run Require Import Corr.\n'
              'Import ListNotations.\nOpen Scope string_scope.\n'
              f'Definition H : Q := {kcorr.q(h)}.\nDefinition MN : Q := {kcorr.q(mn)}.\n')
    fails, errors = ctx.coq_eval_shards(header, terms, lambda k: 'Eval vm_compute in (report (map (check H MN) cases)).\n',
                                        shard=60)
    for name, e in errors:
        ctx.violation('corr-shard-error', f'correspondence shard {name} did not evaluate: {e[:300]}', {'shard': name, 'error': e}, found_input=False)
    for i, why in sorted(fails.items()):
        d = descs[i]
        cls = ':'.join(why.split(':')[:2])
        path = 'band' if d['in_dispatch_band'] else 'general'
        ctx.violation(f'{d["fn"]}:{path}:{cls}',
                      f'{d["fn"]} ({path} path, tilt {d["tilt"]}): implementation differs from the '
                      f'{"documented construction" if why.startswith("spec") else "model"} ({why}): impl {d["impl"]} for b1={d["b1"]} {d["b1_unit"]}, '
                      f'b2={d["b2"]} {d["b2_unit"]}, lambda={d["wavelength"]} {d["wavelength_unit"]}, g={d["g"]} {d["g_unit"]}',
                      {'kind': 'case', 'case': d, 'reason': why})
    if mutated:
        ctx.note(f'{mutated} groups had an operand modified by the call (C09 covers this)')
    kinds = {}
    for d in descs:
        k = f'{d["fn"]}/{d["layout"]}/{d["wavelength_dtype"]}'
        kinds[k] = kinds.get(k, 0) + 1
    ctx.coverage.update({
        'evaluations': len(terms),
        'distinct_nontrivial': len({json.dumps([d['fn'], d['b1'], d['b2'], d['g'], d['wavelength'], d['wavelength_dtype']])
                                    for d in descs if isinstance(d['impl'], dict)}),
        'rule': 'groups: tilt in {0,1e-12,1e-11,1e-10(1-1e-3),1e-10(1+1e-3),1e-9,1e-6,1e-3,0.1,1} x {zip,outer,binned,float32}; '
                'gravity |g| in {9.81,100,1e-11,loguniform 1e-3..100} in random directions (30% canonical -y), units m/s^2, mm/s^2, m/ms^2; '
                '8 detectors per group (one per octant of the beam-aligned frame, components 0.05..5 m) in m/mm/cm; wavelength 0..100 angstrom '
                'incl. 0 in angstrom/nm/m, float64 and float32; yz-plane variant at every tilt (ValueError beyond the threshold); '
                '_drop_due_to_gravity; one beam parallel to gravity. non-trivial = the implementation returned a value (not an exception)',
        'samples': [{k: d[k] for k in d if k != 'group'} for d in (descs[:2] + descs[len(descs) // 2:len(descs) // 2 + 2] + descs[-1:])],
        'per_kind': kinds,
        'disagreements': len(fails),
        'constants': {'h': kcorr.fmt(h), 'm_n': kcorr.fmt(mn)},
        'scipp_version': res.get('scipp'),
    })
    # the three consequences named by the property, evaluated on the implementation (cheap: always)
    consequences(ctx)


# ---------------------------------------------------------------------------------------------------
def _grp(gid, fn, b1, b2s, wl_angstrom, g, dtype='float64'):
    return {'id': gid, 'fn': fn, 'layout': 'zip' if len(b2s) > 1 else 'scalar',
            'b1': [hx(c) for c in b1], 'b1_unit': 'm', 'g': [hx(c) for c in g], 'g_unit': 'm/s^2',
            'b2': [[hx(c) for c in v] for v in b2s], 'b2_unit': 'm',
            'wl': [hx(wl_angstrom)] * len(b2s), 'wl_unit': 'angstrom', 'wl_dtype': dtype}


def _vals(r, name):
    return [float(fr(v)) for v in r['result'][name]['values']]


def consequences(ctx):
    """the property's own statement on the implementation: continuity across the dispatch threshold,
    limit lambda -> 0 / g -> 0, monotonic sign for detectors above a horizontal beam"""
    rng = random.Random(ctx.seed + 4)
    found = []
    configs = [([0.0, 1.0, 0.0], [0.0, 0.0, 1.0], [1.0, 0.0, 0.0], 9.81, 10.0, [[0.3, 0.4, 2.0]])]   # the F1 witness first
    for _ in range(6 if ctx.tier == 'quick' else 40):
        up, u, w = frame(rng, False)
        gm = rng.choice([9.81, 100.0, kcorr.loguniform(rng, 0.1, 100.0)])
        lam = rng.choice([10.0, 100.0, rng.uniform(1, 30)])
        dets = []
        for _ in range(4):     # detectors ABOVE the beam axis and downstream
            a, b, c = rng.uniform(-2, 2), rng.uniform(0.1, 2), rng.uniform(0.5, 5)
            dets.append([a * w[i] + b * up[i] + c * u[i] for i in range(3)])
        configs.append((up, u, w, gm, lam, dets))
    groups = []
    meta = []
    for ci, (up, u, w, gm, lam, dets) in enumerate(configs):
        g = [-gm * c for c in up]

        def b1_at(t):
            return [math.cos(t) * a + math.sin(t) * b for a, b in zip(u, up)]
        for nm, b1, wl, gg in [('t0', b1_at(0.0), lam, g), ('t2e-10', b1_at(2e-10), lam, g), ('t1e-9', b1_at(1e-9), lam, g),
                               ('t1e-3', b1_at(1e-3), lam, g),
                               ('t0_lam0', b1_at(0.0), 1e-6, g), ('t1e-3_lam0', b1_at(1e-3), 1e-6, g),
                               ('t0_g0', b1_at(0.0), lam, [c * 1e-9 / gm for c in g]), ('t1e-3_g0', b1_at(1e-3), lam, [c * 1e-9 / gm for c in g])]:
            groups.append(_grp(len(groups), 'sawg', b1, dets, wl, gg))
            meta.append((ci, nm, 'sawg'))
        for nm, t in [('free_t0', 0.0), ('free_t1e-9', 1e-9), ('free_t1e-3', 1e-3)]:
            groups.append(_grp(len(groups), 'two_theta', b1_at(t), dets, lam, g))
            meta.append((ci, nm, 'two_theta'))
    res = ctx.run_impl('c04_impl.py', {'groups': groups})
    tab = {}
    for (ci, nm, fn), g, r in zip(meta, groups, res['groups']):
        if 'result' not in r:
            ctx.violation(f'consequence:raises:{nm}', f'scattering_angles_with_gravity raised {r.get("error")} ({r.get("error_text")}) on a regular input',
                          {'kind': 'consequence', 'groups': [g]})
            continue
        tab[(ci, nm)] = (g, _vals(r, 'two_theta'))
    n_checks = 0
    for ci, cfg in enumerate(configs):
        def get(nm):
            return tab.get((ci, nm), (None, None))
        g0, v0 = get('t0')
        if v0 is None:
            continue
        for k in range(len(v0)):
            def viol(key, text, names):
                gs = [dict(get(n)[0], b2=[get(n)[0]['b2'][k]], wl=[get(n)[0]['wl'][k]], layout='scalar') for n in names]
                obj = {'kind': 'consequence', 'check': key, 'groups': gs,
                       'values': {n: get(n)[1][k] for n in names},
                       'input': {'g_m_s2': [float.fromhex(c) for c in g0['g']], 'b2_m': [float.fromhex(c) for c in g0['b2'][k]],
                                 'lambda_angstrom': float.fromhex(g0['wl'][k])}}
                ctx.violation(key, text + f' [g={obj["input"]["g_m_s2"]} m/s^2, b2={obj["input"]["b2_m"]} m, lambda={obj["input"]["lambda_angstrom"]} angstrom]', obj)
                found.append(obj)
            # 1. continuity across the dispatch threshold
            n_checks += 1
            _, v2 = get('t2e-10')
            if v2 is not None and not abs(v2[k] - v0[k]) <= 1e-9:
                viol('continuity:dispatch-threshold',
                     f'two_theta jumps by {v2[k] - v0[k]:.3e} rad when the incident beam is tilted by 2e-10 rad out of the horizontal '
                     f'(tilt 0: {v0[k]!r}, tilt 2e-10: {v2[k]!r}; required |difference| <= 1e-9)', ['t0', 't2e-10'])
            # 2. limits: lambda -> 0 and g -> 0 give the gravity-free angle on both paths
            for tn, fn_ in [('t0', 'free_t0'), ('t1e-3', 'free_t1e-3')]:
                _, fv = get(fn_)
                for lim in ('lam0', 'g0'):
                    _, lv = get(f'{tn}_{lim}')
                    n_checks += 1
                    if lv is not None and fv is not None and not abs(lv[k] - fv[k]) <= 1e-9:
                        viol(f'limit:{lim}:{"optimised" if tn == "t0" else "general"}',
                             f'two_theta does not tend to the gravity-free angle for {"lambda" if lim == "lam0" else "g"} -> 0 '
                             f'({lv[k]!r} vs {fv[k]!r})', [f'{tn}_{lim}', fn_])
            # 3. sign: detectors above a horizontal beam see a LARGER angle with gravity (beam horizontal to 0 / 1e-9 rad)
            for tn, fn_ in [('t0', 'free_t0'), ('t1e-9', 'free_t1e-9')]:
                _, gv = get(tn)
                _, fv = get(fn_)
                n_checks += 1
                if gv is not None and fv is not None and not gv[k] > fv[k]:
                    viol(f'sign:detector-above-horizontal-beam:{"optimised" if tn == "t0" else "general"}',
                         f'detector above a horizontal beam (tilt {tn[1:]} rad): gravity-corrected two_theta {gv[k]!r} is not larger than the '
                         f'gravity-free angle {fv[k]!r} - the beam was lowered instead of raised', [tn, fn_])
    # 4. per-pixel incident beams: element k of the result for an ARRAY of incident beams equals the result of the scalar call
    #    with beam k; the reflectometry variant must refuse the array as soon as ONE beam is not perpendicular to gravity
    groups, meta = [], []
    for ci in range(3 if ctx.tier == 'quick' else 12):
        up, u, w = frame(rng, False)
        gm = rng.choice([9.81, 100.0])
        g = [-gm * c for c in up]
        lam = rng.uniform(2, 30)
        tilts = [0.0, rng.choice([0.05, 1e-3, 1e-6]), 0.0]
        b1s = [[math.cos(t) * a + math.sin(t) * b for a, b in zip(u, up)] for t in tilts]
        dets = []
        for _ in range(3):
            a, b, c = rng.uniform(-2, 2), rng.uniform(-2, 2), rng.uniform(0.5, 5)
            dets.append([a * w[i] + b * up[i] + c * u[i] for i in range(3)])
        for fn in ('sawg', 'yz'):
            for sel, nm in (([0, 1, 2], 'mixed'), ([0, 2], 'all-perpendicular')):
                grp = _grp(len(groups), fn, b1s[0], [dets[i] for i in sel], lam, g)
                grp['b1s'] = [[hx(c) for c in b1s[i]] for i in sel]
                grp['layout'] = 'zip'
                groups.append(grp)
                meta.append((ci, fn, nm, sel, None))
                for i in sel:
                    groups.append(_grp(len(groups), fn, b1s[i], [dets[i]], lam, g))
                    meta.append((ci, fn, nm, sel, i))
    res = ctx.run_impl('c04_impl.py', {'groups': groups})
    by = {}
    for m, g_, r in zip(meta, groups, res['groups']):
        by[m[:3] + (m[4],)] = (g_, r)
    for (ci, fn, nm, sel, i), g_, r in zip(meta, groups, res['groups']):
        if i is not None:
            continue
        n_checks += 1
        name = 'two_theta' if fn == 'sawg' else 'gamma'
        scal = [by[(ci, fn, nm, k)][1] for k in sel]
        want_raise = fn == 'yz' and nm == 'mixed'
        desc = {'kind': 'consequence', 'check': f'array-incident-beam:{fn}:{nm}', 'groups': [g_] + [by[(ci, fn, nm, k)][0] for k in sel]}
        if want_raise:
            if 'result' in r:
                ctx.violation('refusal:array-incident-beam', 'scattering_angle_in_yz_plane returned angles for an ARRAY of incident beams one of which '
                              f'is tilted out of the horizontal (it raises ValueError for that beam alone): {_vals(r, name)}', desc)
                found.append(desc)
            continue
        if 'result' not in r:
            if all('result' in x for x in scal):
                ctx.violation(f'array-incident-beam:{fn}:raises', f'{fn} raises {r.get("error")} for an array of incident beams each of which is accepted alone', desc)
                found.append(desc)
            continue
        av = _vals(r, name)
        for k, x in enumerate(scal):
            if 'result' in x and not abs(av[k] - _vals(x, name)[0]) <= 1e-9:
                ctx.violation(f'array-incident-beam:{fn}:value', f'{fn} element {k} for an array of incident beams is {av[k]!r}, the scalar call with that beam '
                              f'gives {_vals(x, name)[0]!r}', desc)
                found.append(desc)
                break
    ctx.coverage['consequence_checks'] = n_checks
    return found


def search(ctx, broken):
    """an obligation broke: evaluate the property's own statement on the implementation (continuity across the
    dispatch threshold, limits, monotonic sign).  The same checks already ran at the end of correspondence();
    re-use their findings."""
    cons = [v for v in ctx.violations if isinstance(v.replay, dict) and v.replay.get('kind') in ('consequence', 'case')]
    if cons:
        return [v.replay for v in cons]
    return consequences(ctx)


def replay(ctx, obj):
    rp = obj['replay']
    print(json.dumps({k: obj[k] for k in ('property', 'key', 'what')}, indent=1))
    import vlib
    groups = rp.get('groups') or ([rp['case']['group']] if 'case' in rp else [])
    for i, g in enumerate(groups):
        g = dict(g, id=i)
        g.setdefault('layout', 'zip')
    res = ctx.run_impl('c04_impl.py', {'groups': [dict(g, id=i) for i, g in enumerate(groups)]})
    for g, r in zip(groups, res['groups']):
        print('fn', g['fn'], 'b1', [float.fromhex(c) for c in g['b1']], g['b1_unit'], 'g', [float.fromhex(c) for c in g['g']], g['g_unit'])
        if 'result' in r:
            for nm, d in r['result'].items():
                print('  ', nm, [float(fr(v)) if not isinstance(v, str) else v for v in d['values']][:8], d['unit']['name'])
        else:
            print('   raises', r.get('error'), r.get('error_text'))
    if 'values' in rp:
        print('recorded:', rp['values'])
    if 'case' in rp:
        c = rp['case']
        print('element', c['element'], 'observed', c['impl'], '| required by the construction (float evaluation, for the reader):',
              py_construction(c))
    return 0


def py_construction(c):
    """the documented construction in plain floats (replay output only; never used to judge)"""
    table = dict(LEN_UNITS + WL_UNITS + G_UNITS)
    def mult(u):
        return table[u]
    b1 = [x * mult(c['b1_unit']) for x in c['b1']]
    b2 = [x * mult(c['b2_unit']) for x in c['b2']]
    g = [x * mult(c['g_unit']) for x in c['g']]
    lam = c['wavelength'] * mult(c['wavelength_unit'])
    h, mn = 6.62607015e-34, 1.67492750056e-27
    dot = lambda a, b: sum(x * y for x, y in zip(a, b))
    nrm = lambda a: math.sqrt(dot(a, a))
    cross = lambda a, b: [a[1] * b[2] - a[2] * b[1], a[2] * b[0] - a[0] * b[2], a[0] * b[1] - a[1] * b[0]]
    ey = [-x / nrm(g) for x in g]
    z = [a - dot(b1, ey) * e for a, e in zip(b1, ey)]
    ez = [x / nrm(z) for x in z]
    ex = cross(ey, ez)
    d = nrm(g) * mn ** 2 * lam ** 2 * dot(b2, b2) / (2 * h ** 2)
    cc = [a + d * e for a, e in zip(b2, ey)]
    return {'delta_m': d, 'two_theta': math.atan2(nrm(cross(b1, cc)), dot(b1, cc)), 'phi': math.atan2(dot(cc, ey), dot(cc, ex)),
            'gamma_yz': math.atan2(abs(dot(b2, ey) + d), dot(b2, ez))}
