"""C02 — convert() succeeds iff the target is derivable, and matches the formulas.

Every run:
  pre_build      tools/graph2coq.py re-emits, from /repo's CURRENT source, the decision functions of
                 core/conversions.py, the graph factories / module tables of conversion/graph/{tof,beamline}.py
                 (GPy syntax, coq/C02/Syntax.v) and the parameter list of every kernel they name -> Run.GenGraph;
                 then the exhaustive enumeration (4 origins x 24 targets x scatter x extras x 2^11 subsets =
                 786 432 configurations) is cut into 24 shards Run.Enum_<i>_<j> (one vm-checked lemma each),
                 compiled in parallel;
  coq-run/C02    Tie.v (shards put together; spec space vs the tables of the code), Properties.v (the five
                 property theorems + Print Assumptions), Corr.v (comparison functions of the correspondence);
  correspondence random / exhaustive configurations through the REAL convert and deduce_conversion_graph
                 (tools/harness/c02_impl.py: recorder around every kernel of the module tables, random and
                 mutually inconsistent coordinate values); outcome class, message, set of invoked kernels and
                 reported graph are compared with the model INSIDE Coq; the numeric value of the target is
                 compared with the documented closed formulas (harness, rtol 1e-9).
"""
import json
import os
import random
import re
import subprocess
import sys
import time

import vlib

ID = 'C02'
LEVEL = 'proof'
TRANSLATE = None
GEN_FILES = []          # GenGraph.v and the Enum shards are compiled by pre_build itself (in parallel)
RUN_FILES = ['Tie.v', 'Properties.v', 'Corr.v']
COQ_TIMEOUT = 900
TRUSTED = [
    'tools/graph2coq.py (syntactic, fail-closed translator of core/conversions.py + conversion/graph/{tof,beamline}.py '
    'into the GPy syntax; name resolution through the import statements)',
    'coq/C02/Model.v interpreter: MODEL of the Python subset (dict displays with **, dict(), subscripts, ==, in, len, any, '
    'isinstance, comprehensions, conditional expressions, f-strings/str()/repr() of str-bool-list, if/return/raise/try-except, '
    'positional+keyword calls); any() evaluates its generator eagerly; exception classes are matched by name (no hierarchy)',
    'coq/C02/Model.v resolve/rule_graph: HAND MODEL of scipp.transform_coords name resolution (Graph.graph_for, _rule_for, '
    '_convert_to_rule_graph, dependencies = parameter names of the kernel, KeyError text of scipp 25.x); tied to the real scipp '
    'by the correspondence (outcome class, message, invoked kernels); names produced by multi-output kernels are never supplied '
    'in the configuration space; binned (event) coordinates, dim renaming and alias bookkeeping are outside the model',
    'coq/C02/Spec.v: the documented rules / mode selection the theorems are stated against (hand-written from the user guide '
    'and docstrings)',
    'tools/harness/c02_impl.py: recorder wrappers with the kernels\' own keyword-only signatures; exact serialisation of '
    'observations; the numeric comparison against the closed formulas (scipp arithmetic + scipp.constants, rtol 1e-9) is done '
    'in Python, not in Coq',
]
ASSUMPTIONS = [
    'data carries dense coordinates only (event/binned coordinates are C06); DataArray and Dataset behave alike in the model',
    'the numeric work of the kernels is C01/C03/C05; here only which kernel is applied to what, plus a 1e-9 float comparison',
    'origins outside the 4 keys of _GRAPH_DYNAMICS_BY_ORIGIN are outside the property (e.g. origin="dspacing" raises KeyError)',
]
LEVEL_TEXT = ('Proof by exhaustive kernel-checked evaluation: for every one of the 786 432 configurations the program regenerated '
              'from the current source, run on the model of transform_coords, converts or raises RuntimeError, converts iff the '
              'target is in the least set derivable under the documented rules of the documented mode, uses only supplied leaves, '
              'never recomputes a supplied coordinate, picks the direct/indirect kernel by the supplied energy, and hands '
              'transform_coords exactly the reported graph. The models of Python and of scipp name resolution are validated '
              'against the real convert on random (quick) or all (thorough) configurations, compared inside Coq.')
LEVEL_NOTE = ('Trusted: Coq kernel (vm_compute), graph2coq translator, the interpreter of the Python subset, the hand model of '
              'transform_coords; values are compared with the closed formulas in Python at 1e-9, not proved (C01/C03/C05 do that).')
TECHNIQUE = 'Coq: exhaustive vm_compute enumeration over regenerated code + reflection lemmas; correspondence evaluated in Coq'

NAMES11 = ['position', 'source_position', 'sample_position', 'incident_beam', 'scattered_beam', 'L1', 'L2', 'Ltotal',
           'two_theta', 'incident_energy', 'final_energy']
EXTRAS = ['u_matrix', 'b_matrix', 'sample_rotation', 'pulse_time']
ORIGINS = ['energy', 'tof', 'Q', 'wavelength']
TARGET_GROUPS = [['dspacing', 'energy', 'wavelength', 'Q'], ['Q_vec', 'Qx', 'Qy', 'Qz'], ['hkl_vec', 'h', 'k', 'l'],
                 ['ub_matrix', 'time_at_sample', 'energy_transfer', 'incident_beam'],
                 ['scattered_beam', 'L1', 'L2', 'two_theta'], ['Ltotal', 'tof', 'position', 'not_a_coordinate']]
TARGETS = [t for g in TARGET_GROUPS for t in g]
SHARD_HEADER = ('From Coq Require Import String List NArith.\n'
                'From Verif.C02 Require Import Syntax Model Spec Check.\n'
                'From Run Require Import GenGraph.\nImport ListNotations.\nOpen Scope string_scope.\n')


def cs(s):
    if any(ord(c) > 126 or ord(c) < 32 for c in s):
        s = ''.join(c if 32 <= ord(c) <= 126 else '?' for c in s)
    return '"' + s.replace('"', '""') + '"'


def clist(items):
    return '[' + '; '.join(items) + ']'


def mask(names):
    return sum(1 << NAMES11.index(n) for n in names)


# ------------------------------------------------------------------ generation + parallel enumeration
def par_coqc(ctx, files, timeout):
    """compile files of ctx.build in parallel; {file: (rc, out, seconds)}"""
    res, pending, running = {}, list(files), []
    while pending or running:
        while pending and len(running) < vlib.NCPU:
            f = pending.pop(0)
            p = subprocess.Popen(['timeout', str(timeout), 'coqc', '-Q', vlib.COQ_STATIC, 'Verif', '-Q', ctx.build, 'Run', f],
                                 cwd=ctx.build, stdout=subprocess.PIPE, stderr=subprocess.STDOUT, text=True)
            running.append((f, p, time.time()))
        still = []
        for f, p, t0 in running:
            if p.poll() is None:
                still.append((f, p, t0))
            else:
                res[f] = (p.returncode, vlib.clean_out(p.stdout.read()), time.time() - t0)
        running = still
        if running:
            time.sleep(0.05)
    return res


def pre_build(ctx):
    out = os.path.join(ctx.build, 'GenGraph.v')
    rc, txt = vlib.sh([sys.executable, os.path.join(vlib.VERIF, 'tools', 'graph2coq.py'), vlib.REPO, out], timeout=120)
    txt = vlib.clean_out(txt)
    m = re.search(r'^GRAPH2COQ (\{.*\})$', txt, re.M)
    if rc != 0 or not m:
        ctx.obligations.append(('translate:graph2coq', 'broken', txt[-1500:]))
        ctx.broken.append('translate:graph2coq')
        ctx.c02_enum_failed = []
        return
    rep = json.loads(m.group(1))
    ctx.c02_report = rep
    for q in rep['functions'] + rep['tables']:
        ctx.obligations.append((f'translate:{q}', 'discharged', ''))
    ctx.translate_report = {rel: {'sha256': sha, 'functions': {}} for rel, sha in rep['sha256'].items()}
    t0 = time.time()
    rc, o = ctx.coqc('GenGraph.v', timeout=300)
    if rc != 0:
        d = vlib.compact_coq_error(vlib.clean_out(o))
        ctx.obligations.append(('compile:GenGraph.v', 'broken', d))
        ctx.broken.append('compile:GenGraph.v')
        ctx.c02_enum_failed = []
        return
    ctx.obligations.append(('compile:GenGraph.v', 'discharged', ''))
    shards = []
    for i in range(len(ORIGINS)):
        for j in range(len(TARGET_GROUPS)):
            name = f'Enum_{i}_{j}.v'
            with open(os.path.join(ctx.build, name), 'w') as f:
                f.write(f'(* GENERATED shard of the exhaustive enumeration: origin {ORIGINS[i]}, targets {TARGET_GROUPS[j]} *)\n'
                        + SHARD_HEADER +
                        f'Lemma ok : check_group prog {cs(ORIGINS[i])} {clist([cs(t) for t in TARGET_GROUPS[j]])} = true.\n'
                        'Proof. vm_cast_no_check (eq_refl true). Qed.\n')
            shards.append((name, i, j))
    # heavy shards (tof, wavelength) first
    order = sorted(shards, key=lambda s: 0 if ORIGINS[s[1]] in ('tof', 'wavelength') else 1)
    res = par_coqc(ctx, [s[0] for s in order], getattr(sys.modules[__name__], 'COQ_TIMEOUT', 900))
    ctx.c02_enum_failed = []
    slow = 0.0
    for name, i, j in shards:
        rc, o, dt = res[name]
        slow = max(slow, dt)
        if rc == 0:
            ctx.obligations.append((f'{name}:ok', 'discharged', ''))
        else:
            ctx.obligations.append((f'{name}:ok', 'broken', vlib.compact_coq_error(o)[:600]))
            ctx.broken.append(f'{name}:ok')
            ctx.c02_enum_failed.append((i, j))
    print(f'[coq] GenGraph.v + 24 enumeration shards ({time.time() - t0:.1f}s, slowest shard {slow:.1f}s, '
          f'{len(ctx.c02_enum_failed)} failed)')


# ------------------------------------------------------------------ configurations
# the coordinate subsets used by tests/convert_test.py (origin, target, scatter, supplied names)
TEST_SHAPES = [
    ('tof', 'dspacing', True, ['Ltotal', 'two_theta']), ('tof', 'wavelength', True, ['Ltotal', 'two_theta']),
    ('tof', 'energy', True, ['Ltotal', 'two_theta']), ('tof', 'wavelength', True, ['Ltotal']),
    ('tof', 'dspacing', True, ['position', 'sample_position', 'source_position']),
    ('tof', 'wavelength', True, ['position', 'sample_position', 'source_position']),
    ('tof', 'energy', True, ['position', 'sample_position', 'source_position']),
    ('tof', 'dspacing', False, ['Ltotal', 'two_theta']), ('wavelength', 'Q', True, ['Ltotal', 'two_theta']),
    ('wavelength', 'Q', False, ['Ltotal', 'two_theta']),
    ('tof', 'incident_beam', True, ['position', 'sample_position', 'source_position']),
    ('tof', 'scattered_beam', True, ['position', 'sample_position', 'source_position']),
    ('tof', 'L1', True, ['incident_beam', 'scattered_beam']), ('tof', 'L2', True, ['incident_beam', 'scattered_beam']),
    ('tof', 'two_theta', True, ['incident_beam', 'scattered_beam']), ('tof', 'Ltotal', True, ['incident_beam', 'scattered_beam']),
    ('tof', 'Ltotal', False, ['position', 'source_position']), ('tof', 'wavelength', False, ['Ltotal']),
    ('tof', 'Q', True, ['Ltotal', 'two_theta']), ('Q', 'wavelength', True, ['Ltotal', 'two_theta']),
    ('tof', 'energy', True, ['Ltotal']), ('tof', 'energy', False, ['Ltotal']),
    ('tof', 'energy', True, ['L1', 'L2']), ('tof', 'energy', True, ['L1', 'L2', 'incident_energy']),
    ('tof', 'energy', True, ['L1', 'L2', 'final_energy']), ('tof', 'energy_transfer', True, ['L1', 'L2']),
    ('tof', 'energy_transfer', True, ['L1', 'L2', 'incident_energy']), ('tof', 'energy_transfer', True, ['L1', 'L2', 'final_energy']),
    ('tof', 'energy_transfer', True, ['L1', 'L2', 'incident_energy', 'final_energy']),
    ('wavelength', 'energy', True, ['Ltotal', 'two_theta']), ('wavelength', 'dspacing', True, ['Ltotal', 'two_theta']),
    ('energy', 'wavelength', True, ['Ltotal', 'two_theta']), ('energy', 'dspacing', True, ['Ltotal', 'two_theta']),
    ('tof', 'Q_vec', True, ['position', 'sample_position', 'source_position']),
    ('tof', 'hkl_vec', True, ['position', 'sample_position', 'source_position']),
    ('wavelength', 'hkl_vec', True, ['incident_beam', 'scattered_beam']),
    ('tof', 'time_at_sample', True, ['position', 'sample_position', 'source_position']),
]


def make_groups(ctx, rng):
    """{(o,t,sc): [obs...]}; obs = dict(x, p, ds, seed)"""
    groups = {}

    def add(o, t, sc_, x, p, ds):
        groups.setdefault((o, t, bool(sc_)), []).append({'x': bool(x), 'p': int(p), 'ds': bool(ds), 'seed': rng.randrange(1 << 30)})
    for o, t, sc_, names in TEST_SHAPES:
        for x in (False, True):
            add(o, t, sc_, x, mask(names), False)
        add(o, t, sc_, True, mask(names), True)
    if ctx.tier == 'quick':
        for _ in range(3000):
            o, t, sc_ = rng.choice(ORIGINS), rng.choice(TARGETS), rng.random() < 0.6
            kind = rng.random()
            if kind < 0.5:
                p = rng.randrange(2048)
            elif kind < 0.8:      # dense subsets: most things derivable
                p = 2047 & ~sum(1 << rng.randrange(11) for _ in range(rng.randrange(4)))
                if rng.random() < 0.7:
                    p &= ~(1 << rng.choice([9, 10]))
            else:                 # sparse subsets
                p = sum(1 << rng.randrange(11) for _ in range(rng.randrange(5)))
            add(o, t, sc_, rng.random() < 0.5, p, rng.random() < 0.15)
    else:
        for o in ORIGINS:
            for t in TARGETS:
                for sc_ in (True, False):
                    for p in range(2048):
                        add(o, t, sc_, rng.random() < 0.5, p, rng.random() < 0.05)
    return groups


def intern(table, index, item):
    key = json.dumps(item)
    if key not in index:
        index[key] = len(table)
        table.append(item)
    return index[key]


def obs_term(ob, r, T):
    msgs, mi, ksets, ki, graphs, gi = T
    return ('mkobs %s %d %s %d %d %s %d %d %s' % (
        'true' if ob['x'] else 'false', ob['p'], cs(r['cls']), intern(msgs, mi, r['msg']), intern(ksets, ki, r['kernels']),
        cs(r['rep_cls']), intern(msgs, mi, r['rep_msg']), intern(graphs, gi, r['rep']), 'true' if r['same'] else 'false'))


def describe(key, ob, r=None):
    o, t, sc_ = key
    d = {'origin': o, 'target': t, 'scatter': sc_, 'extras': ob['x'],
         'supplied': [o] + [n for i, n in enumerate(NAMES11) if (ob['p'] >> i) & 1] + (EXTRAS if ob['x'] else []),
         'p': ob['p'], 'dataset': ob['ds'], 'seed': ob['seed']}
    if r is not None:
        d['impl'] = {k: r[k] for k in ('cls', 'msg', 'kernels', 'rep_cls', 'same', 'has_target', 'prop', 'unchanged')}
    return d


class Obs(dict):
    """an observation whose msg / rep_msg / kernels / rep indices are resolved through the group's tables on access"""
    def __init__(self, r, g):
        super().__init__(r)
        self._g = g

    def __getitem__(self, k):
        v = super().__getitem__(k)
        if k in ('msg', 'rep_msg'):
            return self._g['msgs'][v]
        if k == 'kernels':
            return self._g['ksets'][v]
        if k == 'rep':
            return self._g['graphs'][v]
        return v


def run_harness(ctx, groups):
    keys = list(groups)
    payload = {'names11': NAMES11, 'extras': EXTRAS, 'nproc': vlib.NCPU,
               'groups': [{'o': k[0], 't': k[1], 'sc': k[2], 'obs': groups[k]} for k in keys]}
    res = ctx.run_impl('c02_impl.py', payload, timeout=3000)
    for g in res['groups']:
        g['obs'] = [Obs(r, g) for r in g['obs']]
    return keys, res


def report_property_failures(ctx, keys, groups, res):
    """violations of the property TEXT seen on the implementation (independent restatement in the harness)"""
    n = []
    for k, g in zip(keys, res['groups']):
        for ob, r in zip(groups[k], g['obs']):
            why = r['prop']
            if not r['unchanged']:
                ctx.note(f'input modified by convert on {describe(k, ob)} (C09 covers this)')
            if why:
                n.append(describe(k, ob, r))
                cls = why.split(':')[0]
                ctx.violation(f'{cls}:{k[1]}:{"scatter" if k[2] else "noscatter"}',
                              f'convert(origin={k[0]!r}, target={k[1]!r}, scatter={k[2]}) with coordinates '
                              f'{describe(k, ob)["supplied"]}: {why}', describe(k, ob, r))
    return n


def correspondence(ctx):
    rng = random.Random(ctx.seed)
    groups = make_groups(ctx, rng)
    keys, res = run_harness(ctx, groups)
    nprop = len(report_property_failures(ctx, keys, groups, res))
    # ---- Coq comparison: one case term per (o,t,sc) group; tables per shard
    per_shard = 8 if ctx.tier == 'quick' else 1
    files = []
    for s0 in range(0, len(keys), per_shard):
        T = ([], {}, [], {}, [], {})
        gterms = []
        for k, g in zip(keys[s0:s0 + per_shard], res['groups'][s0:s0 + per_shard]):
            obs = [obs_term(ob, r, T) for ob, r in zip(groups[k], g['obs'])]
            gterms.append('mkgrp %s %s %s [\n  %s]' % (cs(k[0]), cs(k[1]), 'true' if k[2] else 'false', ';\n  '.join(obs)))
        name = f'cases_{s0 // per_shard}.v'
        with open(os.path.join(ctx.build, name), 'w') as f:
            f.write('From Coq Require Import String List NArith.\nFrom Verif.C02 Require Import Syntax Model Spec Check CorrLib.\n'
                    'From Run Require Import GenGraph Corr.\nImport ListNotations.\nOpen Scope string_scope.\nOpen Scope N_scope.\n')
            f.write('Definition T := mktables\n  %s\n  %s\n  %s.\n' % (
                clist([cs(m) for m in T[0]]), clist([clist([cs(x) for x in ks]) for ks in T[2]]),
                clist([clist(['(%s, %s)' % (clist([cs(x) for x in row[0]]), cs(row[1])) for row in g]) for g in T[4]])))
            f.write('Definition groups := [\n' + ';\n'.join(gterms) + '\n].\n')
            f.write('Eval vm_compute in (run_shard T groups).\n')
        files.append((s0, name))
    out = par_coqc(ctx, [n for _, n in files], 1800)
    fails = {}
    for s0, name in files:
        rc, o, _ = out[name]
        if rc != 0:
            ctx.violation('corr-shard-error', f'correspondence shard {name} did not evaluate: {vlib.compact_coq_error(o)[:300]}',
                          {'shard': name, 'error': o[-1500:]}, found_input=False)
            continue
        got = False
        for m in re.finditer(r'"((?:[^"]|"")*)"', o):
            s = m.group(1)
            got = got or s.startswith('OK')
            for fm in re.finditer(r'F(\d+):([^;]*);', s):
                got = True
                fails[s0 + int(fm.group(1))] = fm.group(2)
        if not got:
            ctx.violation('corr-shard-error', f'correspondence shard {name}: no result line', {'shard': name, 'out': o[-800:]},
                          found_input=False)
    ndis = 0
    for gi, why in sorted(fails.items()):
        k = keys[gi]
        for item in why.split(','):
            if '/' not in item:
                continue
            idx, reason = item.split('/', 1)
            ndis += 1
            ob, r = groups[k][int(idx)], res['groups'][gi]['obs'][int(idx)]
            ctx.violation(f'model-vs-impl:{reason.split("/")[0]}:{k[0]}>{k[1]}',
                          f'model and implementation disagree ({reason}) on convert(origin={k[0]!r}, target={k[1]!r}, '
                          f'scatter={k[2]}) with {describe(k, ob)["supplied"]}', {**describe(k, ob, r), 'reason': reason})
    allobs = [(k, ob, r) for k, g in zip(keys, res['groups']) for ob, r in zip(groups[k], g['obs'])]
    n_ok = sum(1 for _, _, r in allobs if r['cls'] == 'ok')
    n_comp = sum(1 for _, _, r in allobs if r['cls'] == 'ok' and r['kernels'])
    classes = {}
    for _, _, r in allobs:
        classes[r['cls']] = classes.get(r['cls'], 0) + 1
    distinct = len({(k, ob['x'], ob['p']) for k, ob, r in allobs if r['cls'] == 'ok' and r['kernels']})
    samples = [describe(k, ob, r) for k, ob, r in (allobs[:2] + [a for a in allobs if a[2]['cls'] == 'ok' and a[2]['kernels']][:3])]
    ctx.coverage.update({
        'exhaustive': True,
        'exhaustive_note': 'the THEOREMS are exhaustive over the 786 432 configurations (vm_compute on the regenerated code); '
                           'the correspondence with the real implementation is '
                           + ('sampled (quick tier)' if ctx.tier == 'quick' else 'exhaustive over (origin,target,scatter,subset); extras on a random half, 5% of the calls on a Dataset'),
        'configurations_enumerated_in_coq': len(ORIGINS) * len(TARGETS) * 2 * 2 * 2048,
        'evaluations': len(allobs),
        'distinct_nontrivial': distinct,
        'rule': 'one evaluation = one real convert() + deduce_conversion_graph() call compared in Coq (outcome class, message, '
                'invoked kernels, reported graph, graph identity) and against the closed formulas (value, rtol 1e-9); '
                'non-trivial = converted AND at least one kernel ran; distinct = distinct (origin,target,scatter,extras,subset)',
        'input_distribution': 'all coordinate shapes of tests/convert_test.py (+extras, +Dataset); '
                              + ('3000 random: 50% uniform subsets, 30% dense (<=3 names removed, usually one energy dropped), '
                                 '20% sparse (<=4 names); 15% Dataset' if ctx.tier == 'quick'
                                 else 'all 2^11 subsets for each of 4x24x2 (origin,target,scatter); extras random; 5% Dataset')
                              + '; coordinate values random and mutually inconsistent (supplied L1 != |incident_beam| etc.)',
        'outcome_classes': classes, 'converted': n_ok, 'converted_with_kernels': n_comp,
        'model_disagreements': ndis, 'property_text_failures': nprop,
        'samples': samples, 'scipp_version': res.get('scipp'),
        'translated': getattr(ctx, 'c02_report', {}).get('functions', []) + getattr(ctx, 'c02_report', {}).get('tables', []),
        'kernels': getattr(ctx, 'c02_report', {}).get('kernels', []),
    })
    # the parameter lists the translator read from the `def`s are what scipp will see
    gen = {k['name']: k['params'] for k in getattr(ctx, 'c02_report', {}).get('kernels', [])}
    for q, ps in res.get('kernel_params', {}).items():
        if q in gen and gen[q] != ps:
            ctx.violation(f'kernel-params:{q}', f'parameter list of {q}: translator read {gen[q]}, inspect sees {ps}',
                          {'kernel': q, 'translator': gen[q], 'inspect': ps}, found_input=False)


# ------------------------------------------------------------------ search: a concrete failing input
def search(ctx, broken):
    """1. from the model: which configurations fail `check` in the shards that no longer prove (evaluated in Coq);
       2. those configurations, and a systematic sweep, on the IMPLEMENTATION against the property text."""
    found = []
    cands = []
    failed = getattr(ctx, 'c02_enum_failed', [])
    if failed and os.path.exists(os.path.join(ctx.build, 'GenGraph.vo')):
        ctx.coqc('Corr.v', timeout=300)
        names = []
        for i, j in failed[:8]:
            name = f'search_{i}_{j}.v'
            with open(os.path.join(ctx.build, name), 'w') as f:
                f.write('From Coq Require Import String List NArith.\nFrom Verif.C02 Require Import Syntax Model Spec Check CorrLib.\n'
                        'From Run Require Import GenGraph Corr.\nImport ListNotations.\nOpen Scope string_scope.\n'
                        f'Eval vm_compute in (search_shard (nth {i} origins "") (nth {j} target_groups []) 3).\n')
            names.append(name)
        for name, (rc, o, _) in par_coqc(ctx, names, 900).items():
            for m in re.finditer(r'"([^"|]*)\|([^"|]*)\|([01])\|([01])\|(\d+)\|([^"]*)"', o):
                cands.append({'o': m.group(1), 't': m.group(2), 'sc': m.group(3) == '1', 'x': m.group(4) == '1',
                              'p': int(m.group(5)), 'model_fails': m.group(6).strip()})
    if cands:
        ctx.note('configurations on which the regenerated model fails the check: '
                 + '; '.join(f"{c['o']}>{c['t']} sc={c['sc']} x={c['x']} p={c['p']} [{c['model_fails']}]" for c in cands[:6]))
    rng = random.Random(ctx.seed + 7)
    groups = {}
    for c in cands:
        groups.setdefault((c['o'], c['t'], c['sc']), []).append({'x': c['x'], 'p': c['p'], 'ds': False, 'seed': rng.randrange(1 << 30)})
    # systematic sweep: every (origin, target, scatter) with structured + random subsets
    structured = [0, 7, 7 | 512, 7 | 1024, 7 | 1536, 24, 96, 96 | 512, 96 | 1024, 96 | 1536, 128, 384, 384 | 512, 2047, 2047 & ~1536,
                  2047 & ~1024, 2047 & ~512]
    for o in ORIGINS:
        for t in TARGETS:
            for sc_ in (True, False):
                for p in structured + [rng.randrange(2048) for _ in range(24)]:
                    groups.setdefault((o, t, sc_), []).append({'x': rng.random() < 0.5, 'p': p, 'ds': False, 'seed': rng.randrange(1 << 30)})
    keys, res = run_harness(ctx, groups)
    found = report_property_failures(ctx, keys, groups, res)
    if found:
        ctx.note(f'search: the property text fails on {len(found)} of {sum(len(v) for v in groups.values())} swept inputs')
    if not found and cands and not any(v.found_input for v in ctx.violations):
        # the model fails but the implementation satisfies the property text on the same input: name the input anyway
        c = cands[0]
        k = (c['o'], c['t'], c['sc'])
        ob = groups[k][0]
        r = res['groups'][keys.index(k)]['obs'][0]
        ctx.violation(f'model-check:{c["model_fails"].split()[0]}:{c["o"]}>{c["t"]}',
                      f'the program regenerated from the source fails [{c["model_fails"]}] on convert(origin={c["o"]!r}, '
                      f'target={c["t"]!r}, scatter={c["sc"]}) with {describe(k, ob)["supplied"]} although the implementation '
                      f'satisfied the restated property text there', {**describe(k, ob, r), 'model_fails': c['model_fails']})
        found.append(c)
    return found


def replay(ctx, obj):
    rp = obj.get('replay', obj)
    print(json.dumps(rp, indent=1)[:3000])
    if not all(k in rp for k in ('origin', 'target', 'scatter', 'p')):
        print('no configuration recorded in this replay (broken obligation without input)')
        return 0
    k = (rp['origin'], rp['target'], bool(rp['scatter']))
    ob = {'x': bool(rp.get('extras')), 'p': int(rp['p']), 'ds': bool(rp.get('dataset')), 'seed': int(rp.get('seed', 1))}
    keys, res = run_harness(ctx, {k: [ob]})
    r = res['groups'][0]['obs'][0]
    print('re-run on the implementation:')
    print(json.dumps({x: r[x] for x in ('cls', 'msg', 'kernels', 'rep_cls', 'same', 'has_target', 'prop')}, indent=1))
    print('required: ' + ('the property text holds (prop == "")' if not r['prop'] else 'VIOLATED: ' + r['prop']))
    return 1 if r['prop'] else 0
