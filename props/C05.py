"""C05 — inelastic energy transfer conserves energy; NaN exactly for unphysical times."""
import random
import kcorr
from kcorr import loguniform

ID = 'C05'
LEVEL = 'proof'
TRANSLATE = {'modules': [
    {'py': 'src/scippneutron/_utils/__init__.py', 'coq': 'GenUtils',
     'functions': ['elem_unit', 'elem_dtype', 'float_dtype', 'as_float_type']},
    {'py': 'src/scippneutron/conversion/tof.py', 'coq': 'GenTof',
     'imports': {'elem_unit': 'GenUtils', 'elem_dtype': 'GenUtils', 'as_float_type': 'GenUtils'},
     'functions': ['_common_dtype', '_energy_constant', '_energy_transfer_t0',
                   'energy_transfer_direct_from_tof', 'energy_transfer_indirect_from_tof']},
]}
RUN_FILES = ['Tie.v', 'Properties.v', 'PropertiesFloat.v', 'Corr.v']
TRUSTED = [
    'tools/py2coq.py (syntactic translator, fail-closed)',
    'coq/Sem/Val.v: model of scipp unit algebra, dtype promotion, to_unit, astype, sqrt, where, comparisons (element-wise)',
    'coq/Sem/RInst.v: the R instance does not decide equality of unit multipliers in + - <= where (fail-closed, see file); the Q instance does',
    'coq/Sem/QInst.v rational approximation of sqrt (correspondence only)',
    'tools/harness/c05_impl.py + lib/kcorr.py (exact serialisation of operands/results; building the containers handed to convert() and reading the per-event '
    'energy_transfer of every item back in the order of the arrival times); tools/harness/c05_sweep.py and statement() in props/C05.py '
    '(the property statement in float64 Python: t0 = L sqrt(m_n/(2E)) from the operands as stored)',
    'Flocq 4.1.0 (Core, IEEE754.BinarySingleNaN) as the model of IEEE-754 arithmetic (coq/C05/NeverInf.v)',
]
ASSUMPTIONS = [
    'theorems are over exact reals: NaN iff t <= t0 and the documented value otherwise; in floating point the decision may differ '
    'within 1e-12 relative of t0 (2e-5 in single precision; scipp unit conversion factors carry ~4e-14) (accepted either way by the correspondence, but an infinity is never accepted)',
    '"never infinite" at float level is proved (PropertiesFloat.v, Flocq binary64/binary32 with gradual underflow, R-level and IEEE data type) '
    'for the chain d=rnd(t-t0)>0, d*d, scale/(d*d), E-/+q under magnitude hypotheses derived from the quantifier (2^-20<=t0, t<=2^60, '
    '|E|<=2^30, scale<=2^73 [binary64] or scale<=2^52*t0^2 [binary32/64]); assumed: t0 and scale themselves are finite format numbers '
    'within those bounds (their computation is not modelled in floating point; the correspondence run observes no infinity), scipp performs '
    '- and / as single correctly rounded IEEE operations in _common_dtype and x**2 as x*x; the float theorems are not tied to the '
    'regenerated term (hypotheses mapped to kernel sub-terms by comment; the real-number Tie.v ties the structure)',
]
LEVEL_TEXT = ('Proof: for all positive Ei, Ef, L1, L2 in arbitrary units and all dtypes, the regenerated direct and indirect kernels '
              'return Ei-Ef (unit of the supplied energy) for t = L1/v(Ei)+L2/v(Ef), NaN iff t <= t0 of the fixed leg, the documented '
              'real value otherwise. Model of scipp primitives validated against scipp on arrival times at, around and far from the boundary.')
LEVEL_NOTE = ('Trusted: Coq kernel; std-lib real axioms; py2coq; Sem/Val.v; boundary band observed per case with a condition-aware bound; '
              'absence of inf proved for the value-branch chain under stated magnitude hypotheses (PropertiesFloat.v).')
TECHNIQUE = 'Coq proof on regenerated terms (cbv + field over R, sqrt lemmas) + vm_compute correspondence with condition-aware tolerance'

EUNITS = [('meV', 1.602176634e-22), ('J', 1.0), ('eV', 1.602176634e-19), ('ueV', 1.602176634e-25)]
LUNITS = [('m', 1.0), ('mm', 1e-3), ('km', 1e3)]
TUNITS = [('s', 1.0), ('ms', 1e-3), ('us', 1e-6), ('ns', 1e-9)]
KS = [-2, -1, 0, 1, 2, 8, 1024]


def gen(rng, n):
    groups = []
    for i in range(n):
        single = rng.random() < 0.3
        dt_tof = 'float32' if single else rng.choice(['float64', 'float64', 'float64', 'int64'])
        dt_E = 'float32' if (single and rng.random() < 0.7) else 'float64'
        tu = rng.choice(TUNITS if not single else TUNITS[1:3])
        if dt_tof == 'int64':
            tu = rng.choice(TUNITS[2:])      # integers need a fine unit
        g = {'id': i, 'mode': rng.choice(['direct', 'indirect']),
             'Ei': loguniform(rng, 1e-3, 1e4) * 1.602176634e-22, 'Ef': loguniform(rng, 1e-3, 1e4) * 1.602176634e-22,
             'L1': loguniform(rng, 0.1, 1e3), 'L2': loguniform(rng, 0.1, 1e3),
             'units': {'tof': tu[0], 'L1': rng.choice(LUNITS)[0], 'L2': rng.choice(LUNITS)[0],
                       'E': rng.choice(['meV', 'meV', 'eV', 'ueV'])},
             'dtypes': {'tof': dt_tof, 'L1': rng.choice(['float64', 'float32', 'int64']) if rng.random() < 0.3 else 'float64',
                        'L2': rng.choice(['float64', 'float32']) if rng.random() < 0.3 else 'float64', 'E': dt_E},
             'ks': KS, 'extra': [0.5, 0.999, 1 - 1e-6, 1 - 1e-9, 1 + 1e-9, 1 + 1e-6, 1.001, 1.5, 3.0, 10.0]}
        for k in ('L1', 'L2'):
            if g['dtypes'][k] == 'int64':
                g['units'][k] = 'mm'
        # every third group: the fixed energy in J, double precision throughout for half of them (the unit in which a
        # physical neutron energy is a very small number, 1.6e-25..1.6e-18)
        if i % 3 == 1:
            g['units']['E'] = 'J'
            if rng.random() < 0.5:
                g['dtypes'] = {k: ('float64' if v == 'float32' else v) for k, v in g['dtypes'].items()}
        # per-element lengths / fixed energy (arrays along the tof dim) instead of scalars
        g['layout'] = 'aligned' if rng.random() < 0.25 else 'scalar'
        groups.append(g)
    # containers for the convert route (drawn after all groups, so the stream of the groups themselves is unchanged):
    # a DataArray of binned events, Datasets of 1, 2, 3 items - dense (shared dense tof coordinate) or binned with
    # event-wise tof, each binned item with its own event order and its own cut into bins (empty bins included)
    off = rng.randrange(len(CONTAINERS))
    for i, g in enumerate(groups):
        form, kinds = CONTAINERS[(i + off) % len(CONTAINERS)] if rng.random() < 0.8 else rng.choice(CONTAINERS)
        items = []
        for kind in kinds:
            it = {'kind': kind}
            if kind == 'binned':
                order = list(range(NEV))
                style = rng.random()
                if style < 0.6:
                    rng.shuffle(order)
                elif style < 0.8:
                    order.reverse()
                it['order'] = order
                # one event per bin / random cuts (several events in one bin, empty bins)
                it['begin'] = list(range(1, NEV)) if rng.random() < 0.3 else sorted(rng.randrange(0, NEV) for _ in range(NEV - 1))
            items.append(it)
        g['container'] = {'form': form, 'items': items}
    return groups


NEV = 24        # upper bound of the number of arrival times of a group (the harness keeps the entries < n)
CONTAINERS = [('DataArray', ('binned',)), ('Dataset', ('dense',)), ('Dataset', ('binned',)),
              ('Dataset', ('dense', 'dense')), ('Dataset', ('binned', 'binned')), ('Dataset', ('dense', 'binned')),
              ('Dataset', ('binned', 'dense')), ('Dataset', ('binned', 'binned', 'binned')),
              ('Dataset', ('dense', 'binned', 'binned')), ('Dataset', ('binned', 'dense', 'dense'))]


def container_name(c):
    return c['form'] + ('[' + ','.join(c['kinds']) + ']' if c['form'] != 'DataArray' else '(binned)')


def item_routes(r):
    """the answers of convert() on the container of a group, one (route name, answer record) per item"""
    c = r.get('container')
    if not c:
        return []
    if 'error_container' in r:
        return [(f'convert:{container_name(c)}', {'error': r['error_container']})]
    return [(f'convert:{container_name(c)}#{j}', it) for j, it in enumerate(r.get('convert_items') or [])]


def _num(v):
    from fractions import Fraction
    return v if isinstance(v, str) else float(Fraction(int(v[0]), int(v[1])))


ROUTES = (('kernel', 'result', 'error'), ('graph', 'result_graph', 'error_graph'), ('convert', 'result_convert', 'error_convert'))


def statement(ctx, g0, r, mn, stats=None):
    """THE PROPERTY STATEMENT evaluated on the implementation's answers for one group, for every entry point (kernel,
    graph factory, convert on a dense DataArray, convert on a container - EVERY item of a binned DataArray / a Dataset of
    1..3 dense or binned items, the latter per event): result in the unit of the supplied energy; Ei - Ef at the physical arrival time (element 0);
    NaN at / before the flight time t0 of the fixed-energy leg and a number clearly after it; never infinite.
    an item of a container moreover returns the very numbers of the kernel (NaN pattern included) and may not lack the
    energy_transfer (event) coordinate.
    t0 = L sqrt(m_n / (2 E)) is computed here from the operands as stored - not taken from the implementation."""
    import math
    if 'build_error' in r or 'operands' not in r:
        return
    mode = g0['mode']
    g = dict(g0, **r['si'])
    ops = r['operands']
    in32 = any(o['dtype'] == 'float32' for o in ops.values())
    u = 2e-5 if in32 else 1e-12
    tof = [_num(v) for v in ops['tof']['values']]
    t0f = r['t0_formula']
    Efix = g['Ei'] if mode == 'direct' else g['Ef']
    Efree = g['Ef'] if mode == 'direct' else g['Ei']
    tfix = (g['L1'] if mode == 'direct' else g['L2']) * math.sqrt(mn / (2 * Efix))
    tfree = (g['L2'] if mode == 'direct' else g['L1']) * math.sqrt(mn / (2 * Efree))
    cond = (tfix + tfree) / tfree
    want = r['expected_si']
    shown = {'group': {k: g[k] for k in ('mode', 'units', 'dtypes', 'Ei', 'Ef', 'L1', 'L2')}, 'layout': g0.get('layout', 'scalar'),
             'operands': {k: {'value': _num(o['values'][0]), 'unit': o['unit']['name'], 'dtype': o['dtype'], 'dims': o['dims']}
                          for k, o in ops.items() if k != 'tof'},
             'tof': {'values': tof, 'unit': ops['tof']['unit']['name'], 'dtype': ops['tof']['dtype']},
             't0_of_fixed_leg': t0f, 't0_source_for_the_probes': r.get('t0_source')}
    tunit = shown['tof']['unit']
    kernel_bad = False
    answers = [(route, r.get(rk), r.get(ek), None) for route, rk, ek in ROUTES]
    # convert() on containers: every item of the container is an answer of its own
    answers += [(route, it.get('result'), it.get('error'), it) for route, it in item_routes(r)]
    kres = r.get('result') if isinstance(r.get('result'), dict) else None
    for route, res, err, item in answers:
        pre = f'{mode}:{route}'
        cont = {} if item is None else {'container': container_name(r['container']),
                                        'item': {k: item[k] for k in ('item', 'kind', 'where', 'order', 'begin') if k in item}}
        if err is not None:
            if item is not None:
                if 'error' not in r and 'error_convert' not in r:
                    ctx.violation(f'{mode}:convert-container:{item.get("kind", "whole")}-item:no-energy-transfer',
                                  f'{mode} via {route}: {err} for positive finite operands (the same arrival times converted as a dense DataArray give an answer): {dict(shown, **cont)}',
                                  dict(shown, route=route, error=err, **cont))
            elif route == 'kernel' or 'error' not in r:
                ctx.violation(f'{mode}:{route}-raises', f'{mode} via {route} raises {err} {r.get("error_text", "")} for positive finite operands: {shown}',
                              dict(shown, route=route, error=err))
            continue
        if res is None:
            continue
        rep = dict(shown, route=route, **cont)
        if item is not None:
            pre = f'{mode}:convert-container:{item.get("kind")}-item'
        if 'values' not in res or res.get('unit') is None:
            ctx.violation(f'{pre}:result-shape', f'{mode} via {route} does not return a variable with a unit: {str(res)[:200]} on {shown}', rep)
            continue
        vals = [_num(v) for v in res['values']]
        rep['result'] = {'values': vals, 'unit': res['unit']['name'], 'dtype': res['dtype']}
        eu = ops['E']['unit']
        if res['unit']['dims'] != eu['dims'] or res['unit']['mult'] != eu['mult']:
            ctx.violation(f'{pre}:result-unit', f'{mode} via {route}: the energy was supplied in {eu["name"]} but the result is in {res["unit"]["name"]}: {rep}', rep)
            continue
        if len(vals) != len(tof):
            ctx.violation(f'{pre}:result-shape', f'{mode} via {route} returns {len(vals)} elements for {len(tof)} arrival times: {rep}', rep)
            continue
        if stats is not None:
            stats['statement_elements'] = stats.get('statement_elements', 0) + len(vals)
        # (one report per group and entry point, the most telling first; graph / convert are not reported again for a group
        #  whose kernel answer already violates the statement - they call the kernel)
        phys = g['dtypes']['tof'] != 'int64'        # an integer arrival time is not the physical one
        bad = None
        for i, (t, v) in enumerate(zip(tof, vals)):
            if v in ('inf', '-inf'):
                bad = ('infinite-result', f'returns {v} for the finite arrival time {t!r} {tunit} (element {i})')
                break
        if bad is None:
            for i, (t, v) in enumerate(zip(tof, vals)):
                if t <= t0f * (1 - u) and v != 'nan':
                    bad = ('number-before-t0', f'returns {v!r} for the arrival time {t!r} {tunit} before the flight time {t0f!r} of the fixed-energy leg (element {i})')
                    break
        if bad is None and phys and vals[0] == 'nan' and cond * u < 0.05 and tof[0] >= t0f * (1 + 4 * u):
            bad = ('nan-at-physical-time', f'returns NaN for the physical arrival time t = L1/v(Ei) + L2/v(Ef) = {tof[0]!r} {tunit} '
                   f'(flight time of the fixed leg {t0f!r}); Ei - Ef = {want} J expected')
            rep['want_si'] = want
        if bad is None:
            for i, (t, v) in enumerate(zip(tof, vals)):
                if i > 0 and t >= t0f * (1 + 4 * u) and v == 'nan':
                    bad = ('nan-after-t0', f'returns NaN for the arrival time {t!r} {tunit} after the flight time {t0f!r} of the fixed-energy leg (element {i})')
                    break
        if bad is not None:
            if route == 'kernel' or not kernel_bad:
                ctx.violation(f'{pre}:{bad[0]}', f'{mode} via {route} {bad[1]}: {rep}', rep)
            kernel_bad = kernel_bad or route == 'kernel'
            continue
        # an item of a container: the very numbers the kernel returns for these arrival times (NaN pattern included)
        if item is not None and kres is not None and 'values' in kres and not kernel_bad:
            kv = [_num(x) for x in kres['values']]
            diff = [i for i, (a, b) in enumerate(zip(vals, kv)) if a != b]
            if len(kv) == len(vals) and diff and (res['dtype'] == kres['dtype']):
                i = diff[0]
                rep['kernel_result'] = kv
                ctx.violation(f'{pre}:differs-from-kernel', f'{mode} via {route}: arrival time {tof[i]!r} {tunit} (element {i}) gives {vals[i]!r}, the kernel gives {kv[i]!r} '
                              f'for the same operands: {rep}', rep)
                continue
            if stats is not None:
                stats['container_elements'] = stats.get('container_elements', 0) + len(vals)
                cc = stats.setdefault('containers', {})
                cn = container_name(r['container'])
                cc[cn] = cc.get(cn, 0) + 1
        # element 0: the physical arrival time t = L1/v(Ei) + L2/v(Ef)
        v = vals[0]
        if not phys or isinstance(v, str):
            continue
        any32 = res['dtype'] == 'float32'
        uv = 2e-5 if any32 else 1e-12      # scipp's unit conversion factors alone carry ~4e-14 (probed)
        got = v * _num(res['unit']['mult'])
        bound = cond * Efree + Efix
        rep.update(got_si=got, want_si=want)
        if abs(got - want) > uv * bound and in32 and not any32 and abs(got - want) <= 2e-5 * bound:
            ctx.violation(f'{mode}:value-single-precision-level',
                          f'{mode}: float64 result is only single-precision accurate with a float32 operand: Ei-Ef = {want} J, returned {got} J', rep)
        elif abs(got - want) > uv * bound:
            if route == 'kernel' or not kernel_bad:
                ctx.violation(f'{mode}:conservation' if route == 'kernel' else f'{pre}:conservation',
                              f'{mode} via {route}: Ei-Ef = {want} J but the implementation returns {got} J: {rep}', rep)
            kernel_bad = kernel_bad or route == 'kernel'


def correspondence(ctx):
    boundary_sweep(ctx, 150 if ctx.tier == 'quick' else 3000)
    rng = random.Random(ctx.seed)
    groups = gen(rng, 60 if ctx.tier == "quick" else 900)     # thorough: 15x quick (2500 needed > 40 min on a loaded machine)
    res = ctx.run_impl('c05_impl.py', {'groups': groups})
    h, mn = res['constants']['h']['value'], res['constants']['m_n']['value']
    terms, descs = [], []
    n_nan = n_val = n_inf = 0
    stats = {}
    fallback = [r.get('t0_source') for r in res['groups'] if str(r.get('t0_source', 'helper')) != 'helper']
    if fallback:
        ctx.note(f'_energy_transfer_t0 of the implementation not usable for {len(fallback)} of {len(groups)} groups, probes placed around the formula value: {fallback[0]}')
    for g, r in zip(groups, res['groups']):
        if 'build_error' in r:
            ctx.note('harness could not build a group: ' + r['build_error'])
            continue
        any32 = (r.get('result') or {}).get('dtype') == 'float32'
        tol = '(1 # 1000000000000)' if not any32 else '(2 # 100000)'
        greq = {'operands': r['operands']}
        routes = [('kernel', r)]
        for route in ('graph', 'convert'):
            if 'result_' + route in r:
                routes.append((route, dict(r, result=r['result_' + route])))
        # convert() on the container of the group: the items are compared with the model like any other answer
        # (statement() below looks at all items of all groups)
        its = [(rt, it) for rt, it in item_routes(r) if 'result' in it]
        if ctx.tier == 'quick':
            # (quick tier: the last item, for every second group - alternating per ten groups so that every container form
            #  is met; each item is also required by statement() to return the very numbers of the kernel, whose answer
            #  is compared with the model for every group)
            its = its[-1:] if (g['id'] + g['id'] // 10) % 2 == 0 else []
        for rt, it in its:
            routes.append((rt, dict(r, result=it['result'])))
        for route, rr in routes:
          try:
            cases = kcorr.element_cases(g['mode'], ['tof', 'L1', 'L2', 'E'], greq, rr, tol)
          except Exception as ex:      # an answer that cannot be written as a Coq case (other shape, no unit ...): statement() reports it
            ctx.note(f'group {g["id"]} via {route} not comparable with the model: {type(ex).__name__}: {ex}')
            continue
          for t, d in cases:
            terms.append(t)
            d['group'] = {k: g[k] for k in ('mode', 'units', 'dtypes')}
            d['route'] = route
            d['layout'] = g.get('layout', 'scalar')
            if route.startswith('convert:'):
                d['container'] = g.get('container')
            descs.append(d)
            if route != 'kernel':
                continue
            if isinstance(d['impl'], dict):
                v = d['impl']['value']
                n_nan += v == 'nan'
                n_inf += v in ('inf', '-inf')
                n_val += not isinstance(v, str)
        # the property's own statement on the implementation, every entry point
        try:
            statement(ctx, g, r, kcorr.fmt(mn), stats)
        except Exception as ex:
            ctx.violation(f'{g["mode"]}:answer-not-evaluable', f'the answers for group {g} cannot be evaluated against the statement: {type(ex).__name__}: {ex}; {str(r)[:600]}',
                          {'group': g, 'answer': r})
    header = ('From Coq Require Import QArith ZArith String List.\n'
              'From Verif.Sem Require Import Field Val QInst Corr.\nFrom Run Require Import Corr.\n'
              'Import ListNotations.\nOpen Scope string_scope.\n'
              f'Definition H : Q := {kcorr.q(h)}.\nDefinition MN : Q := {kcorr.q(mn)}.\n')
    fails, errors = ctx.coq_eval_shards(header, terms, lambda k: 'Eval vm_compute in (report (map (check H MN) cases)).\n', shard=210)
    for name, e in errors:
        ctx.violation('corr-shard-error', f'correspondence shard {name} did not evaluate: {e[:300]}', {'shard': name, 'error': e}, found_input=False)
    for i, why in sorted(fails.items()):
        d = descs[i]
        if why == 'value-single-precision-level':
            ctx.violation(f'{d["kernel"]}:value-single-precision-level',
                          f'{d["kernel"]}: float64 result is only single-precision accurate with a float32 operand: {d}', {'case': d, 'reason': why})
            continue
        ctx.violation(f'{d["kernel"]}:{"convert-container" if d["route"].startswith("convert:") else d["route"]}:{why.split(":")[0]}',
                      f'{d["kernel"]} via {d["route"]}: implementation differs from the model ({why}) on {d}', {'case': d, 'reason': why})
    ctx.coverage.update({
        'evaluations': len(terms),
        'distinct_nontrivial': len({repr(d['operands']) for d in descs if isinstance(d['impl'], dict)}),
        'routes': dict({rt: sum(1 for d in descs if d['route'] == rt) for rt in ('kernel', 'graph', 'convert')},
                       **{'convert-on-container': sum(1 for d in descs if d['route'].startswith('convert:'))}),
        'containers': stats.get('containers', {}),
        'container_item_elements_checked_by_statement': stats.get('container_elements', 0),
        'rule': 'each group is run through the kernel, the graph factory entry and scippneutron.convert; per group: Ei,Ef in 1e-3..1e4 meV, L in 0.1..1e3 m, random units/dtypes '
                '(fixed energy in meV / eV / ueV / J; every third group in J, half of those all-float64), L1, L2, E scalars or arrays along the tof dim; arrival times = physical t, '
                't0*(1+k*eps) for k in -2..1024 (t0 from the implementation; from the formula when the helper is unusable), t0*{0.5..10}; non-trivial = a result element (NaN or value) was produced; '
                'besides the Coq comparison with the regenerated model the statement itself (unit of the result, Ei-Ef at the physical time, NaN before / number after the formula t0, never infinite) '
                'is evaluated in Python on all three entry points; convert() is also run on a container per group - a DataArray of binned events, Datasets of 1..3 items, dense '
                '(shared dense tof) and/or binned (event-wise tof, own event order, own cut into bins incl. empty bins) - and EVERY item must satisfy the statement and return the '
                'very numbers of the kernel (Python); the last item of every second group (thorough tier: every item) is also compared with the model in Coq; DataGroup is not accepted by convert() (AttributeError) and not run',
        'energy_units': {eu: sum(1 for g in groups if g['units']['E'] == eu) for eu in ('meV', 'eV', 'ueV', 'J')},
        'J_all_float64_groups': sum(1 for g in groups if g['units']['E'] == 'J' and 'float32' not in g['dtypes'].values()),
        'layouts': {lay: sum(1 for g in groups if g.get('layout', 'scalar') == lay) for lay in ('scalar', 'aligned')},
        'statement_elements_checked': stats.get('statement_elements', 0),
        'samples': descs[:2] + descs[7:9],
        'observed': {'nan': n_nan, 'finite': n_val, 'infinite': n_inf},
        'disagreements': len(fails),
    })


def boundary_sweep(ctx, n):
    """the statement (never infinite; NaN at and before t0, a number clearly after it; Ei-Ef at the physical arrival time;
    unit of the supplied energy) evaluated on the implementation with all operands in one float type, small and large
    length units, energies in ueV / meV / eV / J (float32 + J with mm / m / km only: known finding float32-range), kernel /
    graph factory / convert, scalar operands or three situations at once (per-detector arrays, 2-D arrival times);
    convert on a dense DataArray, a binned DataArray or a Dataset of 1..3 dense / binned items (one event per bin, events
    stored in a random order; a later item is the one looked at); arrival times from the first representable value after t0 (c05_sweep.py)"""
    res = ctx.run_impl('c05_sweep.py', {'seed': ctx.seed, 'n': n})
    ctx.coverage['boundary_sweep_results_checked'] = ctx.coverage.get('boundary_sweep_results_checked', 0) + res.get('checked', 0)
    cl = ctx.coverage.setdefault('boundary_sweep_classes', {})
    for k, v in (res.get('classes') or {}).items():
        cl[k] = cl.get(k, 0) + v
    return res.get('harness_violations') or []


def search(ctx, broken):
    """a broken obligation (translation / proof / exercise tie): evaluate the PROPERTY STATEMENT on the implementation over a
    much larger stream of groups (all entry points, all energy units incl. J in double precision, scalar and per-element
    operands, convert on every container form: binned DataArray, Datasets of 1..3 dense / binned items, every item and
    every event looked at) - no model involved - and over the one-float-type sweep"""
    keys = [v['key'] for v in boundary_sweep(ctx, 3000)]
    rng = random.Random(ctx.seed * 7919 + 5)
    groups = gen(rng, 400 if ctx.tier == 'quick' else 4000)
    res = ctx.run_impl('c05_impl.py', {'groups': groups})
    mn = kcorr.fmt(res['constants']['m_n']['value'])
    before = len(ctx.violations)
    stats = {}
    for g, r in zip(groups, res['groups']):
        try:
            statement(ctx, g, r, mn, stats)
        except Exception as ex:
            ctx.violation(f'{g["mode"]}:answer-not-evaluable', f'the answers for group {g} cannot be evaluated against the statement: {type(ex).__name__}: {ex}; {str(r)[:600]}',
                          {'group': g, 'answer': r})
    ctx.coverage['search_statement_elements'] = ctx.coverage.get('search_statement_elements', 0) + stats.get('statement_elements', 0)
    return keys + [v.key for v in ctx.violations[before:]]


def replay(ctx, obj):
    import json
    print(json.dumps(obj, indent=1))
    return 0
