"""C05 — inelastic energy transfer conserves energy; NaN exactly for unphysical times."""
import random
import kcorr
from kcorr import loguniform

ID = 'C05'
LEVEL = 'proof'
TRANSLATE = {'modules': [
    {'py': 'src/scippneutron/_utils/__init__.py', 'coq': 'GenUtils',
     'functions': ['elem_unit', 'elem_dtype', 'float_dtype', 'as_float_type']},
    {'py': 'src/scippneutron/conversion/tof.py', 'coq': 'GenTof',
     'imports': {'elem_unit': 'GenUtils', 'elem_dtype': 'GenUtils', 'as_float_type': 'GenUtils'},
     'functions': ['_common_dtype', '_energy_constant', '_energy_transfer_t0',
                   'energy_transfer_direct_from_tof', 'energy_transfer_indirect_from_tof']},
]}
RUN_FILES = ['Tie.v', 'Properties.v', 'PropertiesFloat.v', 'Corr.v']
TRUSTED = [
    'tools/py2coq.py (syntactic translator, fail-closed)',
    'coq/Sem/Val.v: model of scipp unit algebra, dtype promotion, to_unit, astype, sqrt, where, comparisons (element-wise)',
    'coq/Sem/RInst.v: the R instance does not decide equality of unit multipliers in + - <= where (fail-closed, see file); the Q instance does',
    'coq/Sem/QInst.v rational approximation of sqrt (correspondence only)',
    'tools/harness/c05_impl.py + lib/kcorr.py (exact serialisation of operands/results)',
    'Flocq 4.1.0 (Core, IEEE754.BinarySingleNaN) as the model of IEEE-754 arithmetic (coq/C05/NeverInf.v)',
]
ASSUMPTIONS = [
    'theorems are over exact reals: NaN iff t <= t0 and the documented value otherwise; in floating point the decision may differ '
    'within 1e-12 relative of t0 (2e-5 in single precision; scipp unit conversion factors carry ~4e-14) (accepted either way by the correspondence, but an infinity is never accepted)',
    '"never infinite" at float level is proved (PropertiesFloat.v, Flocq binary64/binary32 with gradual underflow, R-level and IEEE data type) '
    'for the chain d=rnd(t-t0)>0, d*d, scale/(d*d), E-/+q under magnitude hypotheses derived from the quantifier (2^-20<=t0, t<=2^60, '
    '|E|<=2^30, scale<=2^73 [binary64] or scale<=2^52*t0^2 [binary32/64]); assumed: t0 and scale themselves are finite format numbers '
    'within those bounds (their computation is not modelled in floating point; the correspondence run observes no infinity), scipp performs '
    '- and / as single correctly rounded IEEE operations in _common_dtype and x**2 as x*x; the float theorems are not tied to the '
    'regenerated term (hypotheses mapped to kernel sub-terms by comment; the real-number Tie.v ties the structure)',
]
LEVEL_TEXT = ('Proof: for all positive Ei, Ef, L1, L2 in arbitrary units and all dtypes, the regenerated direct and indirect kernels '
              'return Ei-Ef (unit of the supplied energy) for t = L1/v(Ei)+L2/v(Ef), NaN iff t <= t0 of the fixed leg, the documented '
              'real value otherwise. Model of scipp primitives validated against scipp on arrival times at, around and far from the boundary.')
LEVEL_NOTE = ('Trusted: Coq kernel; std-lib real axioms; py2coq; Sem/Val.v; boundary band observed per case with a condition-aware bound; '
              'absence of inf proved for the value-branch chain under stated magnitude hypotheses (PropertiesFloat.v).')
TECHNIQUE = 'Coq proof on regenerated terms (cbv + field over R, sqrt lemmas) + vm_compute correspondence with condition-aware tolerance'

EUNITS = [('meV', 1.602176634e-22), ('J', 1.0), ('eV', 1.602176634e-19)]
LUNITS = [('m', 1.0), ('mm', 1e-3), ('km', 1e3)]
TUNITS = [('s', 1.0), ('ms', 1e-3), ('us', 1e-6), ('ns', 1e-9)]
KS = [-2, -1, 0, 1, 2, 8, 1024]


def gen(rng, n):
    groups = []
    for i in range(n):
        single = rng.random() < 0.3
        dt_tof = 'float32' if single else rng.choice(['float64', 'float64', 'float64', 'int64'])
        dt_E = 'float32' if (single and rng.random() < 0.7) else 'float64'
        tu = rng.choice(TUNITS if not single else TUNITS[1:3])
        if dt_tof == 'int64':
            tu = rng.choice(TUNITS[2:])      # integers need a fine unit
        g = {'id': i, 'mode': rng.choice(['direct', 'indirect']),
             'Ei': loguniform(rng, 1e-3, 1e4) * 1.602176634e-22, 'Ef': loguniform(rng, 1e-3, 1e4) * 1.602176634e-22,
             'L1': loguniform(rng, 0.1, 1e3), 'L2': loguniform(rng, 0.1, 1e3),
             'units': {'tof': tu[0], 'L1': rng.choice(LUNITS)[0], 'L2': rng.choice(LUNITS)[0],
                       'E': rng.choice(EUNITS)[0]},
             'dtypes': {'tof': dt_tof, 'L1': rng.choice(['float64', 'float32', 'int64']) if rng.random() < 0.3 else 'float64',
                        'L2': rng.choice(['float64', 'float32']) if rng.random() < 0.3 else 'float64', 'E': dt_E},
             'ks': KS, 'extra': [0.5, 0.999, 1 - 1e-6, 1 - 1e-9, 1 + 1e-9, 1 + 1e-6, 1.001, 1.5, 3.0, 10.0]}
        for k in ('L1', 'L2'):
            if g['dtypes'][k] == 'int64':
                g['units'][k] = 'mm'
        groups.append(g)
    return groups


def correspondence(ctx):
    boundary_sweep(ctx, 150 if ctx.tier == 'quick' else 3000)
    rng = random.Random(ctx.seed)
    groups = gen(rng, 60 if ctx.tier == 'quick' else 2500)
    res = ctx.run_impl('c05_impl.py', {'groups': groups})
    h, mn = res['constants']['h']['value'], res['constants']['m_n']['value']
    terms, descs = [], []
    n_nan = n_val = n_inf = 0
    for g, r in zip(groups, res['groups']):
        if 'build_error' in r:
            ctx.note('harness could not build a group: ' + r['build_error'])
            continue
        any32 = (r.get('result') or {}).get('dtype') == 'float32'
        tol = '(1 # 1000000000000)' if not any32 else '(2 # 100000)'
        greq = {'operands': r['operands']}
        routes = [('kernel', r)]
        for route in ('graph', 'convert'):
            if 'result_' + route in r:
                routes.append((route, dict(r, result=r['result_' + route])))
            elif 'error_' + route in r and 'error' not in r:
                ctx.violation(f'{g["mode"]}:{route}-raises', f'{g["mode"]} via {route} raises {r["error_" + route]} where the kernel returns', {'group': g, 'error': r['error_' + route]})
        for route, rr in routes:
          for t, d in kcorr.element_cases(g['mode'], ['tof', 'L1', 'L2', 'E'], greq, rr, tol):
            terms.append(t)
            d['group'] = {k: g[k] for k in ('mode', 'units', 'dtypes')}
            d['route'] = route
            descs.append(d)
            if route != 'kernel':
                continue
            if isinstance(d['impl'], dict):
                v = d['impl']['value']
                n_nan += v == 'nan'
                n_inf += v in ('inf', '-inf')
                n_val += not isinstance(v, str)
        # the property's own statement on the implementation: the first tof is the physical arrival time
        if 'result' in r and not isinstance(r['result']['values'][0], str):
            from fractions import Fraction
            v = r['result']['values'][0]
            got = float(Fraction(int(v[0]), int(v[1]))) * float(Fraction(int(r['result']['unit']['mult'][0]), int(r['result']['unit']['mult'][1])))
            want = r['expected_si']
            g = dict(g, **r['si'])
            Efix = g['Ei'] if g['mode'] == 'direct' else g['Ef']
            Efree = g['Ef'] if g['mode'] == 'direct' else g['Ei']
            import math
            mnv = kcorr.fmt(mn)
            tfix = (g['L1'] if g['mode'] == 'direct' else g['L2']) * math.sqrt(mnv / (2 * Efix))
            tfree = (g['L2'] if g['mode'] == 'direct' else g['L1']) * math.sqrt(mnv / (2 * Efree))
            cond = (tfix + tfree) / tfree
            u = 2e-5 if any32 else 1e-12     # scipp's unit conversion factors alone carry ~4e-14 (probed)
            if g['dtypes']['tof'] == 'int64':
                continue    # an integer arrival time is not the physical one
            in32 = any(o['dtype'] == 'float32' for o in r['operands'].values())
            if abs(got - want) > u * (cond * Efree + Efix) and in32 and not any32 and abs(got - want) <= 2e-5 * (cond * Efree + Efix):
                ctx.violation(f'{g["mode"]}:value-single-precision-level',
                              f'{g["mode"]}: float64 result is only single-precision accurate with a float32 operand: Ei-Ef = {want} J, returned {got} J',
                              {'group': g, 'got_si': got, 'want_si': want})
            elif abs(got - want) > u * (cond * Efree + Efix):
                ctx.violation(f'{g["mode"]}:conservation',
                              f'{g["mode"]}: Ei-Ef = {want} J but the implementation returns {got} J', {'group': g, 'got_si': got, 'want_si': want})
    header = ('From Coq Require Import QArith ZArith String List.\n'
              'From Verif.Sem Require Import Field Val QInst Corr.\nFrom Run Require Import Corr.\n'
              'Import ListNotations.\nOpen Scope string_scope.\n'
              f'Definition H : Q := {kcorr.q(h)}.\nDefinition MN : Q := {kcorr.q(mn)}.\n')
    fails, errors = ctx.coq_eval_shards(header, terms, lambda k: 'Eval vm_compute in (report (map (check H MN) cases)).\n', shard=300)
    for name, e in errors:
        ctx.violation('corr-shard-error', f'correspondence shard {name} did not evaluate: {e[:300]}', {'shard': name, 'error': e}, found_input=False)
    for i, why in sorted(fails.items()):
        d = descs[i]
        if why == 'value-single-precision-level':
            ctx.violation(f'{d["kernel"]}:value-single-precision-level',
                          f'{d["kernel"]}: float64 result is only single-precision accurate with a float32 operand: {d}', {'case': d, 'reason': why})
            continue
        ctx.violation(f'{d["kernel"]}:{d["route"]}:{why.split(":")[0]}',
                      f'{d["kernel"]} via {d["route"]}: implementation differs from the model ({why}) on {d}', {'case': d, 'reason': why})
    ctx.coverage.update({
        'evaluations': len(terms),
        'distinct_nontrivial': len({repr(d['operands']) for d in descs if isinstance(d['impl'], dict)}),
        'routes': {rt: sum(1 for d in descs if d['route'] == rt) for rt in ('kernel', 'graph', 'convert')},
        'rule': 'each group is run through the kernel, the graph factory entry and scippneutron.convert; per group: Ei,Ef in 1e-3..1e4 meV, L in 0.1..1e3 m, random units/dtypes; arrival times = physical t, '
                't0*(1+k*eps) for k in -2..1024 (t0 from the implementation), t0*{0.5..10}; non-trivial = a result element (NaN or value) was produced',
        'samples': descs[:2] + descs[7:9],
        'observed': {'nan': n_nan, 'finite': n_val, 'infinite': n_inf},
        'disagreements': len(fails),
    })


def boundary_sweep(ctx, n):
    """never infinite / NaN at and before t0, evaluated on the implementation with all operands in one float type,
    small and large length units, arrival times from the first representable value after t0 (c05_sweep.py)"""
    res = ctx.run_impl('c05_sweep.py', {'seed': ctx.seed, 'n': n})
    ctx.coverage['boundary_sweep_results_checked'] = ctx.coverage.get('boundary_sweep_results_checked', 0) + res.get('checked', 0)
    return res.get('harness_violations') or []


def search(ctx, broken):
    # the correspondence already evaluates conservation and the NaN pattern on the implementation; the sweep below
    # evaluates the "never infinite" clause over many more (dtype, unit) corners
    return [v['key'] for v in boundary_sweep(ctx, 3000)]


def replay(ctx, obj):
    import json
    print(json.dumps(obj, indent=1))
    return 0
