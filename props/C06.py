"""C06 - event-mode conversion equals dense conversion and preserves the data."""
import json
import random

ID = 'C06'
LEVEL = 'translation_validation'
TRANSLATE = {'modules': [
    {'py': 'src/scippneutron/_utils/__init__.py', 'coq': 'GenUtils',
     'functions': ['elem_unit', 'elem_dtype', 'float_dtype', 'as_float_type']},
]}
RUN_FILES = ['Tie.v', 'Properties.v']
COQ_TIMEOUT = 600
TRUSTED = [
    'scipp binned-data engine (C++: sc.bins, binned x dense broadcasting, transform_coords on event coordinates, '
    'buffer compaction of non-contiguous bins) is MODELLED by coq/C06/Model.v (buffer + begin/end + per-pixel geometry; '
    'bin_of; convert_binned) and validated per run by the correspondence; it is not verified',
    'coq/C06/Check.v + tools/harness/c06_impl.py + props/C06.py: serialisation of the observations (float bit patterns as '
    'primitive 63-bit integers + sign, NaN canonicalised; indices) and the comparison function run by vm_compute',
    'the dense reference is scippneutron.convert on a 1-d table (one row per event: event coordinate next to the '
    "numpy-gathered geometry of its pixel); what the dense kernels compute is C01/C05's subject, not C06's",
    'the event->bin and event->geometry-cell pairing the harness uses is taken from scipp (binned += dense broadcast of '
    'bin / cell numbers) and must equal the Coq model\'s bin_of / gidx on every buffer index (compared inside Coq)',
    'tools/py2coq.py (syntactic translator, fail-closed) for elem_unit / elem_dtype',
    'coq/Sem/Val.v models `var.bins` as None (dense element model): probed on scipp 25.4, a binned variable\'s '
    '.unit/.dtype already forward to the event buffer\'s unit/dtype, so both branches of elem_unit/elem_dtype select '
    'the same thing; that they select the BUFFER\'s unit/dtype on real binned operands is checked by the harness '
    '(flag elem-unit-dtype), not proved',
    'preservation of masks / unrelated coordinates / weights and non-modification of the input are observed with '
    'sc.identical on deep snapshots (harness flags); weights, variances, event order and bin membership are in addition '
    'compared inside Coq through the view by bins',
    'call histories (re-conversion, chains, precomputed event coordinate, repeated calls): scipp\'s transform_coords rule '
    '"a name that already is a coordinate is fetched, not recomputed" is MODELLED by coq/C06/ModelH.v (convert_named) and '
    'compared per run for the target coordinate (Check.check_prev); the harness builds the history with the implementation '
    'itself (the earlier calls are scippneutron.convert), translates the result\'s event ids into indices of the later '
    'call\'s input buffer, and the generated histories are CONSISTENT (an existing target coordinate holds the dense value)',
]
ASSUMPTIONS = [
    'the structural theorems are about the hand-written model of binned data; the tie to scipp is the per-run correspondence '
    '(translation validation of (layout, target) programs), not a proof',
    'bit identity event = dense presupposes that scipp evaluates an element-wise kernel with the same IEEE operations '
    'whether an operand is broadcast from a pixel or stored per row (observed: 0 ulp on every program of every run so far)',
]

# tag, target, scatter, inelastic mode, needs positions geometry
PROGRAMS = [
    ('wavelength/S', 'wavelength', True, None, False),
    ('wavelength/N', 'wavelength', False, None, False),
    ('energy/S', 'energy', True, None, False),
    ('energy/N', 'energy', False, None, False),
    ('dspacing/S', 'dspacing', True, None, False),
    ('Q/S', 'Q', True, None, False),
    ('energy_transfer/direct', 'energy_transfer', True, 'direct', False),
    ('energy_transfer/indirect', 'energy_transfer', True, 'indirect', False),
    ('time_at_sample/S', 'time_at_sample', True, None, False),
    ('Q_vec/S', 'Q_vec', True, None, True),
    ('Qx/S', 'Qx', True, None, True),
    ('Qy/S', 'Qy', True, None, True),
    ('Qz/S', 'Qz', True, None, True),
    ('hkl_vec/S', 'hkl_vec', True, None, True),
    ('h/S', 'h', True, None, True),
    ('k/S', 'k', True, None, True),
    ('l/S', 'l', True, None, True),
    # geometry-only targets: nothing about the events may change
    ('Ltotal/S', 'Ltotal', True, None, True),
    ('Ltotal/N', 'Ltotal', False, None, True),
    ('two_theta/S', 'two_theta', True, None, True),
    ('L1/S', 'L1', True, None, True),
    ('L2/S', 'L2', True, None, True),
    ('incident_beam/S', 'incident_beam', True, None, True),
    ('scattered_beam/S', 'scattered_beam', True, None, True),
    ('ub_matrix/S', 'ub_matrix', True, None, True),
]
# the event-coordinate programs are drawn three times as often as the geometry-only ones
_MAIN = [p for p in PROGRAMS[:17]]
_GEO = [p for p in PROGRAMS[17:]]


_BY_TAG = {p[0]: p for p in PROGRAMS}
# ---- call histories: the object handed to the OBSERVED convert() is not fresh.
# kind -> how the input of the observed call (origin -> target of the base programme) came about
#   reconvert    result of convert(x, tof -> T); observed: convert(that, tof -> T) again (T already an event + edge coord)
#   chain-tof    result of convert(x, tof -> T1), T1 != T; observed: convert(that, tof -> T) (intermediates left over)
#   chain        result of convert(x, tof -> O); observed: convert(that, O -> T), O in wavelength / energy
#   chain3       result of convert(convert(x, tof -> O1), O1 -> O); observed: convert(that, O -> T)
#   precomputed  fresh events "loaded" with a precomputed event coordinate T (value of the dense kernel); observed tof -> T
#   repeat       fresh x that was already converted (result discarded) to T, or to another target; observed tof -> T
HIST_KINDS = ['reconvert', 'chain-tof', 'chain', 'precomputed', 'reconvert', 'repeat', 'chain3', 'chain-tof', 'chain']
_FROM_WAVELENGTH = ['energy/S', 'dspacing/S', 'Q/S', 'Q_vec/S', 'Qx/S', 'Qy/S', 'Qz/S', 'hkl_vec/S', 'h/S', 'k/S', 'l/S']
_FROM_ENERGY = ['wavelength/S', 'dspacing/S']


def gen_hist(rng, ptr, geometry):
    """one history programme (or None): a base programme (target, scatter, mode) plus how its input came about"""
    ptr.setdefault('hist', 0)
    kind = HIST_KINDS[ptr['hist'] % len(HIST_KINDS)]
    ptr['hist'] += 1
    ok = lambda tag: not (_BY_TAG[tag][4] and geometry != 'positions')

    def rr(name, pool):
        ptr[name] = ptr.get(name, 0) + 1
        return pool[ptr[name] % len(pool)]
    pre, origin, discard, pc = [], 'tof', False, False
    if kind in ('reconvert', 'repeat', 'precomputed'):
        pool = [p[0] for p in _MAIN if ok(p[0])]
        if kind != 'precomputed' and rng.random() < 0.15:
            pool = [p[0] for p in _GEO if ok(p[0])] or pool
        tag = rng.choice(pool)
        if kind == 'precomputed':
            pc = True
        else:
            t1 = _BY_TAG[tag][1]
            if kind == 'repeat':
                discard = True
                if rng.random() < 0.5 and _BY_TAG[tag][3] is None and _BY_TAG[tag][2]:
                    t1 = rng.choice([t for t in ('wavelength', 'dspacing', 'Q') if t != t1])   # a fork: x -> T1 and x -> T
            pre = [['tof', t1]]
            if kind == 'reconvert' and rng.random() < 0.25:
                pre = pre * 2
    elif kind == 'chain-tof':
        tag = rng.choice([p[0] for p in _MAIN if ok(p[0])])
        _, t2, scatter, inel, _ = _BY_TAG[tag]
        firsts = ['wavelength'] + (['dspacing', 'Q'] if scatter else []) + ([] if inel else ['energy']) + \
                 (['Q_vec', 'Qx'] if scatter and geometry == 'positions' else [])
        firsts = [t for t in firsts if t != t2]
        pre = [['tof', rng.choice(firsts)]]
        if rng.random() < 0.3:
            more = [t for t in firsts if t != pre[0][1]]
            if more:
                pre.append(['tof', rng.choice(more)])
    elif kind == 'chain':
        # the kernels that start from wavelength / energy are only reached through chains: round robin over them
        if rng.random() < 0.75:
            origin, tag = 'wavelength', rr('hw', [t for t in _FROM_WAVELENGTH if ok(t)])
        else:
            origin, tag = 'energy', rr('he', _FROM_ENERGY)
        pre = [['tof', origin]]
    else:  # chain3
        if rng.random() < 0.5:
            # (energy -> wavelength here would be a ROUND TRIP: scipp keeps the wavelength that is already there,
            # computed from tof, which legitimately differs by 1 ulp from the value computed back from the energy)
            pre, origin, tag = [['tof', 'wavelength'], ['wavelength', 'energy']], 'energy', 'dspacing/S'
        else:
            pre, origin = [['tof', 'energy'], ['energy', 'wavelength']], 'wavelength'
            tag = rr('hw', [t for t in _FROM_WAVELENGTH if ok(t) and t != 'energy/S'])
    _, target, scatter, inel, _ = _BY_TAG[tag]
    path = '>'.join([pre[0][0]] + [s[1] for s in pre]) if pre else 'loaded'
    p = {'tag': f'{tag}@{kind}({path},{origin})', 'target': target, 'scatter': scatter, 'inel': inel,
         'hist': {'kind': kind, 'pre': pre, 'origin': origin, 'discard': discard, 'precomputed': pc}}
    if inel:
        p['e_dtype'] = rng.choices(['float64', 'float32', 'int64'], [70, 20, 10])[0]
    return p


def _sizes(rng, nb, style):
    if nb == 0:
        return []
    if style == 'all-empty':
        return [0] * nb
    if style == 'single-huge':
        s = [0] * nb
        s[rng.randrange(nb)] = rng.randint(400, 2500)
        return s
    if style == 'tiny':
        return [rng.randint(0, 3) for _ in range(nb)]
    if style == 'full':
        return [rng.randint(20, 40) for _ in range(nb)]
    out = []
    for _ in range(nb):
        if rng.random() < 0.3:
            out.append(0)
        else:
            out.append(min(40, 1 + int(rng.expovariate(1 / 9.0))))
    return out


# event coordinate dtypes: raw event files store the time of flight as float or as integer ticks (NeXus
# event_time_offset: int32 or int64); probed on the clean implementation: every target is served for every one of them
TOF_DTYPES = ['float64', 'float32', 'int64', 'int32']
INT_TOF = ('int64', 'int32')


def gen_case(rng, cid, ptr, n_prog, adversarial=False, hist_share=0.4, tof_dtype=None, dataset=None):
    grid = rng.choices(['1d', 'outer', 'inner', 'flat2d'], [35, 35, 12, 18])[0]
    if grid == '1d':
        shape = [rng.choice([0] + list(range(1, 25))) if rng.random() < 0.03 else rng.randint(1, 24)]
    elif grid == 'outer':
        shape = [rng.randint(1, 6), rng.randint(1, 5)]
    elif grid == 'inner':
        shape = [rng.randint(1, 5), rng.randint(1, 6)]
    else:
        shape = [rng.randint(1, 5), rng.randint(1, 5)]
    nb = 1
    for s in shape:
        nb *= s
    style = rng.choices(['mixed', 'all-empty', 'single-huge', 'tiny', 'full'],
                        [64, 6, 4, 14, 12] if not adversarial else [10, 30, 30, 20, 10])[0]
    sizes = _sizes(rng, nb, style)
    storage = rng.choices(['contiguous', 'gaps', 'permuted', 'permuted+gaps'], [55, 18, 15, 12])[0]
    order = list(range(nb))
    gaps = [0] * nb
    tail = 0
    if 'permuted' in storage:
        rng.shuffle(order)
    if 'gaps' in storage:
        gaps = [rng.choice([0, 0, 1, 2, 5]) for _ in range(nb)]
        tail = rng.choice([0, 1, 4])
    dims = {'1d': ['spectrum'], 'outer': ['spectrum', 'tof'], 'inner': ['tof', 'spectrum'], 'flat2d': ['y', 'x']}[grid]
    edges = rng.choices([None, '1d', '2d'], [20, 50, 30])[0] if grid in ('outer', 'inner') else None
    view = None
    if nb > 0 and rng.random() < (0.3 if not adversarial else 0.7):
        kinds = ['slice', 'stride'] if len(shape) == 1 else ['slice', 'slice', 'stride', 'index', 'transpose', 'slice2']
        kind = rng.choice(kinds)
        ax = rng.randrange(len(shape))
        n = shape[ax]
        if kind == 'slice':
            a = rng.randint(0, n)
            b = rng.randint(a, n)
            view = ['slice', dims[ax], a, b, 1]
        elif kind == 'stride':
            if dims[ax] == 'tof' and edges:      # scipp refuses strided slicing along a dim with bin edges
                ax = dims.index('spectrum')
                n = shape[ax]
            a = rng.randint(0, max(0, n - 1))
            view = ['slice', dims[ax], a, n, rng.choice([2, 3])]
        elif kind == 'index':
            view = ['index', dims[ax], rng.randrange(n)]
        elif kind == 'transpose':
            view = ['transpose']
        else:
            a0 = rng.randint(0, shape[0])
            b0 = rng.randint(a0, shape[0])
            a1 = rng.randint(0, shape[1])
            b1 = rng.randint(a1, shape[1])
            view = ['slice2', dims[0], a0, b0, dims[1], a1, b1]
    drawn = rng.choices(TOF_DTYPES, [38, 24, 19, 19])[0]
    tof_dtype = tof_dtype or drawn
    tof_unit = rng.choice(['us', 'ns']) if tof_dtype in INT_TOF else rng.choice(['us', 'us', 'ms', 's', 'ns'])
    geometry = rng.choice(['positions', 'direct'])
    case = {
        'id': cid, 'seed': rng.getrandbits(48), 'grid': grid, 'shape': shape, 'sizes': sizes, 'order': order,
        'gaps': gaps, 'tail': tail, 'view': view, 'style': style, 'storage': storage,
        'tof_dtype': tof_dtype, 'tof_unit': tof_unit,
        'w_dtype': rng.choices(['float64', 'float32'], [70, 30])[0], 'variances': rng.random() < 0.6,
        'geometry': geometry, 'geom_f32': geometry == 'direct' and rng.random() < 0.3,
        'geom_mm': geometry == 'direct' and rng.random() < 0.3,
        'edges': edges,
        'edges_int': rng.random() < 0.5,
        'pixel_mask': rng.random() < 0.6, 'mask2d': rng.random() < 0.4, 'event_mask': rng.random() < 0.3,
        'dataset': rng.random() < 0.12,
    }
    if dataset is not None:
        case['dataset'] = dataset
    want_geo = geometry == 'positions' and ptr['layout'] % 2 == 0
    ptr['layout'] += 1
    progs = []
    for slot in range(n_prog):
        pool, key = (_GEO, 'geo') if (want_geo and slot == n_prog - 1) else (_MAIN, 'main')
        cand = None
        for _ in range(len(pool)):
            c = pool[ptr[key] % len(pool)]
            ptr[key] += 1
            if (c[4] and geometry != 'positions') or any(p['tag'] == c[0] for p in progs):
                continue
            cand = c
            break
        if cand is None:
            continue
        tag, target, scatter, inel, _ = cand
        p = {'tag': tag, 'target': target, 'scatter': scatter, 'inel': inel}
        if inel:
            p['e_dtype'] = rng.choices(['float64', 'float32', 'int64'], [70, 20, 10])[0]
        progs.append(p)
    # a call history on ~hist_share of the layouts (own generator state: the layouts themselves do not depend on it)
    hrng = random.Random(case['seed'] ^ 0x5EED)
    if hrng.random() < hist_share:
        h = gen_hist(hrng, ptr, geometry)
        if h is not None:
            progs.append(h)
    case['programs'] = progs
    return case


def summary_of(case, cres):
    s = {k: case[k] for k in ('id', 'grid', 'shape', 'style', 'storage', 'view', 'tof_dtype', 'tof_unit', 'w_dtype',
                              'variances', 'geometry', 'edges', 'dataset')}
    s['programs'] = [p['tag'] for p in case['programs']]
    if cres and 'summary' in cres:
        s['input'] = cres['summary']
    return s


def _coq_layout(L):
    return (f'(mkL {L["nbuf"]} {L["begin"]} {L["end"]} {L["grid"]} {L["ncell"]} {L["assign"]} {L["cell"]} '
            f'{L["w"]} {L["v"]})')


def _coq_program(pr):
    c = pr['coq']
    e = c['edge'] or {'egrid': 'LG1', 'ecell': '[]', 'eout': '[]', 'edense': '[]'}
    flags = '[' + ';'.join('"%s"' % f for f in pr.get('flags', [])) + ']'
    return (f'(mkP "{pr["tag"]}" {c["dense"]} {c["obegin"]} {c["oend"]} {c["oid"]} {c["oval"]} {c["ow"]} {c["ov"]} '
            f'{e["egrid"]} {e["ecell"]} {e["eout"]} {e["edense"]} {flags} {c.get("prev", "[]")})')


def coq_cases(cres):
    """Coq terms of one harness case: the programmes on the fresh object share its layout; a programme with a call
    history is a case of its own (its input - the result of the earlier calls - has its own buffer and bins)"""
    terms = []
    shared = [pr for pr in cres['programs'] if 'coq' in pr and 'own_layout' not in pr]
    if shared and 'layout' in cres:
        terms.append((f'(mkC {_coq_layout(cres["layout"])} [' + ';\n '.join(_coq_program(pr) for pr in shared) + '])',
                      [pr['tag'] for pr in shared]))
    for pr in cres['programs']:
        if 'coq' in pr and 'own_layout' in pr:
            terms.append((f'(mkC {_coq_layout(pr["own_layout"])} [{_coq_program(pr)}])', [pr['tag']]))
    return terms


def key_tag(tag):
    """violation keys name the input CLASS: base programme + kind of history, not the particular path"""
    return tag.split('(')[0]


def _run(ctx, cases, emit):
    # the harness is run in chunks so that a crash loses one chunk only and memory stays small
    out = []
    keys = None
    ver = None
    step = 60
    for k in range(0, len(cases), step):
        res = ctx.run_impl('c06_impl.py', {'cases': cases[k:k + step], 'emit': emit})
        out.extend(res['cases'])
        keys = res['graph_keys']
        ver = res['scipp']
    return out, keys, ver


def _hist_text(prog, pr=None):
    h = prog.get('hist')
    if not h:
        return ''
    t = f' [call history {h["kind"]}: earlier ' + ', '.join(f'convert({o} -> {t})' for o, t in h['pre'])
    t += ' (results discarded)' if h.get('discard') else ''
    t += ' events loaded with a precomputed target coordinate' if h.get('precomputed') else ''
    if pr and pr.get('error_in'):
        t += '; raised in ' + pr['error_in']
    return t + ']'


def _judge_py(ctx, case, cres, where):
    """harness-side verdicts (exceptions, flags, python bit comparison) -> violations; returns number found"""
    n = 0
    for prog, pr in zip(case['programs'], cres['programs']):
        one = dict(case)
        one['programs'] = [prog]
        if 'harness_error' in pr:
            ctx.violation('harness-error', f'C06 harness failed on {prog["tag"]}: {pr["harness_error"]}',
                          {'case': one, 'trace': pr.get('trace')}, found_input=False)
            n += 1
            continue
        if 'error' in pr:
            exc = pr['error'].split(':')[0]
            vk = case['view'][0] if case['view'] else 'none'
            if case['grid'] == 'flat2d' and vk == 'transpose':
                # one input class whatever the target: the data's dim order differs from that of the 2-d geometry
                key = f'raises-{exc}:transposed-2d-pixel-grid'
            else:
                key = f'{key_tag(prog["tag"])}:raises-{exc}:{case["grid"]}:{vk}'
            ctx.violation(key,
                          f'convert(binned, {(prog.get("hist") or {}).get("origin", "tof")} -> {prog["target"]}, '
                          f'scatter={prog["scatter"]}){_hist_text(prog, pr)} raises {pr["error"]}'
                          + (' AND the input object was modified by the raising call' if pr.get('error_input_modified') else '')
                          + f' on layout {summary_of(case, cres)}',
                          {'case': one, 'error': pr['error'], 'input_modified_by_raising_call': bool(pr.get('error_input_modified'))})
            n += 1
            continue
        if where == 'py':
            for f in pr.get('flags', []):
                ctx.violation(f'{key_tag(prog["tag"])}:flag-{f}', f'{prog["tag"]}: {f} on layout {summary_of(case, cres)}',
                              {'case': one, 'flag': f})
                n += 1
            py = pr.get('py', {})
            if py.get('mismatch'):
                ctx.violation(f'{key_tag(prog["tag"])}:value', f'{prog["tag"]}: {py["mismatch"]} event values differ from the dense kernel '
                              f'(max {py.get("max_ulp")} ulp) on layout {summary_of(case, cres)}', {'case': one, 'py': py})
                n += 1
            if py.get('edge_mismatch'):
                ctx.violation(f'{key_tag(prog["tag"])}:edge-value', f'{prog["tag"]}: {py["edge_mismatch"]} converted bin edges differ from the '
                              f'dense kernel (max {py.get("edge_max_ulp")} ulp) on layout {summary_of(case, cres)}',
                              {'case': one, 'py': py})
                n += 1
    return n


def correspondence(ctx):
    rng = random.Random(ctx.seed)
    n_layouts = 300 if ctx.tier == 'quick' else 4000
    n_prog = 4
    ptr = {'layout': 0, 'main': 0, 'geo': 0}
    cases = [gen_case(rng, i, ptr, n_prog) for i in range(n_layouts)]
    results, gkeys, ver = _run(ctx, cases, 'coq')
    # every node of the conversion graphs reachable from tof must be one of the programmes
    covered = {(t, sc_, inel) for (_, t, sc_, inel, _) in PROGRAMS}
    uncovered = []
    for mode, keys in (gkeys or {}).items():
        kind, s = mode.split('/')
        for key in keys:
            inel = None if kind == 'elastic' or key != 'energy_transfer' else kind
            if (key, s == 'S', inel) not in covered:
                uncovered.append(f'{mode}:{key}')
    if uncovered:
        ctx.note('graph nodes without a C06 programme (extend PROGRAMS in props/C06.py): ' + ', '.join(uncovered))
    terms, owners, layouts = [], [], []
    disagreements = 0
    for case, cres in zip(cases, results):
        disagreements += _judge_py(ctx, case, cres, 'coq')
        ts = coq_cases(cres)
        terms.extend(t for t, _ in ts)
        owners.extend((case, cres, tags) for _, tags in ts)
        if ts:
            layouts.append((case, cres))
    header = ('From Coq Require Import List String Uint63.\n'
              'From Verif.C06 Require Import Model Check.\nFrom Verif.Sem Require Import Corr.\n'
              'Import ListNotations.\nOpen Scope string_scope.\nOpen Scope uint63_scope.\n')
    footer = lambda k: 'Eval vm_compute in (report (map check cases)).\n'
    # quick: <= 30 shards (two rounds on 16 cores); thorough: small shards
    shard = max(10, -(-len(terms) // 30)) if ctx.tier == 'quick' else 14
    fails, errors = ctx.coq_eval_shards(header, terms, footer, shard=shard)
    # a shard whose coqc died without any output was killed from outside (OOM killer on a loaded machine): that is no
    # verdict - evaluate its cases once more (any error that remains is reported)
    still = []
    for name, e in errors:
        m = None if e.strip() else __import__('re').fullmatch(r'cases_(\d+)\.v', name)
        if not m:
            still.append((name, e))
            continue
        k0 = int(m.group(1)) * shard
        f2, e2 = ctx.coq_eval_shards(header, terms[k0:k0 + shard], footer, shard=shard, prefix=f'cases_retry{m.group(1)}')
        for i, why in f2.items():
            fails[k0 + i] = why
        still.extend(e2)
    errors = still
    for name, e in errors:
        ctx.violation('corr-shard-error', f'correspondence shard {name} did not evaluate: {e[:300]}',
                      {'shard': name, 'error': e}, found_input=False)
    for i, why in sorted(fails.items()):
        case, cres, tags = owners[i]
        for part in why.split('|'):
            disagreements += 1
            tag, _, reason = part.rpartition('/')
            if part.startswith('layout/'):
                tag, reason = 'layout', part[len('layout/'):]
            progs = [p for p in case['programs'] if p['tag'] == tag] or \
                [p for p in case['programs'] if p['tag'] == tags[0]]
            if tag == 'layout' and '@' in tags[0]:
                tag = 'layout@' + tags[0].split('@')[1].split('(')[0]     # the input of a later call of a history
            one = dict(case)
            one['programs'] = progs
            pys = [pr.get('py') for pr in cres['programs'] if pr.get('tag') == tag]
            ctx.violation(f'{key_tag(tag)}:{reason}',
                          f'{tag}: the binned conversion differs from the model ({reason}; harness-side: {pys}) on layout '
                          f'{summary_of(case, cres)}', {'case': one, 'reason': part, 'py': pys})
    # ---- coverage
    n_programs = sum(1 for _, cres in layouts for pr in cres['programs'] if 'coq' in pr)
    per_tag, per_grid, per_view, per_dtype, per_style = {}, {}, {}, {}, {}
    per_dtype_container, int_edges = {}, {}
    events = 0
    edges = 0
    empty_bins = total_bins = 0
    max_ulp = 0
    contiguous_same = [0, 0]
    distinct = set()
    per_hist, hist_events, preexisting = {}, 0, 0
    for case, cres in layouts:
        per_grid[case['grid']] = per_grid.get(case['grid'], 0) + 1
        vk = case['view'][0] if case['view'] else 'none'
        if case['view'] and case['view'][0] == 'slice' and case['view'][4] != 1:
            vk = 'strided-slice'
        per_view[vk] = per_view.get(vk, 0) + 1
        per_dtype[case['tof_dtype']] = per_dtype.get(case['tof_dtype'], 0) + 1
        dk = case['tof_dtype'] + ('/Dataset' if case['dataset'] else '/DataArray')
        n_here = sum(1 for pr in cres['programs'] if 'coq' in pr)
        per_dtype_container[dk] = per_dtype_container.get(dk, 0) + n_here
        if case['tof_dtype'] in INT_TOF and case['edges'] and case['edges_int'] and case['grid'] in ('outer', 'inner'):
            int_edges[case['tof_dtype']] = int_edges.get(case['tof_dtype'], 0) + n_here
        per_style[case['style'] + '/' + case['storage']] = per_style.get(case['style'] + '/' + case['storage'], 0) + 1
        bs = cres['summary']['bin_sizes']
        total_bins += len(bs)
        empty_bins += sum(1 for b in bs if b == 0)
        for pr in cres['programs']:
            if 'coq' not in pr:
                continue
            base_tag = pr['tag'].split('@')[0]
            per_tag[base_tag] = per_tag.get(base_tag, 0) + 1
            if pr.get('history'):
                hk = pr['history'] + ('/dataset' if case['dataset'] else '')
                per_hist[hk] = per_hist.get(hk, 0) + 1
                hist_events += pr.get('n_in_bins', 0)
                preexisting += 1 if pr.get('target_preexists') else 0
            events += pr.get('n_in_bins', 0)
            edges += (pr['coq']['edge'] or {}).get('n', 0)
            max_ulp = max(max_ulp, pr.get('py', {}).get('max_ulp') or 0, pr.get('py', {}).get('edge_max_ulp') or 0)
            if pr.get('contiguous'):
                contiguous_same[1] += 1
                contiguous_same[0] += 1 if pr.get('indices_identical') else 0
            if pr.get('n_in_bins', 0) > 0:
                distinct.add((pr['tag'], pr.get('history'), tuple(cres['summary']['begin']), tuple(bs), cres['summary']['grid'],
                              case['tof_dtype'], case['geometry']))
    ctx.coverage.update({
        'programs': n_programs,
        'disagreements_checked': disagreements,
        'evaluations': n_programs,
        'distinct_nontrivial': len(distinct),
        'rule': 'a programme = one binned layout (grid kind x shape x events per bin 0..40 with ~30% empty bins, all-empty and '
                'single-huge-bin layouts, contiguous / gapped / permuted storage, ~30% slices, strided slices, integer indexing, '
                'transposes of a parent; event tof float64/float32 in us/ms/s/ns or integer ticks int64/int32 in us/ns (integer '
                'tof bin edges then have the same integer dtype on half of the layouts with edges); per-pixel positions or Ltotal/two_theta/L1/L2; '
                'pixel, 2-d and event masks; extra event and bin coordinates; optional 1-d/2-d tof bin edges; optional Dataset wrapper; '
                'on ~40% of the layouts one more programme with a CALL HISTORY, see call_histories) '
                'x one target reachable from tof (graph nodes enumerated from conversion_graph at run time), compared in Coq '
                'event by event (bit identity) through the model\'s bin_of/gidx; non-trivial = at least one event lies in a bin; '
                'distinct = distinct (target, begin, sizes, grid, tof dtype, geometry kind)',
        'samples': [summary_of(c, r) for c, r in (layouts[:3] + layouts[-2:])],
        'layouts': len(layouts),
        'event_values_compared': events,
        'edge_values_compared': edges,
        'bins': total_bins, 'empty_bins': empty_bins,
        'per_target': per_tag, 'per_grid': per_grid, 'per_view': per_view, 'per_tof_dtype': per_dtype,
        'programmes_per_event_dtype_and_container': per_dtype_container,
        'programmes_with_integer_bin_edges_of_the_event_dtype': int_edges,
        'input_snapshot': 'deep copy before the observed call, compared with sc.identical (values, variances, unit AND element '
                          'dtype of every event / bin coordinate, masks, begin/end) for the input and the parent it is a view '
                          'of; in addition the (dtype, unit) of every event and bin coordinate and of the event data is recorded '
                          'by name before and after the call (flag input-<kind>:<name>-dtype-unit-modified)',
        'per_style_storage': per_style,
        'call_histories': {'programmes': sum(per_hist.values()), 'per_kind': per_hist, 'event_values_compared': hist_events,
                           'input_already_carries_target_event_coordinate': preexisting,
                           'kinds': 'reconvert = convert(convert(x, tof->T), tof->T) (also three times); chain-tof = '
                                    'convert(convert(x, tof->T1), tof->T), one or two earlier targets; chain = '
                                    'convert(convert(x, tof->O), O->T), O in wavelength/energy; chain3 = three calls '
                                    'tof->wavelength->energy->dspacing / tof->energy->wavelength->T; precomputed = events '
                                    'loaded with the dense value of T as event coordinate; repeat = x converted before, '
                                    'result discarded (same or another target). The observed call is the LAST one; its '
                                    'input (the earlier result) is deep-snapshotted incl. the set of event / bin '
                                    'coordinates and masks; the dense reference is the formula on the origin coordinate '
                                    'alone; round trips (energy->wavelength on data that already has the wavelength it '
                                    'came from) are excluded: scipp keeps the existing coordinate, 1 ulp off the way back'},
        'max_ulp_event_vs_dense': max_ulp,
        'tolerance': '0 ulp (bit identity); no broadcasting-order allowance was needed',
        'bin_indices_identical_for_contiguous_inputs': f'{contiguous_same[0]}/{contiguous_same[1]}',
        'graph_nodes': gkeys, 'graph_nodes_without_programme': uncovered,
        'scipp_version': ver,
    })


def search(ctx, broken):
    """an obligation broke (e.g. elem_unit / elem_dtype changed shape): evaluate the property statement itself on the
    implementation over adversarial layouts (all-empty, single huge bin, slices / strided views / transposes),
    judged harness-side (python bit comparison with scipp's own bin assignment + sc.identical flags).
    Every layout also carries a programme with a CALL HISTORY (re-conversion, chains, precomputed event coordinate,
    repeated calls; event coordinate dtypes float64 / float32 / int64 / int32 in turn): code that only runs when the input already has coordinates named like the target or like
    intermediate results (the usual shape of an `exercise:...core/conversions.py:<new helper>` obligation) is reached
    by those."""
    rng = random.Random(ctx.seed + 6)
    ptr = {'layout': 0, 'main': 0, 'geo': 0}
    # the event coordinate's dtype and the container are walked SYSTEMATICALLY (not drawn): code that only runs for one
    # dtype of the origin coordinate, or only for DataArray / only for Dataset input, is met by every fourth layout
    # (a Dataset on every fifth), whatever the seed
    cases = [gen_case(rng, 100000 + i, ptr, 3, adversarial=True, hist_share=1.0,
                      tof_dtype=TOF_DTYPES[i % len(TOF_DTYPES)], dataset=(i % 5 == 4)) for i in range(80)]
    results, _, _ = _run(ctx, cases, 'py')
    found = []
    for case, cres in zip(cases, results):
        if _judge_py(ctx, case, cres, 'py'):
            found.append(case['id'])
    unknown_before = [v for v in ctx.violations if v.found_input]
    if not found and unknown_before:
        # the driver reports a broken obligation by itself only when no violation with an input exists; a
        # KNOWN finding of the correspondence must not hide it
        ctx.violation('broken-obligation:' + broken[0], 'proof obligations no longer check: ' + ', '.join(broken[:8]),
                      {'broken': broken, 'details': [o for o in ctx.obligations if o[1] != 'discharged'][:10]},
                      found_input=False)
    return found


def replay(ctx, obj):
    rp = obj['replay']
    case = rp.get('case')
    print(json.dumps({k: v for k, v in obj.items() if k != 'replay'}, indent=1))
    if not case:
        print(json.dumps(rp, indent=1))
        return 0
    res = ctx.run_impl('c06_impl.py', {'cases': [case], 'emit': 'py'})
    cres = res['cases'][0]
    print('case (input of tools/harness/c06_impl.py):', json.dumps(case))
    print('layout:', json.dumps(summary_of(case, cres)))
    bad = 0
    for prog, pr in zip(case['programs'], cres['programs']):
        if prog.get('hist'):
            print(f'{prog["tag"]}: the OBSERVED call is convert({prog["hist"].get("origin", "tof")} -> {prog["target"]}) on the '
                  f'object with the{_hist_text(prog, pr)}; flags input-* are about THAT object (deep snapshot before the call)')
        print(f'{prog["tag"]}: required: every event value bit-identical to the dense kernel, no flag;  observed:',
              json.dumps({k: pr.get(k) for k in ('error', 'harness_error', 'flags', 'py', 'result') if k in pr}))
        if pr.get('error') or pr.get('flags') or (pr.get('py') or {}).get('mismatch') or (pr.get('py') or {}).get('edge_mismatch'):
            bad += 1
    print('re-run by hand: echo \'{"cases": [<case above>], "emit": "py"}\' | PYTHONPATH=/repo/src /venv/bin/python '
          'tools/harness/c06_impl.py')
    return 1 if bad else 0


LEVEL_TEXT = ('Translation validation: on every run, ~1300 (quick) (binned layout, target) programmes - ~120 of them with a call '
              'history (input = result of earlier conversions: re-conversion, chains tof->wavelength->energy, precomputed event '
              'coordinate, repeated calls; deep snapshot of THAT input incl. its set of event coordinates) - every node of the tof '
              'conversion graphs x 1-d/2-d grids, empty/uneven/huge bins, gaps, permuted storage, slices and transposes, '
              'float32/float64/int64/int32 events - are run through scippneutron.convert and through the Coq model of binned data '
              '(bin_of, convert_binned) instantiated with the separately evaluated dense kernel; event values and bin edges must be '
              'bit-identical, weights/variances/order/membership equal (compared by vm_compute), masks/coordinates/input identical '
              '(sc.identical). Proved (axiom-free) about the model: bin_of is total and correct for non-overlapping bins, '
              'conversion is point-wise the dense kernel with the bin\'s geometry, everything else is preserved, edges go through the same function; '
              'for events with named coordinates: re-conversion is idempotent and again gives the dense value, an existing target and all '
              'other coordinates are kept, chains compose the kernels point-wise.')
LEVEL_NOTE = ('The substance (scipp\'s C++ binned-data engine) is modelled, not verified; the level is dominated by the correspondence. '
              'Trusted: Coq kernel incl. primitive Uint63 for the case data, harness serialisation, py2coq, Sem/Val.v dense element model.')
TECHNIQUE = 'Coq model of binned data + structural proofs; per-run translation validation of (layout, target) programmes by vm_compute'
