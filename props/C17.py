"""C17 — peak fitting returns one coherent result per peak; removal touches only windows.

Tie B (hand model + correspondence).  coq/C17/Model.v is an executable Gallina model of
src/scippneutron/peaks/_fit_peaks.py and _remove_peaks.py in which the optimiser (curve_fit), the initial
guesses, the evaluation of a model at a point, ln and the chi-square CDF are ORACLES (Section variables);
coq/C17/Proofs*.v prove the property for every behaviour of the oracles; this file generates data sets,
runs the real implementation (tools/harness/c17_impl.py, which records the oracle answers by wrapping
`curve_fit` and `chi2` inside the harness process) and lets Coq run the model on the same inputs with the
recorded oracle answers and compare everything (coq-run/C17/Corr.v).

Model selection ("model product order, first success wins"): for list x list specifications every (peak, background)
combination is additionally fitted ON ITS OWN through the public function (single-model specification, the windows of
the list call passed explicitly); Coq evaluates ModelOrder.first_success over Model.candidates (the documented order) on
these results and compares with the list call's result (ProofsOrder.fit_peak_is_first_success_of_solo_fits proves that the
model's fit_peak is that function).  Class `combo` tunes min_p_value between the p-values of the single fits so that the
first combination fails and the trial ORDER decides which model pair is returned.

Point-count guard per combination: class `mixed` uses model lists whose combinations need 5..7 parameters on windows of
3..9 points (ProofsGuard: window_too_narrow only for a combination with more parameters than points; a too-narrow list
result is the first combination's).  remove_peaks is called with the results as list and in the other Iterable forms
(tuple, iter, generator, filter, map, dict values view, deque, chain, object with only __iter__): Coq compares every
output with the one model of the result SEQUENCE (ProofsRemoveSeq).

Three defects of the tree as found are switchable in the model (Model.variant): the correspondence tells
which variant the CURRENT source is; the full theorems hold for the variant with the proposed patches and are
refuted (with witnesses) for the tree as found.
"""
import json
import math
import random
from fractions import Fraction

ID = 'C17'
LEVEL = 'proof'
TRANSLATE = None
RUN_FILES = ['Properties.v', 'Corr.v']
COQ_TIMEOUT = 600
HARNESS = 'c17_impl.py'
TRUSTED = [
    'coq/C17/Model.v: hand-written model of fit_peaks/_fit_peak/_fit_peak_single_model/_fit_background/'
    '_goodness_of_fit_statistics/_chi_square/_akaike_information_criterion/_assess_fit and its predicates/'
    '_guess_background/_guess_peak slice arithmetic/_fit_windows/_clip_to_data_range/'
    '_separate_from_neighbors_in_place/_parse_model_spec/FitResult.for_failure/for_too_narrow_window/remove_peaks '
    '(validated against the real functions on every run, inside Coq)',
    'modelled library behaviour: scipp label-based slicing data[dim, lo:hi] on an ascending point coordinate '
    '(points lo <= x < hi; IndexError when end < begin), Python slices with n = 0 (data[-0:] is everything, '
    'data[0:-0] is empty), numpy Polynomial.fit / argmax raise ValueError on empty input, sc.where clipping, '
    'IEEE inf/NaN results of x/0, log(0) and chi2(0).cdf, dict union of parameter bounds',
    'oracles (arbitrary in all theorems): scipp.scipy.optimize.curve_fit, Model.guess, Model.__call__ (C16), '
    'log, scipy.stats.chi2.cdf; recorded per run by tools/harness/c17_impl.py by wrapping the two library '
    'functions inside the harness process',
    'coq/C17/ModelOrder.v: first_success (first result marked successful, else the first) -- evaluated inside Coq on the '
    'implementation\'s own single-combination results in the order Model.candidates',
    'coq/C17/QFun.v: 140-bit fixed-point ln (correspondence only: re-derives the AIC in Coq)',
    'tools/harness/c17_impl.py + props/C17.py (generation, exact serialisation of binary64 as rationals)',
]
ASSUMPTIONS = [
    'data: 1-d, strictly ascending finite coordinate, finite values, positive variances (fit_peaks); the four '
    'built-in model classes (instances are re-prefixed); consistent units (unit algebra is not part of C17)',
    'guess_background_fraction in [2/5, 1): outside it `int(len*f/2)` is 0 or len/2 for windows that DO hold enough '
    'points and the guesses receive an empty slice (ValueError); the default is 0.5.  len*f/2 is evaluated exactly '
    '(the correspondence uses dyadic fractions)',
    '0 <= neighbor_separation_factor <= 1, window width >= 0, estimates sorted ascending (anything else is refused '
    'with ValueError by the code and by the model alike)',
    'window arithmetic is proved over exact rationals; binary64 rounding of c -+ w/2, nextafter and the separation '
    'bound is covered by a relative 1e-12 tolerance in the correspondence; float comparisons of the assessment '
    'cascade are decided with a relative band of 1e-9 (both readings accepted inside the band)',
    'success_meets_requirements: the local bin width is taken at an interior centre index (holds whenever the '
    'coordinate steps inside the window vary by less than a factor 4; checked per case)',
    'chi-square CDF and the model formulas are oracles: p = 1 - F_{n-k}(chi2) is checked with F as recorded from '
    'scipy for exactly (n-k, chi2); f(x_i; popt) as evaluated by the implementation\'s own model objects (C16)',
]

XU, YU = 'm', 'K'
DEFAULT_FP = {'f': 0.5, 's': 1 / 3}
DEFAULT_FR = {'min_p': 0.01, 'maxf': 1.0, 'minf': 1.0}
C_GAUSS_FWHM = 2 * math.sqrt(2 * math.log(2))
NPAR = {'gaussian': 3, 'lorentzian': 3, 'pseudo_voigt': 4}
PEAKS = ['gaussian', 'lorentzian', 'pseudo_voigt']


# --------------------------------------------------------------------------- number helpers
def hx(v):
    v = float(v)
    if math.isnan(v):
        return 'nan'
    if math.isinf(v):
        return 'inf' if v > 0 else '-inf'
    return v.hex()


def unhx(s):
    if s in ('nan', 'inf', '-inf'):
        return float(s)
    return float.fromhex(s)


def flit(v):
    """exact primitive-float literal of a binary64 (converted to an exact rational inside Coq)"""
    f = unhx(v) if isinstance(v, str) else float(v)
    h = f.hex()
    return f'({h})' if h.startswith('-') else h


def q(v):
    return f'(FQ {flit(v)})'


def xn(v):
    f = unhx(v) if isinstance(v, str) else float(v)
    if math.isnan(f):
        return 'NaN'
    if math.isinf(f):
        return 'PInf' if f > 0 else 'NInf'
    return f'(Fin {q(f)})'


def ql(vs):
    return '(QL ' + clist([flit(v) for v in vs]) + '%float)'


def cstr(s):
    return '"' + str(s).replace('"', '""') + '"'


def clist(items):
    return '[' + '; '.join(items) + ']'


# --------------------------------------------------------------------------- reference formulas (property side)
def f_peak(kind, x, amp, loc, scale, frac=0.5):
    scale = max(scale, 1e-15)

    def g(sc_):
        return amp / (math.sqrt(2 * math.pi) * sc_) * math.exp(-(x - loc) ** 2 / (2 * sc_ ** 2))

    def lo():
        return amp * scale / math.pi / ((x - loc) ** 2 + scale ** 2)
    if kind == 'gaussian':
        return g(scale)
    if kind == 'lorentzian':
        return lo()
    return frac * lo() + (1 - frac) * g(scale / math.sqrt(2 * math.log(2)))


def f_poly(coefs, x):
    v = 0.0
    for c in reversed(coefs):
        v = v * x + c
    return v


def gammaincc(a, x):
    """regularised upper incomplete gamma Q(a, x) (series / continued fraction), independent of scipy"""
    if x <= 0:
        return 1.0
    lg = math.lgamma(a)
    if x < a + 1:
        ap, s_, d = a, 1.0 / a, 1.0 / a
        for _ in range(10000):
            ap += 1
            d *= x / ap
            s_ += d
            if abs(d) < abs(s_) * 1e-16:
                break
        return 1.0 - s_ * math.exp(-x + a * math.log(x) - lg)
    tiny = 1e-300
    b = x + 1 - a
    c = 1 / tiny
    d = 1 / b
    h = d
    for i in range(1, 10000):
        an = -i * (i - a)
        b += 2
        d = an * d + b
        d = tiny if abs(d) < tiny else d
        c = b + an / c
        c = tiny if abs(c) < tiny else c
        d = 1 / d
        de = d * c
        h *= de
        if abs(de - 1) < 1e-16:
            break
    return math.exp(-x + a * math.log(x) - lg) * h


# --------------------------------------------------------------------------- generators
def loguniform(rng, lo, hi):
    return math.exp(rng.uniform(math.log(lo), math.log(hi)))


def gen_grid(rng, n=None):
    n = n or rng.randint(40, 150)
    kind = rng.choice(['dyadic', 'dyadic', 'linspace', 'linspace', 'stretch'])
    if kind == 'dyadic':
        h = rng.choice([1, 3, 5, 7]) * 2.0 ** rng.randint(-7, -2)
        x0 = rng.randint(-40, 40) * h * rng.choice([1, 4])
        x = [x0 + i * h for i in range(n)]
    elif kind == 'linspace':
        x0 = rng.uniform(-20, 20)
        x1 = x0 + loguniform(rng, 0.5, 50)
        step = (x1 - x0) / (n - 1)
        x = [x0 + i * step for i in range(n)]
    else:
        x0 = rng.uniform(0.5, 5)
        h = loguniform(rng, 0.005, 0.2)
        a = rng.uniform(0.0, 0.5)
        x = [x0 + h * i * (1 + a * i / n) for i in range(n)]
    for i in range(1, n):
        assert x[i] > x[i - 1]
    return kind, x


def gen_spec_pair(rng, simple=False):
    """(bkg spec, peak spec) in one of the admissible forms: name, instance, list/tuple of names/instances"""
    def item(kind_name, role):
        if rng.random() < 0.6:
            return {'name': kind_name}
        pre = rng.choice(['', 'pre_', 'gauss', 'bkg_', 'peak_', 'x'])
        if role == 'bkg':
            return {'inst': 'poly', 'degree': {'linear': 1, 'quadratic': 2}[kind_name], 'prefix': pre}
        return {'inst': kind_name, 'prefix': pre}
    r = rng.random()
    if simple or r < 0.45:
        b = {'form': 'one', 'items': [item(rng.choice(['linear', 'quadratic']), 'bkg')]}
        p = {'form': 'one', 'items': [item(rng.choice(PEAKS), 'peak')]}
        return b, p
    bk = rng.sample(['linear', 'quadratic'], rng.randint(1, 2))
    pk = rng.sample(PEAKS, rng.choice([1, 2, 2, 3]))
    b = {'form': 'many', 'container': rng.choice(['list', 'tuple']), 'items': [item(k, 'bkg') for k in bk]}
    p = {'form': 'many', 'container': rng.choice(['list', 'tuple']), 'items': [item(k, 'peak') for k in pk]}
    if rng.random() < 0.3:
        b = {'form': 'one', 'items': [item(bk[0], 'bkg')]}
    elif rng.random() < 0.2:
        p = {'form': 'one', 'items': [item(pk[0], 'peak')]}
    return b, p


def spec_kinds(sp):
    out = []
    for it in sp['items']:
        if 'name' in it:
            out.append(it['name'])
        elif it['inst'] == 'poly':
            out.append({1: 'linear', 2: 'quadratic'}.get(it['degree'], f'poly{it["degree"]}'))
        else:
            out.append(it['inst'])
    return out


def gen_fp(rng):
    if rng.random() < 0.55:
        return None
    return {'f': rng.choice([0.5, 0.4375, 0.625, 0.75, 0.875]),
            's': rng.choice([1 / 3, 0.25, 0.5, 0.125, 0.0, 0.4, 1 / 3])}


def gen_fr(rng):
    if rng.random() < 0.55:
        return None
    return {'min_p': rng.choice([0.01, 0.05, 1e-6, 0.5, 0.0]),
            'maxf': rng.choice([1.0, 0.5, 2.0, 0.25]),
            'minf': rng.choice([1.0, 0.5, 3.0, 0.0])}


def synth_data(rng, x, n_peaks, width_steps=None, noise_pow=None, bkg_deg=None, shapes=None, height_range=(8, 80)):
    """1..6 peaks (any of the three shapes, widths 0.3..30 grid steps) on a linear/quadratic background with
    seeded noise; variances are small dyadic multiples (m/16)*nl^2 so that the exact-rational chi-square stays small"""
    n = len(x)
    h = (x[-1] - x[0]) / (n - 1)
    xm = 0.5 * (x[0] + x[-1])
    span = x[-1] - x[0]
    nl = 2.0 ** (noise_pow if noise_pow is not None else rng.randint(-6, -2))
    deg = bkg_deg or rng.choice([1, 2])
    b0 = rng.uniform(2, 20)
    b1 = rng.uniform(-3, 3) / span
    b2 = (rng.uniform(-4, 4) / span ** 2) if deg == 2 else 0.0
    ws = width_steps or loguniform(rng, 0.3, min(30.0, n / (3.0 * n_peaks)))
    centers = sorted(x[0] + span * (i + 0.5 + rng.uniform(-0.2, 0.2)) / n_peaks for i in range(n_peaks))
    pk = []
    for c in centers:
        kind = rng.choice(shapes or PEAKS)
        sig = ws * h * rng.uniform(0.8, 1.25)
        height = nl * rng.uniform(*height_range)
        if rng.random() < 0.12:
            height = -height        # a dip: the fit converges to a negative amplitude ("peak points down" / wrong sign)
        frac = rng.uniform(0.1, 0.9)
        # amplitude giving roughly that height
        amp = height * sig * (math.sqrt(2 * math.pi) if kind == 'gaussian' else math.pi)
        pk.append({'kind': kind, 'loc': c, 'scale': sig, 'amp': amp, 'frac': frac})
    y, var = [], []
    for xi in x:
        t = b0 + b1 * (xi - xm) + b2 * (xi - xm) ** 2
        for p in pk:
            t += f_peak(p['kind'], xi, p['amp'], p['loc'], p['scale'], p['frac'])
        m = rng.randint(8, 32)
        v = (m / 16.0) * nl * nl
        y.append(t + math.sqrt(v) * rng.gauss(0, 1))
        var.append(v)
    return y, var, pk, {'deg': deg, 'nl': nl, 'width_steps': ws, 'h': h}


def gen_synth_removals(rng, x, n_sets=1):
    sets = []
    span = x[-1] - x[0]
    for _ in range(n_sets):
        rs = []
        for _ in range(rng.randint(1, 4)):
            kind = rng.choice(PEAKS)
            c = rng.uniform(x[0] - 0.1 * span, x[-1] + 0.1 * span)
            hw = loguniform(rng, 0.002, 0.4) * span
            m = rng.random()
            if m < 0.15:
                lo, hi = c, c                                  # empty window
            elif m < 0.25:
                lo, hi = x[rng.randrange(len(x))], x[rng.randrange(len(x))]   # edges exactly on grid points
                lo, hi = min(lo, hi), max(lo, hi)
            elif m < 0.32:
                lo, hi = x[0] - span, x[-1] + span             # everything
            else:
                lo, hi = c - hw, c + hw
            popt = {'peak_amplitude': (hx(rng.uniform(-2, 6) * hw), 'm*K'), 'peak_loc': (hx(c + rng.uniform(-0.3, 0.3) * hw), 'm'),
                    'peak_scale': (hx(loguniform(rng, 0.05, 1.0) * hw + 1e-3), 'm'),
                    'bkg_a0': (hx(rng.uniform(-3, 3)), 'K'), 'bkg_a1': (hx(rng.uniform(-1, 1)), 'K/m')}
            if kind == 'pseudo_voigt':
                popt['peak_fraction'] = (hx(rng.uniform(0, 1)), 'dimensionless')
            a = rng.choice(['success'] * 6 + ['failed', 'peak_too_wide', 'window_too_narrow', 'p_too_small'])
            rs.append({'window': [hx(lo), hx(hi)], 'assessment': a, 'peak': kind, 'popt': popt})
        sets.append({'results': rs, 'with_var': rng.random() < 0.08})
    return sets


def gen_case(rng, cid, klass):
    """one data set = one fit_peaks call (+ remove_peaks calls on its results and on synthetic results)"""
    c = {'id': cid, 'class': klass}
    if klass == 'zero_dof':
        # a window holding exactly as many points as parameters (7 = pseudo-Voigt + quadratic), narrow peak
        n = rng.randint(40, 90)
        h = rng.choice([1, 3]) * 2.0 ** rng.randint(-5, -3)
        x0 = rng.randint(-10, 10) * h
        x = [x0 + i * h for i in range(n)]
        y, var, pk, meta = synth_data(rng, x, 1, width_steps=rng.uniform(0.8, 1.6), noise_pow=-5, shapes=['gaussian'])
        ic = min(range(n), key=lambda i: abs(x[i] - pk[0]['loc']))
        ic = min(max(ic, 6), n - 7)
        c.update(x=x, y=y, var=var)
        c['est'] = [x[ic]]
        c['windows'] = {'scalar': 6.5 * h}              # points ic-3 .. ic+3
        c['bkg'] = {'form': 'one', 'items': [{'name': 'quadratic'}]}
        c['peak'] = {'form': 'one', 'items': [{'name': 'pseudo_voigt'}]}
        c['fp'], c['fr'] = None, None
        c['truth'] = pk
        c['remove_synth'] = []
        return enc(c)
    gkind, x = gen_grid(rng)
    n = len(x)
    span = x[-1] - x[0]
    h = span / (n - 1)
    n_peaks = rng.choice([1, 1, 2, 2, 3, 4, 5, 6])
    y, var, pk, meta = synth_data(rng, x, n_peaks)
    c.update(x=x, y=y, var=var, grid=gkind, truth=pk)
    sig = meta['width_steps'] * h
    est = [p['loc'] + rng.uniform(-0.5, 0.5) * p['scale'] for p in pk]
    c['bkg'], c['peak'] = gen_spec_pair(rng, simple=klass in ('narrow', 'outside'))
    c['fp'], c['fr'] = gen_fp(rng), gen_fr(rng)
    width = loguniform(rng, 6, 16) * sig * (2.4 if rng.random() < 0.5 else 1.0)
    width = min(max(width, 8 * h), span)
    if klass == 'narrow':
        # 0 .. 8 points per window: below the grid spacing up to just above the parameter count
        width = rng.choice([0.3, 0.7, 1.0, 1.5, 2.0, 2.5, 3.0, 3.5, 4.0, 4.5, 5.0, 6.0, 7.0, 8.5]) * h
        if rng.random() < 0.5:
            est = [x[rng.randrange(n)] + rng.choice([0.0, 0.25, 0.5]) * h for _ in est]
    elif klass == 'outside':
        m = rng.choice(['right-far', 'left-far', 'right-near', 'left-near', 'edges', 'both', 'alone-right', 'alone-left'])
        if m == 'right-far':
            est = est + [x[-1] + rng.uniform(1.0, 6.0) * span]
        elif m == 'left-far':
            est = [x[0] - rng.uniform(1.0, 6.0) * span] + est
        elif m == 'right-near':
            est = est + [x[-1] + rng.uniform(0.05, 0.3) * width]
        elif m == 'left-near':
            est = [x[0] - rng.uniform(0.05, 0.3) * width] + est
        elif m == 'edges':
            est = [x[0]] + est[1:-1] + [x[-1]] if len(est) > 1 else [rng.choice([x[0], x[-1]])]
        elif m == 'both':
            est = [x[0] - rng.uniform(0.5, 3) * span] + est + [x[-1] + rng.uniform(0.5, 3) * span]
        elif m == 'alone-right':
            est = [x[-1] + rng.uniform(0.2, 3) * span]
        else:
            est = [x[0] - rng.uniform(0.2, 3) * span]
        c['outside_mode'] = m
    elif klass == 'wide':
        width = rng.choice([span, 0.5 * span, 2 * span, span / n_peaks])
    est = sorted(est)
    if klass == 'unsorted' and len(est) > 1:
        est[0], est[-1] = est[-1], est[0]
    if klass == 'badspec':
        which = rng.choice(['name', 'empty', 'emptyname'])
        tgt = rng.choice(['bkg', 'peak'])
        c[tgt] = {'name': {'form': 'one', 'items': [{'name': 'parabola'}]},
                  'empty': {'form': 'many', 'container': rng.choice(['list', 'tuple']), 'items': []},
                  'emptyname': {'form': 'many', 'container': 'list', 'items': [{'name': 'linear' if tgt == 'bkg' else 'gaussian'}, {'name': ''}]}}[which]
    c['est'] = est
    if klass == 'explicit':
        wl = []
        for e in est:
            m = rng.random()
            if m < 0.6:
                a, b = e - width / 2 * rng.uniform(0.6, 1.4), e + width / 2 * rng.uniform(0.6, 1.4)
            elif m < 0.75:
                a, b = e - rng.uniform(0, 3) * h, e + rng.uniform(0, 3) * h        # a few points
            elif m < 0.85:
                a, b = e, e                                                        # empty
            else:
                a, b = x[0] - span, x[-1] + span                                   # everything
            wl.append([a, b])
        c['windows'] = {'explicit': wl}
    else:
        c['windows'] = {'scalar': width}
    c['remove_synth'] = gen_synth_removals(rng, x, 1)
    return enc(c)


HEIGHTS = [(8, 30), (30, 120), (120, 500)]


def gen_combo_base(rng, cid):
    """model LISTS on both sides (2x2, 2x3 in either order, names or instances) on data whose true shape/background is
    usually NOT the first entry of the lists, so that the first combination fails and later ones succeed.  The case
    is completed by tune_combo() (which picks min_p_value between the p-values of the single-combination fits)."""
    n = rng.randint(70, 130)
    gkind, x = gen_grid(rng, n)
    span = x[-1] - x[0]
    h = span / (n - 1)
    n_peaks = rng.choice([1, 1, 2])
    shape = rng.choice(PEAKS)
    directed = rng.random() < 0.65
    deg = rng.choice([1, 2, 2]) if directed else rng.choice([1, 2])
    ws = rng.uniform(3, 9) / (1.0 if n_peaks == 1 else 1.6)
    y, var, pk, meta = synth_data(rng, x, n_peaks, width_steps=ws, bkg_deg=deg, shapes=[shape],
                                  height_range=rng.choice(HEIGHTS[:2] if directed else HEIGHTS))
    c = {'id': cid, 'class': 'combo', 'x': x, 'y': y, 'var': var, 'grid': gkind, 'truth': pk}
    pks = rng.sample(PEAKS, rng.choice([2, 2, 3]))
    if pks[0] == shape and (directed or rng.random() < 0.7):
        pks = pks[1:] + pks[:1]
    bks = rng.choice([['linear', 'quadratic'], ['linear', 'quadratic'], ['quadratic', 'linear']])
    if directed:
        # wrong shape + linear background is the worst fit; the richer background or the true shape alone improve it
        bks = ['linear', 'quadratic']

    def item(kind_name, role):
        if rng.random() < 0.7:
            return {'name': kind_name}
        pre = rng.choice(['', 'pre_', 'bkg_', 'peak_', 'x'])
        if role == 'bkg':
            return {'inst': 'poly', 'degree': {'linear': 1, 'quadratic': 2}[kind_name], 'prefix': pre}
        return {'inst': kind_name, 'prefix': pre}
    c['bkg'] = {'form': 'many', 'container': rng.choice(['list', 'tuple']), 'items': [item(k, 'bkg') for k in bks]}
    c['peak'] = {'form': 'many', 'container': rng.choice(['list', 'tuple']), 'items': [item(k, 'peak') for k in pks]}
    c['est'] = sorted(p['loc'] + rng.uniform(-0.4, 0.4) * p['scale'] for p in pk)
    sig = ws * h
    width = min(max(loguniform(rng, 5, 24) * sig, 12 * h), span / n_peaks)
    if rng.random() < 0.3:
        c['windows'] = {'explicit': [[e - width / 2 * rng.uniform(0.7, 1.3), e + width / 2 * rng.uniform(0.7, 1.3)]
                                     for e in c['est']]}
    else:
        c['windows'] = {'scalar': width}
    c['fp'] = gen_fp(rng)
    c['fr'] = {'min_p': 0.0, 'maxf': rng.choice([1.0, 1.0, 1.0, 2.0]), 'minf': rng.choice([1.0, 1.0, 1.0, 0.5])}
    c['remove_synth'] = []
    c['solo'] = True
    return enc(c)


NPAR_B = {'linear': 2, 'quadratic': 3}


def gen_mixed_base(rng, cid):
    """model LISTS whose combinations have DIFFERENT parameter counts (gaussian 3 / lorentzian 3 / pseudo_voigt 4 x
    linear 2 / quadratic 3: 5..7 parameters) and windows holding between (smallest count - 2) and (largest count + 2)
    points: some combinations are too narrow for the window, the others must be fitted; the result is the first success
    in documented order, else the first combination's.  Narrow, high peaks centred in the window (so that a fit on
    6..9 points can succeed) on an exactly representable grid; scalar widths (all windows alike) or explicit windows
    (a different point count per peak).  min_p_value is 0 (only a NaN p-value fails), tiny or the default."""
    n = rng.randint(50, 110)
    h = rng.choice([1, 3, 5]) * 2.0 ** rng.randint(-6, -2)
    x0 = rng.randint(-30, 30) * h
    x = [x0 + i * h for i in range(n)]
    n_peaks = rng.choice([1, 2, 2, 3])
    shape = rng.choice(PEAKS)
    y, var, pk, meta = synth_data(rng, x, n_peaks, width_steps=rng.uniform(0.55, 1.3), bkg_deg=rng.choice([1, 2]),
                                  shapes=[shape], noise_pow=rng.choice([-6, -5, -4]), height_range=(40, 400))
    c = {'id': cid, 'class': 'mixed', 'x': x, 'y': y, 'var': var, 'grid': 'dyadic', 'truth': pk}
    full = rng.random() < 0.6      # all three counts 5, 6, 7: a window of 6 points can be fitted by the smallest only
    while True:
        pks = rng.sample(PEAKS, rng.choice([2, 2, 3] if full else [1, 2, 2, 3]))
        bks = rng.sample(['linear', 'quadratic'], 2 if full else rng.choice([1, 2, 2, 2]))
        counts = sorted({NPAR[p_] + NPAR_B[b_] for p_ in pks for b_ in bks})
        if len(counts) >= (3 if full else 2) and len(pks) * len(bks) >= 2:
            break
    kmin, kmax = counts[0], counts[-1]

    def item(kind_name, role):
        if rng.random() < 0.7:
            return {'name': kind_name}
        pre = rng.choice(['', 'pre_', 'bkg_', 'peak_', 'x'])
        if role == 'bkg':
            return {'inst': 'poly', 'degree': {'linear': 1, 'quadratic': 2}[kind_name], 'prefix': pre}
        return {'inst': kind_name, 'prefix': pre}

    def spec(kinds, role):
        if len(kinds) == 1 and rng.random() < 0.5:
            return {'form': 'one', 'items': [item(kinds[0], role)]}
        return {'form': 'many', 'container': rng.choice(['list', 'tuple']), 'items': [item(k, role) for k in kinds]}
    c['bkg'], c['peak'] = spec(bks, 'bkg'), spec(pks, 'peak')
    # grid indices of the peak centres (kept away from the ends so that no window is clipped)
    idx = [min(max(min(range(n), key=lambda i: abs(x[i] - p_['loc'])), 8), n - 9) for p_ in pk]
    idx = sorted(set(idx))

    def target():
        if kmax - kmin >= 2 and rng.random() < 0.45:
            return kmin + 1       # one spare point for the smallest combination, too few for the largest
        return rng.choice([kmin - 2, kmin - 1, kmin, kmin, kmin + 1, kmin + 1, kmax - 1, kmax, kmax, kmax + 1, kmax + 2])
    if rng.random() < 0.5:
        t = target()
        # t points around a grid point (t odd) or around the middle of a grid step (t even)
        c['est'] = [x[i] + (0.0 if t % 2 else 0.5 * h) for i in idx]
        c['windows'] = {'scalar': (t - 0.5) * h}
        c['target_points'] = [t] * len(idx)
    else:
        wl, ts = [], []
        for i in idx:
            t = target()
            a = i - t // 2
            wl.append([x[a] - 0.25 * h, x[a + t - 1] + 0.25 * h] if t > 0 else [x[i] + 0.25 * h, x[i] + 0.5 * h])
            ts.append(t)
        c['est'] = [x[i] for i in idx]
        c['windows'] = {'explicit': wl}
        c['target_points'] = ts
    c['fp'] = None if rng.random() < 0.6 else {'f': rng.choice([0.5, 0.4375, 0.625]), 's': rng.choice([1 / 3, 0.25, 0.125])}
    c['fr'] = {'min_p': rng.choice([0.0, 0.0, 0.0, 1e-6, 0.01]), 'maxf': rng.choice([1.0, 1.0, 2.0]),
               'minf': rng.choice([1.0, 0.5, 0.5, 0.0])}
    c['remove_synth'] = gen_synth_removals(rng, x, 1) if rng.random() < 0.5 else []
    c['solo'] = True
    return enc(c)


def doc_order(case):
    """documented trial order of the combinations: peak outer, background inner ("the background is varied first")"""
    return [(ip, ib) for ip in range(len(case['peak']['items'])) for ib in range(len(case['bkg']['items']))]


def transposed_order(case):
    return [(ip, ib) for ib in range(len(case['bkg']['items'])) for ip in range(len(case['peak']['items']))]


def first_in(order, ok):
    return next((k for k in order if ok[k]), order[0])


def order_profile(case, obs, min_p=None):
    """per peak: (first combination fails although a later one succeeds, first success differs between the documented
    and the background-major order), from the single-combination fits; with min_p given: as if min_p_value were
    min_p (the p-value test comes right after the AIC test in the cascade, so a fit that succeeds with min_p_value = 0
    succeeds for min_p iff p >= min_p)"""
    if obs.get('exc') is not None or not obs.get('solos') or any(s_.get('exc') for s_ in obs['solos']):
        return []
    solos = {(s_['ip'], s_['ib']): s_['results'] for s_ in obs['solos']}
    doc, tr = doc_order(case), transposed_order(case)
    out = []
    for i in range(len(obs['results'])):
        ok = {}
        for k in doc:
            r = solos[k][i]
            ok[k] = r['assessment'] == 'success' and (min_p is None or unhx(r['p']) >= min_p)
        out.append((not ok[doc[0]] and any(ok.values()), first_in(doc, ok) != first_in(tr, ok)))
    return out


def tune_combo(case, obs):
    """choose min_p_value between the p-values of the single-combination fits so that the trial ORDER decides the
    result (first combination fails, two later ones in different rows/columns succeed); the default 0.01 is kept when
    it already does"""
    case = dict(case)
    fr = dict(case['fr'])

    def score(t):
        pr = order_profile(case, obs, t)
        return 10 * sum(1 for a, b in pr if b) + sum(1 for a, b in pr if a)
    ps = set()
    if obs.get('exc') is None and obs.get('solos') and not any(s_.get('exc') for s_ in obs['solos']):
        for s_ in obs['solos']:
            for r in s_['results']:
                if r['assessment'] == 'success' and not math.isnan(unhx(r['p'])):
                    ps.add(unhx(r['p']))
    ps = sorted(ps)
    cands = [0.01] + [(a + b) / 2 for a, b in zip(ps, ps[1:]) if a < (a + b) / 2 < b]
    best = max(cands, key=lambda t: (score(t), t == 0.01))
    fr['min_p'] = hx(best)
    if best == 0.01 and unhx(fr['maxf']) == 1.0 and unhx(fr['minf']) == 1.0:
        case['fr'] = None
    else:
        case['fr'] = fr
    return case


def gen_combo_cases(ctx, rng, n, first_id, n_mixed=0):
    base = [gen_combo_base(rng, first_id + i) for i in range(n)]
    mixed = [gen_mixed_base(rng, first_id + n + i) for i in range(n_mixed)]
    if not base:
        return mixed
    res = ctx.run_impl(HARNESS, {'cases': [dict(c, remove_fitted=False) for c in base]}, timeout=1800)
    return [tune_combo(c, o) for c, o in zip(base, res['cases'])] + mixed


def enc(c):
    """binary64 -> hex strings (the payload IS the replay)"""
    c = dict(c)
    for k in ('x', 'y', 'var', 'est'):
        c[k] = [hx(v) for v in c[k]]
    if 'scalar' in c['windows']:
        c['windows'] = {'scalar': hx(c['windows']['scalar'])}
    else:
        c['windows'] = {'explicit': [[hx(a), hx(b)] for a, b in c['windows']['explicit']]}
    for k in ('fp', 'fr'):
        if c.get(k) is not None:
            c[k] = {kk: hx(v) for kk, v in c[k].items()}
    c.pop('truth', None)
    return c


def witness_cases():
    """the witnesses of the Coq refutation theorems, replayed on the implementation on every run"""
    x = [float(i) for i in range(11)]
    y = [5.0 + 0.5 * v + (4.0 if i == 5 else 1.0 if i in (4, 6) else 0.0) for i, v in enumerate(x)]
    var = [0.25] * 11
    one = lambda n: {'form': 'one', 'items': [{'name': n}]}     # noqa: E731
    base = {'x': x, 'y': y, 'var': var, 'bkg': one('linear'), 'peak': one('gaussian'), 'fp': None, 'fr': None,
            'remove_synth': []}
    w1 = dict(base, id=-1, **{'class': 'witness'}, est=[0.5], windows={'explicit': [[0.25, 0.75]]})   # narrow_window_raises_refuted
    w2 = dict(base, id=-2, **{'class': 'witness'}, est=[5.0, 100.0], windows={'scalar': 3.0})          # inverted_window_raises_refuted
    w3 = dict(base, id=-3, **{'class': 'witness'}, est=[5.0], windows={'scalar': 2.5})                 # 3 points: empty bulk
    # outside the stated range of guess_background_fraction (ASSUMPTIONS): int(len*f/2) = 0 / len/2 although the
    # window holds plenty of points -> the guesses get an empty slice (reported under its own key)
    x2 = [0.125 * i for i in range(81)]
    y2 = [3.0 + 0.25 * v + 6.0 * math.exp(-(v - 5.0) ** 2 / (2 * 0.3 ** 2)) + 0.05 * math.sin(37.0 * v) for v in x2]
    b2 = dict(base, x=x2, y=y2, var=[0.0625] * 81, **{'class': 'fraction'}, est=[5.0])
    w4 = dict(b2, id=-4, windows={'scalar': 1.75}, fp={'f': 0.0625, 's': 1 / 3})     # 15 points, n = 0
    w5 = dict(b2, id=-5, windows={'scalar': 1.875}, fp={'f': 1.0, 's': 1 / 3})       # 16 points, n = 8: empty bulk
    return [enc(w1), enc(w2), enc(w3), enc(w4), enc(w5)]


N_COMBO = 12
N_MIXED = 12
N_FORMS = 3          # other Iterable forms per remove_peaks call (quick tier; thorough: all)


def want_solo(c):
    """list specifications on both sides: every combination is also fitted on its own (at most 3 estimates, to bound
    the time)"""
    return (c['bkg']['form'] == 'many' and c['peak']['form'] == 'many' and len(c['bkg']['items']) >= 2
            and len(c['peak']['items']) >= 2 and len(c['est']) <= 3)


def assign_remove_forms(cases, rng, per_call):
    """every remove_peaks call is repeated with the results in `per_call` other Iterable forms, taken round-robin
    from a shuffled list of all forms (None: all of them)"""
    if per_call is None:
        for c in cases:
            c['remove_forms'] = 'all'
        return
    order = list(REMOVE_FORMS)
    rng.shuffle(order)
    pos = 0
    for c in cases:
        fl = []
        for _ in range(1 + len(c.get('remove_synth') or [])):
            fl.append([order[(pos + j) % len(order)] for j in range(per_call)])
            pos += per_call
        c['remove_forms'] = fl


REMOVE_FORMS = ['tuple', 'iter', 'gen', 'filter', 'map', 'dict_values', 'deque', 'chain', 'iterable_obj']


def gen_cases(rng, tier, ctx=None):
    plan = (['random'] * 46 + ['narrow'] * 22 + ['outside'] * 16 + ['zero_dof'] * 6 + ['explicit'] * 14
            + ['wide'] * 8 + ['unsorted'] * 3 + ['badspec'] * 5)
    if tier != 'quick':
        plan = plan * 8
    cases = witness_cases() + [gen_case(rng, i, k) for i, k in enumerate(plan)]
    for c in cases:
        if c['class'] in ('random', 'explicit', 'wide') and want_solo(c):
            c['solo'] = True
    if ctx is not None:
        mult = 1 if tier == 'quick' else 6
        cases += gen_combo_cases(ctx, rng, N_COMBO * mult, len(plan), N_MIXED * mult)
    assign_remove_forms(cases, random.Random(rng.random()), N_FORMS if tier == 'quick' else None)
    return cases


# --------------------------------------------------------------------------- Coq terms
def mkind_term(k):
    if k is None:
        return None
    if 'poly' in k:
        return f'(MPoly {int(k["poly"])})'
    return {'gaussian': '(MPeak Gaussian)', 'lorentzian': '(MPeak Lorentzian)',
            'pseudo_voigt': '(MPeak PseudoVoigt)'}[k['peak']]


def spec_term(sp):
    def it(i):
        if 'name' in i:
            return f'(SName {cstr(i["name"])})'
        if i['inst'] == 'poly':
            return f'(SInst (MPoly {int(i["degree"])}))'
        return f'(SInst {mkind_term({"peak": i["inst"]})})'
    if sp['form'] == 'one':
        return f'(SOne {it(sp["items"][0])})'
    return f'(SMany {clist([it(i) for i in sp["items"]])})'


def fp_term(fp):
    d = {k: unhx(v) for k, v in fp.items()} if fp else DEFAULT_FP
    return f'(mkFP {q(d["f"])} {q(d["s"])})'


def fr_term(fr):
    d = {k: unhx(v) for k, v in fr.items()} if fr else DEFAULT_FR
    return f'(mkFR {q(d["min_p"])} {q(d["maxf"])} {q(d["minf"])})'


def res_term(r):
    popt = clist([f'({cstr(k)}, {xn(v)})' for k, v in sorted(r['popt'].items())])
    return (f'(mkRes {r["assessment"]} {mkind_term(r["peak"])} {mkind_term(r.get("bkg") or {"poly": 1})} '
            f'(W {flit(r["window"][0])} {flit(r["window"][1])}) {popt} '
            f'(mkStats {xn(r.get("red", "nan"))} {xn(r.get("p", "nan"))} {xn(r.get("aic", "nan"))}) {cstr(r.get("msg", ""))})')


def trace_term(case, e):
    xs = [unhx(v) for v in case['x']]
    fm = e['fm']
    if fm is None or 'other' in fm['bkg'] or (fm['peak'] is not None and 'other' in fm['peak']):
        return None
    fmt = f'(FBkg {mkind_term(fm["bkg"])})' if fm['peak'] is None else f'(FSum {mkind_term(fm["bkg"])} {mkind_term(fm["peak"])})'
    bnds = clist([f'({cstr(k)}, ({xn(v[0])}, {xn(v[1])}))' for k, v in sorted(e['bounds'].items())])
    pairs = '[]'
    if 'popt' in e:
        out = '(FitOk ' + clist([f'({cstr(k)}, {q(v)})' for k, v in sorted(e['popt'].items())]) + ')'
        x0 = unhx(e['x0'])
        try:
            i0 = xs.index(x0)
        except ValueError:
            i0 = 0
        wx = xs[i0:i0 + e['n']]
        if len(e.get('fvals', [])) == len(wx):
            pairs = clist([f'(W {flit(a)} {flit(b)})' for a, b in zip(wx, e['fvals'])])
    elif 'err' in e:
        out = f'(FitRuntimeError {cstr(e["err"])})'
    else:
        out = f'(FitRuntimeError {cstr("NON-RUNTIME-ERROR " + e.get("err_other", ""))})'
    return f'(mkT {fmt} {int(e["n"])} {q(e["x0"])} {bnds} {out} {pairs})'


def remove_term(case, rr):
    xs = case['x']
    ys = case['y']
    data = clist([f'(W {flit(a)} {flit(b)})' for a, b in zip(xs, ys)])
    rl = []
    for r in rr['results']:
        vals = ql(r.get('peakvals', [])) if 'peakvals' in r else '[]'
        rl.append(f'(mkRR {res_term(r)} {vals})')
    if rr['exc'] is not None:
        ob = f'(RRaise {cstr(rr["exc"]["cls"])})'
    else:
        ob = f'(ROut {ql(rr["out"])})'
    after = ql(rr['input_after'])
    more = []
    for m in rr.get('more', []):
        mo = f'(RRaise {cstr(m["exc"]["cls"])})' if m['exc'] is not None else f'(ROut {ql(m["out"])})'
        # an input that is bit-identical afterwards is written by reference to the data (same list, shorter term)
        ma = 'same_after' if m['input_after'] == ys and m['input_identical'] else ql(m['input_after'])
        more.append(f'(mkRF {cstr(m["form"])} {mo} {ma})')
    if more:
        return (f'(let rc_d := {data} in let same_after := map snd rc_d in mkRC {cstr(rr["label"])} '
                f'{"true" if rr["with_var"] else "false"} rc_d {clist(rl)} {ob} {after} {clist(more)})')
    return f'(mkRC {cstr(rr["label"])} {"true" if rr["with_var"] else "false"} {data} {clist(rl)} {ob} {after} [])'


def case_term(case, obs):
    data = clist([f'(P {flit(a)} {flit(b)} {flit(v)})' for a, b, v in zip(case['x'], case['y'], case['var'])])
    est = ql(case['est'])
    if 'scalar' in case['windows']:
        wsp = f'(WScalar {q(case["windows"]["scalar"])})'
    else:
        wsp = '(WExplicit ' + clist([f'(W {flit(a)} {flit(b)})' for a, b in case['windows']['explicit']]) + ')'
    if obs.get('windows') is not None and 'scalar' in case['windows']:
        ow = '(Some ' + clist([f'(W {flit(a)} {flit(b)})' for a, b in obs['windows']]) + ')'
    else:
        ow = 'None'
    tr = [t for t in (trace_term(case, e) for e in obs['trace']) if t is not None]
    cdf = clist([f'(mkC ({int(e["dof"])})%Z {q(e["x"])} {q(e["cdf"])})' for e in obs['cdf']
                 if e['x'] not in ('nan', 'inf', '-inf') and e['cdf'] not in ('nan', 'inf', '-inf')])
    if obs['exc'] is not None:
        ob = f'(ObsRaise {cstr(obs["exc"]["cls"])})'
    else:
        ob = '(ObsResults ' + clist([res_term(r) for r in obs['results']]) + ')'
    rem = clist([remove_term(case, rr) for rr in obs.get('removes', [])])
    return (f'(mkF {data} {est} {wsp} {ow} {spec_term(case["bkg"])} {spec_term(case["peak"])} '
            f'{fp_term(case.get("fp"))} {fr_term(case.get("fr"))} {clist(tr)} {cdf} {ob} {rem} {solos_term(case, obs)})')


KIND_TERM = {'linear': '(MPoly 1)', 'quadratic': '(MPoly 2)', 'gaussian': '(MPeak Gaussian)',
             'lorentzian': '(MPeak Lorentzian)', 'pseudo_voigt': '(MPeak PseudoVoigt)'}


def solos_term(case, obs):
    """the implementation's results for every combination fitted alone (a call that raised is left out: Coq then
    reports the missing combination)"""
    if not obs.get('solos'):
        return '[]'
    pk, bk = spec_kinds(case['peak']), spec_kinds(case['bkg'])
    out = []
    for s_ in obs['solos']:
        if s_.get('exc') is not None:
            continue
        out.append(f'(mkS {KIND_TERM[pk[s_["ip"]]]} {KIND_TERM[bk[s_["ib"]]]} {clist([res_term(r) for r in s_["results"]])})')
    return clist(out)


# --------------------------------------------------------------------------- the property, evaluated in Python
def admissible(case):
    """inputs for which the property promises results (the code refuses the others with ValueError)"""
    est = [unhx(v) for v in case['est']]
    if any(est[i] > est[i + 1] for i in range(len(est) - 1)) and 'scalar' in case['windows']:
        return False, 'unsorted estimates'
    for role in ('bkg', 'peak'):
        sp = case[role]
        if not sp['items']:
            return False, 'empty model list'
        for k in spec_kinds(sp):
            ok = ['linear', 'quadratic'] if role == 'bkg' else PEAKS
            if k not in ok and not (role == 'bkg' and k.startswith('poly')):
                return False, f'unknown model {k!r}'
    if 'explicit' in case['windows'] and any(unhx(a) > unhx(b) for a, b in case['windows']['explicit']):
        return False, 'inverted explicit window'
    return True, ''


def kind_name(k):
    if 'poly' in k:
        return 'poly', int(k['poly'])
    return k['peak'], None


def model_value(r, popt, x):
    """background + peak at x from the returned parameters (reference formulas of this file)"""
    deg = r['bkg']['poly']
    v = f_poly([popt[f'bkg_a{i}'] for i in range(deg + 1)], x)
    return v + f_peak(r['peak']['peak'], x, popt['peak_amplitude'], popt['peak_loc'], popt['peak_scale'],
                      popt.get('peak_fraction', 0.5))


def property_violations(case, obs):
    """the statement of C17 evaluated directly on one observation; list of (key, text)"""
    return fit_violations(case, obs) + order_violations(case, obs)


def fit_violations(case, obs):
    bad = []
    adm, why = admissible(case)
    xs = [unhx(v) for v in case['x']]
    ys = [unhx(v) for v in case['y']]
    vs = [unhx(v) for v in case['var']]
    est = [unhx(v) for v in case['est']]
    fp = {k: unhx(v) for k, v in case['fp'].items()} if case.get('fp') else DEFAULT_FP
    fr = {k: unhx(v) for k, v in case['fr'].items()} if case.get('fr') else DEFAULT_FR
    if not obs['input_unchanged']:
        bad.append(('input-modified', 'fit_peaks modified one of its arguments'))
    if obs['exc'] is not None:
        if adm:
            cls, msg = obs['exc']['cls'], obs['exc']['msg']
            ws = obs.get('windows')
            key = f'exception:{cls}'
            detail = ''
            if ws is not None:
                wv = [(unhx(a), unhx(b)) for a, b in ws]
                counts = [sum(1 for v in xs if a <= v < b) for a, b in wv]
                inv = [i for i, (a, b) in enumerate(wv) if a > b]
                if cls == 'IndexError' and inv:
                    key = 'inverted-window:raises-IndexError'
                    detail = f'; the automatically built window of estimate {inv[0]} is inverted: {wv[inv[0]]}'
                elif cls == 'ValueError' and min(counts) < 5:
                    key = 'narrow-window:raises-ValueError'
                    detail = f'; points per window {counts} (a fit needs >= 5..7)'
                elif cls == 'ValueError' and not (0.4 <= fp['f'] < 1.0):
                    key = 'guess-fraction:empty-guess-slice'
                    detail = (f'; points per window {counts}, guess_background_fraction = {fp["f"]}: int(len*f/2) = '
                              f'{[int(c_ * fp["f"] / 2) for c_ in counts]} leaves the background or the peak guess without points')
            elif 'explicit' in case['windows'] and cls == 'ValueError':
                wv = [(unhx(a), unhx(b)) for a, b in case['windows']['explicit']]
                counts = [sum(1 for v in xs if a <= v < b) for a, b in wv]
                if min(counts) < 5:
                    key = 'narrow-window:raises-ValueError'
                    detail = f'; points per window {counts}'
            bad.append((key, f'fit_peaks raises {obs["exc"]["type"]}: {msg!r} for an admissible input instead of returning '
                             f'one result per peak estimate{detail}'))
        return bad
    if not adm:
        return bad
    res = obs['results']
    n_expected = len(est) if 'scalar' in case['windows'] else len(case['windows']['explicit'])
    if len(res) != n_expected:
        bad.append(('count', f'{len(res)} results for {n_expected} peak estimates'))
        return bad
    lo, hi = min(xs), max(xs)
    s = fp['s']
    for i, r in enumerate(res):
        w0, w1 = unhx(r['window'][0]), unhx(r['window'][1])
        pts = [j for j, v in enumerate(xs) if w0 <= v < w1]
        n = len(pts)
        k = len(r['popt'])
        a = r['assessment']
        tol = 1e-12 * (1 + abs(w0) + abs(w1) + abs(est[i]) if 'scalar' in case['windows'] else 1)
        if 'scalar' in case['windows']:
            c = est[i]
            if c >= lo and c <= hi:
                if not (lo - tol <= w0 <= w1 <= hi + tol):
                    bad.append(('window:outside-data-range', f'peak {i}: window ({w0}, {w1}) not inside the data range [{lo}, {hi}]'))
                if not (w0 - tol <= c <= w1 + tol):
                    bad.append(('window:estimate-not-contained', f'peak {i}: window ({w0}, {w1}) does not contain its estimate {c}'))
                if i > 0 and w0 < est[i - 1] + s * (c - est[i - 1]) - tol:
                    bad.append(('window:separation', f'peak {i}: left edge {w0} closer to the left neighbour than allowed'))
                if i + 1 < len(est) and w1 > est[i + 1] - s * (est[i + 1] - c) + tol:
                    bad.append(('window:separation', f'peak {i}: right edge {w1} closer to the right neighbour than allowed'))
            elif w0 > w1:
                bad.append(('window:inverted', f'peak {i}: inverted window ({w0}, {w1})'))
        else:
            ew = case['windows']['explicit'][i]
            if (unhx(ew[0]), unhx(ew[1])) != (w0, w1):
                bad.append(('window:explicit-changed', f'peak {i}: explicit window was modified'))
        if n < k and a != 'window_too_narrow':
            bad.append(('narrow-window:not-reported', f'peak {i}: {n} points < {k} parameters but assessment is {a}'))
        if n >= k and a == 'window_too_narrow':
            # the point-count guard is per (peak, background) combination: only a combination with more parameters than
            # the window has points may be reported as too narrow
            bad.append(('narrow-window:reported-with-enough-points',
                        f'peak {i}: reported as window_too_narrow for {rname(r).split("/")[1]} although the window ({w0}, {w1}) holds '
                        f'{n} points >= {k} parameters of that combination'))
        if a in ('failed', 'window_too_narrow'):
            if not all(v == 'nan' for v in r['popt'].values()) or r['aic'] != '-inf' or r['red'] != 'nan' or r['p'] != 'nan':
                bad.append(('failure-result:fields', f'peak {i}: a {a} result carries parameters/statistics'))
            continue
        popt = {kk: unhx(v) for kk, v in r['popt'].items()}
        if any(math.isnan(v) for v in popt.values()):
            bad.append(('popt:nan', f'peak {i}: {a} result with NaN parameters'))
            continue
        chi2, dchi = 0.0, 0.0
        for j in pts:
            f_ = model_value(r, popt, xs[j])
            res_ = ys[j] - f_
            # the residual is known to ~1e-12 of the magnitudes involved (reference formulas vs the implementation's
            # evaluation): a chi-square that is itself rounding noise (exact interpolation, n = k) is not compared
            de = 1e-12 * (abs(ys[j]) + abs(f_) + 1e-300)
            chi2 += res_ ** 2 / vs[j]
            dchi += (2 * abs(res_) * de + de * de) / vs[j]
        red, p, aic = unhx(r['red']), unhx(r['p']), unhx(r['aic'])
        dof = n - k
        c_lo, c_hi = max(chi2 - dchi, 0.0), chi2 + dchi
        if dof > 0:
            if not (c_lo / dof - 1e-6 * (1e-9 + abs(red)) <= red <= c_hi / dof + 1e-6 * (1e-9 + abs(red))):
                bad.append(('stats:red_chisq', f'peak {i}: red_chisq {red} but recomputed chi2/(n-k) = {chi2 / dof} (n={n}, k={k})'))
            pe = float(gammaincc(dof / 2.0, chi2 / 2.0))
            pe_hi, pe_lo = float(gammaincc(dof / 2.0, c_lo / 2.0)), float(gammaincc(dof / 2.0, c_hi / 2.0))
            if not (pe_lo - 1e-6 * (1e-3 + pe) <= p <= pe_hi + 1e-6 * (1e-3 + pe)):
                bad.append(('stats:p_value', f'peak {i}: p {p} but 1 - F_{dof}({chi2}) = {pe}'))
        if c_lo > 0 and n > 0:
            ae = n * math.log(chi2 / n) + 2 * k
            slack = 1e-6 * (1 + abs(ae)) + 1e-5 * n
            if not (n * math.log(c_lo / n) + 2 * k - slack <= aic <= n * math.log(c_hi / n) + 2 * k + slack):
                bad.append(('stats:aic', f'peak {i}: aic {aic} but n ln(chi2/n) + 2k = {ae}'))
        if a == 'success':
            wx = [xs[j] for j in pts]
            step = min(b - a_ for a_, b in zip(wx, wx[1:]))
            loc, amp, scale = popt['peak_loc'], popt['peak_amplitude'], popt['peak_scale']
            fw = (C_GAUSS_FWHM if r['peak']['peak'] == 'gaussian' else 2.0) * scale
            eps = 1e-9
            if not (p >= fr['min_p']):
                key = 'zero-dof:success-with-nan-p' if (math.isnan(p) and dof == 0) else 'success:p-value'
                bad.append((key, f'peak {i}: marked success although p = {p} does not satisfy p >= {fr["min_p"]} '
                                 f'(n = {n} points, k = {k} parameters, red_chisq = {red})'))
            if loc - wx[0] < 2 * step * (1 - eps) or wx[-1] - loc < 2 * step * (1 - eps):
                bad.append(('success:near-edge', f'peak {i}: success but peak_loc {loc} is < 2 steps ({step}) from a window edge ({wx[0]}, {wx[-1]})'))
            if amp < 0:
                bad.append(('success:amplitude', f'peak {i}: success with negative amplitude {amp}'))
            if fw > fr['maxf'] * (wx[-1] - wx[0]) * (1 + eps):
                bad.append(('success:too-wide', f'peak {i}: success but fwhm {fw} > {fr["maxf"]} * window width {wx[-1] - wx[0]}'))
            ci = min(range(len(wx)), key=lambda j: abs(wx[j] - loc))
            if 0 < ci < len(wx) - 1:
                bw = (wx[ci + 1] - wx[ci - 1]) / 2
                if fw < fr['minf'] * bw * (1 - eps):
                    bad.append(('success:too-narrow', f'peak {i}: success but fwhm {fw} < {fr["minf"]} * local bin width {bw}'))
            else:
                bad.append(('success:centre-at-edge', f'peak {i}: success with the peak centre at the first/last window point'))
    return bad


def same_result(a, b):
    def close(u, v):
        u, v = unhx(u), unhx(v)
        if math.isnan(u) or math.isnan(v) or math.isinf(u) or math.isinf(v):
            return (math.isnan(u) and math.isnan(v)) or u == v
        return abs(u - v) <= 1e-9 * (1 + abs(u) + abs(v))
    return (a['assessment'] == b['assessment'] and a['peak'] == b['peak'] and a['bkg'] == b['bkg']
            and a['window'] == b['window'] and sorted(a['popt']) == sorted(b['popt'])
            and all(close(a['popt'][k], b['popt'][k]) for k in a['popt'])
            and close(a['red'], b['red']) and close(a['p'], b['p']) and close(a['aic'], b['aic']))


def rname(r):
    return f"{r['assessment']}/{list(r['peak'].values())[0]}+poly{r['bkg'].get('poly')}"


def order_violations(case, obs):
    """model product order, first success wins -- evaluated on the implementation alone: the result for LISTS of models
    must be the first successful one, in the documented order (peak outer, background inner), among the results the
    implementation returns for every combination specified on its own with the same explicit windows"""
    if obs.get('exc') is not None or not obs.get('solos'):
        return []
    bad = []
    doc = doc_order(case)
    solos = {(s_['ip'], s_['ib']): s_ for s_ in obs['solos']}
    names = {(ip, ib): f"{spec_kinds(case['peak'])[ip]}+{spec_kinds(case['bkg'])[ib]}" for ip, ib in doc}
    for k in doc:
        s_ = solos.get(k)
        if s_ is None or s_.get('exc') is not None or len(s_['results']) != len(obs['results']):
            what = 'was not fitted' if s_ is None else (f"raises {s_['exc']['type']}: {s_['exc']['msg']}" if s_.get('exc')
                                                        else f"returns {len(s_['results'])} results")
            bad.append(('order:single-combination-call', f'the list specification returns {len(obs["results"])} results but '
                                                         f'{names[k]} alone, on the same explicit windows, {what}'))
            return bad
    xs = [unhx(v) for v in case['x']]
    for i, r in enumerate(obs['results']):
        rs = [solos[k]['results'][i] for k in doc]
        table = ', '.join(f'{names[k]}: {x["assessment"]}' for k, x in zip(doc, rs))
        # the point-count guard of every single combination: too narrow exactly when points < its own parameter count
        w0, w1 = unhx(r['window'][0]), unhx(r['window'][1])
        npts = sum(1 for v in xs if w0 <= v < w1)
        for k, x in zip(doc, rs):
            if (x['assessment'] == 'window_too_narrow') != (npts < len(x['popt'])):
                bad.append(('narrow-window:single-combination-guard',
                            f'peak {i}: {names[k]} alone on the window ({w0}, {w1}) with {npts} points and '
                            f'{len(x["popt"])} parameters is assessed {x["assessment"]}'))
        succ = [x for x in rs if x['assessment'] == 'success']
        if succ:
            if not same_result(succ[0], r):
                bad.append(('order:first-success-not-returned',
                            f'peak {i}: the combinations fitted one by one (same window) give [{table}]; the first success in '
                            f'the documented order (background varied first) is {rname(succ[0])} but the list specification '
                            f'returns {rname(r)}' + ('' if rname(succ[0]) != rname(r) else ' with other parameters/statistics')))
        elif r['assessment'] == 'success':
            bad.append(('order:success-without-successful-combination',
                        f'peak {i}: no combination succeeds on its own [{table}] but the list specification returns {rname(r)}'))
        elif not any(same_result(x, r) for x in rs):
            bad.append(('order:result-of-no-combination',
                        f'peak {i}: the list specification returns {rname(r)}, which is the result of none of the combinations '
                        f'fitted on their own [{table}]'))
    return bad


def remove_violations(case, rr):
    """the removal clause of C17 on one remove_peaks call, for the list of results and for every other Iterable form the
    same results were handed over in (the statement quantifies over the fit results, not over their container)"""
    bad = remove_violations_one(case, rr, rr, rr['label'])
    for m in rr.get('more', []):
        label = f'{rr["label"]}, results passed as {FORM_TEXT.get(m["form"], m["form"])}'
        b = remove_violations_one(case, rr, m, label)
        bad += [(f'{k_}:{m["form"]}', t) for k_, t in b]
        if not b and rr['exc'] is None and m['exc'] is None and not rr['with_var'] and m['out'] != rr['out']:
            j = next(i for i, (u, v) in enumerate(zip(m['out'], rr['out'])) if u != v)
            bad.append((f'remove:iterable-form-changes-result:{m["form"]}',
                        f'remove_peaks ({label}) differs from the call with the same results in a list at point {j} '
                        f'(x={unhx(case["x"][j])}): {unhx(m["out"][j])} vs {unhx(rr["out"][j])}'))
    return bad


FORM_TEXT = {'tuple': 'a tuple', 'iter': 'iter(list)', 'gen': 'a generator expression', 'filter': 'filter(f, list)',
             'map': 'map(f, list)', 'dict_values': "a dict's values() view", 'deque': 'a collections.deque',
             'chain': 'itertools.chain(list[:k], list[k:])', 'iterable_obj': 'an object with only __iter__'}


def remove_violations_one(case, rr, ob, label):
    """rr: the call record (results, with_var); ob: one observation of it (exc / out / input_after / input_identical)"""
    bad = []
    xs = [unhx(v) for v in case['x']]
    ys = [unhx(v) for v in case['y']]
    if [unhx(v) for v in ob['input_after']] != ys or not ob['input_identical']:
        bad.append(('remove:input-modified', f'remove_peaks ({label}) modified its input'))
    if rr['with_var']:
        if ob['exc'] is None or ob['exc']['cls'] != 'VariancesError':
            bad.append(('remove:variances', f'remove_peaks ({label}) accepted data with variances'))
        return bad
    inv = any(unhx(r['window'][0]) > unhx(r['window'][1]) for r in rr['results'] if r['assessment'] == 'success')
    if ob['exc'] is not None:
        if not inv:
            bad.append(('remove:exception', f'remove_peaks ({label}) raises {ob["exc"]["type"]}: {ob["exc"]["msg"]}'))
        return bad
    out = [unhx(v) for v in ob['out']]
    if len(out) != len(xs):
        bad.append(('remove:length', f'remove_peaks ({label}) returns {len(out)} points for {len(xs)}'))
        return bad
    for j, xv in enumerate(xs):
        sub, mag = 0.0, abs(ys[j])
        touched = False
        for r in rr['results']:
            if r['assessment'] != 'success':
                continue
            if unhx(r['window'][0]) <= xv < unhx(r['window'][1]):
                touched = True
                popt = {k: unhx(v) for k, v in r['popt'].items()}
                pv = f_peak(r['peak']['peak'], xv, popt['peak_amplitude'], popt['peak_loc'], popt['peak_scale'],
                            popt.get('peak_fraction', 0.5))
                sub += pv
                mag += abs(pv)
        if not touched:
            if out[j] != ys[j] or math.copysign(1, out[j]) != math.copysign(1, ys[j]):
                bad.append(('remove:outside-window-changed', f'remove_peaks ({label}) changed point {j} (x={xv}) outside every successful window: {ys[j]} -> {out[j]}'))
                break
        elif not abs(out[j] - (ys[j] - sub)) <= 1e-9 * mag:
            bad.append(('remove:inside-window-value', f'remove_peaks ({label}) point {j} (x={xv}): {out[j]} but input - fitted peaks = {ys[j] - sub}'))
            break
    return bad


# --------------------------------------------------------------------------- correspondence
def describe(case, obs=None):
    d = {'id': case['id'], 'class': case['class'], 'n_points': len(case['x']),
         'x_range': [unhx(case['x'][0]), unhx(case['x'][-1])],
         'estimates': [unhx(v) for v in case['est']],
         'windows': ({'scalar': unhx(case['windows']['scalar'])} if 'scalar' in case['windows']
                     else {'explicit': [[unhx(a), unhx(b)] for a, b in case['windows']['explicit'][:6]]}),
         'background': spec_kinds(case['bkg']), 'background_form': case['bkg']['form'],
         'peak': spec_kinds(case['peak']), 'peak_form': case['peak']['form'],
         'fit_parameters': {k: unhx(v) for k, v in case['fp'].items()} if case.get('fp') else 'default',
         'fit_requirements': {k: unhx(v) for k, v in case['fr'].items()} if case.get('fr') else 'default'}
    if obs is not None:
        if obs['exc'] is not None:
            d['impl'] = f'raises {obs["exc"]["type"]}: {obs["exc"]["msg"]}'
        else:
            d['impl'] = [{'window': [unhx(r['window'][0]), unhx(r['window'][1])], 'assessment': r['assessment'],
                          'models': (list(r['peak'].values())[0], r['bkg'].get('poly')),
                          'red_chisq': unhx(r['red']), 'p': unhx(r['p']), 'aic': unhx(r['aic'])}
                         for r in obs['results'][:6]]
        if obs.get('windows') is not None:
            d['impl_windows'] = [[unhx(a), unhx(b)] for a, b in obs['windows'][:6]]
    return d


HEADER = ('From Coq Require Import QArith ZArith String List Floats.\n'
          'From Verif.C17 Require Import Model.\nFrom Run Require Import Corr.\n'
          'Import ListNotations.\nOpen Scope string_scope.\n')

VAR_KEYS = [('guard_first=0', 'narrow-window:raises-ValueError'),
            ('clip_last=0', 'inverted-window:raises-IndexError'),
            ('nan_p_fails=0', 'zero-dof:success-with-nan-p')]
VAR_TEXT = {
    'narrow-window:raises-ValueError': 'the initial guesses run before the point-count guard (Model variant guard_first=false, '
                                       'theorem narrow_window_raises_refuted)',
    'inverted-window:raises-IndexError': 'windows are clipped to the data range before the neighbour separation, so the window of an '
                                         'estimate beyond the data can end up inverted (Model variant clip_last=false, theorem '
                                         'windows_inverted_refuted)',
    'zero-dof:success-with-nan-p': 'a fit with as many parameters as points has p = NaN and `NaN < min_p` is false (Model variant '
                                   'nan_p_fails=false, theorem success_nan_p_refuted)',
}


def correspondence(ctx):
    rng = random.Random(ctx.seed)
    cases = gen_cases(rng, ctx.tier, ctx)
    res = ctx.run_impl(HARNESS, {'cases': cases}, timeout=3000)
    obs = res['cases']
    terms = [case_term(c, o) for c, o in zip(cases, obs)]
    fails, errors = ctx.coq_eval_shards(HEADER, terms, lambda k: 'Eval vm_compute in (report (map check cases)).\n',
                                        shard=5 if ctx.tier == 'quick' else 8, timeout=1200)
    for name, e in errors:
        ctx.violation('corr-shard-error', f'correspondence shard {name} did not evaluate: {e[:300]}',
                      {'shard': name, 'error': e}, found_input=False)
    variants_seen = {}
    for i, why in sorted(fails.items()):
        c, o = cases[i], obs[i]
        if 'ORDER ' in why:
            # Coq: the list-specification result is not ModelOrder.first_success of the single-combination results
            ov = order_violations(c, o)
            reason = 'ORDER ' + why.split('ORDER ', 1)[1].split(' & REMOVE')[0]
            key = ov[0][0] if ov else 'order:first-candidate-not-kept'
            text = ov[0][1] if ov else ('no combination succeeds and the list specification does not return the result of the '
                                        'FIRST combination (as the model of _fit_peak does)')
            ctx.violation(key, f'{text} -- Coq: {reason[:400]}; input: {describe(c, o)}', {'case': c, 'key': key, 'reason': why})
            if why.startswith('ORDER '):
                if ' & REMOVE' in why:
                    ctx.violation('corr:remove', f'remove_peaks differs from the model ({why}) on {describe(c, o)}',
                                  {'case': c, 'reason': why})
                continue
        if why.startswith('VAR '):
            # the implementation behaves exactly like the model of the tree WITH one of the known defects:
            # the property statement decides whether that is a violation (it is) and names the input
            pv = property_violations(c, o)
            flags = why[4:].split(' & ')[0]
            variants_seen[flags] = variants_seen.get(flags, 0) + 1
            hit = False
            for flag, key in VAR_KEYS:
                if flag in flags:
                    texts = [t for k_, t in pv if k_ == key]
                    if texts:
                        hit = True
                        ctx.violation(key, f'{texts[0]} -- {VAR_TEXT[key]}; input: {describe(c, o)}',
                                      {'case': c, 'key': key, 'reason': why})
            if not hit:
                for k_, t in pv[:1]:
                    ctx.violation(k_, f'{t}; input: {describe(c, o)}', {'case': c, 'key': k_, 'reason': why})
                # (no property clause is broken by this input: it only shows which variant the source is)
            if ' & REMOVE' in why:
                ctx.violation('corr:remove', f'remove_peaks differs from the model ({why}) on {describe(c, o)}',
                              {'case': c, 'reason': why})
            continue
        word = why.split(' ')[0]
        m = why.split('{')[1].split('}')[0] if '{' in why else why
        key = 'corr:' + (word if word != 'MISMATCH' else 'fit:' + ' '.join(m.split(' ')[1:2] if m.startswith('peak') else m.split(' ')[:1]))
        ctx.violation(key, f'implementation differs from the model: {why}; input: {describe(c, o)}',
                      {'case': c, 'reason': why})
    # the property statement itself, as a second net (same keys as above for the same input classes)
    n_pv = 0
    for c, o in zip(cases, obs):
        for k_, t in property_violations(c, o):
            n_pv += 1
            ctx.violation(k_, f'{t}; input: {describe(c, o)}', {'case': c, 'key': k_})
        for rr in o.get('removes', []):
            for k_, t in remove_violations(c, rr):
                n_pv += 1
                ctx.violation(k_, f'{t}; input: {describe(c, o)}', {'case': c, 'key': k_})
    # coverage
    per_assess, n_peaks, n_opt, n_exc, n_rem = {}, 0, 0, 0, 0
    distinct = set()
    classes = {}
    for c, o in zip(cases, obs):
        classes[c['class']] = classes.get(c['class'], 0) + 1
        n_rem += len(o.get('removes', []))
        if o['exc'] is not None:
            n_exc += 1
            continue
        for r in o['results']:
            n_peaks += 1
            per_assess[r['assessment']] = per_assess.get(r['assessment'], 0) + 1
            if r['assessment'] not in ('window_too_narrow',):
                n_opt += 1
                distinct.add((c['id'], tuple(r['window']), json.dumps(r['popt'], sort_keys=True)))
    n_solo_cases = n_solo_calls = n_first_fails = n_order_decides = n_list_peaks = 0
    order_samples = []
    for c, o in zip(cases, obs):
        if o.get('solos'):
            n_solo_cases += 1
            n_solo_calls += len(o['solos'])
            pr = order_profile(c, o)
            n_list_peaks += len(pr)
            n_first_fails += sum(1 for a, b in pr if a)
            n_order_decides += sum(1 for a, b in pr if b)
            if any(b for a, b in pr) and len(order_samples) < 2:
                doc = doc_order(c)
                solos = {(s_['ip'], s_['ib']): s_ for s_ in o['solos']}
                order_samples.append(dict(describe(c, o), single_fits=[
                    {f"{spec_kinds(c['peak'])[ip]}+{spec_kinds(c['bkg'])[ib]}": solos[(ip, ib)]['results'][i]['assessment']
                     for ip, ib in doc} for i in range(len(o['results']))]))
    # model lists with different parameter counts: points per window relative to the smallest / largest count
    mixed = {'cases': 0, 'peaks': 0, 'points_below_smallest_count': 0, 'points_between_smallest_and_largest_count': 0,
             'points_at_or_above_largest_count': 0, 'between_and_list_result_not_too_narrow': 0,
             'between_and_list_result_is_success': 0, 'success_after_a_too_narrow_combination': 0,
             'points_per_window': {}, 'parameter_count_sets': {}}
    for c, o in zip(cases, obs):
        if c['class'] != 'mixed' or o.get('exc') is not None or not o.get('results'):
            continue
        pk_, bk_ = spec_kinds(c['peak']), spec_kinds(c['bkg'])
        ks = sorted({NPAR[p_] + NPAR_B[b_] for p_ in pk_ for b_ in bk_})
        mixed['cases'] += 1
        mixed['parameter_count_sets'][str(ks)] = mixed['parameter_count_sets'].get(str(ks), 0) + 1
        xs_ = [unhx(v) for v in c['x']]
        for r in o['results']:
            w0, w1 = unhx(r['window'][0]), unhx(r['window'][1])
            npts = sum(1 for v in xs_ if w0 <= v < w1)
            mixed['peaks'] += 1
            mixed['points_per_window'][str(npts)] = mixed['points_per_window'].get(str(npts), 0) + 1
            if npts < ks[0]:
                mixed['points_below_smallest_count'] += 1
            elif npts < ks[-1]:
                mixed['points_between_smallest_and_largest_count'] += 1
                if r['assessment'] != 'window_too_narrow':
                    mixed['between_and_list_result_not_too_narrow'] += 1
                if r['assessment'] == 'success':
                    mixed['between_and_list_result_is_success'] += 1
                    order_ = [NPAR[p_] + NPAR_B[b_] for p_ in pk_ for b_ in bk_]
                    pos_ = order_.index(len(r['popt'])) if len(r['popt']) in order_ else 0
                    chosen = next((j for j, (p_, b_) in enumerate((p_, b_) for p_ in pk_ for b_ in bk_)
                                   if {'peak': p_} == r['peak'] and NPAR_B[b_] - 1 == r['bkg'].get('poly')), pos_)
                    if any(k_ > npts for k_ in order_[:chosen]):
                        mixed['success_after_a_too_narrow_combination'] += 1
            else:
                mixed['points_at_or_above_largest_count'] += 1
    forms_seen = {}
    for o in obs:
        for rr in o.get('removes', []):
            for m in rr.get('more', []):
                d_ = forms_seen.setdefault(m['form'], {'calls': 0, 'with_a_successful_result': 0})
                d_['calls'] += 1
                d_['with_a_successful_result'] += any(r['assessment'] == 'success' for r in rr['results'])
    ctx.coverage.update({
        'model_lists_with_different_parameter_counts': mixed,
        'mixed_rule': 'class mixed: peak/background lists whose combinations need 5..7 parameters (gaussian 3, lorentzian 3, '
                      'pseudo_voigt 4 x linear 2, quadratic 3; any order, names/instances, list/tuple/single) with scalar or '
                      'explicit windows of (smallest count - 2) .. (largest count + 2) points; list call compared in Coq with '
                      'the model (per-combination point-count guard) and with first_success over the single-combination fits',
        'remove_peaks_iterable_forms': forms_seen,
        'remove_forms_rule': 'every remove_peaks call is repeated (fresh data, fresh iterable) with the same results as tuple / '
                             'iter(list) / generator / filter / map / dict values view / deque / itertools.chain / object '
                             f'with only __iter__ ({N_FORMS} forms per call round-robin in the quick tier, all in the thorough '
                             'tier and in search); Coq compares each output with the model of the result SEQUENCE',
        'model_list_cases_with_single_fits': n_solo_cases, 'single_combination_calls': n_solo_calls,
        'list_spec_peaks_compared_with_first_success': n_list_peaks,
        'peaks_where_first_combination_fails_and_a_later_one_succeeds': n_first_fails,
        'peaks_where_trial_order_decides_the_result': n_order_decides,
        'order_rule': 'for list x list model specifications (2x2, 2x3, 3x2, names/instances/list/tuple) every combination is '
                      'also fitted alone through fit_peaks with a single-model specification and the windows of the list call '
                      'given explicitly; Coq evaluates ModelOrder.first_success over Model.candidates (documented order) on these '
                      'results and compares with the list-call result.  Class combo: true shape/background usually not first in '
                      'the lists, min_p_value chosen between the p-values of the single fits so that the trial order decides',
        'order_samples': order_samples,
        'evaluations': len(cases) + n_rem + n_solo_calls,
        'distinct_nontrivial': len(distinct),
        'rule': 'one evaluation = one fit_peaks call (1..8 estimates) or one remove_peaks call compared in full inside Coq '
                '(exception class, or per peak: window, chosen models, assessment, popt, red_chisq, p, aic, message; '
                'removal: every point); non-trivial = a per-peak result that reached the optimiser, distinct by '
                '(data set, window, popt).  Inputs: 40-150 points on dyadic / linspace / slowly stretched grids, 1-6 peaks '
                '(gaussian/lorentzian/pseudo_voigt, widths 0.3-30 steps) on linear/quadratic background, dyadic variances, '
                'scalar widths from 0.3 steps to twice the range, explicit windows (incl. empty), estimates at the edges and '
                'outside, every spec form (name / instance with foreign prefix / list / tuple), default and custom '
                'FitParameters/FitRequirements, unsorted estimates and bad specs (refusals); class combo: list x list model '
                'specifications with min_p_value tuned so that the first combination fails and the trial order decides; '
                'class mixed: model lists with different parameter counts on windows of 3..9 points; remove_peaks with '
                'the results in every Iterable form',
        'data_sets': len(cases), 'fit_calls_raising': n_exc, 'peaks_fitted': n_peaks, 'reached_optimiser': n_opt,
        'remove_calls': n_rem, 'per_assessment': per_assess, 'per_class': classes,
        'curve_fit_calls_replayed': sum(len(o['trace']) for o in obs),
        'disagreements': len(fails), 'model_variants_matched': variants_seen or {'guard_first=1,clip_last=1,nan_p_fails=1': len(cases)},
        'property_statement_hits': n_pv,
        'samples': [describe(c, o) for c, o in list(zip(cases, obs))[:2] + list(zip(cases, obs))[-1:]],
        'versions': res.get('versions'),
    })


def search(ctx, broken):
    """an obligation broke (the static proofs or the run files no longer check, or new/changed statements of the
    anchored files were not executed): evaluate the property statement itself on the implementation over a fresh,
    adversarial set of inputs -- every input class of the correspondence, every remove_peaks call with the results in
    ALL Iterable forms; more model-list cases when the broken obligation names the fitting code, more removal sets when
    it names remove_peaks"""
    rng = random.Random(ctx.seed + 17)
    names = ' '.join(str(b) for b in (broken or []))
    in_remove = '_remove_peaks' in names or 'remove' in names.lower()
    in_fit = '_fit_peaks' in names or not in_remove
    plan = ['narrow'] * 12 + ['outside'] * 12 + ['zero_dof'] * 4 + ['random'] * 16 + ['explicit'] * 6
    if in_remove:
        plan += ['random'] * 8 + ['explicit'] * 6 + ['wide'] * 4
    cases = [gen_case(rng, i, k) for i, k in enumerate(plan)]
    if in_remove:
        for c in cases:
            if c['class'] in ('random', 'explicit', 'wide'):
                c['remove_synth'] = c['remove_synth'] + gen_synth_removals(rng, [unhx(v) for v in c['x']], 2)
    for c in cases:
        if want_solo(c):
            c['solo'] = True
    # model lists whose trial order decides the result (first combination fails, later ones succeed) and model lists with
    # different parameter counts on windows of a few points
    cases += gen_combo_cases(ctx, rng, 16 if in_fit else 6, len(cases), 24 if in_fit else 6)
    assign_remove_forms(cases, rng, None)
    res = ctx.run_impl(HARNESS, {'cases': cases}, timeout=1800)
    found = []
    for c, o in zip(cases, res['cases']):
        pv = property_violations(c, o)
        for rr in o.get('removes', []):
            pv += remove_violations(c, rr)
        for k_, t in pv:
            ctx.violation(k_, f'{t}; input: {describe(c, o)}', {'case': c, 'key': k_})
            found.append(k_)
    return found


def replay(ctx, obj):
    case = obj['replay']['case']
    print('input:', json.dumps(describe(case), indent=1))
    res = ctx.run_impl(HARNESS, {'cases': [case]})
    o = res['cases'][0]
    print('observed:', json.dumps(describe(case, o).get('impl'), indent=1, default=str))
    pv = property_violations(case, o)
    for rr in o.get('removes', []):
        pv += remove_violations(case, rr)
    print('required: one result per estimate and no exception; too-narrow windows reported as window_too_narrow; '
          'statistics recomputable from popt and the window; success => every requirement; windows inside the data '
          'range around their estimate; remove_peaks touches only successful windows -- whatever Iterable form carries the '
          'results; for lists of models the result is the first success, in the documented order (background varied first), '
          'among the combinations fitted one by one; window_too_narrow only for a combination with more parameters than points')
    for k_, t in pv:
        print(f'VIOLATED [{k_}]: {t}')
    if not pv:
        print('no violation of the property statement on this input (anymore)')
    return 1 if pv else 0


LEVEL_TEXT = ('Proof: for every behaviour of the optimiser/guess/CDF oracles (including RuntimeError), the executable model of '
              'fit_peaks returns exactly one result per estimate in order, each a function of the data in its window only; '
              'too-narrow windows give window_too_narrow without exception; reported red_chisq, p and AIC are chi2/(n-k), '
              '1-F_{n-k}(chi2), n ln(chi2/n)+2k over exactly the window points; success implies every requirement of _assess_fit; '
              'automatic windows lie in the data range, contain their estimate and keep the neighbour separation; for lists of models '
              'the result is the first success in the documented product order among the single-combination fits, and '
              'window_too_narrow is reported only for a combination with more parameters than the window has points; remove_peaks '
              'subtracts exactly the fitted peaks inside successful windows and nothing else, as a function of the sequence of '
              'results only.  The model is tied to the source by '
              'running it inside Coq on ~120 data sets per run with the oracle answers recorded from the real implementation.')
LEVEL_NOTE = ('Trusted: Coq kernel; the hand model coq/C17/Model.v (tie B: validated by the correspondence, not regenerated); modelled '
              'scipp slicing / Python slice rules; harness serialisation.  Theorems over exact rationals (axiom-free); binary64 rounding '
              'is covered by tolerances in the correspondence.  Three defects of the tree as found are refuted with witnesses and '
              'repaired by notes/fixes/C17_*.patch; the full theorems are proved for the repaired order.')
TECHNIQUE = 'Coq proofs about an executable model with oracle Section variables + vm_compute correspondence against the implementation'
