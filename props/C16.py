"""C16 — peak and background models satisfy their analytic definitions."""
import math
import os
import random
from fractions import Fraction

import kcorr

ID = 'C16'
LEVEL = 'proof'
TRANSLATE = {
    'fstrings': True,
    'sigs': {
        'sc.scalar': ['sc_scalar_v', ['value'], [['variance', None], ['unit', None], ['dtype', None]]],
        'sc.exp': ['sc_exp_out', ['x'], [['out', None]]],
        'sc.reciprocal': ['sc_reciprocal_out', ['x'], [['out', None]]],
        'sc.full': ['sc_full', [], [['value', '!'], ['unit', None], ['sizes', None]]],
        'dict': ['py_dict', ['x'], []],
    },
    'methods': {'items': ['m_items', [], []]},
    'modules': [
        {'py': 'src/scippneutron/peaks/model.py', 'coq': 'GenModel',
         'requires': ['Verif.C16.SemExt'], 'section': ['Context {X : Xops O}.'],
         'functions': ['_gaussian', '_lorentzian', 'GaussianModel._call', 'GaussianModel.fwhm',
                       'LorentzianModel._call', 'LorentzianModel.fwhm', 'PseudoVoigtModel._call',
                       'PseudoVoigtModel.fwhm', 'PolynomialModel._call']},
    ]}
RUN_FILES = ['Leaf.v', 'Tie.v', 'Properties.v', 'Corr.v']
COQ_TIMEOUT = 600
TRUSTED = [
    'tools/py2coq.py (syntactic translator, fail-closed; C16 uses its **kwargs, dict.pop, f-string and for-range forms)',
    'coq/Sem/Val.v + coq/C16/SemExt.v: model of scipp element semantics and of the Python primitives used '
    '(max, math.sqrt/log, dict/pop/**, f-strings, range loop, sc.full, sc.scalar, exp/reciprocal with out=)',
    'coq/C16/Model.v: hand model of Model.__call__/with_prefix/CompositeModel/PolynomialModel.__init__ '
    '(parameter-name sets, prefix stripping, sum of parts), tied by correspondence',
    'scipp broadcasting is pointwise; in-place ops (*=, /=, out=) are modelled by their value',
    'coq/Sem/QInst.v + SemExt.qln/qexp2 + CorrCore.qexp3: rational approximations of exp/sqrt/ln (correspondence only); '
    'qexp3 returns 0 for arguments below -1000 (true value < 1e-434, ExpCut.exp_cut; float64 exp is 0 below -745.2), '
    'covered by the absolute floor 1e-300 of the comparison',
    'coq/C16/CorrCore.v (comparison cmp16 / run16 of the correspondence), coq/C16/RefLeaf.v + RefCorr.v: reference translation '
    'of the pinned model.py, used by the correspondence ONLY when the current source no longer translates or compiles',
    'an x array is modelled element by element: one Coq case per element, whatever the layout (0-d, 1-d in any order, 2-d, '
    'transposed view); the harness checks that the result has the dims and shape of x',
    'tools/harness/c16_impl.py + lib/kcorr.py (exact serialisation of operands/results)',
    'coq-interval (tactics interval/integral, bigint floats) for sqrt(2 ln 2) <= 1.18, exp(-72)/6 and '
    '|int_{-12}^{12} exp(-x^2/2) - sqrt(2 pi)| <= 1e-9; Coquelicot Riemann integral',
]
ASSUMPTIONS = [
    'theorems are over exact reals; rounding is covered by the correspondence tolerance (1e-12 relative + '
    '1e-12 of the sum of the absolute values of the parts for polynomials/composites)',
    'numeric scale >= 1e-15 (2e-15 for the pseudo-Voigt): the clamp max(scale, 1e-15) of the source is inactive',
    'x, loc and scale are given in one unit; parameters are float64 scalars without variances; x is any numeric dtype',
    'dimensions of x in {length, time, energy, dimensionless}, of y in {counts, dimensionless} in the theorems '
    '(unit multipliers arbitrary); the correspondence also uses other dimensions',
    'Gaussian / pseudo-Voigt normalisation is partial: proved on every symmetric range >= 12 sigma within 2e-9 |A| '
    '(the improper integral of exp(-x^2/2) over R is not available in the installed libraries)',
]
LEVEL_TEXT = ('Proof: for all amplitudes, locations, scales >= 1e-15, fractions, prefixes and unit multipliers, the '
              'Gaussian/Lorentzian/pseudo-Voigt/polynomial (degree 1..6) code regenerated from model.py on this run denotes '
              'the documented closed forms in unit(A)/unit(x); symmetry, half maximum at loc +- fwhm/2 with the translated '
              'fwhm methods (pseudo-Voigt: every fraction), Lorentzian integral exactly (atan form + limit A), Gaussian and '
              'pseudo-Voigt integrals within 2e-9|A| on >= 12 sigma; prefix stripping, refusal of wrong parameter sets and '
              'composite = sum of parts on a hand model of the object layer validated against the implementation '
              '(~830 element cases, quick tier; x as 0-d / ascending / descending / shuffled 1-d / 2-d / transposed arrays '
              'reaching 1e3 widths into both tails; float32 / int64 x with scales at both ends of the range; unknown names '
              'one edit away from a valid one) inside Coq over exact rationals.')
LEVEL_NOTE = ('Trusted: Coq kernel; std-lib real-number axioms (sig_forall_dec, sig_not_dec, functional_extensionality_dep, classic); '
              'Coquelicot, coq-interval; py2coq translator; Sem/Val.v + C16/SemExt.v model of scipp/Python primitives; '
              'C16/Model.v object layer (correspondence); rounding handled by tolerance, not by theorem.')
TECHNIQUE = ('Coq proof on regenerated terms (staged evaluation + field over R, Coquelicot integrals, coq-interval constant) '
             '+ vm_compute correspondence against the implementation')

XUNITS = ['m', 'mm', 'angstrom', 'us', 's', 'meV', 'dimensionless']
YUNITS = ['counts', 'dimensionless', 'K']
ALT = {'m': 'mm', 'mm': 'm', 'angstrom': 'nm', 'us': 'ms', 's': 'us', 'meV': 'eV'}
PREFIXES = ['', '', 'p_', 'peak1_', 'g', 'a', 'bkg.', 'L ', 'x-y_', '_', 'amplitude', '0', 'Aa_Zz9', 'a"b', 'loc']
# prefixes that occur inside bare parameter names (amplitude, loc, scale, fraction, a0..a6): a with_prefix that
# renames by string replacement instead of prefix + bare name goes wrong exactly on these
NASTY = ['p', 'a', 'l', 'sc', 'e', 'loc', 'amp', 'frac', '0', '1', 'a1', 'scale']
ZS = [0.0, 0.5, -0.5, 1.0, -1.0, 2.5, -2.5, 6.0, -6.0, 12.0, -12.0, 30.0, -30.0, 0.1, -1.7, 3.3]
TOL = '(1 # 1000000000000)'
# x arrays reaching from the peak into the far tails (in widths; the leaf scales are 0.1..10 widths, so
# |x - loc| / scale goes up to 1e4): two points near the peak, one on the flank, three in the far tails
Z_NEAR = [0.0, 0.5, -0.5, 1.0, -1.0, 2.5, -2.5, 0.1, -1.7, 3.3]
Z_MID = [6.0, -6.0, 12.0, -12.0, 30.0, -30.0]
Z_FAR = [41.0, 60.0, 300.0, 1000.0]
# layouts of the x array: the order of a 1-d array (ascending / descending / unordered), 2-d (row-major and
# as a transposed, non-contiguous view), 0-d
WIDE_LAYOUTS = ['asc', 'desc', 'shuf', '2d', '2dT']


def wide_zs(rng):
    far = [-rng.choice(Z_FAR), rng.choice(Z_FAR), sgn(rng) * rng.choice(Z_FAR)]
    return rng.sample(Z_NEAR, 2) + [rng.choice(Z_MID)] + far


def layout_x(xs, unit, dtype, layout, rng):
    """the values xs as an x variable in the given layout -> (VAR spec, idx) with idx[i] = index in xs of
    the element at (row-major) position i of the variable"""
    n = len(xs)
    idx = list(range(n))
    if layout in ('asc', 'desc'):
        idx.sort(key=lambda i: xs[i], reverse=(layout == 'desc'))
    elif layout in ('shuf', '2d', '2dT'):
        rng.shuffle(idx)
    v = var([xs[i] for i in idx], unit, dtype, 'x')
    if layout == '0d':
        v = var(xs[:1], unit, dtype, None)
        idx = [0]
    elif layout in ('2d', '2dT'):
        rows = 2 if n % 2 == 0 else (3 if n % 3 == 0 else 1)
        v = dict(v, dim=None, dims=['r', 'c'], shape=[rows, n // rows], transposed=(layout == '2dT'))
    return v, idx


def hexf(x):
    return float(x).hex()


def var(vals, unit, dtype='float64', dim=None):
    return {'values': [hexf(v) if dtype.startswith('float') else int(v) for v in vals], 'unit': unit,
            'dtype': dtype, 'dim': dim}


def sgn(rng):
    return rng.choice([1.0, -1.0])


def route(rng, m, prefix=None, nasty=False):
    """how the object gets its final prefix: by the constructor, by one with_prefix, or by a chain of 2-3
    re-prefixings starting from a constructor prefix that is a substring of a parameter name"""
    pool = NASTY + PREFIXES
    how = 'chain' if nasty else rng.choice(['ctor', 'ctor', 'with_prefix', 'chain', 'chain'])
    if how == 'ctor' and m.get('via') != 'add':
        m['prefix'] = rng.choice(pool) if prefix is None else prefix
        m['ctor'], m['chain'] = m['prefix'], []
    elif how == 'with_prefix' or (how == 'ctor'):
        m['prefix'] = rng.choice(pool) if prefix is None else prefix
        m['ctor'], m['chain'] = '', [m['prefix']]
    else:
        m['ctor'] = '' if m.get('via') == 'add' else rng.choice(NASTY)
        chain = [rng.choice(pool) for _ in range(rng.randint(1, 2))]
        if prefix is not None:
            chain.append(prefix)
        if rng.random() < 0.3:
            chain.insert(0, rng.choice(NASTY))
        m['chain'] = chain
        m['prefix'] = chain[-1]
    return m


def gen_leaf(rng, kind=None, prefix=None, nasty=False):
    kind = kind or rng.choice(['gauss', 'lorentz', 'pvoigt', 'poly'])
    m = {'kind': kind}
    if kind == 'poly':
        m['degree'] = rng.randint(1, 6)
    return route(rng, m, prefix, nasty)


def gen_comp(rng, left, right, prefix=None, nasty=False):
    return route(rng, {'kind': 'comp', 'via': rng.choice(['ctor', 'add']), 'left': left, 'right': right}, prefix, nasty)


def gen_model(rng, depth):
    if depth == 0 or rng.random() < 0.4:
        return gen_leaf(rng)
    return gen_comp(rng, gen_model(rng, depth - 1), gen_model(rng, depth - 1))


def base_names(m):
    if m['kind'] == 'poly':
        return [f'a{i}' for i in range(m['degree'] + 1)]
    if m['kind'] == 'pvoigt':
        return ['amplitude', 'loc', 'scale', 'fraction']
    return ['amplitude', 'loc', 'scale']


def own_names(m):
    if m['kind'] == 'comp':
        return pnames(m['left']) + pnames(m['right'])
    return base_names(m)


def pnames(m):
    return [m['prefix'] + n for n in own_names(m)]


def constructible(m):
    if m['kind'] == 'comp':
        return (constructible(m['left']) and constructible(m['right'])
                and not (set(pnames(m['left'])) & set(pnames(m['right']))))
    return m['kind'] != 'poly' or m['degree'] > 0


def leaves(m, pre=''):
    """(leaf, full prefix of its parameter names)"""
    if m['kind'] == 'comp':
        return leaves(m['left'], pre + m['prefix']) + leaves(m['right'], pre + m['prefix'])
    return [(m, pre + m['prefix'])]


def gen_params(rng, m, ux, uy, center, width, fraction=None, plain=False):
    """numeric parameter values (floats, in units ux / uy) for every leaf; returns {name: var}, info"""
    params, info = {}, []
    for leaf, pre in leaves(m):
        k = leaf['kind']
        if k == 'poly':
            cs = [sgn(rng) * kcorr.loguniform(rng, 1e-3, 1e3) / (abs(center) + width) ** i for i in range(leaf['degree'] + 1)]
            for i, c in enumerate(cs):
                params[f'{pre}a{i}'] = var([c], [[uy, 1], [ux, -i]])
            info.append(('poly', cs))
            continue
        A = sgn(rng) * kcorr.loguniform(rng, 1e-3, 1e3)
        s = width * rng.choice([1.0, 1.0, kcorr.loguniform(rng, 0.1, 10)])
        mu = center + rng.choice([0.0, 0.0, rng.uniform(-3, 3) * width])
        if plain:
            s, mu = width, center
        params[pre + 'amplitude'] = var([A], [[uy, 1], [ux, 1]])
        params[pre + 'loc'] = var([mu], [[ux, 1]])
        params[pre + 'scale'] = var([s], [[ux, 1]])
        f = None
        if k == 'pvoigt':
            f = rng.choice([0.0, 1.0, 0.5, rng.random(), rng.random()])
            if fraction is not None:
                f = fraction
            params[pre + 'fraction'] = var([f], [])
        info.append((k, A, mu, s, f))
    return params, info


NEAR_VARIANTS = ['same-length-prefix', 'bare', 'prefix-twice', 'suffix', 'truncated', 'case', 'same-length-head']


def _alt(c):
    return 'q' if c != 'q' else 'r'


def near_miss(rng, prefix, names, variant=None):
    """an UNKNOWN parameter name one edit away from a valid one (names = the prefixed names of the model,
    prefix = the model's own prefix) -> (variant, valid name it derives from, unknown name) or None.
    same-length-prefix: another prefix of the same length + the same bare name (first / last / every character
    of the prefix changed); bare: the prefix dropped; prefix-twice; suffix: one character appended; truncated:
    the last character dropped; case: case swapped; same-length-head: first character of the full name changed."""
    cands = []
    for nm in names:
        rest = nm[len(prefix):]
        if prefix:
            cands += [('same-length-prefix', nm, _alt(prefix[0]) + prefix[1:] + rest),
                      ('same-length-prefix', nm, prefix[:-1] + _alt(prefix[-1]) + rest),
                      ('same-length-prefix', nm, ''.join(_alt(c) for c in prefix) + rest),
                      ('bare', nm, rest), ('prefix-twice', nm, prefix + nm)]
        cands += [('suffix', nm, nm + '_'), ('truncated', nm, nm[:-1]), ('case', nm, nm.swapcase()),
                  ('same-length-head', nm, _alt(nm[0]) + nm[1:])]
    cands = [c for c in cands if c[2] and c[2] not in names and (variant is None or c[0] == variant)]
    if not cands:
        return None
    if variant is None:
        v = rng.choice(sorted({c[0] for c in cands}))
        cands = [c for c in cands if c[0] == v]
    return rng.choice(cands)


def f32(v):
    import struct
    return struct.unpack('f', struct.pack('f', v))[0]


def gauss(A, mu, s, x):
    try:
        return A / (s * math.sqrt(2 * math.pi)) * math.exp(-(x - mu) ** 2 / (2 * s * s))
    except OverflowError:
        return 0.0


def lorentz(A, mu, s, x):
    return A / math.pi * s / ((x - mu) ** 2 + s * s)


def abs_parts(info, x):
    """sum of the absolute values of the terms the implementation adds up (tolerance scale only)"""
    t = 0.0
    for it in info:
        if it[0] == 'poly':
            t += sum(abs(c) * abs(x) ** i for i, c in enumerate(it[1]))
        elif it[0] == 'gauss':
            t += abs(gauss(it[1], it[2], it[3], x))
        elif it[0] == 'lorentz':
            t += abs(lorentz(it[1], it[2], it[3], x))
        else:
            _, A, mu, s, f = it
            t += abs(f * lorentz(A, mu, s, x)) + abs((1 - f) * gauss(A, mu, s / math.sqrt(2 * math.log(2)), x))
    return t


def gen_groups(rng, n):
    groups = []
    # a fixed battery first: every kind of wrong parameter set on every kind of model
    battery = [(k, mu) for k in ('gauss', 'lorentz', 'pvoigt', 'poly', 'comp') for mu in ('missing', 'extra', 'wrong-prefix')]
    # ... and every observation on every kind of model after a chain of re-prefixings that starts from a
    # constructor prefix occurring inside a bare parameter name
    battery2 = [(k, w) for k in ('gauss', 'lorentz', 'pvoigt', 'poly', 'comp') for w in ('names', 'bounds', 'guess', 'call', 'fwhm')]
    # ... and every kind of model on every layout of an x array that reaches from the peak into both far tails
    battery3 = [(k, lay) for k in ('gauss', 'lorentz', 'pvoigt', 'poly', 'comp') for lay in WIDE_LAYOUTS + ['0d']]
    # ... and the pseudo-Voigt at both ends of the fraction range (pure Gaussian / pure Lorentzian)
    battery4 = [(w, fr) for w in ('fwhm', 'call') for fr in (0.0, 1.0)]
    # ... and every kind of model called with an UNKNOWN name one edit away from a valid one (near_miss), given
    # instead of the valid name or in addition to the complete valid set; once with another prefix of the same
    # length (model prefix non-empty), once with a random kind of near miss
    battery5 = [(k, mode, v) for k in ('gauss', 'lorentz', 'pvoigt', 'poly', 'comp') for mode in ('near-replace', 'near-extra')
                for v in ('same-length-prefix', None)]
    # ... and every peak model on float32 / integer x together with scales at the lower end (and the upper part)
    # of the range: the width a model uses may not depend on the dtype of x
    battery6 = [(k, dt, sc_) for k in ('gauss', 'lorentz', 'pvoigt') for dt in ('float32', 'int64') for sc_ in ('small', 'large')]
    nb12 = len(battery) + len(battery2)
    nb123 = nb12 + len(battery3)
    nb1234 = nb123 + len(battery4)
    nb12345 = nb1234 + len(battery5)
    for gi in range(n + nb12345 + len(battery6)):
        r = rng.random()
        forced = battery[gi] if gi < len(battery) else None
        forced2 = battery2[gi - len(battery)] if len(battery) <= gi < nb12 else None
        forced3 = battery3[gi - nb12] if nb12 <= gi < nb12 + len(battery3) else None
        if forced:
            r = 0.9
        if forced2:
            r = 0.5
        forced4 = battery4[gi - nb123] if nb123 <= gi < nb123 + len(battery4) else None
        if forced3:
            r = 0.6 if forced3[0] != 'comp' else 0.2
        forced5 = battery5[gi - nb1234] if nb1234 <= gi < nb12345 else None
        forced6 = battery6[gi - nb12345] if nb12345 <= gi < nb12345 + len(battery6) else None
        if forced4 or forced6:
            r = 0.6
        if forced5:
            r = 0.9
        ux, uy = rng.choice(XUNITS), rng.choice(YUNITS)
        xdt = rng.choice(['float64', 'float64', 'float64', 'float32', 'int64'])
        # integer x: widths >= 10 so that rounding x to integers keeps |x - loc| / scale moderate (the exact
        # rational exp of the model is only affordable for arguments down to about -1e6)
        width = kcorr.loguniform(rng, 1e-6, 1e6) if xdt != 'int64' else kcorr.loguniform(rng, 10, 1e6)
        if xdt != 'int64' and rng.random() < 0.15:
            width = rng.choice([1e-6, 2e-6, 5e-6, 1e-5])      # lower end of the range, numerically in the unit of x
        center = rng.choice([0.0, sgn(rng) * kcorr.loguniform(rng, 1e-3, 1e3) * width,
                             sgn(rng) * kcorr.loguniform(rng, 1e3, 1e6) * width])
        if forced6:
            # float32: scales 1e-6..1e-3 / 1e3..1e6, the peak within 8 widths of 0 so that the float32 x values stay
            # distinct; integer x: scales 1e-3..0.1 (x = loc, loc +- 1, ...: 10..3000 widths out) / 1e3..1e6
            xdt = forced6[1]
            lo, hi = {('float32', 'small'): (1e-6, 1e-3), ('float32', 'large'): (1e3, 1e6),
                      ('int64', 'small'): (1e-3, 0.1), ('int64', 'large'): (1e3, 1e6)}[forced6[1:]]
            width = kcorr.loguniform(rng, lo, hi)
            center = rng.choice([0.0, float(rng.randint(-8, 8)) * width])
        if xdt == 'int64':
            center = float(max(-2 ** 40, min(2 ** 40, round(center))))
        m = gen_model(rng, 2) if r < 0.45 else gen_leaf(rng)
        what, mutate, near = 'call', None, None
        if 0.72 <= r < 0.80:
            what = rng.choice(['names', 'bounds', 'guess'])
            m = gen_model(rng, 1)
        if 0.80 <= r < 0.88:
            what = 'fwhm'
            m = gen_leaf(rng) if rng.random() < 0.9 else gen_model(rng, 1)
        elif r >= 0.88:
            mutate = rng.choice(['missing', 'extra', 'wrong-prefix', 'near-replace', 'near-extra', 'loc-unit', 'scale-unit', 'loc-dim',
                                 'amp-unit', 'overlap', 'degree0', 'y-mismatch'])
        if forced:
            mutate = forced[1]
            m = gen_leaf(rng, forced[0]) if forced[0] != 'comp' else \
                gen_comp(rng, gen_leaf(rng, 'poly', 'b_'), gen_leaf(rng, rng.choice(['gauss', 'lorentz', 'pvoigt']), 'p_'))
        if forced2:
            what = forced2[1]
            m = gen_leaf(rng, forced2[0], nasty=True) if forced2[0] != 'comp' else \
                gen_comp(rng, gen_leaf(rng, 'poly', 'b_', nasty=True),
                         gen_leaf(rng, rng.choice(['gauss', 'lorentz', 'pvoigt']), 'p_', nasty=True), nasty=True)
        if forced3:
            m = gen_leaf(rng, forced3[0]) if forced3[0] != 'comp' else \
                gen_comp(rng, gen_leaf(rng, rng.choice(['poly', 'lorentz']), 'b_'),
                         gen_leaf(rng, rng.choice(['gauss', 'pvoigt']), 'p_'))
        if forced4:
            what, m = forced4[0], gen_leaf(rng, 'pvoigt')
        if forced5:
            mutate = forced5[1]
            pre = rng.choice([q for q in PREFIXES + NASTY if q])
            m = gen_leaf(rng, forced5[0], pre) if forced5[0] != 'comp' else \
                gen_comp(rng, gen_leaf(rng, 'poly', 'b_'), gen_leaf(rng, rng.choice(['gauss', 'lorentz', 'pvoigt']), 'p_'), pre)
        if forced6:
            m = gen_leaf(rng, forced6[0])
        if mutate == 'overlap':
            p = rng.choice(PREFIXES)
            k = rng.choice(['gauss', 'lorentz', 'pvoigt'])
            m = gen_comp(rng, gen_leaf(rng, k, p), gen_leaf(rng, rng.choice(['gauss', 'lorentz', 'pvoigt']), p))
        if mutate == 'degree0':
            m = gen_leaf(rng, 'poly')
            m['degree'] = rng.choice([0, -1])
        if mutate == 'y-mismatch':
            m = gen_comp(rng, gen_leaf(rng, None, 'l_'), gen_leaf(rng, None, 'r_'), '')
        if not constructible(m) and mutate not in ('overlap', 'degree0'):
            # random trees with clashing names: keep them as construction cases
            mutate = 'overlap'
        if mutate in ('overlap', 'degree0'):
            groups.append({'id': gi, 'what': 'construct', 'model': m, 'params': {}, 'x': None, 'info': [], 'mutate': mutate})
            continue
        if what in ('names', 'bounds', 'guess'):
            xs = [center + (j - 6) * 0.7 * width for j in range(13)]
            ys = [1.0 + 5.0 * math.exp(-((j - 6) * 0.7) ** 2 / 2) + 0.01 * j for j in range(13)]
            groups.append({'id': gi, 'what': what, 'model': m, 'params': {}, 'x': var(xs, [[ux, 1]], 'float64', 'x'),
                           'y': var(ys, [[uy, 1]], 'float64', 'x'), 'info': [], 'mutate': None})
            continue
        params, info = gen_params(rng, m, ux, uy, center, width, fraction=forced4[1] if forced4 else None,
                                  plain=bool(forced6))
        # layout of x: a short unordered 1-d sample within 30 widths (most groups), or an array in one of the
        # WIDE_LAYOUTS / a 0-d x reaching into the far tails
        xl = 'sample'
        if forced3:
            xl = forced3[1]
        elif what == 'call' and mutate is None and rng.random() < 0.3:
            xl = rng.choice(WIDE_LAYOUTS + ['0d'])
        if forced6 and forced6[1:] == ('int64', 'small'):
            xl = 'int-near'
            zs = [0.0] + [j / width for j in rng.sample([1, -1, 2, -2, 3, -3], 2)]
        elif xl == 'sample':
            zs = rng.sample(ZS, 4 if n <= 200 else 6)
        elif xl == '0d':
            zs = [rng.choice(Z_NEAR + Z_MID + Z_FAR + [-z for z in Z_FAR])]
        else:
            zs = wide_zs(rng)
        xs = [center + z * width for z in zs]
        if xdt == 'int64':
            xs = [float(max(-2 ** 40, min(2 ** 40, round(v)))) for v in xs]
        x, _ = layout_x(xs, [[ux, 1]], xdt, 'given' if xl in ('sample', 'int-near') else xl, rng)
        names = list(params)
        if mutate == 'missing':
            del params[rng.choice(names)]
        elif mutate == 'extra':
            extra = rng.choice(['zz', 'scale', 'q_amplitude', names[0] + '_'])
            if extra in params:
                extra = 'zz'
            params[extra] = var([1.0], [])
        elif mutate == 'wrong-prefix':
            nm = rng.choice(names)
            params['w' + nm] = params.pop(nm)
        elif mutate in ('near-replace', 'near-extra'):
            nmiss = near_miss(rng, m['prefix'], names, forced5[2] if forced5 else None)
            if nmiss is None:
                nmiss = ('suffix', names[0], names[0] + '_')
            near = nmiss[0]
            if mutate == 'near-replace':
                # the unknown name takes the place (and the value) of the valid one
                params = {(nmiss[2] if k == nmiss[1] else k): v for k, v in params.items()}
            else:
                # the complete valid set plus the unknown name (another value of the same unit), last or first
                other = dict(params[nmiss[1]], values=[hexf(float.fromhex(params[nmiss[1]]['values'][0]) * 3.0)])
                params = dict(params, **{nmiss[2]: other}) if rng.random() < 0.7 else dict({nmiss[2]: other}, **params)
        elif mutate in ('loc-unit', 'scale-unit', 'loc-dim', 'amp-unit'):
            cand = [nm for nm in names if nm.endswith({'loc-unit': 'loc', 'scale-unit': 'scale', 'loc-dim': 'loc', 'amp-unit': 'amplitude'}[mutate])]
            if cand:
                nm = rng.choice(cand)
                if mutate == 'amp-unit':
                    params[nm]['unit'] = [[uy, 1]]
                elif mutate == 'loc-dim':
                    params[nm]['unit'] = [['kg', 1]]
                elif ux in ALT:
                    params[nm]['unit'] = [[ALT[ux], 1]]
        elif mutate == 'y-mismatch':
            for nm in names:
                if nm.startswith('r_') and (nm.endswith('amplitude') or nm[2:3] == 'a' and nm[3:].isdigit()):
                    params[nm]['unit'] = [['kg', 1]] + params[nm]['unit'][1:]
        if what == 'fwhm':
            if rng.random() < 0.3:
                params['unrelated'] = var([2.0], [])
            x = None
        groups.append({'id': gi, 'what': what, 'model': m, 'params': params, 'x': x, 'info': info, 'mutate': mutate,
                       'xlayout': xl if what == 'call' else None, 'near': near,
                       'xclass': (forced6[1] + ':' + forced6[2] + '-scale') if forced6 else None})
    return groups


def cstr(s):
    return '"' + s.replace('"', '""') + '"'


def model_term(m):
    """the object as the hand model builds it: constructor prefix, then the chain of with_prefix calls"""
    if m['kind'] == 'comp':
        base = f'(Comp {cstr(m["ctor"])} {model_term(m["left"])} {model_term(m["right"])})'
    else:
        k = {'gauss': 'KGauss', 'lorentz': 'KLorentz', 'pvoigt': 'KPVoigt'}.get(m['kind'])
        if k is None:
            k = f'(KPoly ({m["degree"]}))'
        base = f'(Leaf {k} {cstr(m["ctor"])})'
    if m['chain']:
        return '(with_prefixes [' + '; '.join(cstr(p) for p in m['chain']) + f'] {base})'
    return base


DUMMY = '(mkinp (0 # 1) (1 # 1) []%Z DF64)'


def fq(x):
    fr = Fraction(x)
    return f'(({fr.numerator}) # {fr.denominator})'


def cases_of(g, r):
    """-> list of (coq term, description)"""
    mt = model_term(g['model'])
    desc0 = {'what': g['what'], 'model': g['model'], 'mutate': g['mutate']}
    if g.get('xlayout'):
        desc0['x_layout'] = g['xlayout']
    if g.get('near'):
        desc0['near_miss'] = g['near']
    if g.get('xclass'):
        desc0['x_class'] = g['xclass']
    if g['what'] == 'construct':
        cls = r.get('construct_error', 'ok')
        return [(f'(mkp "construct" {mt} [] {DUMMY} (OutErr {cstr(cls)}) {TOL} (0 # 1))', dict(desc0, impl=cls))]
    if 'construct_error' in r:
        return [(f'(mkp {cstr(g["what"])} {mt} [] {DUMMY} (OutErr {cstr(r["construct_error"])}) {TOL} (0 # 1))',
                 dict(desc0, impl='construct ' + r['construct_error']))]
    if g['what'] in ('names', 'bounds', 'guess'):
        if 'error' in r:
            return [(f'(mkp {cstr(g["what"])} {mt} [] {DUMMY} (OutErr {cstr(r["error"])}) {TOL} (0 # 1))',
                     dict(desc0, impl='raises ' + r['error'] + ': ' + r.get('error_text', '')))]
        keys = r['param_names'] if g['what'] == 'names' else r['keys']
        ks = '[' + '; '.join(f'({cstr(k)}, {DUMMY})' for k in keys) + ']'
        return [(f'(mkp {cstr(g["what"])} {mt} {ks} {DUMMY} (OutErr "ok") {TOL} (0 # 1))', dict(desc0, impl={'keys': keys}))]
    ps = '[' + '; '.join(f'({cstr(k)}, {kcorr.inp_term(st, 0)})' for k, st in r['params'].items()) + ']'
    pdesc = {k: kcorr.describe(st, 0) for k, st in r['params'].items()}
    if 'error' in r:
        xi = kcorr.inp_term(r['x'], 0) if 'x' in r else DUMMY
        d = dict(desc0, params=pdesc, impl='raises ' + r['error'])
        if 'x' in r:
            d['x'] = kcorr.describe(r['x'], 0)
        return [(f'(mkp {cstr(g["what"])} {mt} {ps} {xi} (OutErr {cstr(r["error"])}) {TOL} (0 # 1))', d)]
    res = r['result']
    if 'py' in res:
        return []
    out = []
    n_el = 1
    for s in res['shape']:
        n_el *= s
    for k in range(n_el):
        ot = kcorr.out_term(res, k)
        if ot is None:
            continue
        if g['what'] == 'fwhm':
            xi, floor, xd = DUMMY, 0.0, None
        else:
            xi = kcorr.inp_term(r['x'], k)
            xv = kcorr.fmt(r['x']['values'][k])
            floor = 1e-300 + (1e-12 * abs_parts(g['info'], xv) if (len(g['info']) > 1 or g['info'][0][0] == 'poly') else 0.0)
            xd = kcorr.describe(r['x'], k)
        d = dict(desc0, params=pdesc, x=xd,
                 impl={'value': kcorr.fmt(res['values'][k]), 'unit': res['unit']['name'], 'dtype': res['dtype']})
        out.append((f'(mkp {cstr(g["what"])} {mt} {ps} {xi} {ot} {TOL} {fq(floor)})', d))
    return out


HEADER = ('From Coq Require Import QArith ZArith String List.\n'
          'From Verif.Sem Require Import Field Val QInst Corr.\nFrom Verif.C16 Require Import SemExt Model CorrCore.\n'
          'From Run Require Import Corr.\nImport ListNotations.\nOpen Scope string_scope.\n')
# fallback when model.py no longer translates / the regenerated module no longer compiles: the reference
# translation of the pinned text (coq/C16/RefLeaf.v) takes the place of Run.GenModel
HEADER_REF = HEADER.replace('From Run Require Import Corr.', 'From Verif.C16 Require Import RefCorr.')


def strip(g):
    return {k: g[k] for k in ('id', 'what', 'model', 'params', 'x', 'y') if k in g}


def correspondence(ctx):
    rng = random.Random(ctx.seed)
    n = 150 if ctx.tier == "quick" else 3000
    groups = gen_groups(rng, n)
    res = ctx.run_impl('c16_impl.py', {'groups': [strip(g) for g in groups]})
    terms, descs = [], []
    mutated = 0
    use_ref = not os.path.exists(os.path.join(ctx.build, 'Corr.vo'))
    if use_ref:
        ctx.note('the regenerated model is not available (translation / compilation broke): the correspondence '
                 'compares the implementation with the reference translation coq/C16/RefLeaf.v')
    for g, r in zip(groups, res['groups']):
        if 'build_error' in r:
            ctx.note(f'harness could not build group {g["id"]}: {r["build_error"]}')
            continue
        if g['what'] == 'call' and 'result' in r and 'shape' in r['result'] and (
                r['result']['shape'] != r['x']['shape'] or r['result']['dims'] != r['x']['dims']):
            ctx.violation('call:shape', f'model(x) has dims {r["result"]["dims"]} shape {r["result"]["shape"]} but x has dims '
                          f'{r["x"]["dims"]} shape {r["x"]["shape"]} ({g["model"]["kind"]}, x layout {g.get("xlayout")})',
                          {'group': strip(g), 'result_dims': r['result']['dims'], 'result_shape': r['result']['shape']})
            continue
        if not r.get('inputs_unchanged', True):
            mutated += 1
            md = r.get('modified') or {}
            txt = '; '.join(f'{k}: {kcorr.fmt(v[0][0]) if v[0] else None} -> {kcorr.fmt(v[1][0]) if v[1] else None}' for k, v in md.items())
            ctx.violation('inputs-modified', f'{g["what"]} on a {g["model"]["kind"]} model modified its arguments in place ({txt}): every later use of '
                          f'the same parameter objects (fwhm(params), a second evaluation, the parts of a composite) sees other values',
                          {'group': strip(g), 'modified': md})
        if 'repeat' in r:
            rep = r['repeat']
            first, again = r['result'], rep
            k_bad = 0
            if 'values' in again:
                k_bad = next((k for k, (a, b) in enumerate(zip(first['values'], again['values'])) if a != b), 0)
            ctx.violation(f'{g["what"]}:repeat-differs', f'{g["what"]} on a {g["model"]["kind"]} model evaluated twice with the same model and '
                          f'parameter objects: first {kcorr.fmt(first["values"][k_bad])}, then '
                          f'{kcorr.fmt(again["values"][k_bad]) if "values" in again else again} (element {k_bad})',
                          {'group': strip(g), 'first': kcorr.fmt(first['values'][k_bad]), 'again': again.get('error') or kcorr.fmt(again['values'][k_bad])})
        if 'param_names' in r and sorted(r['param_names']) != sorted(set(pnames(g['model']))):
            ctx.violation('param_names', f'model.param_names {r["param_names"]} differ from prefix + names for {g["model"]}',
                          {'group': strip(g), 'impl_param_names': r['param_names']})
        for k, b in (r.get('bounds') or {}).items():
            want = [0.0, 1.0] if k.endswith('fraction') else [0.0, float('inf')]
            if b != want:
                ctx.violation('param_bounds:values', f'param_bounds[{k!r}] = {b}, documented {want}', {'group': strip(g), 'bounds': r['bounds']})
        for t, d in cases_of(g, r):
            terms.append(t)
            descs.append(dict(d, group=g['id']))
    # the cases of one group cost about the same (big composites, far tails: more): deal them out round-robin
    # so that the 16 shards finish together
    nsh = 16
    shard = max(20, -(-len(terms) // nsh))
    nsh = -(-len(terms) // shard)
    order = [i for k in range(nsh) for i in range(k, len(terms), nsh)]
    fails_p, errors = ctx.coq_eval_shards(HEADER_REF if use_ref else HEADER, [terms[i] for i in order],
                                          lambda k: 'Eval vm_compute in (report (map check cases)).\n', shard=shard)
    fails = {order[j]: why for j, why in fails_p.items()}
    for name, e in errors:
        ctx.violation('corr-shard-error', f'correspondence shard {name} did not evaluate: {e[:300]}',
                      {'shard': name, 'error': e}, found_input=False)
    by_id = {g['id']: g for g in groups}
    against = ('the reference translation of the documented code (coq/C16/RefLeaf.v; the current model.py does not translate)'
               if use_ref else 'the model regenerated from model.py')
    for i, why in sorted(fails.items()):
        d = descs[i]
        kind = d['model']['kind'] if d['model']['kind'] != 'comp' else 'composite'
        key = (f'{d["what"]}:{kind}:{why.split(":")[0]}' + (f':{d["mutate"]}' if d['mutate'] else '')
               + (f':{d["near_miss"]}' if d.get('near_miss') else ''))
        ctx.violation(key, f'{d["what"]} on {kind}: implementation differs from {against} ({why}) on {d}',
                      {'case': d, 'reason': why, 'group': strip(by_id[d['group']]), 'against': 'RefLeaf.v' if use_ref else 'GenModel.v'})
    if mutated:
        ctx.coverage['calls_that_modified_their_arguments'] = mutated
    per, per_layout, per_near, per_xclass = {}, {}, {}, {}
    for d in descs:
        if d.get('near_miss'):
            k = d['mutate'] + ':' + d['near_miss'] + ':' + d['model']['kind']
            per_near[k] = per_near.get(k, 0) + 1
        if d.get('x_class') and not isinstance(d['impl'], str):
            k = d['x_class'] + ':' + d['model']['kind']
            per_xclass[k] = per_xclass.get(k, 0) + 1
        k = d['what'] + ':' + d['model']['kind'] + (':' + d['mutate'] if d['mutate'] else '')
        per[k] = per.get(k, 0) + 1
        if d.get('x_layout') and not isinstance(d['impl'], str):
            k = d['x_layout'] + ':' + d['model']['kind']
            per_layout[k] = per_layout.get(k, 0) + 1
    distinct = len({repr(d.get('params')) + repr(d.get('x')) + repr(d['model']) for d in descs if not isinstance(d['impl'], str)})
    ctx.coverage.update({
        'evaluations': len(terms),
        'distinct_nontrivial': distinct,
        'rule': 'element-wise cases from random models (4 leaf kinds, composites to depth 2, prefixes incl. spaces/quotes/clashing '
                'names, built by constructor / with_prefix / +), amplitudes of either sign 1e-3..1e3, locations 0..1e6 widths away '
                'from 0, scales 1e-6..1e6, fractions in [0,1] incl. 0 and 1, degree 1..6, x at 0..30 widths from the centre in '
                'float64/float32/int64, 7 x units x 3 y units; x as a short unordered 1-d sample, or (30% of the calls + a fixed '
                'battery of every model kind x layout) as an array reaching from the peak to 41..1000 widths into BOTH tails '
                '(|x - loc| / scale up to 1e4) in ascending / descending / shuffled 1-d order, 2-d row-major, 2-d transposed '
                '(non-contiguous view) or 0-d: every element is compared with the scalar model at that x; result dims/shape '
                '= those of x; a fixed battery of every peak model on float32 x with scales 1e-6..1e-3 and 1e3..1e6 and on int64 x '
                'with scales 1e-3..0.1 (x = loc, loc +- 1..3) and 1e3..1e6; 12% error cases + a fixed battery (missing/extra/'
                'misprefixed parameter; an unknown name ONE EDIT away from a valid one - another prefix of the same length, '
                'prefix dropped / doubled, a character appended / dropped / changed, case swapped - given instead of the valid '
                'name or in addition to the complete set, on every model kind; unit and '
                'dimension mismatches, overlapping names, degree <= 0), 8% fwhm calls; every call / fwhm is made twice with the same '
                'model and parameter objects (same result, arguments unchanged); non-trivial = the implementation returned a '
                'value; distinct = distinct (model, params, x)',
        'samples': descs[:3] + descs[-2:],
        'per_kind': per,
        'per_x_layout': per_layout,
        'per_near_miss_name': per_near,
        'per_x_dtype_scale_class': per_xclass,
        'compared_with': 'coq/C16/RefLeaf.v (reference translation; regenerated model unavailable)' if use_ref else 'Run.GenModel (regenerated on this run)',
        'disagreements': len(fails),
        'scipp_version': res.get('scipp'),
    })


# ------------------------------------------------------------------ search on the implementation
def _val(r, k=0):
    v = r['result']['values'][k]
    if isinstance(v, str):
        return float(v)          # 'nan' / 'inf' / '-inf'
    return float(Fraction(int(v[0]), int(v[1])))


def leggauss(n):
    """Gauss-Legendre nodes and weights on [-1, 1] (Newton iteration on P_n)"""
    xs, ws = [], []
    for i in range(n):
        x = math.cos(math.pi * (i + 0.75) / (n + 0.5))
        for _ in range(100):
            p0, p1 = 1.0, x
            for k in range(2, n + 1):
                p0, p1 = p1, ((2 * k - 1) * x * p1 - (k - 1) * p0) / k
            dp = n * (x * p1 - p0) / (x * x - 1)
            dx = p1 / dp
            x -= dx
            if abs(dx) < 1e-16:
                break
        xs.append(x)
        ws.append(2 / ((1 - x * x) * dp * dp))
    return xs, ws


def peak_value(kind, A, mu, s, f, xv):
    """the analytic definition (python floats)"""
    if kind == 'gauss':
        return gauss(A, mu, s, xv)
    if kind == 'lorentz':
        return lorentz(A, mu, s, xv)
    return f * lorentz(A, mu, s, xv) + (1 - f) * gauss(A, mu, s / math.sqrt(2 * math.log(2)), xv)


SEARCH_LAYOUTS = ['given', 'asc', 'desc', 'shuf', '2d', '2dT']
LAYOUT_TEXT = {'given': '1-d x in the order listed', 'asc': 'ascending 1-d x', 'desc': 'descending 1-d x',
               'shuf': 'shuffled 1-d x', '2d': '2-d x', '2dT': '2-d transposed (non-contiguous) x', '0d': '0-d x'}


def search(ctx, broken):
    """An obligation broke (a proof on the regenerated terms, the translation itself, or the exercise tie:
    `exercise:<file>:<function>` = a new statement no harness process executed).  Evaluate the PROPERTY STATEMENT
    itself on the implementation, for every model on x ARRAYS in every layout (order listed / ascending /
    descending / shuffled 1-d, 2-d, 2-d transposed) that reach from the peak to 1e3 scale into both tails:
    closed forms (python floats) and agreement of every element with the 0-d evaluation at that x (order
    independence), symmetry (also on the mirrored = descending grid), half maximum with the FWHM the model
    reports, normalisation by Gauss-Legendre quadrature (tan substitution, so the Lorentzian tails are included;
    nodes handed over ascending, descending and shuffled), polynomial = sum a_i x^i in exact rationals,
    composite = sum of parts, prefix independence, refusal of wrong parameter sets, result unit and shape."""
    rng = random.Random(ctx.seed + 16)
    found = []

    def viol(key, text, obj):
        ctx.violation(key, text, obj)
        found.append(obj)

    nodes, weights = leggauss(48)
    th = math.pi / 2 - 1e-3
    edges = [-th + 2 * th * j / 32 for j in range(33)]
    thetas, wts = [], []
    for a, b in zip(edges[:-1], edges[1:]):
        thetas += [(a + b) / 2 + (b - a) / 2 * t for t in nodes]
        wts += [(b - a) / 2 * wq for wq in weights]
    trials, xdts = [], []
    # trials 30..47: x in float32 / int64 (parameters stay float64) with scales at the lower end and in the upper
    # part of the range - the width a model USES (half maximum, integral) must be the one it REPORTS for every x dtype
    XD = [('float32', 'small'), ('float32', 'large'), ('int64', 'large'), ('float32', 'small'), ('int64', 'small'), ('int64', 'large')]
    for trial in range(48):
        kind = ['gauss', 'lorentz', 'pvoigt'][trial % 3]
        ux, uy = rng.choice(XUNITS), rng.choice(YUNITS)
        # numeric scales at and below the lower end of the property's range (in whatever unit x has) first:
        # a raised division-by-zero floor only shows there
        s = [1e-6, 5e-6, 3e-9, 1e-12][trial // 3] if trial < 12 else kcorr.loguniform(rng, 1e-6, 1e6)
        mu = rng.choice([0.0, float(rng.randint(-8, 8)) * s])
        xdt = 'float64'
        if trial >= 30:
            xdt, cls = XD[(trial - 30) // 3]
            if xdt == 'float32':
                s = (rng.choice([1e-6, 5e-6]) if trial < 33 else rng.choice([2.0 ** -15, 1e-4, 1e-3])) if cls == 'small' \
                    else kcorr.loguniform(rng, 1e3, 1e6)
                mu = rng.choice([0.0, 2 * s, -s])
            elif cls == 'large':
                # integer x: loc and fwhm/2 are integers (Gaussian: scale = n / sqrt(2 ln 2), else scale = n)
                nn = rng.randint(1000, 10 ** 6)
                s = nn / math.sqrt(2 * math.log(2)) if kind == 'gauss' else float(nn)
                mu = float(rng.randint(-8, 8) * nn)
            else:
                s = kcorr.loguniform(rng, 1e-3, 0.1)
                mu = float(rng.randint(-8, 8))
        xdts.append(xdt)
        A = sgn(rng) * kcorr.loguniform(rng, 1e-3, 1e3)
        f = rng.choice([0.0, 1.0, 0.25, rng.random()])
        if trial // 3 < 2:
            f = float(trial // 3)        # both ends of the fraction range, whatever the seed
        p = rng.choice(PREFIXES)
        m = {'kind': kind, 'prefix': p, 'ctor': p, 'chain': []}
        params = {p + 'amplitude': var([A], [[uy, 1], [ux, 1]]), p + 'loc': var([mu], [[ux, 1]]),
                  p + 'scale': var([s], [[ux, 1]])}
        if kind == 'pvoigt':
            params[p + 'fraction'] = var([f], [])
        trials.append((kind, ux, uy, s, mu, A, f, p, m, params))
    # 1. the fwhm each model reports
    rfs = ctx.run_impl('c16_impl.py', {'groups': [{'id': i, 'what': 'fwhm', 'model': t[8], 'params': t[9], 'x': None}
                                                   for i, t in enumerate(trials)]})['groups']
    # 2. per trial: the 18 probe points (peak, +-d, +-fwhm/2, far tails) in every layout and one by one as 0-d x;
    #    the quadrature nodes ascending, descending (= the mirrored grid) and shuffled
    calls, plan = [], []
    for ti, (t, rf) in enumerate(zip(trials, rfs)):
        kind, ux, uy, s, mu, A, f, p, m, params = t
        if 'result' not in rf:
            viol(f'{kind}:fwhm-raises', f'{kind}.fwhm raises {rf.get("error")}', {'group': {'model': m, 'params': params, 'what': 'fwhm'}})
            plan.append(None)
            continue
        w = _val(rf)
        xdt = xdts[ti]
        # the values as the dtype of x stores them (float32: rounded; int64: offsets rounded to integers, so that
        # loc + d and loc - d stay mirror images)
        snap = {'float64': float, 'float32': f32, 'int64': lambda v: float(round(v))}[xdt]
        osnap = (lambda v: float(round(v))) if xdt == 'int64' else float
        ds = [osnap(0.5 * s), osnap(1.0 * s), osnap(2.0 * s), osnap(4.0 * s)]
        far = [osnap(z * s) for z in (45.0, 300.0, 1000.0)]
        probe = [snap(v) for v in ([mu] + [mu + d for d in ds] + [mu - d for d in ds] + [mu + w / 2, mu - w / 2]
                                   + [mu + z for z in far] + [mu - z for z in far] + [mu + osnap(100.0 * s)])]
        quad = [snap(mu + s * math.tan(tt)) for tt in thetas]
        ent = {'w': w, 'ds': ds, 'far': far, 'probe': probe, 'lay': {}, 'scalar': [], 'quad': {}, 'xdt': xdt}
        for lay in SEARCH_LAYOUTS:
            xv, idx = layout_x(probe, [[ux, 1]], xdt, lay, rng)
            ent['lay'][lay] = (len(calls), idx)
            calls.append({'id': len(calls), 'what': 'call', 'model': m, 'params': params, 'x': xv})
        for xv in probe:
            ent['scalar'].append(len(calls))
            calls.append({'id': len(calls), 'what': 'call', 'model': m, 'params': params, 'x': var([xv], [[ux, 1]], xdt, None)})
        # integer x: the nodes of the quadrature cannot be represented, no integral
        for lay in (('asc', 'desc', 'shuf') if xdt != 'int64' else ()):
            xv, idx = layout_x(quad, [[ux, 1]], xdt, lay, rng)
            ent['quad'][lay] = (len(calls), idx)
            calls.append({'id': len(calls), 'what': 'call', 'model': m, 'params': params, 'x': xv})
        plan.append(ent)
    rcs = ctx.run_impl('c16_impl.py', {'groups': [strip(c) for c in calls]})['groups']

    def values(ci, idx, n):
        """result of call ci put back into the order of the list the x was built from; None if it raised"""
        r = rcs[ci]
        if 'result' not in r or 'values' not in r['result'] or len(r['result']['values']) != len(idx):
            return None
        out = [None] * n
        for pos, i in enumerate(idx):
            out[i] = _val(r, pos)
        return out

    for t, ent in zip(trials, plan):
        if ent is None:
            continue
        kind, ux, uy, s, mu, A, f, p, m, params = t
        w, ds, probe, xdt = ent['w'], ent['ds'], ent['probe'], ent['xdt']
        ptxt = f'A={A}, loc={mu}, scale={s}' + (f', fraction={f}' if kind == 'pvoigt' else '') + f', x dtype {xdt}'
        scal = []
        for ci in ent['scalar']:
            scal.append(_val(rcs[ci]) if 'result' in rcs[ci] else None)
        for lay in SEARCH_LAYOUTS:
            ci, idx = ent['lay'][lay]
            g = strip(calls[ci])
            r = rcs[ci]
            ltxt = LAYOUT_TEXT[lay] + ('' if xdt == 'float64' else f' of dtype {xdt}')
            if 'result' not in r:
                viol(f'{kind}:call-raises', f'{kind} raises {r.get("error")} on valid parameters ({ltxt})',
                     {'group': g, 'error': r.get('error_text'), 'x_layout': lay})
                continue
            if not r.get('inputs_unchanged', True) or 'repeat' in r:
                viol(f'{kind}:history', f'{kind}: the call modified its arguments in place ({sorted(r.get("modified") or {})}) or a second evaluation '
                     f'with the same objects gave another result ({ltxt}; {ptxt})',
                     {'group': g, 'modified': r.get('modified'), 'x_layout': lay})
            if r['result'].get('shape') != r['x']['shape'] or r['result'].get('dims') != r['x']['dims']:
                viol(f'{kind}:shape', f'{kind}: result dims {r["result"].get("dims")} shape {r["result"].get("shape")} differ from '
                     f'those of x ({r["x"]["dims"]}, {r["x"]["shape"]}; {ltxt})', {'group': g, 'x_layout': lay})
                continue
            vals = values(ci, idx, len(probe))
            # the x values as the variable stores them (float32 / int64: probe was rounded to the dtype beforehand)
            xst = [None] * len(probe)
            for pos, i in enumerate(idx):
                xst[i] = float(kcorr.fmt(r['x']['values'][pos]))
            peak = vals[0]
            # closed form, and the same value as the 0-d evaluation at that x
            for k, xv in enumerate(xst):
                want = peak_value(kind, A, mu, s, f, xv)
                if not abs(vals[k] - want) <= 1e-9 * abs(want) + 1e-300:
                    viol(f'{kind}:closed-form', f'{kind}(x={xv}) = {vals[k]} as an element of a {ltxt}, but the definition gives {want} ({ptxt})',
                         {'group': g, 'x': xv, 'impl': vals[k], 'definition': want, 'x_layout': lay})
                    break
                if scal[k] is not None and not abs(vals[k] - scal[k]) <= 1e-12 * abs(scal[k]) + 1e-300:
                    viol(f'{kind}:order-dependent', f'{kind}(x={xv}) = {vals[k]} as an element of a {ltxt}, but {scal[k]} when evaluated '
                         f'alone as a 0-d x ({ptxt})', {'group': g, 'x': xv, 'in_array': vals[k], 'alone': scal[k], 'x_layout': lay})
                    break
            # symmetry
            pairs = [(1 + j, 5 + j, ds[j]) for j in range(4)] + [(11 + j, 14 + j, ent['far'][j]) for j in range(3)]
            for ia, ib, d in pairs:
                a, b = vals[ia], vals[ib]
                if xdt != 'float64' and abs((xst[ia] - mu) - (mu - xst[ib])) > 1e-12 * s:
                    continue          # rounding x to the dtype moved the two points differently: not a mirror pair
                if not abs(a - b) <= 1e-9 * abs(a) + 1e-300:
                    viol(f'{kind}:symmetry', f'{kind}: f(loc+d) = {a} != f(loc-d) = {b} for d = {d} ({ltxt}; {ptxt})',
                         {'group': g, 'd': d, 'plus': a, 'minus': b, 'x_layout': lay})
                    break
            # half maximum with the reported FWHM
            for k in (9, 10):
                if xdt != 'float64' and abs(xst[k] - (mu + w / 2 if k == 9 else mu - w / 2)) > 3e-7 * abs(w):
                    continue          # loc +- fwhm/2 is not representable in the dtype of x closely enough
                if not abs(vals[k] - peak / 2) <= (1e-7 if xdt == 'float64' else 3e-6) * abs(peak) or peak == 0.0:
                    viol(f'{kind}:half-max', f'{kind}: f(loc +- fwhm/2) = {vals[k]} but f(loc)/2 = {peak / 2} with the reported fwhm = {w} '
                         f'({ltxt}; {ptxt})', {'group': g, 'fwhm': w, 'value_at_half_width': vals[k], 'half_peak': peak / 2, 'x_layout': lay})
                    break
            # unit
            un = r['result']['unit']
            amp_u = r['params'][p + 'amplitude']['unit']
            x_u = r['x']['unit']
            if un['dims'] != [a - b for a, b in zip(amp_u['dims'], x_u['dims'])]:
                viol(f'{kind}:unit', f'{kind} result unit {un["name"]} is not unit(amplitude)/unit(x)', {'group': g, 'unit': un})
        # normalisation: int f dx = int f(mu + s tan t) s / cos^2 t dt, the nodes in three orders
        frac_l = {'gauss': 0.0, 'lorentz': 1.0, 'pvoigt': f}[kind]
        want = A * (frac_l * 2 * th / math.pi + (1 - frac_l))
        for lay in (('asc', 'desc', 'shuf') if ent['quad'] else ()):
            ci, idx = ent['quad'][lay]
            vals = values(ci, idx, len(thetas))
            gq = {'model': m, 'params': params, 'what': 'call',
                  'x': dict(calls[ci]['x'], values=calls[ci]['x']['values'][:3] + calls[ci]['x']['values'][-3:])}
            if vals is None:
                viol(f'{kind}:call-raises', f'{kind} raises {rcs[ci].get("error")} on the quadrature grid ({LAYOUT_TEXT[lay]})',
                     {'group': gq, 'x_layout': lay})
                continue
            integral = sum(wt * v * s / math.cos(tq) ** 2 for wt, v, tq in zip(wts, vals, thetas))
            if not abs(integral - want) <= (1e-6 if xdt == 'float64' else 5e-6) * abs(A):
                viol(f'{kind}:normalisation', f'{kind} integrates to {integral} instead of its amplitude (expected {want} on the sampled range; '
                     f'{ptxt}; 1536 Gauss-Legendre nodes x = loc + scale tan(theta) handed over as a {LAYOUT_TEXT[lay]}; the replay keeps '
                     f'the first and last three nodes)',
                     {'group': gq, 'integral': integral, 'expected': want, 'amplitude': A, 'x_layout': lay,
                      'grid': 'x = loc + scale*tan(theta), theta = 48-point Gauss-Legendre nodes in 32 panels of (-pi/2+1e-3, pi/2-1e-3)'})
    # polynomial, composite (polynomial + peak), prefix, bad params; x: a few points near 0 and far-tail points
    # of the peak, in a layout that changes from trial to trial
    poly_trials = []
    for trial in range(12):
        deg = 1 + trial % 6
        lay = (SEARCH_LAYOUTS + ['0d'])[(trial * 5 + 2) % 7] if trial < 7 else rng.choice(SEARCH_LAYOUTS)
        ux, uy = rng.choice(XUNITS), rng.choice(YUNITS)
        cs = [float(rng.randint(-9, 9)) / 4 for _ in range(deg + 1)]
        xs = [float(rng.randint(-12, 12)) / 8 for _ in range(4)] + [0.25 + 0.5 * z for z in (45.0, -60.0, 1000.0, -300.0)]
        p = rng.choice(PREFIXES)
        m = {'kind': 'poly', 'degree': deg, 'prefix': p, 'ctor': p, 'chain': []}
        params = {f'{p}a{i}': var([c], [[uy, 1], [ux, -i]]) for i, c in enumerate(cs)}
        X, idx = layout_x(xs, [[ux, 1]], 'float64', lay, rng)
        xs_l = [xs[i] for i in idx]          # the values in the order of the variable
        g = {'id': 0, 'what': 'call', 'model': m, 'params': params, 'x': X}
        pk = ['gauss', 'lorentz', 'pvoigt'][trial % 3]
        pg = {'kind': pk, 'prefix': 'g_', 'ctor': 'g_', 'chain': []}
        gp = {'g_amplitude': var([1.5], [[uy, 1], [ux, 1]]), 'g_loc': var([0.25], [[ux, 1]]), 'g_scale': var([0.5], [[ux, 1]])}
        if pk == 'pvoigt':
            gp['g_fraction'] = var([0.375], [])
        comp = {'kind': 'comp', 'prefix': 'c.', 'via': 'add', 'ctor': '', 'chain': ['c.'], 'left': m, 'right': pg}
        cparams = {'c.' + k: v for k, v in {**params, **gp}.items()}
        q = rng.choice([x for x in PREFIXES if x != p])
        mq = dict(m, prefix=q, ctor=rng.choice(NASTY), chain=[rng.choice(NASTY), q])
        qparams = {f'{q}a{i}': var([c], [[uy, 1], [ux, -i]]) for i, c in enumerate(cs)}
        miss = dict(params)
        del miss[f'{p}a{deg}']
        extra = dict(params, **{f'{p}a{deg + 1}': var([1.0], [[uy, 1], [ux, -deg - 1]])})
        batch = [g, {'id': 1, 'what': 'call', 'model': pg, 'params': gp, 'x': X},
                 {'id': 2, 'what': 'call', 'model': comp, 'params': cparams, 'x': X},
                 {'id': 3, 'what': 'call', 'model': mq, 'params': qparams, 'x': X},
                 {'id': 4, 'what': 'call', 'model': m, 'params': miss, 'x': X},
                 {'id': 5, 'what': 'call', 'model': m, 'params': extra, 'x': X}]
        # the peak and the composite once more, element by element as 0-d x
        for xv in xs_l:
            x0 = var([xv], [[ux, 1]], 'float64', None)
            batch.append({'id': len(batch), 'what': 'call', 'model': pg, 'params': gp, 'x': x0})
            batch.append({'id': len(batch), 'what': 'call', 'model': comp, 'params': cparams, 'x': x0})
        poly_trials.append((deg, lay, cs, xs_l, p, q, m, g, pk, miss, extra, batch))
    allg = [dict(b, id=i) for i, b in enumerate(x for t in poly_trials for x in t[-1])]
    allr = ctx.run_impl('c16_impl.py', {'groups': allg})['groups'] if allg else []
    off = 0
    for deg, lay, cs, xs_l, p, q, m, g, pk, miss, extra, batch in poly_trials:
        rr = allr[off:off + len(batch)]
        off += len(batch)
        ltxt = LAYOUT_TEXT[lay]
        if any('result' not in rr[i] for i in (0, 1, 2, 3)):
            errs = [x.get('error') for x in rr[:4]]
            bad = batch[[i for i, e in enumerate(errs) if e][0]]
            viol('object-layer:raises', f'a valid polynomial / composite call raised {errs} (degree {deg}, coefficient i in unit(y)/unit(x)^i; {ltxt})',
                 {'group': strip(bad), 'errors': errs, 'x_layout': lay})
            continue
        if any(rr[i]['result'].get('shape') != rr[i]['x']['shape'] for i in (0, 1, 2, 3)):
            viol('object-layer:shape', f'the result of a polynomial / {pk} / composite call does not have the shape of x ({ltxt})',
                 {'group': strip(batch[2]), 'x_layout': lay})
            continue
        for k, xv in enumerate(xs_l):
            exact = sum(Fraction(c) * Fraction(xv) ** i for i, c in enumerate(cs))
            if isinstance(rr[0]['result']['values'][k], str):
                viol('poly:sum', f'polynomial of degree {deg} returns {rr[0]["result"]["values"][k]} at x = {xv}', {'group': g, 'x': xv})
                break
            got = Fraction(*[int(t) for t in rr[0]['result']['values'][k]])
            if abs(got - exact) > Fraction(1, 10 ** 12) * sum(abs(Fraction(c) * Fraction(xv) ** i) for i, c in enumerate(cs)):
                viol('poly:sum', f'polynomial of degree {deg} with coefficients a_i = {cs} returns {float(got)} at x = {xv} ({ltxt}); sum a_i x^i = {float(exact)}',
                     {'group': g, 'x': xv, 'impl': float(got), 'sum': float(exact), 'x_layout': lay})
                break
            want = peak_value(pk, 1.5, 0.25, 0.5, 0.375, xv)
            if not abs(_val(rr[1], k) - want) <= 1e-9 * abs(want) + 1e-300:
                viol(f'{pk}:closed-form', f'{pk}(x={xv}) = {_val(rr[1], k)} as an element of a {ltxt}, but the definition gives {want} '
                     f'(A=1.5, loc=0.25, scale=0.5' + (', fraction=0.375)' if pk == 'pvoigt' else ')'),
                     {'group': strip(batch[1]), 'x': xv, 'impl': _val(rr[1], k), 'definition': want, 'x_layout': lay})
                break
            parts = _val(rr[0], k) + _val(rr[1], k)
            if abs(_val(rr[2], k) - parts) > 1e-12 * (abs(_val(rr[0], k)) + abs(_val(rr[1], k))):
                viol('composite:sum', f'composite returns {_val(rr[2], k)} at x = {xv} but its parts sum to {parts} ({ltxt})',
                     {'group': strip(batch[2]), 'x': xv, 'x_layout': lay})
                break
            if rr[3]['result']['values'][k] != rr[0]['result']['values'][k]:
                viol('prefix:dependent', f'result depends on the prefix: {p!r} -> {_val(rr[0], k)}, {q!r} -> {_val(rr[3], k)}', {'group': g, 'other_prefix': q})
                break
            r_p, r_c = rr[6 + 2 * k], rr[7 + 2 * k]
            if 'result' in r_p and 'result' in r_c and lay != '0d':
                for nm, arr, alone, bg in ((pk, _val(rr[1], k), _val(r_p), batch[1]), ('composite', _val(rr[2], k), _val(r_c), batch[2])):
                    if not abs(arr - alone) <= 1e-12 * abs(alone) + 1e-300:
                        viol(f'{nm}:order-dependent', f'{nm}(x={xv}) = {arr} as an element of a {ltxt}, but {alone} when evaluated alone as a 0-d x',
                             {'group': strip(bg), 'x': xv, 'in_array': arr, 'alone': alone, 'x_layout': lay})
                        break
        for i, what in ((4, 'missing'), (5, 'unknown')):
            if rr[i].get('error') != 'ValueError':
                viol(f'bad-params:{what}', f'a call with a {what} parameter is not refused with ValueError (got {rr[i].get("error") or "a value"})',
                     {'group': {'model': m, 'params': list((miss if i == 4 else extra))}})
    # refusal of wrong parameter sets on every kind of model: each valid name missing; an unknown name one edit away
    # from a valid one (near_miss: another prefix of the same length, prefix dropped / doubled, a character appended /
    # dropped / changed, case swapped) given instead of the valid name or in addition to the complete valid set
    bad_trials = []
    for trial in range(10):
        kind = ['gauss', 'lorentz', 'pvoigt', 'poly', 'comp'][trial % 5]
        ux, uy = rng.choice(XUNITS), rng.choice(YUNITS)
        p = rng.choice([q for q in PREFIXES + NASTY if q]) if trial < 8 else ''
        if kind == 'comp':
            m = {'kind': 'comp', 'via': 'ctor', 'prefix': p, 'ctor': p, 'chain': [],
                 'left': {'kind': 'poly', 'degree': 2, 'prefix': 'b_', 'ctor': 'b_', 'chain': []},
                 'right': {'kind': rng.choice(['gauss', 'lorentz', 'pvoigt']), 'prefix': 'k', 'ctor': 'k', 'chain': []}}
        else:
            m = {'kind': kind, 'prefix': p, 'ctor': p, 'chain': []}
            if kind == 'poly':
                m['degree'] = 1 + trial % 6
        params, _ = gen_params(rng, m, ux, uy, 0.0, 1.0)
        X = var([0.0, 0.5, -1.25, 3.0], [[ux, 1]], 'float64', 'x')
        names = list(params)
        batch = [('valid', None, None, params)]
        for nm in names:
            batch.append(('missing', nm, None, {k: v for k, v in params.items() if k != nm}))
        for variant in NEAR_VARIANTS:
            for mode in ('instead of', 'in addition to'):
                nmiss = near_miss(rng, p, names, variant)
                if nmiss is None:
                    continue
                _, nm, unknown = nmiss
                if mode == 'instead of':
                    ps = {(unknown if k == nm else k): v for k, v in params.items()}
                else:
                    other = dict(params[nm], values=[hexf(float.fromhex(params[nm]['values'][0]) * 3.0)])
                    ps = dict(params, **{unknown: other}) if rng.random() < 0.7 else dict({unknown: other}, **params)
                batch.append((variant, nm, (mode, unknown), ps))
        bad_trials.append((kind, p, m, X, batch))
    allg = [{'id': 0, 'what': 'call', 'model': t[2], 'params': b[3], 'x': t[3]} for t in bad_trials for b in t[4]]
    allg = [dict(b, id=i) for i, b in enumerate(allg)]
    allr = ctx.run_impl('c16_impl.py', {'groups': allg})['groups'] if allg else []
    off = 0
    for kind, p, m, X, batch in bad_trials:
        rr = allr[off:off + len(batch)]
        gg = allg[off:off + len(batch)]
        off += len(batch)
        if 'result' not in rr[0]:
            viol('object-layer:raises', f'a {kind} model with prefix {p!r} raises {rr[0].get("error") or rr[0].get("construct_error")} on its '
                 f'complete parameter set {sorted(batch[0][3])}', {'group': strip(gg[0]), 'error': rr[0].get('error_text')})
            continue
        seen = set()
        for (variant, nm, unk, ps), r, g in zip(batch[1:], rr[1:], gg[1:]):
            if 'result' not in r or variant in seen:
                continue
            seen.add(variant)
            if variant == 'missing':
                viol('bad-params:missing', f'a {kind} model with prefix {p!r} called without its parameter {nm!r} (given: {sorted(ps)}) is not '
                     f'refused: it returns a value', {'group': strip(g), 'missing': nm})
            else:
                viol(f'bad-params:unknown:{variant}', f'a {kind} model with prefix {p!r} (param_names {sorted(batch[0][3])}) called with the unknown '
                     f'parameter name {unk[1]!r} {unk[0]} {nm!r} ({variant}) is not refused: it returns a value',
                     {'group': strip(g), 'unknown_name': unk[1], 'valid_name': nm, 'mode': unk[0], 'near_miss': variant})
    # prefix independence of everything else the models hand out: param_names, guess(data), param_bounds, fwhm —
    # the same model under a constructor prefix and under a prefix reached by a chain of re-prefixings that
    # starts from a prefix occurring inside a bare parameter name
    pref_trials = []
    for trial in range(10):
        kind = ['gauss', 'lorentz', 'pvoigt', 'poly', 'comp'][trial % 5]
        ux, uy = rng.choice(XUNITS), rng.choice(YUNITS)
        p, q = rng.sample([x for x in PREFIXES + NASTY if x], 2)

        def mk(pre, chain):
            if kind == 'comp':
                left = {'kind': 'poly', 'degree': 2, 'prefix': 'b_', 'ctor': 'b_', 'chain': []}
                right = {'kind': rng.choice(['gauss', 'lorentz', 'pvoigt']), 'prefix': 'k', 'ctor': 'k', 'chain': []}
                base = {'kind': 'comp', 'via': 'ctor', 'left': left, 'right': right}
            else:
                base = {'kind': kind}
                if kind == 'poly':
                    base['degree'] = 1 + trial % 6
            if chain:
                return dict(base, prefix=pre, ctor=rng.choice(NASTY), chain=[rng.choice(NASTY), pre])
            return dict(base, prefix=pre, ctor=pre, chain=[])
        st = rng.getstate()
        mp = mk(p, False)
        rng.setstate(st)              # the same random sub-model for both prefixes
        mq = mk(q, True)
        width = kcorr.loguniform(rng, 1e-3, 1e3)
        center = rng.uniform(-5, 5) * width
        pk = rng.uniform(-3, 3)
        xs = [center + (j - 8) * 0.6 * width for j in range(17)]
        ys = [0.5 + 4.0 * math.exp(-((j - 8) * 0.6 - pk) ** 2 / 2) + 0.02 * j for j in range(17)]
        X, Y = var(xs, [[ux, 1]], 'float64', 'x'), var(ys, [[uy, 1]], 'float64', 'x')
        batch = []
        for mm in (mp, mq):
            for what in ('guess', 'bounds'):
                batch.append({'id': len(batch), 'what': what, 'model': mm, 'params': {}, 'x': X, 'y': Y})
        pref_trials.append((kind, p, q, mp, mq, batch))
    allg = [dict(b, id=i) for i, b in enumerate(x for t in pref_trials for x in t[-1])]
    allr = ctx.run_impl('c16_impl.py', {'groups': allg})['groups'] if allg else []
    off = 0
    for kind, p, q, mp, mq, batch in pref_trials:
        rr = allr[off:off + len(batch)]
        off += len(batch)
        want_names = sorted(own_names(mp))
        for (ip, iq, what) in ((0, 2, 'guess'), (1, 3, 'bounds')):
            rp_, rq_ = rr[ip], rr[iq]
            if 'keys' not in rp_ or 'keys' not in rq_:
                err = rp_.get('error') or rp_.get('construct_error') or rq_.get('error') or rq_.get('construct_error')
                if what == 'guess' and kind == 'poly' and rp_.get('error') == rq_.get('error') == 'NotImplementedError':
                    continue
                viol(f'prefix:{what}-raises', f'model.{what} raises {err} for a {kind} model with prefix {p!r} or {q!r} (re-prefixed)',
                     {'group': strip(batch[iq if 'keys' in rp_ else ip]), 'error': err})
                continue
            for pre, r_, mm, ib in ((p, rp_, mp, ip), (q, rq_, mq, iq)):
                names_ = sorted(r_['param_names'])
                if names_ != sorted(pre + nm for nm in want_names):
                    viol('prefix:param_names', f'param_names of a {kind} model with prefix {pre!r} are {names_}, not prefix + {want_names}',
                         {'group': strip(batch[ib]), 'param_names': names_})
                if any(not k.startswith(pre) or k[len(pre):] not in want_names for k in r_['keys']):
                    viol(f'prefix:{what}-keys', f'keys of model.{what} of a {kind} model with prefix {pre!r} are {r_["keys"]}: not prefix + parameter name',
                         {'group': strip(batch[ib]), 'keys': r_['keys']})
            bare_p = sorted(k[len(p):] for k in rp_['keys'])
            bare_q = sorted(k[len(q):] for k in rq_['keys'])
            if bare_p != bare_q:
                viol(f'prefix:{what}-keys', f'model.{what} depends on the prefix: {p!r} -> {rp_["keys"]}, {q!r} (re-prefixed) -> {rq_["keys"]}',
                     {'group': strip(batch[iq]), 'other_prefix': p})
                continue
            field = 'guess' if what == 'guess' else 'bounds'
            vp = {k[len(p):]: v for k, v in (rp_.get(field) or {}).items()}
            vq = {k[len(q):]: v for k, v in (rq_.get(field) or {}).items()}
            for k in vp:
                a_, b_ = vp[k], vq.get(k)
                if what == 'guess' and isinstance(a_, dict) and isinstance(b_, dict):
                    a_, b_ = (a_.get('values'), a_.get('unit')), (b_.get('values'), b_.get('unit'))
                if a_ != b_:
                    viol(f'prefix:{what}-values', f'model.{what}()[prefix + {k!r}] depends on the prefix: {p!r} -> {a_}, {q!r} (re-prefixed) -> {b_}',
                         {'group': strip(batch[iq]), 'other_prefix': p, 'parameter': k})
                    break
    return found


def replay(ctx, obj):
    import json
    print(json.dumps({k: obj[k] for k in ('property', 'key', 'what')}, indent=1))
    rp = obj['replay']
    g = rp.get('group')
    if isinstance(g, dict) and 'model' in g and 'params' in g and isinstance(g['params'], dict):
        g = dict(g, id=0, what=g.get('what', 'call'), x=g.get('x'))
        r = ctx.run_impl('c16_impl.py', {'groups': [g]})['groups'][0]
        print('implementation now returns:')
        if 'result' in r:
            print(json.dumps({'unit': r['result']['unit']['name'], 'dtype': r['result']['dtype'],
                              'values': [kcorr.fmt(v) for v in r['result']['values']]}, indent=1))
        else:
            print(json.dumps({k: r.get(k) for k in ('error', 'error_text', 'construct_error')}, indent=1))
    print('recorded:', json.dumps({k: v for k, v in rp.items() if k != 'group'}, indent=1, default=str)[:3000])
    return 0
