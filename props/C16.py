"""C16 — peak and background models satisfy their analytic definitions."""
import math
import random
from fractions import Fraction

import kcorr

ID = 'C16'
LEVEL = 'proof'
TRANSLATE = {
    'fstrings': True,
    'sigs': {
        'sc.scalar': ['sc_scalar_v', ['value'], [['variance', None], ['unit', None], ['dtype', None]]],
        'sc.exp': ['sc_exp_out', ['x'], [['out', None]]],
        'sc.reciprocal': ['sc_reciprocal_out', ['x'], [['out', None]]],
        'sc.full': ['sc_full', [], [['value', '!'], ['unit', None], ['sizes', None]]],
        'dict': ['py_dict', ['x'], []],
    },
    'methods': {'items': ['m_items', [], []]},
    'modules': [
        {'py': 'src/scippneutron/peaks/model.py', 'coq': 'GenModel',
         'requires': ['Verif.C16.SemExt'], 'section': ['Context {X : Xops O}.'],
         'functions': ['_gaussian', '_lorentzian', 'GaussianModel._call', 'GaussianModel.fwhm',
                       'LorentzianModel._call', 'LorentzianModel.fwhm', 'PseudoVoigtModel._call',
                       'PseudoVoigtModel.fwhm', 'PolynomialModel._call']},
    ]}
RUN_FILES = ['Leaf.v', 'Tie.v', 'Properties.v', 'Corr.v']
COQ_TIMEOUT = 600
TRUSTED = [
    'tools/py2coq.py (syntactic translator, fail-closed; C16 uses its **kwargs, dict.pop, f-string and for-range forms)',
    'coq/Sem/Val.v + coq/C16/SemExt.v: model of scipp element semantics and of the Python primitives used '
    '(max, math.sqrt/log, dict/pop/**, f-strings, range loop, sc.full, sc.scalar, exp/reciprocal with out=)',
    'coq/C16/Model.v: hand model of Model.__call__/with_prefix/CompositeModel/PolynomialModel.__init__ '
    '(parameter-name sets, prefix stripping, sum of parts), tied by correspondence',
    'scipp broadcasting is pointwise; in-place ops (*=, /=, out=) are modelled by their value',
    'coq/Sem/QInst.v + SemExt.qln: rational approximations of exp/sqrt/ln (correspondence only)',
    'tools/harness/c16_impl.py + lib/kcorr.py (exact serialisation of operands/results)',
    'coq-interval (tactics interval/integral, bigint floats) for sqrt(2 ln 2) <= 1.18, exp(-72)/6 and '
    '|int_{-12}^{12} exp(-x^2/2) - sqrt(2 pi)| <= 1e-9; Coquelicot Riemann integral',
]
ASSUMPTIONS = [
    'theorems are over exact reals; rounding is covered by the correspondence tolerance (1e-12 relative + '
    '1e-12 of the sum of the absolute values of the parts for polynomials/composites)',
    'numeric scale >= 1e-15 (2e-15 for the pseudo-Voigt): the clamp max(scale, 1e-15) of the source is inactive',
    'x, loc and scale are given in one unit; parameters are float64 scalars without variances; x is any numeric dtype',
    'dimensions of x in {length, time, energy, dimensionless}, of y in {counts, dimensionless} in the theorems '
    '(unit multipliers arbitrary); the correspondence also uses other dimensions',
    'Gaussian / pseudo-Voigt normalisation is partial: proved on every symmetric range >= 12 sigma within 2e-9 |A| '
    '(the improper integral of exp(-x^2/2) over R is not available in the installed libraries)',
]
LEVEL_TEXT = ('Proof: for all amplitudes, locations, scales >= 1e-15, fractions, prefixes and unit multipliers, the '
              'Gaussian/Lorentzian/pseudo-Voigt/polynomial (degree 1..6) code regenerated from model.py on this run denotes '
              'the documented closed forms in unit(A)/unit(x); symmetry, half maximum at loc +- fwhm/2 with the translated '
              'fwhm methods (pseudo-Voigt: every fraction), Lorentzian integral exactly (atan form + limit A), Gaussian and '
              'pseudo-Voigt integrals within 2e-9|A| on >= 12 sigma; prefix stripping, refusal of wrong parameter sets and '
              'composite = sum of parts on a hand model of the object layer validated against the implementation '
              '(~1e3 element cases, quick tier) inside Coq over exact rationals.')
LEVEL_NOTE = ('Trusted: Coq kernel; std-lib real-number axioms (sig_forall_dec, sig_not_dec, functional_extensionality_dep, classic); '
              'Coquelicot, coq-interval; py2coq translator; Sem/Val.v + C16/SemExt.v model of scipp/Python primitives; '
              'C16/Model.v object layer (correspondence); rounding handled by tolerance, not by theorem.')
TECHNIQUE = ('Coq proof on regenerated terms (staged evaluation + field over R, Coquelicot integrals, coq-interval constant) '
             '+ vm_compute correspondence against the implementation')

XUNITS = ['m', 'mm', 'angstrom', 'us', 's', 'meV', 'dimensionless']
YUNITS = ['counts', 'dimensionless', 'K']
ALT = {'m': 'mm', 'mm': 'm', 'angstrom': 'nm', 'us': 'ms', 's': 'us', 'meV': 'eV'}
PREFIXES = ['', '', 'p_', 'peak1_', 'g', 'a', 'bkg.', 'L ', 'x-y_', '_', 'amplitude', '0', 'Aa_Zz9', 'a"b', 'loc']
# prefixes that occur inside bare parameter names (amplitude, loc, scale, fraction, a0..a6): a with_prefix that
# renames by string replacement instead of prefix + bare name goes wrong exactly on these
NASTY = ['p', 'a', 'l', 'sc', 'e', 'loc', 'amp', 'frac', '0', '1', 'a1', 'scale']
ZS = [0.0, 0.5, -0.5, 1.0, -1.0, 2.5, -2.5, 6.0, -6.0, 12.0, -12.0, 30.0, -30.0, 0.1, -1.7, 3.3]
TOL = '(1 # 1000000000000)'


def hexf(x):
    return float(x).hex()


def var(vals, unit, dtype='float64', dim=None):
    return {'values': [hexf(v) if dtype.startswith('float') else int(v) for v in vals], 'unit': unit,
            'dtype': dtype, 'dim': dim}


def sgn(rng):
    return rng.choice([1.0, -1.0])


def route(rng, m, prefix=None, nasty=False):
    """how the object gets its final prefix: by the constructor, by one with_prefix, or by a chain of 2-3
    re-prefixings starting from a constructor prefix that is a substring of a parameter name"""
    pool = NASTY + PREFIXES
    how = 'chain' if nasty else rng.choice(['ctor', 'ctor', 'with_prefix', 'chain', 'chain'])
    if how == 'ctor' and m.get('via') != 'add':
        m['prefix'] = rng.choice(pool) if prefix is None else prefix
        m['ctor'], m['chain'] = m['prefix'], []
    elif how == 'with_prefix' or (how == 'ctor'):
        m['prefix'] = rng.choice(pool) if prefix is None else prefix
        m['ctor'], m['chain'] = '', [m['prefix']]
    else:
        m['ctor'] = '' if m.get('via') == 'add' else rng.choice(NASTY)
        chain = [rng.choice(pool) for _ in range(rng.randint(1, 2))]
        if prefix is not None:
            chain.append(prefix)
        if rng.random() < 0.3:
            chain.insert(0, rng.choice(NASTY))
        m['chain'] = chain
        m['prefix'] = chain[-1]
    return m


def gen_leaf(rng, kind=None, prefix=None, nasty=False):
    kind = kind or rng.choice(['gauss', 'lorentz', 'pvoigt', 'poly'])
    m = {'kind': kind}
    if kind == 'poly':
        m['degree'] = rng.randint(1, 6)
    return route(rng, m, prefix, nasty)


def gen_comp(rng, left, right, prefix=None, nasty=False):
    return route(rng, {'kind': 'comp', 'via': rng.choice(['ctor', 'add']), 'left': left, 'right': right}, prefix, nasty)


def gen_model(rng, depth):
    if depth == 0 or rng.random() < 0.4:
        return gen_leaf(rng)
    return gen_comp(rng, gen_model(rng, depth - 1), gen_model(rng, depth - 1))


def base_names(m):
    if m['kind'] == 'poly':
        return [f'a{i}' for i in range(m['degree'] + 1)]
    if m['kind'] == 'pvoigt':
        return ['amplitude', 'loc', 'scale', 'fraction']
    return ['amplitude', 'loc', 'scale']


def own_names(m):
    if m['kind'] == 'comp':
        return pnames(m['left']) + pnames(m['right'])
    return base_names(m)


def pnames(m):
    return [m['prefix'] + n for n in own_names(m)]


def constructible(m):
    if m['kind'] == 'comp':
        return (constructible(m['left']) and constructible(m['right'])
                and not (set(pnames(m['left'])) & set(pnames(m['right']))))
    return m['kind'] != 'poly' or m['degree'] > 0


def leaves(m, pre=''):
    """(leaf, full prefix of its parameter names)"""
    if m['kind'] == 'comp':
        return leaves(m['left'], pre + m['prefix']) + leaves(m['right'], pre + m['prefix'])
    return [(m, pre + m['prefix'])]


def gen_params(rng, m, ux, uy, center, width):
    """numeric parameter values (floats, in units ux / uy) for every leaf; returns {name: var}, info"""
    params, info = {}, []
    for leaf, pre in leaves(m):
        k = leaf['kind']
        if k == 'poly':
            cs = [sgn(rng) * kcorr.loguniform(rng, 1e-3, 1e3) / (abs(center) + width) ** i for i in range(leaf['degree'] + 1)]
            for i, c in enumerate(cs):
                params[f'{pre}a{i}'] = var([c], [[uy, 1], [ux, -i]])
            info.append(('poly', cs))
            continue
        A = sgn(rng) * kcorr.loguniform(rng, 1e-3, 1e3)
        s = width * rng.choice([1.0, 1.0, kcorr.loguniform(rng, 0.1, 10)])
        mu = center + rng.choice([0.0, 0.0, rng.uniform(-3, 3) * width])
        params[pre + 'amplitude'] = var([A], [[uy, 1], [ux, 1]])
        params[pre + 'loc'] = var([mu], [[ux, 1]])
        params[pre + 'scale'] = var([s], [[ux, 1]])
        f = None
        if k == 'pvoigt':
            f = rng.choice([0.0, 1.0, 0.5, rng.random(), rng.random()])
            params[pre + 'fraction'] = var([f], [])
        info.append((k, A, mu, s, f))
    return params, info


def gauss(A, mu, s, x):
    try:
        return A / (s * math.sqrt(2 * math.pi)) * math.exp(-(x - mu) ** 2 / (2 * s * s))
    except OverflowError:
        return 0.0


def lorentz(A, mu, s, x):
    return A / math.pi * s / ((x - mu) ** 2 + s * s)


def abs_parts(info, x):
    """sum of the absolute values of the terms the implementation adds up (tolerance scale only)"""
    t = 0.0
    for it in info:
        if it[0] == 'poly':
            t += sum(abs(c) * abs(x) ** i for i, c in enumerate(it[1]))
        elif it[0] == 'gauss':
            t += abs(gauss(it[1], it[2], it[3], x))
        elif it[0] == 'lorentz':
            t += abs(lorentz(it[1], it[2], it[3], x))
        else:
            _, A, mu, s, f = it
            t += abs(f * lorentz(A, mu, s, x)) + abs((1 - f) * gauss(A, mu, s / math.sqrt(2 * math.log(2)), x))
    return t


def gen_groups(rng, n):
    groups = []
    # a fixed battery first: every kind of wrong parameter set on every kind of model
    battery = [(k, mu) for k in ('gauss', 'lorentz', 'pvoigt', 'poly', 'comp') for mu in ('missing', 'extra', 'wrong-prefix')]
    # ... and every observation on every kind of model after a chain of re-prefixings that starts from a
    # constructor prefix occurring inside a bare parameter name
    battery2 = [(k, w) for k in ('gauss', 'lorentz', 'pvoigt', 'poly', 'comp') for w in ('names', 'bounds', 'guess', 'call', 'fwhm')]
    for gi in range(n + len(battery) + len(battery2)):
        r = rng.random()
        forced = battery[gi] if gi < len(battery) else None
        forced2 = battery2[gi - len(battery)] if len(battery) <= gi < len(battery) + len(battery2) else None
        if forced:
            r = 0.9
        if forced2:
            r = 0.5
        ux, uy = rng.choice(XUNITS), rng.choice(YUNITS)
        xdt = rng.choice(['float64', 'float64', 'float64', 'float32', 'int64'])
        # integer x: widths >= 10 so that rounding x to integers keeps |x - loc| / scale moderate (the exact
        # rational exp of the model is only affordable for arguments down to about -1e6)
        width = kcorr.loguniform(rng, 1e-6, 1e6) if xdt != 'int64' else kcorr.loguniform(rng, 10, 1e6)
        if xdt != 'int64' and rng.random() < 0.15:
            width = rng.choice([1e-6, 2e-6, 5e-6, 1e-5])      # lower end of the range, numerically in the unit of x
        center = rng.choice([0.0, sgn(rng) * kcorr.loguniform(rng, 1e-3, 1e3) * width,
                             sgn(rng) * kcorr.loguniform(rng, 1e3, 1e6) * width])
        if xdt == 'int64':
            center = float(max(-2 ** 40, min(2 ** 40, round(center))))
        m = gen_model(rng, 2) if r < 0.45 else gen_leaf(rng)
        what, mutate = 'call', None
        if 0.72 <= r < 0.80:
            what = rng.choice(['names', 'bounds', 'guess'])
            m = gen_model(rng, 1)
        if 0.80 <= r < 0.88:
            what = 'fwhm'
            m = gen_leaf(rng) if rng.random() < 0.9 else gen_model(rng, 1)
        elif r >= 0.88:
            mutate = rng.choice(['missing', 'extra', 'wrong-prefix', 'loc-unit', 'scale-unit', 'loc-dim',
                                 'amp-unit', 'overlap', 'degree0', 'y-mismatch'])
        if forced:
            mutate = forced[1]
            m = gen_leaf(rng, forced[0]) if forced[0] != 'comp' else \
                gen_comp(rng, gen_leaf(rng, 'poly', 'b_'), gen_leaf(rng, rng.choice(['gauss', 'lorentz', 'pvoigt']), 'p_'))
        if forced2:
            what = forced2[1]
            m = gen_leaf(rng, forced2[0], nasty=True) if forced2[0] != 'comp' else \
                gen_comp(rng, gen_leaf(rng, 'poly', 'b_', nasty=True),
                         gen_leaf(rng, rng.choice(['gauss', 'lorentz', 'pvoigt']), 'p_', nasty=True), nasty=True)
        if mutate == 'overlap':
            p = rng.choice(PREFIXES)
            k = rng.choice(['gauss', 'lorentz', 'pvoigt'])
            m = gen_comp(rng, gen_leaf(rng, k, p), gen_leaf(rng, rng.choice(['gauss', 'lorentz', 'pvoigt']), p))
        if mutate == 'degree0':
            m = gen_leaf(rng, 'poly')
            m['degree'] = rng.choice([0, -1])
        if mutate == 'y-mismatch':
            m = gen_comp(rng, gen_leaf(rng, None, 'l_'), gen_leaf(rng, None, 'r_'), '')
        if not constructible(m) and mutate not in ('overlap', 'degree0'):
            # random trees with clashing names: keep them as construction cases
            mutate = 'overlap'
        if mutate in ('overlap', 'degree0'):
            groups.append({'id': gi, 'what': 'construct', 'model': m, 'params': {}, 'x': None, 'info': [], 'mutate': mutate})
            continue
        if what in ('names', 'bounds', 'guess'):
            xs = [center + (j - 6) * 0.7 * width for j in range(13)]
            ys = [1.0 + 5.0 * math.exp(-((j - 6) * 0.7) ** 2 / 2) + 0.01 * j for j in range(13)]
            groups.append({'id': gi, 'what': what, 'model': m, 'params': {}, 'x': var(xs, [[ux, 1]], 'float64', 'x'),
                           'y': var(ys, [[uy, 1]], 'float64', 'x'), 'info': [], 'mutate': None})
            continue
        params, info = gen_params(rng, m, ux, uy, center, width)
        zs = rng.sample(ZS, 4 if n <= 200 else 6)
        xs = [center + z * width for z in zs]
        if xdt == 'int64':
            xs = [float(max(-2 ** 40, min(2 ** 40, round(v)))) for v in xs]
        x = var(xs, [[ux, 1]], xdt, 'x')
        names = list(params)
        if mutate == 'missing':
            del params[rng.choice(names)]
        elif mutate == 'extra':
            extra = rng.choice(['zz', 'scale', 'q_amplitude', names[0] + '_'])
            if extra in params:
                extra = 'zz'
            params[extra] = var([1.0], [])
        elif mutate == 'wrong-prefix':
            nm = rng.choice(names)
            params['w' + nm] = params.pop(nm)
        elif mutate in ('loc-unit', 'scale-unit', 'loc-dim', 'amp-unit'):
            cand = [nm for nm in names if nm.endswith({'loc-unit': 'loc', 'scale-unit': 'scale', 'loc-dim': 'loc', 'amp-unit': 'amplitude'}[mutate])]
            if cand:
                nm = rng.choice(cand)
                if mutate == 'amp-unit':
                    params[nm]['unit'] = [[uy, 1]]
                elif mutate == 'loc-dim':
                    params[nm]['unit'] = [['kg', 1]]
                elif ux in ALT:
                    params[nm]['unit'] = [[ALT[ux], 1]]
        elif mutate == 'y-mismatch':
            for nm in names:
                if nm.startswith('r_') and (nm.endswith('amplitude') or nm[2:3] == 'a' and nm[3:].isdigit()):
                    params[nm]['unit'] = [['kg', 1]] + params[nm]['unit'][1:]
        if what == 'fwhm':
            if rng.random() < 0.3:
                params['unrelated'] = var([2.0], [])
            x = None
        groups.append({'id': gi, 'what': what, 'model': m, 'params': params, 'x': x, 'info': info, 'mutate': mutate})
    return groups


def cstr(s):
    return '"' + s.replace('"', '""') + '"'


def model_term(m):
    """the object as the hand model builds it: constructor prefix, then the chain of with_prefix calls"""
    if m['kind'] == 'comp':
        base = f'(Comp {cstr(m["ctor"])} {model_term(m["left"])} {model_term(m["right"])})'
    else:
        k = {'gauss': 'KGauss', 'lorentz': 'KLorentz', 'pvoigt': 'KPVoigt'}.get(m['kind'])
        if k is None:
            k = f'(KPoly ({m["degree"]}))'
        base = f'(Leaf {k} {cstr(m["ctor"])})'
    if m['chain']:
        return '(with_prefixes [' + '; '.join(cstr(p) for p in m['chain']) + f'] {base})'
    return base


DUMMY = '(mkinp (0 # 1) (1 # 1) []%Z DF64)'


def fq(x):
    fr = Fraction(x)
    return f'(({fr.numerator}) # {fr.denominator})'


def cases_of(g, r):
    """-> list of (coq term, description)"""
    mt = model_term(g['model'])
    desc0 = {'what': g['what'], 'model': g['model'], 'mutate': g['mutate']}
    if g['what'] == 'construct':
        cls = r.get('construct_error', 'ok')
        return [(f'(mkp "construct" {mt} [] {DUMMY} (OutErr {cstr(cls)}) {TOL} (0 # 1))', dict(desc0, impl=cls))]
    if 'construct_error' in r:
        return [(f'(mkp {cstr(g["what"])} {mt} [] {DUMMY} (OutErr {cstr(r["construct_error"])}) {TOL} (0 # 1))',
                 dict(desc0, impl='construct ' + r['construct_error']))]
    if g['what'] in ('names', 'bounds', 'guess'):
        if 'error' in r:
            return [(f'(mkp {cstr(g["what"])} {mt} [] {DUMMY} (OutErr {cstr(r["error"])}) {TOL} (0 # 1))',
                     dict(desc0, impl='raises ' + r['error'] + ': ' + r.get('error_text', '')))]
        keys = r['param_names'] if g['what'] == 'names' else r['keys']
        ks = '[' + '; '.join(f'({cstr(k)}, {DUMMY})' for k in keys) + ']'
        return [(f'(mkp {cstr(g["what"])} {mt} {ks} {DUMMY} (OutErr "ok") {TOL} (0 # 1))', dict(desc0, impl={'keys': keys}))]
    ps = '[' + '; '.join(f'({cstr(k)}, {kcorr.inp_term(st, 0)})' for k, st in r['params'].items()) + ']'
    pdesc = {k: kcorr.describe(st, 0) for k, st in r['params'].items()}
    if 'error' in r:
        xi = kcorr.inp_term(r['x'], 0) if 'x' in r else DUMMY
        d = dict(desc0, params=pdesc, impl='raises ' + r['error'])
        if 'x' in r:
            d['x'] = kcorr.describe(r['x'], 0)
        return [(f'(mkp {cstr(g["what"])} {mt} {ps} {xi} (OutErr {cstr(r["error"])}) {TOL} (0 # 1))', d)]
    res = r['result']
    if 'py' in res:
        return []
    out = []
    n_el = 1
    for s in res['shape']:
        n_el *= s
    for k in range(n_el):
        ot = kcorr.out_term(res, k)
        if ot is None:
            continue
        if g['what'] == 'fwhm':
            xi, floor, xd = DUMMY, 0.0, None
        else:
            xi = kcorr.inp_term(r['x'], k)
            xv = kcorr.fmt(r['x']['values'][k])
            floor = 1e-300 + (1e-12 * abs_parts(g['info'], xv) if (len(g['info']) > 1 or g['info'][0][0] == 'poly') else 0.0)
            xd = kcorr.describe(r['x'], k)
        d = dict(desc0, params=pdesc, x=xd,
                 impl={'value': kcorr.fmt(res['values'][k]), 'unit': res['unit']['name'], 'dtype': res['dtype']})
        out.append((f'(mkp {cstr(g["what"])} {mt} {ps} {xi} {ot} {TOL} {fq(floor)})', d))
    return out


HEADER = ('From Coq Require Import QArith ZArith String List.\n'
          'From Verif.Sem Require Import Field Val QInst Corr.\nFrom Verif.C16 Require Import SemExt Model.\n'
          'From Run Require Import Corr.\nImport ListNotations.\nOpen Scope string_scope.\n')


def strip(g):
    return {k: g[k] for k in ('id', 'what', 'model', 'params', 'x', 'y') if k in g}


def correspondence(ctx):
    rng = random.Random(ctx.seed)
    n = 150 if ctx.tier == "quick" else 3000
    groups = gen_groups(rng, n)
    res = ctx.run_impl('c16_impl.py', {'groups': [strip(g) for g in groups]})
    terms, descs = [], []
    mutated = 0
    for g, r in zip(groups, res['groups']):
        if 'build_error' in r:
            ctx.note(f'harness could not build group {g["id"]}: {r["build_error"]}')
            continue
        if not r.get('inputs_unchanged', True):
            mutated += 1
        if 'param_names' in r and sorted(r['param_names']) != sorted(set(pnames(g['model']))):
            ctx.violation('param_names', f'model.param_names {r["param_names"]} differ from prefix + names for {g["model"]}',
                          {'group': strip(g), 'impl_param_names': r['param_names']})
        for k, b in (r.get('bounds') or {}).items():
            want = [0.0, 1.0] if k.endswith('fraction') else [0.0, float('inf')]
            if b != want:
                ctx.violation('param_bounds:values', f'param_bounds[{k!r}] = {b}, documented {want}', {'group': strip(g), 'bounds': r['bounds']})
        for t, d in cases_of(g, r):
            terms.append(t)
            descs.append(dict(d, group=g['id']))
    fails, errors = ctx.coq_eval_shards(HEADER, terms, lambda k: 'Eval vm_compute in (report (map check cases)).\n',
                                        shard=max(20, -(-len(terms) // 16)))
    for name, e in errors:
        ctx.violation('corr-shard-error', f'correspondence shard {name} did not evaluate: {e[:300]}',
                      {'shard': name, 'error': e}, found_input=False)
    by_id = {g['id']: g for g in groups}
    for i, why in sorted(fails.items()):
        d = descs[i]
        kind = d['model']['kind'] if d['model']['kind'] != 'comp' else 'composite'
        key = f'{d["what"]}:{kind}:{why.split(":")[0]}' + (f':{d["mutate"]}' if d['mutate'] else '')
        ctx.violation(key, f'{d["what"]} on {kind}: implementation differs from the model regenerated from model.py ({why}) on {d}',
                      {'case': d, 'reason': why, 'group': strip(by_id[d['group']])})
    if mutated:
        ctx.violation('inputs-modified', f'{mutated} calls modified their arguments', {'count': mutated})
    per = {}
    for d in descs:
        k = d['what'] + ':' + d['model']['kind'] + (':' + d['mutate'] if d['mutate'] else '')
        per[k] = per.get(k, 0) + 1
    distinct = len({repr(d.get('params')) + repr(d.get('x')) + repr(d['model']) for d in descs if not isinstance(d['impl'], str)})
    ctx.coverage.update({
        'evaluations': len(terms),
        'distinct_nontrivial': distinct,
        'rule': 'element-wise cases from random models (4 leaf kinds, composites to depth 2, prefixes incl. spaces/quotes/clashing '
                'names, built by constructor / with_prefix / +), amplitudes of either sign 1e-3..1e3, locations 0..1e6 widths away '
                'from 0, scales 1e-6..1e6, fractions in [0,1] incl. 0 and 1, degree 1..6, x at 0..30 widths from the centre in '
                'float64/float32/int64, 7 x units x 3 y units; 12% error cases (missing/extra/misprefixed parameter, unit and '
                'dimension mismatches, overlapping names, degree <= 0), 8% fwhm calls; non-trivial = the implementation returned a '
                'value; distinct = distinct (model, params, x)',
        'samples': descs[:3] + descs[-2:],
        'per_kind': per,
        'disagreements': len(fails),
        'scipp_version': res.get('scipp'),
    })


# ------------------------------------------------------------------ search on the implementation
def _val(r, k=0):
    v = r['result']['values'][k]
    if isinstance(v, str):
        return float(v)          # 'nan' / 'inf' / '-inf'
    return float(Fraction(int(v[0]), int(v[1])))


def leggauss(n):
    """Gauss-Legendre nodes and weights on [-1, 1] (Newton iteration on P_n)"""
    xs, ws = [], []
    for i in range(n):
        x = math.cos(math.pi * (i + 0.75) / (n + 0.5))
        for _ in range(100):
            p0, p1 = 1.0, x
            for k in range(2, n + 1):
                p0, p1 = p1, ((2 * k - 1) * x * p1 - (k - 1) * p0) / k
            dp = n * (x * p1 - p0) / (x * x - 1)
            dx = p1 / dp
            x -= dx
            if abs(dx) < 1e-16:
                break
        xs.append(x)
        ws.append(2 / ((1 - x * x) * dp * dp))
    return xs, ws


def search(ctx, broken):
    """An obligation broke.  Evaluate the PROPERTY STATEMENT itself on the implementation: closed forms
    (python floats), symmetry, half maximum with the FWHM the model reports, normalisation by Gauss-Legendre
    quadrature (tan substitution, so the Lorentzian tails are included), polynomial = sum a_i x^i in exact
    rationals, composite = sum of parts, prefix independence, refusal of wrong parameter sets, result unit."""
    rng = random.Random(ctx.seed + 16)
    found = []

    def viol(key, text, obj):
        ctx.violation(key, text, obj)
        found.append(obj)

    nodes, weights = leggauss(48)
    th = math.pi / 2 - 1e-3
    edges = [-th + 2 * th * j / 32 for j in range(33)]
    thetas, wts = [], []
    for a, b in zip(edges[:-1], edges[1:]):
        thetas += [(a + b) / 2 + (b - a) / 2 * t for t in nodes]
        wts += [(b - a) / 2 * wq for wq in weights]
    trials = []
    for trial in range(30):
        kind = ['gauss', 'lorentz', 'pvoigt'][trial % 3]
        ux, uy = rng.choice(XUNITS), rng.choice(YUNITS)
        # numeric scales at and below the lower end of the property's range (in whatever unit x has) first:
        # a raised division-by-zero floor only shows there
        s = [1e-6, 5e-6, 3e-9, 1e-12][trial // 3] if trial < 12 else kcorr.loguniform(rng, 1e-6, 1e6)
        mu = rng.choice([0.0, float(rng.randint(-8, 8)) * s])
        A = sgn(rng) * kcorr.loguniform(rng, 1e-3, 1e3)
        f = rng.choice([0.0, 1.0, 0.25, rng.random()])
        p = rng.choice(PREFIXES)
        m = {'kind': kind, 'prefix': p, 'ctor': p, 'chain': []}
        params = {p + 'amplitude': var([A], [[uy, 1], [ux, 1]]), p + 'loc': var([mu], [[ux, 1]]),
                  p + 'scale': var([s], [[ux, 1]])}
        if kind == 'pvoigt':
            params[p + 'fraction'] = var([f], [])
        trials.append((kind, ux, uy, s, mu, A, f, p, m, params))
    # 1. the fwhm each model reports
    rfs = ctx.run_impl('c16_impl.py', {'groups': [{'id': i, 'what': 'fwhm', 'model': t[8], 'params': t[9], 'x': None}
                                                   for i, t in enumerate(trials)]})['groups']
    calls = []
    for t, rf in zip(trials, rfs):
        kind, ux, uy, s, mu, A, f, p, m, params = t
        if 'result' not in rf:
            viol(f'{kind}:fwhm-raises', f'{kind}.fwhm raises {rf.get("error")}', {'group': {'model': m, 'params': params, 'what': 'fwhm'}})
            calls.append(None)
            continue
        w = _val(rf)
        ds = [0.5 * s, 1.0 * s, 2.0 * s, 4.0 * s]
        # quadrature points: x = mu + s tan(theta), theta in 32 panels over (-th, th)
        xs = [mu] + [mu + d for d in ds] + [mu - d for d in ds] + [mu + w / 2, mu - w / 2] + [mu + s * math.tan(tt) for tt in thetas]
        calls.append({'id': len(calls), 'what': 'call', 'model': m, 'params': params, 'x': var(xs, [[ux, 1]], 'float64', 'x'),
                      'w': w, 'ds': ds})
    rcs = ctx.run_impl('c16_impl.py', {'groups': [strip(c) for c in calls if c is not None]})['groups']
    rcs = iter(rcs)
    for t, g in zip(trials, calls):
        if g is None:
            continue
        r = next(rcs)
        kind, ux, uy, s, mu, A, f, p, m, params = t
        w, ds = g['w'], g['ds']
        g = strip(g)
        g['x'] = dict(g['x'], values=g['x']['values'][:11])     # the replay keeps the 11 probe points
        if 'result' not in r:
            viol(f'{kind}:call-raises', f'{kind} raises {r.get("error")} on valid parameters', {'group': g, 'error': r.get('error_text')})
            continue
        n_x = len(r['x']['values'])
        vals = [_val(r, k) for k in range(n_x)]
        xst = [kcorr.fmt(v) for v in r['x']['values']]
        peak = vals[0]
        # closed form
        for k, xv in enumerate(xst[:11]):
            want = {'gauss': gauss(A, mu, s, xv), 'lorentz': lorentz(A, mu, s, xv),
                    'pvoigt': f * lorentz(A, mu, s, xv) + (1 - f) * gauss(A, mu, s / math.sqrt(2 * math.log(2)), xv)}[kind]
            if not abs(vals[k] - want) <= 1e-9 * abs(want) + 1e-300:
                viol(f'{kind}:closed-form', f'{kind}(x={xv}) = {vals[k]} but the definition gives {want} (A={A}, loc={mu}, scale={s}, fraction={f})',
                     {'group': g, 'x': xv, 'impl': vals[k], 'definition': want})
                break
        # symmetry
        for j in range(4):
            a, b = vals[1 + j], vals[5 + j]
            if not abs(a - b) <= 1e-9 * abs(a):
                viol(f'{kind}:symmetry', f'{kind}: f(loc+d) = {a} != f(loc-d) = {b} for d = {ds[j]}', {'group': g, 'd': ds[j], 'plus': a, 'minus': b})
                break
        # half maximum with the reported FWHM
        for k in (9, 10):
            if not abs(vals[k] - peak / 2) <= 1e-7 * abs(peak):
                viol(f'{kind}:half-max', f'{kind}: f(loc +- fwhm/2) = {vals[k]} but f(loc)/2 = {peak / 2} with the reported fwhm = {w} (scale = {s}'
                     + (f', fraction = {f})' if kind == 'pvoigt' else ')'),
                     {'group': g, 'fwhm': w, 'value_at_half_width': vals[k], 'half_peak': peak / 2})
                break
        # normalisation: int f dx = int f(mu + s tan t) s / cos^2 t dt
        integral = sum(wt * v * s / math.cos(t) ** 2 for wt, v, t in zip(wts, vals[11:], thetas))
        frac_l = {'gauss': 0.0, 'lorentz': 1.0, 'pvoigt': f}[kind]
        want = A * (frac_l * 2 * th / math.pi + (1 - frac_l))
        if not abs(integral - want) <= 1e-6 * abs(A):
            viol(f'{kind}:normalisation', f'{kind} integrates to {integral} instead of its amplitude (expected {want} on the sampled range; A = {A})',
                 {'group': {k2: g[k2] for k2 in ("model", "params")}, 'integral': integral, 'expected': want, 'amplitude': A})
        # unit
        un = r['result']['unit']
        amp_u = r['params'][p + 'amplitude']['unit']
        x_u = r['x']['unit']
        if un['dims'] != [a - b for a, b in zip(amp_u['dims'], x_u['dims'])]:
            viol(f'{kind}:unit', f'{kind} result unit {un["name"]} is not unit(amplitude)/unit(x)', {'group': g, 'unit': un})
    # polynomial, composite, prefix, bad params
    for trial in range(12):
        deg = 1 + trial % 6
        ux, uy = rng.choice(XUNITS), rng.choice(YUNITS)
        cs = [float(rng.randint(-9, 9)) / 4 for _ in range(deg + 1)]
        xs = [float(rng.randint(-12, 12)) / 8 for _ in range(5)]
        p = rng.choice(PREFIXES)
        m = {'kind': 'poly', 'degree': deg, 'prefix': p, 'ctor': p, 'chain': []}
        params = {f'{p}a{i}': var([c], [[uy, 1], [ux, -i]]) for i, c in enumerate(cs)}
        g = {'id': 0, 'what': 'call', 'model': m, 'params': params, 'x': var(xs, [[ux, 1]], 'float64', 'x')}
        pg = {'kind': 'gauss', 'prefix': 'g_', 'ctor': 'g_', 'chain': []}
        gp = {'g_amplitude': var([1.5], [[uy, 1], [ux, 1]]), 'g_loc': var([0.25], [[ux, 1]]), 'g_scale': var([0.5], [[ux, 1]])}
        comp = {'kind': 'comp', 'prefix': 'c.', 'via': 'add', 'ctor': '', 'chain': ['c.'], 'left': m, 'right': pg}
        cparams = {'c.' + k: v for k, v in {**params, **gp}.items()}
        q = rng.choice([x for x in PREFIXES if x != p])
        mq = dict(m, prefix=q, ctor=rng.choice(NASTY), chain=[rng.choice(NASTY), q])
        qparams = {f'{q}a{i}': var([c], [[uy, 1], [ux, -i]]) for i, c in enumerate(cs)}
        miss = dict(params)
        del miss[f'{p}a{deg}']
        extra = dict(params, **{f'{p}a{deg + 1}': var([1.0], [[uy, 1], [ux, -deg - 1]])})
        X = g['x']
        rr = ctx.run_impl('c16_impl.py', {'groups': [
            g, {'id': 1, 'what': 'call', 'model': pg, 'params': gp, 'x': X},
            {'id': 2, 'what': 'call', 'model': comp, 'params': cparams, 'x': X},
            {'id': 3, 'what': 'call', 'model': mq, 'params': qparams, 'x': X},
            {'id': 4, 'what': 'call', 'model': m, 'params': miss, 'x': X},
            {'id': 5, 'what': 'call', 'model': m, 'params': extra, 'x': X}]})['groups']
        if any('result' not in rr[i] for i in (0, 1, 2, 3)):
            errs = [x.get('error') for x in rr[:4]]
            bad = [g, {'id': 1, 'what': 'call', 'model': pg, 'params': gp, 'x': X},
                   {'id': 2, 'what': 'call', 'model': comp, 'params': cparams, 'x': X},
                   {'id': 3, 'what': 'call', 'model': mq, 'params': qparams, 'x': X}][[i for i, e in enumerate(errs) if e][0]]
            viol('object-layer:raises', f'a valid polynomial / composite call raised {errs} (degree {deg}, coefficient i in unit(y)/unit(x)^i)',
                 {'group': strip(bad), 'errors': errs})
            continue
        for k, xv in enumerate(xs):
            exact = sum(Fraction(c) * Fraction(xv) ** i for i, c in enumerate(cs))
            if isinstance(rr[0]['result']['values'][k], str):
                viol('poly:sum', f'polynomial of degree {deg} returns {rr[0]["result"]["values"][k]} at x = {xv}', {'group': g, 'x': xv})
                break
            got = Fraction(*[int(t) for t in rr[0]['result']['values'][k]])
            if abs(got - exact) > Fraction(1, 10 ** 12) * sum(abs(Fraction(c) * Fraction(xv) ** i) for i, c in enumerate(cs)):
                viol('poly:sum', f'polynomial of degree {deg} with coefficients a_i = {cs} returns {float(got)} at x = {xv}; sum a_i x^i = {float(exact)}',
                     {'group': g, 'x': xv, 'impl': float(got), 'sum': float(exact)})
                break
            parts = _val(rr[0], k) + _val(rr[1], k)
            if abs(_val(rr[2], k) - parts) > 1e-12 * (abs(_val(rr[0], k)) + abs(_val(rr[1], k))):
                viol('composite:sum', f'composite returns {_val(rr[2], k)} but its parts sum to {parts}', {'group': comp, 'x': xv})
                break
            if rr[3]['result']['values'][k] != rr[0]['result']['values'][k]:
                viol('prefix:dependent', f'result depends on the prefix: {p!r} -> {_val(rr[0], k)}, {q!r} -> {_val(rr[3], k)}', {'group': g, 'other_prefix': q})
                break
        for i, what in ((4, 'missing'), (5, 'unknown')):
            if rr[i].get('error') != 'ValueError':
                viol(f'bad-params:{what}', f'a call with a {what} parameter is not refused with ValueError (got {rr[i].get("error") or "a value"})',
                     {'group': {'model': m, 'params': list((miss if i == 4 else extra))}})
    return found


def replay(ctx, obj):
    import json
    print(json.dumps({k: obj[k] for k in ('property', 'key', 'what')}, indent=1))
    rp = obj['replay']
    g = rp.get('group')
    if isinstance(g, dict) and 'model' in g and 'params' in g and isinstance(g['params'], dict):
        g = dict(g, id=0, what=g.get('what', 'call'), x=g.get('x'))
        r = ctx.run_impl('c16_impl.py', {'groups': [g]})['groups'][0]
        print('implementation now returns:')
        if 'result' in r:
            print(json.dumps({'unit': r['result']['unit']['name'], 'dtype': r['result']['dtype'],
                              'values': [kcorr.fmt(v) for v in r['result']['values']]}, indent=1))
        else:
            print(json.dumps({k: r.get(k) for k in ('error', 'error_text', 'construct_error')}, indent=1))
    print('recorded:', json.dumps({k: v for k, v in rp.items() if k != 'group'}, indent=1, default=str)[:3000])
    return 0
