"""C07 — kernels are unit-equivariant and keep the documented dtype contract."""
import itertools
import random
import kcorr

ID = 'C07'
LEVEL = 'proof'
STATIC_DIRS = ['C01', 'C05', 'C04']
TRANSLATE = {'modules': [
    {'py': 'src/scippneutron/_utils/__init__.py', 'coq': 'GenUtils',
     'functions': ['elem_unit', 'elem_dtype', 'float_dtype', 'as_float_type']},
    {'py': 'src/scippneutron/conversion/tof.py', 'coq': 'GenTof',
     'imports': {'elem_unit': 'GenUtils', 'elem_dtype': 'GenUtils', 'as_float_type': 'GenUtils'},
     'functions': ['_common_dtype', 'wavelength_from_tof', 'dspacing_from_tof', '_energy_constant', 'energy_from_tof',
                   '_energy_transfer_t0', 'energy_transfer_direct_from_tof', 'energy_transfer_indirect_from_tof',
                   'energy_from_wavelength', 'wavelength_from_energy', '_wavelength_Q_conversions',
                   'Q_from_wavelength', 'wavelength_from_Q', 'dspacing_from_wavelength', 'dspacing_from_energy']},
    {'py': 'src/scippneutron/tof/chopper_cascade.py', 'coq': 'GenCascade',
     'functions': ['wavelength_to_inverse_velocity', 'propagate_times']},
]}
RUN_FILES = [('C01/Tie.v', 'TieC01.v'), ('C05/Tie.v', 'TieC05.v'), ('C04/Tie.v', 'TieC04.v'), 'Tie.v', 'TieBeamline.v', 'PropertiesBeamline.v',
             'Properties.v', 'Corr.v']
GEN_FILES = ['GenBeamline.v']


def pre_build(ctx):
    """beamline.py is translated with C04's spec (its own primitive table) into a scratch directory; only
    GenBeamline.v is taken over (it needs elem_unit/elem_dtype of this run's GenUtils)"""
    import json, os, shutil, sys
    import vlib
    sys.path.insert(0, os.path.join(vlib.VERIF, 'props'))
    import C04
    tmp = os.path.join(ctx.build, 'c04_translate')
    os.makedirs(tmp, exist_ok=True)
    spec = dict(C04.TRANSLATE)
    spec['repo'] = vlib.REPO
    sp = os.path.join(tmp, 'spec.json')
    json.dump(spec, open(sp, 'w'))
    rc, out = vlib.sh([vlib.PY, os.path.join(vlib.VERIF, 'tools', 'py2coq.py'), sp, tmp], timeout=120)
    rep = json.load(open(os.path.join(tmp, 'translate_report.json')))
    bad = {q: r for q, r in rep['GenBeamline']['functions'].items() if r != 'ok'}
    if bad:
        raise RuntimeError('beamline.py: untranslated ' + json.dumps(bad))
    shutil.copy(os.path.join(tmp, 'GenBeamline.v'), os.path.join(ctx.build, 'GenBeamline.v'))
    ctx.translate_report['GenBeamline'] = rep['GenBeamline']

TRUSTED = [
    'tools/py2coq.py (syntactic translator, fail-closed)',
    'coq/Sem/Val.v: model of scipp unit algebra and dtype promotion (the promotion table itself is what the grid run validates)',
    'coq/Sem/RInst.v: multiplier equality in + - <= where is not decided over R (fail-closed); decided over Q',
    'tools/harness/kernels_impl.py + lib/kcorr.py',
]
ASSUMPTIONS = [
    'equivariance/dtype theorems cover the tof.py kernels (C01 + C05 sets); beamline/gravity kernels are covered by C03/C04 '
    'theorems of the same shape; time_at_sample_from_tof (datetime operand) and chopper_cascade helpers only by the grid run of this check if listed',
    'rounding under unit change is bounded by the correspondence tolerance (1e-12 / 2e-6; 1e-11 / 2e-5 for energy transfer), not by theorem',
]
LEVEL_TEXT = ('Proof: for all physical operands, all units (arbitrary positive multipliers) and all numeric dtypes the regenerated kernels '
              'return the same physical value in the documented unit, in float32 iff the data operand(s) are float32; wrong dimensions are refused. '
              'The full unit x dtype grid (exhaustive in the thorough tier) is run on the implementation and compared in Coq with the model.')
LEVEL_NOTE = 'Trusted: Coq kernel; std-lib real axioms; py2coq; Sem/Val.v promotion/unit model (validated by the grid); tolerance-based treatment of rounding.'
TECHNIQUE = 'Coq corollaries of per-kernel exactness lemmas on regenerated terms + exhaustive unit x dtype grid compared in Coq (vm_compute)'

M = 'scippneutron.conversion.tof:'
PHYS = {   # operand -> (kind, physical SI value)
    'tof': ('time', 0.004), 'Ltotal': ('length', 12.0), 'L1': ('length', 9.0), 'L2': ('length', 3.0),
    'wavelength': ('length', 2e-10), 'energy': ('energy', 20 * 1.602176634e-22), 'Q': ('invlength', 3e10),
    'two_theta': ('angle', 1.5707963267948966), 'incident_energy': ('energy', 20 * 1.602176634e-22),
    'final_energy': ('energy', 20 * 1.602176634e-22),
    'time': ('time', 0.004), 'distance': ('length', 12.0),
}
UNITS = {
    'time': [('s', 1.0), ('ms', 1e-3), ('us', 1e-6), ('ns', 1e-9)],
    'length': [('m', 1.0), ('mm', 1e-3), ('km', 1e3), ('angstrom', 1e-10)],
    'energy': [('meV', 1.602176634e-22), ('ueV', 1.602176634e-25), ('eV', 1.602176634e-19), ('J', 1.0)],
    'angle': [('rad', 1.0), ('deg', 0.017453292519943295)],
    'invlength': [('1/angstrom', 1e10), ('1/nm', 1e9), ('1/m', 1.0)],
}
KERNELS = {
    'wavelength_from_tof': ['tof', 'Ltotal'],
    'dspacing_from_tof': ['tof', 'Ltotal', 'two_theta'],
    'energy_from_tof': ['tof', 'Ltotal'],
    'energy_from_wavelength': ['wavelength'],
    'wavelength_from_energy': ['energy'],
    'Q_from_wavelength': ['wavelength', 'two_theta'],
    'wavelength_from_Q': ['Q', 'two_theta'],
    'dspacing_from_wavelength': ['wavelength', 'two_theta'],
    'dspacing_from_energy': ['energy', 'two_theta'],
    'energy_transfer_direct_from_tof': ['tof', 'L1', 'L2', 'incident_energy'],
    'energy_transfer_indirect_from_tof': ['tof', 'L1', 'L2', 'final_energy'],
    'wavelength_to_inverse_velocity': ['wavelength'],
    'propagate_times': ['time', 'wavelength', 'distance'],
}
CASCADE = {'wavelength_to_inverse_velocity', 'propagate_times'}
DTYPES = ['float64', 'float32', 'int64', 'int32']


def operand(kind, si, unit, dtype):
    v = si / unit[1]
    if dtype.startswith('int'):
        r = round(v)
        if r < 1 or r > 30000 or abs(r - v) > 1e-9 * abs(v):
            return None          # not an integer in this unit: combination not meaningful
        return {'values': [int(r)], 'unit': unit[0], 'dtype': dtype, 'dim': None}
    return {'values': [float(v).hex()], 'unit': unit[0], 'dtype': dtype, 'dim': None}


def grid(kname):
    order = KERNELS[kname]
    axes = []
    for nm in order:
        kind, si = PHYS[nm]
        axes.append([(u, d) for u in UNITS[kind] for d in DTYPES])
    for combo in itertools.product(*axes):
        ops = {}
        ok = True
        for nm, (u, d) in zip(order, combo):
            o = operand(PHYS[nm][0], PHYS[nm][1], u, d)
            if o is None:
                ok = False
                break
            ops[nm] = o
        if ok:
            yield ops


def correspondence(ctx):
    rng = random.Random(ctx.seed)
    groups = []
    per_kernel_total = {}
    for kname in KERNELS:
        allc = list(grid(kname))
        per_kernel_total[kname] = len(allc)
        if ctx.tier == 'quick':
            allc = rng.sample(allc, min(len(allc), 70))
        for ops in allc:
            groups.append({'id': len(groups), 'kname': kname, 'operands': ops,
                           'expr': ({'call': 'scippneutron.tof.chopper_cascade:' + kname, 'pos': ['$' + nm for nm in KERNELS[kname]]}
                                    if kname in CASCADE else
                                    {'call': M + kname, 'args': {nm: '$' + nm for nm in KERNELS[kname]}})})
    # twin of every group that has a float32 operand: the same call with those operands in float64
    # (used only to classify a single-precision failure as a float32 RANGE problem, see below)
    for g in list(groups):
        if any(o['dtype'] == 'float32' for o in g['operands'].values()):
            ops = {k: dict(o, dtype='float64') if o['dtype'] == 'float32' else o for k, o in g['operands'].items()}
            groups.append({'id': len(groups), 'kname': g['kname'], 'operands': ops, 'expr': g['expr'], 'twin_of': g['id']})
    res = ctx.run_impl('kernels_impl.py', {'groups': [{k: g[k] for k in ('id', 'expr', 'operands')} for g in groups]}, timeout=3000)
    h, mn = res['constants']['h']['value'], res['constants']['m_n']['value']
    terms, descs = [], []
    by_phys = {}
    n_err = 0
    for g, r in zip(groups, res['groups']):
        if 'build_error' in r:
            continue
        # accuracy promised by the RESULT's precision class
        any32 = (r.get('result') or {}).get('dtype') == 'float32'
        et = g['kname'].startswith('energy_transfer')
        tol = ('(1 # 100000000000)' if et else '(1 # 1000000000000)') if not any32 else ('(2 # 100000)' if et else '(2 # 1000000)')
        for t, d in kcorr.element_cases(g['kname'], KERNELS[g['kname']], g, r, tol):
            terms.append(t)
            d['gid'] = g['id']
            d['twin_of'] = g.get('twin_of')
            descs.append(d)
            if g.get('twin_of') is not None:
                continue
            if isinstance(d['impl'], str):
                n_err += 1
            elif not isinstance(d['impl']['value'], str):
                # implementation-side statement of the property: same physical result for every unit choice
                rr = r['result']
                from fractions import Fraction
                phys = float(Fraction(int(rr['values'][0][0]), int(rr['values'][0][1])) *
                             Fraction(int(rr['unit']['mult'][0]), int(rr['unit']['mult'][1])))
                key = (g['kname'], tuple(o['dtype'] for o in g['operands'].values()))
                # float32 OPERANDS store slightly different physical inputs in different units
                in32 = any32 or any(o['dtype'] == 'float32' for o in g['operands'].values())
                by_phys.setdefault(key, []).append((phys, d, in32, et))
    for key, lst in by_phys.items():
        ref = lst[0][0]
        for phys, d, any32, et in lst[1:]:
            tol = (2e-5 if et else 4e-6) if any32 else (2e-11 if et else 2e-12)
            if abs(phys - ref) > tol * abs(ref):
                ctx.violation(f'{key[0]}:equivariance', f'{key[0]}: physical result changes with the unit of an operand: {ref} vs {phys}',
                              {'reference': lst[0][1], 'case': d})
                break
    header = ('From Coq Require Import QArith ZArith String List.\n'
              'From Verif.Sem Require Import Field Val QInst Corr.\nFrom Run Require Import Corr.\n'
              'Import ListNotations.\nOpen Scope string_scope.\n'
              f'Definition H : Q := {kcorr.q(h)}.\nDefinition MN : Q := {kcorr.q(mn)}.\n')
    fails, errors = ctx.coq_eval_shards(header, terms, lambda k: 'Eval vm_compute in (report (map (check H MN) cases)).\n')
    for name, e in errors:
        ctx.violation('corr-shard-error', f'correspondence shard {name} did not evaluate: {e[:300]}', {'shard': name, 'error': e}, found_input=False)
    twin_failed = {descs[i]['twin_of'] for i in fails if descs[i]['twin_of'] is not None}
    has_twin = {d['twin_of'] for d in descs if d['twin_of'] is not None}
    for i, why in sorted(fails.items()):
        d = descs[i]
        if d['twin_of'] is not None:
            continue      # a failing twin is reported through its original below (or is itself a float64 grid point)
        if d['gid'] in has_twin and d['gid'] not in twin_failed and why.split(':')[0] in ('value', 'model-NaN', 'impl-NaN', 'impl-infinite'):
            # wrong in single precision, right when the very same operands are given in double precision:
            # an intermediate (typically the folded constant) leaves the float32 range
            ctx.violation(f'{d["kernel"]}:float32-range',
                          f'{d["kernel"]}: single-precision operands in these units give a wrong result ({why}); '
                          f'the same call in double precision is right: {d}', {'case': d, 'reason': why})
            continue
        key = f'{d["kernel"]}:{why.split(":")[0]}'
        if why == 'value-single-precision-level':
            pass   # one class per kernel: a float64 result that is only single-precision accurate
        ctx.violation(key, f'{d["kernel"]}: implementation differs from the model ({why}) on {d}', {'case': d, 'reason': why})
    ctx.coverage.update({
        'evaluations': len(terms),
        'float64_twins': sum(1 for d in descs if d['twin_of'] is not None),
        'distinct_nontrivial': len({d['kernel'] + repr(d['operands']) for d in descs if not isinstance(d['impl'], str)}),
        'rule': 'Cartesian grid per kernel of unit choice x dtype {float64,float32,int64,int32} per argument at one physical point '
                '(integer dtypes only in units where the value is an integer <= 3e4); quick = 70 random grid points per kernel, '
                'thorough = the whole grid; non-trivial = the implementation returned a value (refusals are compared as refusals)',
        'exhaustive': ctx.tier == 'thorough',
        'grid_size_per_kernel': per_kernel_total,
        'refused_by_both': n_err,
        'samples': descs[:2] + descs[-2:],
        'disagreements': len(fails),
    })
    ctx.coverage['geometry_kernel_unit_variants'] = geometry_equivariance(ctx, rng)


# ---- geometry kernels (beamline.py): the equivariance statement evaluated on the implementation.  Their model-side
# theorems are C07/PropertiesBeamline.v (on this run's GenBeamline); their value correspondence is C03/C04's.
BL = 'scippneutron.conversion.beamline:'
LEN_U = [('m', 1.0), ('mm', 1e-3), ('cm', 1e-2), ('km', 1e3)]
WL_U = [('angstrom', 1e-10), ('nm', 1e-9), ('m', 1.0), ('mm', 1e-3), ('um', 1e-6)]
G_U = [('m/s^2', 1.0), ('mm/s^2', 1e-3), ('cm/s^2', 1e-2), ('m/ms^2', 1e6)]


def _vec(si, unit, dim=None):
    rows = si if isinstance(si[0], (list, tuple)) else [si]
    return {'values': [[float(c / unit[1]).hex() for c in row] for row in rows], 'unit': unit[0], 'dtype': 'vector3', 'dim': dim}


def geometry_groups(rng, n_per_kernel):
    """unit variants (same physical operands) of the geometry kernels; every kernel gets the all-SI variant
    (wavelength in m, beams in m, gravity in m/s^2: every internal conversion is a no-op) and random ones"""
    import math
    groups = []
    tilt = rng.choice([0.0, 0.0, 1e-3, 0.3])
    b1 = [0.0, math.sin(tilt), math.cos(tilt)]        # unit incident beam, tilted out of the horizontal by tilt
    b1 = [c * 7.5 for c in b1]
    b2s = [[0.3, 0.4, 2.0], [-0.5, 0.25, 1.5], [0.1, -0.6, 0.8]]
    g = [0.0, -9.80665, 0.0]
    wls = [1.8e-10, 6.0e-10, 25e-10]
    src, smp = [0.0, 0.0, -7.5], [0.0, 0.0, 0.0]
    poss = [[0.3, 0.4, 2.0], [-0.5, 0.25, 1.5], [0.1, -0.6, 0.8]]

    def variants(kname, build):
        combos = [(LEN_U[0], WL_U[2], G_U[0], 'float64'), (LEN_U[1], WL_U[3], G_U[1], 'float64')]
        while len(combos) < n_per_kernel:
            combos.append((rng.choice(LEN_U), rng.choice(WL_U), rng.choice(G_U), rng.choice(['float64', 'float64', 'float32'])))
        for lu, wu, gu, wdt in combos:
            ops, expr = build(lu, wu, gu, wdt)
            groups.append({'id': len(groups), 'kname': kname, 'operands': ops, 'expr': expr,
                           'variant': {'length': lu[0], 'wavelength': wu[0], 'gravity': gu[0], 'wavelength_dtype': wdt}})

    def wl_op(wu, wdt):
        return {'values': [float(w / wu[1]).hex() for w in wls], 'unit': wu[0], 'dtype': wdt, 'dim': 'x'}

    for key in ('two_theta', 'phi'):
        if tilt == 0.0 or key == 'two_theta':
            variants('scattering_angles_with_gravity.' + key, lambda lu, wu, gu, wdt, key=key: (
                {'incident_beam': _vec(b1, lu), 'scattered_beam': _vec(b2s, lu, 'x'), 'wavelength': wl_op(wu, wdt), 'gravity': _vec(g, gu)},
                {'call': BL + 'scattering_angles_with_gravity', 'get': key,
                 'args': {k: '$' + k for k in ('incident_beam', 'scattered_beam', 'wavelength', 'gravity')}}))
    if tilt == 0.0:
        variants('scattering_angle_in_yz_plane', lambda lu, wu, gu, wdt: (
            {'incident_beam': _vec(b1, lu), 'scattered_beam': _vec(b2s, lu, 'x'), 'wavelength': wl_op(wu, wdt), 'gravity': _vec(g, gu)},
            {'call': BL + 'scattering_angle_in_yz_plane',
             'args': {k: '$' + k for k in ('incident_beam', 'scattered_beam', 'wavelength', 'gravity')}}))
    variants('two_theta', lambda lu, wu, gu, wdt: (
        {'incident_beam': _vec(b1, lu), 'scattered_beam': _vec(b2s, rng.choice(LEN_U), 'x')},
        {'call': BL + 'two_theta', 'args': {'incident_beam': '$incident_beam', 'scattered_beam': '$scattered_beam'}}))
    for kname, args in (('L1', ['source_position', 'sample_position']), ('L2', ['position', 'sample_position']),
                        ('total_straight_beam_length_no_scatter', ['source_position', 'position'])):
        def build(lu, wu, gu, wdt, args=args, kname=kname):
            ops = {}
            for a in args:
                si = {'source_position': src, 'sample_position': smp, 'position': poss}[a]
                ops[a] = _vec(si, lu, 'x' if a == 'position' else None)
            return ops, {'call': BL + kname, 'args': {a: '$' + a for a in args}}
        variants(kname, build)
    return groups


def geometry_equivariance(ctx, rng):
    """returns the number of evaluated variants; reports kernels whose physical result or output unit depends on
    the units of the operands (the repeat / in-place-update checks of the harness run on every variant as well)"""
    from fractions import Fraction
    groups = geometry_groups(rng, 6 if ctx.tier == 'quick' else 40)
    res = ctx.run_impl('kernels_impl.py', {'groups': [{k: g[k] for k in ('id', 'expr', 'operands')} for g in groups]}, timeout=3000)
    by_kernel = {}
    for g, r in zip(groups, res['groups']):
        d = {'kernel': g['kname'], 'variant': g['variant']}
        if 'result' not in r:
            d['error'] = r.get('error') or r.get('build_error')
            by_kernel.setdefault(g['kname'], []).append((None, d, False))
            continue
        rr = r['result']
        mult = Fraction(int(rr['unit']['mult'][0]), int(rr['unit']['mult'][1]))
        vals = [float(Fraction(int(v[0]), int(v[1])) * mult) if not isinstance(v, str) else v for v in rr['values']]
        d.update({'values_si': vals, 'unit': rr['unit']['name'], 'dtype': rr['dtype']})
        by_kernel.setdefault(g['kname'], []).append((vals, d, g['variant']['wavelength_dtype'] == 'float32'))
    n = 0
    for kname, lst in by_kernel.items():
        ref = next((x for x in lst if x[0] is not None and not x[2]), None)
        for vals, d, is32 in lst:
            n += 1
            if ref is None:
                continue
            if vals is None:
                ctx.violation(f'{kname}:geometry-refused', f'{kname} refuses operands in compatible units ({d.get("error")}) that it accepts in other units: {d}',
                              {'case': d, 'reference': ref[1]})
                continue
            angle = not kname.startswith(('L1', 'L2', 'total'))
            tol = (2e-6 if is32 else 1e-12)
            bad = any(isinstance(a, str) != isinstance(b, str) or
                      (not isinstance(a, str) and abs(a - b) > tol * (1.0 if angle else max(abs(b), 1e-300)))
                      for a, b in zip(vals, ref[0]))
            if bad or len(vals) != len(ref[0]):
                ctx.violation(f'{kname}:geometry-equivariance',
                              f'{kname}: the physical result depends on the units of the operands: {vals} ({d["variant"]}) vs {ref[0]} ({ref[1]["variant"]})',
                              {'case': d, 'reference': ref[1]})
            if angle and d['unit'] != 'rad':
                ctx.violation(f'{kname}:geometry-output-unit', f'{kname}: output unit {d["unit"]} is not rad: {d}', {'case': d})
    return n


DATA_OPERANDS = {
    'wavelength_from_tof': ['tof'], 'dspacing_from_tof': ['tof'], 'energy_from_tof': ['tof'],
    'energy_from_wavelength': ['wavelength'], 'wavelength_from_energy': ['energy'],
    'Q_from_wavelength': ['wavelength'], 'wavelength_from_Q': ['Q'],
    'dspacing_from_wavelength': ['wavelength'], 'dspacing_from_energy': ['energy'],
    'energy_transfer_direct_from_tof': ['tof', 'incident_energy'],
    'energy_transfer_indirect_from_tof': ['tof', 'final_energy'],
}
DOC_UNIT = {   # documented output unit as (multiplier, which operand's unit it follows or None)
    'wavelength_from_tof': 1e-10, 'dspacing_from_tof': 1e-10, 'wavelength_from_energy': 1e-10, 'wavelength_from_Q': 1e-10,
    'dspacing_from_wavelength': 1e-10, 'dspacing_from_energy': 1e-10,
    'energy_from_tof': 1.602176634e-22, 'energy_from_wavelength': 1.602176634e-22,
}


def search(ctx, broken):
    """the property statement itself on the implementation: result dtype is float32 iff all DATA operands are
    float32 (float64 otherwise) and the output unit is the documented one, over a sample of the grid"""
    from fractions import Fraction
    rng = random.Random(ctx.seed + 7)
    n0 = len(ctx.violations)
    geometry_equivariance(ctx, rng)
    groups = []
    for kname in DATA_OPERANDS:
        allc = list(grid(kname))
        for ops in rng.sample(allc, min(len(allc), 120)):
            groups.append({'id': len(groups), 'kname': kname, 'operands': ops,
                           'expr': {'call': M + kname, 'args': {nm: '$' + nm for nm in KERNELS[kname]}}})
    res = ctx.run_impl('kernels_impl.py', {'groups': [{k: g[k] for k in ('id', 'expr', 'operands')} for g in groups]}, timeout=3000)
    found = []
    for g, r in zip(groups, res['groups']):
        if 'result' not in r:
            continue
        k = g['kname']
        want = 'float32' if all(g['operands'][n]['dtype'] == 'float32' for n in DATA_OPERANDS[k]) else 'float64'
        got = r['result']['dtype']
        d = {'kernel': k, 'operands': {n: kcorr.describe(r['operands'][n], 0) for n in KERNELS[k]}, 'result_dtype': got,
             'result_unit': r['result']['unit']['name']}
        if got != want:
            ctx.violation(f'{k}:dtype-contract', f'{k}: result dtype {got} where the documented contract gives {want}: {d}', d)
            found.append(d)
        if k in DOC_UNIT:
            m = r['result']['unit']['mult']
            mult = float(Fraction(int(m[0]), int(m[1])))
            if abs(mult - DOC_UNIT[k]) > 1e-12 * DOC_UNIT[k]:
                ctx.violation(f'{k}:output-unit', f'{k}: output unit {d["result_unit"]} is not the documented one: {d}', d)
                found.append(d)
    found += [v.key for v in ctx.violations[n0:] if v.found_input and v.key not in found]
    return found


def replay(ctx, obj):
    import json
    print(json.dumps(obj, indent=1))
    return 0
