"""C07 — kernels are unit-equivariant and keep the documented dtype contract."""
import itertools
import random
import kcorr

ID = 'C07'
LEVEL = 'proof'
STATIC_DIRS = ['C01', 'C05', 'C04']
TRANSLATE = {'modules': [
    {'py': 'src/scippneutron/_utils/__init__.py', 'coq': 'GenUtils',
     'functions': ['elem_unit', 'elem_dtype', 'float_dtype', 'as_float_type']},
    {'py': 'src/scippneutron/conversion/tof.py', 'coq': 'GenTof',
     'imports': {'elem_unit': 'GenUtils', 'elem_dtype': 'GenUtils', 'as_float_type': 'GenUtils'},
     'functions': ['_common_dtype', 'wavelength_from_tof', 'dspacing_from_tof', '_energy_constant', 'energy_from_tof',
                   '_energy_transfer_t0', 'energy_transfer_direct_from_tof', 'energy_transfer_indirect_from_tof',
                   'energy_from_wavelength', 'wavelength_from_energy', '_wavelength_Q_conversions',
                   'Q_from_wavelength', 'wavelength_from_Q', 'dspacing_from_wavelength', 'dspacing_from_energy']},
    {'py': 'src/scippneutron/tof/chopper_cascade.py', 'coq': 'GenCascade',
     'functions': ['wavelength_to_inverse_velocity', 'propagate_times']},
]}
RUN_FILES = [('C01/Tie.v', 'TieC01.v'), ('C05/Tie.v', 'TieC05.v'), ('C04/Tie.v', 'TieC04.v'), 'Tie.v', 'TieBeamline.v', 'PropertiesBeamline.v',
             'Properties.v', 'Corr.v']
GEN_FILES = ['GenBeamline.v']


def pre_build(ctx):
    """beamline.py is translated with C04's spec (its own primitive table) into a scratch directory; only
    GenBeamline.v is taken over (it needs elem_unit/elem_dtype of this run's GenUtils)"""
    import json, os, shutil, sys
    import vlib
    sys.path.insert(0, os.path.join(vlib.VERIF, 'props'))
    import C04
    tmp = os.path.join(ctx.build, 'c04_translate')
    os.makedirs(tmp, exist_ok=True)
    spec = dict(C04.TRANSLATE)
    spec['repo'] = vlib.REPO
    sp = os.path.join(tmp, 'spec.json')
    json.dump(spec, open(sp, 'w'))
    rc, out = vlib.sh([vlib.PY, os.path.join(vlib.VERIF, 'tools', 'py2coq.py'), sp, tmp], timeout=120)
    rep = json.load(open(os.path.join(tmp, 'translate_report.json')))
    bad = {q: r for q, r in rep['GenBeamline']['functions'].items() if r != 'ok'}
    if bad:
        raise RuntimeError('beamline.py: untranslated ' + json.dumps(bad))
    shutil.copy(os.path.join(tmp, 'GenBeamline.v'), os.path.join(ctx.build, 'GenBeamline.v'))
    ctx.translate_report['GenBeamline'] = rep['GenBeamline']

TRUSTED = [
    'tools/py2coq.py (syntactic translator, fail-closed)',
    'coq/Sem/Val.v: model of scipp unit algebra and dtype promotion (the promotion table itself is what the grid run validates)',
    'coq/Sem/RInst.v: multiplier equality in + - <= where is not decided over R (fail-closed); decided over Q',
    'tools/harness/kernels_impl.py + lib/kcorr.py',
    'tools/harness/c07_layouts.py (runner for calls on operands of arbitrary layouts)',
]
ASSUMPTIONS = [
    'equivariance/dtype theorems cover the tof.py kernels (C01 + C05 sets); beamline/gravity kernels are covered by C03/C04 '
    'theorems of the same shape; time_at_sample_from_tof (datetime operand) and chopper_cascade helpers only by the grid run of this check if listed',
    'rounding under unit change is bounded by the correspondence tolerance (1e-12 / 2e-6; 1e-11 / 2e-5 for energy transfer), not by theorem',
]
LEVEL_TEXT = ('Proof: for all physical operands, all units (arbitrary positive multipliers) and all numeric dtypes the regenerated kernels '
              'return the same physical value in the documented unit, in float32 iff the data operand(s) are float32; wrong dimensions are refused. '
              'The full unit x dtype grid (exhaustive in the thorough tier) is run on the implementation and compared in Coq with the model.')
LEVEL_NOTE = 'Trusted: Coq kernel; std-lib real axioms; py2coq; Sem/Val.v promotion/unit model (validated by the grid); tolerance-based treatment of rounding.'
TECHNIQUE = 'Coq corollaries of per-kernel exactness lemmas on regenerated terms + exhaustive unit x dtype grid compared in Coq (vm_compute)'

M = 'scippneutron.conversion.tof:'
PHYS = {   # operand -> (kind, physical SI value)
    'tof': ('time', 0.004), 'Ltotal': ('length', 12.0), 'L1': ('length', 9.0), 'L2': ('length', 3.0),
    'wavelength': ('length', 2e-10), 'energy': ('energy', 20 * 1.602176634e-22), 'Q': ('invlength', 3e10),
    'two_theta': ('angle', 1.5707963267948966), 'incident_energy': ('energy', 20 * 1.602176634e-22),
    'final_energy': ('energy', 20 * 1.602176634e-22),
    'time': ('time', 0.004), 'distance': ('length', 12.0),
}
UNITS = {
    'time': [('s', 1.0), ('ms', 1e-3), ('us', 1e-6), ('ns', 1e-9)],
    'length': [('m', 1.0), ('mm', 1e-3), ('km', 1e3), ('angstrom', 1e-10)],
    'energy': [('meV', 1.602176634e-22), ('ueV', 1.602176634e-25), ('eV', 1.602176634e-19), ('J', 1.0)],
    'angle': [('rad', 1.0), ('deg', 0.017453292519943295)],
    'invlength': [('1/angstrom', 1e10), ('1/nm', 1e9), ('1/m', 1.0)],
}
KERNELS = {
    'wavelength_from_tof': ['tof', 'Ltotal'],
    'dspacing_from_tof': ['tof', 'Ltotal', 'two_theta'],
    'energy_from_tof': ['tof', 'Ltotal'],
    'energy_from_wavelength': ['wavelength'],
    'wavelength_from_energy': ['energy'],
    'Q_from_wavelength': ['wavelength', 'two_theta'],
    'wavelength_from_Q': ['Q', 'two_theta'],
    'dspacing_from_wavelength': ['wavelength', 'two_theta'],
    'dspacing_from_energy': ['energy', 'two_theta'],
    'energy_transfer_direct_from_tof': ['tof', 'L1', 'L2', 'incident_energy'],
    'energy_transfer_indirect_from_tof': ['tof', 'L1', 'L2', 'final_energy'],
    'wavelength_to_inverse_velocity': ['wavelength'],
    'propagate_times': ['time', 'wavelength', 'distance'],
}
CASCADE = {'wavelength_to_inverse_velocity', 'propagate_times'}
DTYPES = ['float64', 'float32', 'int64', 'int32']


def operand(kind, si, unit, dtype):
    v = si / unit[1]
    if dtype.startswith('int'):
        r = round(v)
        if r < 1 or r > 30000 or abs(r - v) > 1e-9 * abs(v):
            return None          # not an integer in this unit: combination not meaningful
        return {'values': [int(r)], 'unit': unit[0], 'dtype': dtype, 'dim': None}
    return {'values': [float(v).hex()], 'unit': unit[0], 'dtype': dtype, 'dim': None}


def grid(kname):
    order = KERNELS[kname]
    axes = []
    for nm in order:
        kind, si = PHYS[nm]
        axes.append([(u, d) for u in UNITS[kind] for d in DTYPES])
    for combo in itertools.product(*axes):
        ops = {}
        ok = True
        for nm, (u, d) in zip(order, combo):
            o = operand(PHYS[nm][0], PHYS[nm][1], u, d)
            if o is None:
                ok = False
                break
            ops[nm] = o
        if ok:
            yield ops


def correspondence(ctx):
    rng = random.Random(ctx.seed)
    groups = []
    per_kernel_total = {}
    for kname in KERNELS:
        allc = list(grid(kname))
        per_kernel_total[kname] = len(allc)
        if ctx.tier == 'quick':
            allc = rng.sample(allc, min(len(allc), 70))
        for ops in allc:
            groups.append({'id': len(groups), 'kname': kname, 'operands': ops,
                           'expr': ({'call': 'scippneutron.tof.chopper_cascade:' + kname, 'pos': ['$' + nm for nm in KERNELS[kname]]}
                                    if kname in CASCADE else
                                    {'call': M + kname, 'args': {nm: '$' + nm for nm in KERNELS[kname]}})})
    # twin of every group that has a float32 operand: the same call with those operands in float64
    # (used only to classify a single-precision failure as a float32 RANGE problem, see below)
    for g in list(groups):
        if any(o['dtype'] == 'float32' for o in g['operands'].values()):
            ops = {k: dict(o, dtype='float64') if o['dtype'] == 'float32' else o for k, o in g['operands'].items()}
            groups.append({'id': len(groups), 'kname': g['kname'], 'operands': ops, 'expr': g['expr'], 'twin_of': g['id']})
    res = ctx.run_impl('kernels_impl.py', {'groups': [{k: g[k] for k in ('id', 'expr', 'operands')} for g in groups]}, timeout=3000)
    h, mn = res['constants']['h']['value'], res['constants']['m_n']['value']
    terms, descs = [], []
    by_phys = {}
    n_err = 0
    for g, r in zip(groups, res['groups']):
        if 'build_error' in r:
            continue
        # accuracy promised by the RESULT's precision class
        any32 = (r.get('result') or {}).get('dtype') == 'float32'
        et = g['kname'].startswith('energy_transfer')
        tol = ('(1 # 100000000000)' if et else '(1 # 1000000000000)') if not any32 else ('(2 # 100000)' if et else '(2 # 1000000)')
        for t, d in kcorr.element_cases(g['kname'], KERNELS[g['kname']], g, r, tol):
            terms.append(t)
            d['gid'] = g['id']
            d['twin_of'] = g.get('twin_of')
            descs.append(d)
            if g.get('twin_of') is not None:
                continue
            if isinstance(d['impl'], str):
                n_err += 1
            elif not isinstance(d['impl']['value'], str):
                # implementation-side statement of the property: same physical result for every unit choice
                rr = r['result']
                from fractions import Fraction
                phys = float(Fraction(int(rr['values'][0][0]), int(rr['values'][0][1])) *
                             Fraction(int(rr['unit']['mult'][0]), int(rr['unit']['mult'][1])))
                key = (g['kname'], tuple(o['dtype'] for o in g['operands'].values()))
                # float32 OPERANDS store slightly different physical inputs in different units
                in32 = any32 or any(o['dtype'] == 'float32' for o in g['operands'].values())
                by_phys.setdefault(key, []).append((phys, d, in32, et))
    # physical value of the float64 twin of every group that has float32 operands (same call, those operands in double)
    twin_phys = {}
    for g, r in zip(groups, res['groups']):
        if g.get('twin_of') is not None and 'result' in r and not isinstance(r['result']['values'][0], str):
            rr = r['result']
            from fractions import Fraction
            twin_phys[g['twin_of']] = float(Fraction(int(rr['values'][0][0]), int(rr['values'][0][1])) *
                                            Fraction(int(rr['unit']['mult'][0]), int(rr['unit']['mult'][1])))
    for key, lst in by_phys.items():
        # reference: a case whose float64 twin (if it has one) agrees with it, so that a float32 RANGE failure (known
        # finding '<kernel>:float32-range': the folded constant leaves the float32 range in some units) is never the yardstick
        def sane(item):
            phys, d, any32, et = item
            tp = twin_phys.get(d['gid'])
            return tp is None or abs(phys - tp) <= (2e-5 if et else 4e-6) * abs(tp)
        ref_item = next((it for it in lst if sane(it)), lst[0])
        ref = ref_item[0]
        for phys, d, any32, et in lst:
            if d is ref_item[1]:
                continue
            tol = (2e-5 if et else 4e-6) if any32 else (2e-11 if et else 2e-12)
            if abs(phys - ref) > tol * abs(ref):
                tp = twin_phys.get(d['gid'])
                if tp is not None and abs(tp - ref) <= (2e-5 if et else 4e-6) * abs(ref):
                    # wrong only in single precision, right when the same operands are given in double precision
                    ctx.violation(f'{key[0]}:float32-range',
                                  f'{key[0]}: single-precision operands in these units give another physical result ({phys}) than the '
                                  f'same call in double precision and than other unit choices ({ref}): {d}', {'case': d, 'reference': ref_item[1]})
                    continue
                ctx.violation(f'{key[0]}:equivariance', f'{key[0]}: physical result changes with the unit of an operand: {ref} vs {phys}',
                              {'reference': ref_item[1], 'case': d})
                break
    header = ('From Coq Require Import QArith ZArith String List.\n'
              'From Verif.Sem Require Import Field Val QInst Corr.\nFrom Run Require Import Corr.\n'
              'Import ListNotations.\nOpen Scope string_scope.\n'
              f'Definition H : Q := {kcorr.q(h)}.\nDefinition MN : Q := {kcorr.q(mn)}.\n')
    fails, errors = ctx.coq_eval_shards(header, terms, lambda k: 'Eval vm_compute in (report (map (check H MN) cases)).\n')
    for name, e in errors:
        ctx.violation('corr-shard-error', f'correspondence shard {name} did not evaluate: {e[:300]}', {'shard': name, 'error': e}, found_input=False)
    twin_failed = {descs[i]['twin_of'] for i in fails if descs[i]['twin_of'] is not None}
    has_twin = {d['twin_of'] for d in descs if d['twin_of'] is not None}
    for i, why in sorted(fails.items()):
        d = descs[i]
        if d['twin_of'] is not None:
            continue      # a failing twin is reported through its original below (or is itself a float64 grid point)
        if d['gid'] in has_twin and d['gid'] not in twin_failed and why.split(':')[0] in ('value', 'model-NaN', 'impl-NaN', 'impl-infinite'):
            # wrong in single precision, right when the very same operands are given in double precision:
            # an intermediate (typically the folded constant) leaves the float32 range
            ctx.violation(f'{d["kernel"]}:float32-range',
                          f'{d["kernel"]}: single-precision operands in these units give a wrong result ({why}); '
                          f'the same call in double precision is right: {d}', {'case': d, 'reason': why})
            continue
        key = f'{d["kernel"]}:{why.split(":")[0]}'
        if why == 'value-single-precision-level':
            pass   # one class per kernel: a float64 result that is only single-precision accurate
        ctx.violation(key, f'{d["kernel"]}: implementation differs from the model ({why}) on {d}', {'case': d, 'reason': why})
    ctx.coverage.update({
        'evaluations': len(terms),
        'float64_twins': sum(1 for d in descs if d['twin_of'] is not None),
        'distinct_nontrivial': len({d['kernel'] + repr(d['operands']) for d in descs if not isinstance(d['impl'], str)}),
        'rule': 'Cartesian grid per kernel of unit choice x dtype {float64,float32,int64,int32} per argument at one physical point '
                '(integer dtypes only in units where the value is an integer <= 3e4); quick = 70 random grid points per kernel, '
                'thorough = the whole grid; non-trivial = the implementation returned a value (refusals are compared as refusals)',
        'exhaustive': ctx.tier == 'thorough',
        'grid_size_per_kernel': per_kernel_total,
        'refused_by_both': n_err,
        'samples': descs[:2] + descs[-2:],
        'disagreements': len(fails),
    })
    ctx.coverage['geometry_kernel_unit_variants'] = geometry_equivariance(ctx, rng)
    ctx.coverage.update(layout_sweep(ctx, rng))
    ctx.coverage.update(near_orthogonal_sweep(ctx, random.Random(ctx.seed + 11), 14, 4))


# ---- geometry kernels (beamline.py): the equivariance statement evaluated on the implementation.  Their model-side
# theorems are C07/PropertiesBeamline.v (on this run's GenBeamline); their value correspondence is C03/C04's.
BL = 'scippneutron.conversion.beamline:'
LEN_U = [('m', 1.0), ('mm', 1e-3), ('cm', 1e-2), ('km', 1e3)]
WL_U = [('angstrom', 1e-10), ('nm', 1e-9), ('m', 1.0), ('mm', 1e-3), ('um', 1e-6)]
G_U = [('m/s^2', 1.0), ('mm/s^2', 1e-3), ('cm/s^2', 1e-2), ('m/ms^2', 1e6)]


def _vec(si, unit, dim=None):
    rows = si if isinstance(si[0], (list, tuple)) else [si]
    return {'values': [[float(c / unit[1]).hex() for c in row] for row in rows], 'unit': unit[0], 'dtype': 'vector3', 'dim': dim}


def geometry_groups(rng, n_per_kernel):
    """unit variants (same physical operands) of the geometry kernels; every kernel gets the all-SI variant
    (wavelength in m, beams in m, gravity in m/s^2: every internal conversion is a no-op) and random ones"""
    import math
    groups = []
    tilt = rng.choice([0.0, 0.0, 1e-3, 0.3])
    b1 = [0.0, math.sin(tilt), math.cos(tilt)]        # unit incident beam, tilted out of the horizontal by tilt
    b1 = [c * 7.5 for c in b1]
    b2s = [[0.3, 0.4, 2.0], [-0.5, 0.25, 1.5], [0.1, -0.6, 0.8]]
    g = [0.0, -9.80665, 0.0]
    wls = [1.8e-10, 6.0e-10, 25e-10]
    src, smp = [0.0, 0.0, -7.5], [0.0, 0.0, 0.0]
    poss = [[0.3, 0.4, 2.0], [-0.5, 0.25, 1.5], [0.1, -0.6, 0.8]]

    def variants(kname, build):
        combos = [(LEN_U[0], WL_U[2], G_U[0], 'float64'), (LEN_U[1], WL_U[3], G_U[1], 'float64')]
        while len(combos) < n_per_kernel:
            combos.append((rng.choice(LEN_U), rng.choice(WL_U), rng.choice(G_U), rng.choice(['float64', 'float64', 'float32'])))
        for lu, wu, gu, wdt in combos:
            ops, expr = build(lu, wu, gu, wdt)
            groups.append({'id': len(groups), 'kname': kname, 'operands': ops, 'expr': expr,
                           'variant': {'length': lu[0], 'wavelength': wu[0], 'gravity': gu[0], 'wavelength_dtype': wdt}})

    def wl_op(wu, wdt):
        return {'values': [float(w / wu[1]).hex() for w in wls], 'unit': wu[0], 'dtype': wdt, 'dim': 'x'}

    for key in ('two_theta', 'phi'):
        if tilt == 0.0 or key == 'two_theta':
            variants('scattering_angles_with_gravity.' + key, lambda lu, wu, gu, wdt, key=key: (
                {'incident_beam': _vec(b1, lu), 'scattered_beam': _vec(b2s, lu, 'x'), 'wavelength': wl_op(wu, wdt), 'gravity': _vec(g, gu)},
                {'call': BL + 'scattering_angles_with_gravity', 'get': key,
                 'args': {k: '$' + k for k in ('incident_beam', 'scattered_beam', 'wavelength', 'gravity')}}))
    if tilt == 0.0:
        variants('scattering_angle_in_yz_plane', lambda lu, wu, gu, wdt: (
            {'incident_beam': _vec(b1, lu), 'scattered_beam': _vec(b2s, lu, 'x'), 'wavelength': wl_op(wu, wdt), 'gravity': _vec(g, gu)},
            {'call': BL + 'scattering_angle_in_yz_plane',
             'args': {k: '$' + k for k in ('incident_beam', 'scattered_beam', 'wavelength', 'gravity')}}))
    variants('two_theta', lambda lu, wu, gu, wdt: (
        {'incident_beam': _vec(b1, lu), 'scattered_beam': _vec(b2s, rng.choice(LEN_U), 'x')},
        {'call': BL + 'two_theta', 'args': {'incident_beam': '$incident_beam', 'scattered_beam': '$scattered_beam'}}))
    for kname, args in (('L1', ['source_position', 'sample_position']), ('L2', ['position', 'sample_position']),
                        ('total_straight_beam_length_no_scatter', ['source_position', 'position'])):
        def build(lu, wu, gu, wdt, args=args, kname=kname):
            ops = {}
            for a in args:
                si = {'source_position': src, 'sample_position': smp, 'position': poss}[a]
                ops[a] = _vec(si, lu, 'x' if a == 'position' else None)
            return ops, {'call': BL + kname, 'args': {a: '$' + a for a in args}}
        variants(kname, build)
    return groups


def geometry_equivariance(ctx, rng):
    """returns the number of evaluated variants; reports kernels whose physical result or output unit depends on
    the units of the operands (the repeat / in-place-update checks of the harness run on every variant as well)"""
    from fractions import Fraction
    groups = geometry_groups(rng, 6 if ctx.tier == 'quick' else 40)
    res = ctx.run_impl('kernels_impl.py', {'groups': [{k: g[k] for k in ('id', 'expr', 'operands')} for g in groups]}, timeout=3000)
    by_kernel = {}
    for g, r in zip(groups, res['groups']):
        d = {'kernel': g['kname'], 'variant': g['variant']}
        if 'result' not in r:
            d['error'] = r.get('error') or r.get('build_error')
            by_kernel.setdefault(g['kname'], []).append((None, d, False))
            continue
        rr = r['result']
        mult = Fraction(int(rr['unit']['mult'][0]), int(rr['unit']['mult'][1]))
        vals = [float(Fraction(int(v[0]), int(v[1])) * mult) if not isinstance(v, str) else v for v in rr['values']]
        d.update({'values_si': vals, 'unit': rr['unit']['name'], 'dtype': rr['dtype']})
        by_kernel.setdefault(g['kname'], []).append((vals, d, g['variant']['wavelength_dtype'] == 'float32'))
    n = 0
    for kname, lst in by_kernel.items():
        ref = next((x for x in lst if x[0] is not None and not x[2]), None)
        for vals, d, is32 in lst:
            n += 1
            if ref is None:
                continue
            if vals is None:
                ctx.violation(f'{kname}:geometry-refused', f'{kname} refuses operands in compatible units ({d.get("error")}) that it accepts in other units: {d}',
                              {'case': d, 'reference': ref[1]})
                continue
            angle = not kname.startswith(('L1', 'L2', 'total'))
            tol = (2e-6 if is32 else 1e-12)
            bad = any(isinstance(a, str) != isinstance(b, str) or
                      (not isinstance(a, str) and abs(a - b) > tol * (1.0 if angle else max(abs(b), 1e-300)))
                      for a, b in zip(vals, ref[0]))
            if bad or len(vals) != len(ref[0]):
                ctx.violation(f'{kname}:geometry-equivariance',
                              f'{kname}: the physical result depends on the units of the operands: {vals} ({d["variant"]}) vs {ref[0]} ({ref[1]["variant"]})',
                              {'case': d, 'reference': ref[1]})
            if angle and d['unit'] != 'rad':
                ctx.violation(f'{kname}:geometry-output-unit', f'{kname}: output unit {d["unit"]} is not rad: {d}', {'case': d})
    return n


# ---- operand LAYOUTS.  The property quantifies over unit x dtype per argument; the kernels are array functions, so
# the same statement must hold whatever the dims of the operands are (0-d, 1-d, n-d; shared between operands or
# not): which dims an operand has decides which code path combines it with the others (in-place accumulation when
# its dims are contained in the accumulator's, a broadcasting binary operation otherwise), and scipp's binary
# operations promote float32 x float64 to float64.  Evaluated on the implementation (tools/harness/c07_layouts.py):
#   * dtype contract: gravity kernels return the dtype of the wavelength (their documented/tested contract, and
#     TieC04.drop_formula / orthogonal_value / yz_plane_formula for BOTH values of dims_subset), two_theta float64,
#     tof kernels float32 iff every data operand is float32;
#   * documented output unit;  result dims = union of the operand dims;
#   * every result element = the result of the all-0-d call on that element's operands (float64, SI units for the
#     geometry kernels; the same units/dtypes for the tof kernels), up to rounding;
#   * a layout is accepted or refused uniformly over the unit choices and float dtypes.
SIZES = {'det': 3, 'wavelength': 2, 'pix': 2, 'event': 2}
WL_LAYOUTS = [[], ['wavelength'], ['det'], ['det', 'wavelength'], ['wavelength', 'det']]
SB_LAYOUTS = [[], ['det'], ['det', 'pix']]
IB_LAYOUTS = [[], ['det']]
WI = [2e-10, 6e-10, 24e-10]      # wavelength along 'det' (integers in angstrom, for the integer dtypes)
WJ = [2e-10, 24e-10]             # wavelength along 'wavelength'
B2S = [[0.3, 0.4, 2.0], [-0.5, 0.25, 1.5], [0.1, -0.6, 0.8]]
GRAV = [0.0, -9.80665, 0.0]


def _indices(dims):
    """all multi-indices (dicts dim -> index) of an array with these dims, in C order"""
    out = [{}]
    for d in dims:
        out = [dict(ix, **{d: n}) for ix in out for n in range(SIZES[d])]
    return out


def _phys_b1(tilt, i):
    import math
    return [0.01 * i, 7.5 * math.sin(tilt), 7.5 * math.cos(tilt)]


def _phys_b2(i, k):
    return [c * (1 + 0.1 * k) for c in B2S[i]]


def _phys_wl(dims, ix):
    if not dims:
        return WI[1]
    if dims == ['det']:
        return WI[ix['det']]
    if dims == ['wavelength']:
        return WJ[ix['wavelength']]
    return WJ[ix['wavelength']] * (1 + 0.5 * ix['det'])


def _lvec(dims, fn, unit):
    return {'dims': dims, 'shape': [SIZES[d] for d in dims], 'dtype': 'vector3', 'unit': unit[0],
            'values': [[float(c / unit[1]).hex() for c in fn(ix)] for ix in _indices(dims)]}


def _lnum(dims, fn, unit, dtype):
    vals = []
    for ix in _indices(dims):
        v = fn(ix) / unit[1]
        vals.append(int(round(v)) if dtype.startswith('int') else float(v).hex())
    return {'dims': dims, 'shape': [SIZES[d] for d in dims], 'dtype': dtype, 'unit': unit[0], 'values': vals}


def geometry_layout_cases(rng, n_variants, int_every=4):
    """cases of the gravity kernels and two_theta over operand layouts x wavelength dtype x unit variants, plus the
    0-d float64 SI reference calls their elements are compared with"""
    cases, refs = [], {}

    def ref(kname, call, tilt, ib, sb, w):
        key = (kname, tilt, ib, sb, w)
        if key not in refs:
            ops = {'incident_beam': _lvec([], lambda ix: _phys_b1(tilt, ib), LEN_U[0]),
                   'scattered_beam': _lvec([], lambda ix: _phys_b2(*sb), LEN_U[0])}
            if w is not None:
                ops['wavelength'] = _lnum([], lambda ix: w, WL_U[2], 'float64')
                ops['gravity'] = _lvec([], lambda ix: GRAV, G_U[0])
            refs[key] = {'id': None, 'kname': kname, 'call': call, 'operands': ops, 'reference': True}
        return refs[key]

    def add(kname, call, tilt, ibd, sbd, wld, wdt, units):
        lu1, lu2, wu, gu = units
        ops = {'incident_beam': _lvec(ibd, lambda ix: _phys_b1(tilt, ix.get('det', 0)), lu1),
               'scattered_beam': _lvec(sbd, lambda ix: _phys_b2(ix.get('det', 0), ix.get('pix', 0)), lu2)}
        out_dims = set(ibd) | set(sbd)
        if wld is not None:
            ops['wavelength'] = _lnum(wld, lambda ix: _phys_wl(wld, ix), wu, wdt)
            ops['gravity'] = _lvec([], lambda ix: GRAV, gu)
            out_dims |= set(wld)

        def elem_ref(ix):
            return ref(kname, call, tilt, ix.get('det', 0) if ibd else 0,
                       (ix.get('det', 0) if 'det' in sbd else 0, ix.get('pix', 0) if 'pix' in sbd else 0),
                       None if wld is None else _phys_wl(wld, ix))
        for ix in _indices(sorted(out_dims)):
            elem_ref(ix)          # registers the reference calls this case needs
        cases.append({'id': None, 'kname': kname, 'call': call, 'operands': ops, 'out_dims': sorted(out_dims),
                      'elem_ref': elem_ref,
                      'layout': {'incident_beam': ibd, 'scattered_beam': sbd, 'wavelength': wld},
                      'variant': {'incident_length': lu1[0], 'scattered_length': lu2[0],
                                  'wavelength': None if wld is None else wu[0], 'gravity': None if wld is None else gu[0],
                                  'wavelength_dtype': wdt, 'tilt': tilt},
                      'want_dtype': (wdt if wdt.startswith('float') else None) if wld is not None else 'float64'})

    si = (LEN_U[0], LEN_U[0], WL_U[2], G_U[0])
    n = 0
    for kname, fn, tilt in (('scattering_angles_with_gravity', 'scattering_angles_with_gravity', 0.0),
                            ('scattering_angles_with_gravity[generic]', 'scattering_angles_with_gravity', 0.3),
                            ('scattering_angle_in_yz_plane', 'scattering_angle_in_yz_plane', 0.0)):
        for ibd, sbd, wld in itertools.product(IB_LAYOUTS, SB_LAYOUTS, WL_LAYOUTS):
            for wdt in ('float64', 'float32'):
                variants = [si] if wdt == 'float64' else []
                while len(variants) < n_variants:
                    variants.append((rng.choice(LEN_U), rng.choice(LEN_U), rng.choice(WL_U), rng.choice(G_U)))
                for u in variants:
                    add(kname, BL + fn, tilt, ibd, sbd, wld, wdt, u)
            n += 1
            if n % int_every == 0:      # integer wavelengths (whole numbers of angstrom): one unit variant per layout
                add(kname, BL + fn, tilt, ibd, sbd, wld, rng.choice(['int64', 'int32']),
                    (rng.choice(LEN_U), rng.choice(LEN_U), WL_U[0], rng.choice(G_U)))
    for ibd, sbd in itertools.product(IB_LAYOUTS, SB_LAYOUTS):
        for u in [si] + [(rng.choice(LEN_U), rng.choice(LEN_U), None, None) for _ in range(max(1, n_variants - 1))]:
            add('two_theta', BL + 'two_theta', 0.0, ibd, sbd, None, 'float64', u)
    allc = cases + list(refs.values())
    for i, c in enumerate(allc):
        c['id'] = i
    return allc


# ---- NEARLY perpendicular incident beams.  The gravity kernels dispatch on |g . b1| > 1e-10 [unit of b1] * |g|: an
# absolute length in whatever unit the incident beam uses.  A beam tilted out of the plane perpendicular to gravity by
# 1e-12 .. 1e-5 rad (misaligned positions read from a file) sits close to that decision; the property demands that
# re-expressing it in mm / m / km changes (two_theta, phi) by no more than rounding, and that scattering_angle_in_yz_plane
# accepts or refuses the same geometry in every unit.  The implementation's own orthogonality tolerance makes this
# false INSIDE its decision window (off-perpendicular component d = |g . b1| / |g| between 1e-10 of the smallest and
# 1e-10 of the largest unit): there the two code paths differ by about the tilt d / |b1| (measured on the current
# source: up to 6e-8 rad for a 1 m beam between mm and km).  The statement evaluated here is
# therefore: |difference| <= 1e-10 rad + 8 * tilt if d <= ORTHO_WINDOW_M else 1e-10 rad; uniform accept / refuse
# outside the window.  In-window unit dependence is a recorded KNOWN finding of the unchanged code (two keys
# '...-threshold-in-beam-unit'); it is reported under those keys only, so a change that widens the window is still reported
# under the strict keys.
NEAR_LEN_U = [('mm', 1e-3), ('m', 1.0), ('km', 1e3)]
ORTHO_WINDOW_M = 1e-10 * 1e3          # 1e-10 in the largest length unit of the sweep, in m


def near_orthogonal_cases(rng, n_scalar, n_array):
    """groups of calls: one group = one physical setup, evaluated with the incident beam in mm, m and km (the other
    operands in units drawn per variant)"""
    import math
    cases, setups = [], []

    def beam(tilt, length, az):
        return [length * math.cos(tilt) * math.sin(az), length * math.sin(tilt), length * math.cos(tilt) * math.cos(az)]

    def draw():
        tilt = 10 ** rng.uniform(-12, -5) * rng.choice([1, -1])
        return tilt, 10 ** rng.uniform(0, 2), rng.choice([0.0, 0.0, rng.uniform(-0.2, 0.2)])

    for n in range(n_scalar + n_array):
        arr = n >= n_scalar
        beams = [draw() for _ in range(SIZES['det'] if arr else 1)]
        ibd = ['det'] if arr else []
        sbd = rng.choice([['det'], ['det', 'pix']]) if arr else rng.choice(SB_LAYOUTS)
        wld = rng.choice(WL_LAYOUTS)
        su = len(setups)
        setups.append({'beams': [{'tilt_rad': t, 'length_m': l, 'azimuth_rad': a, 'off_perpendicular_m': abs(l * math.sin(t))}
                                 for t, l, a in beams],
                       'layout': {'incident_beam': ibd, 'scattered_beam': sbd, 'wavelength': wld}})
        for fn in ('scattering_angles_with_gravity', 'scattering_angle_in_yz_plane'):
            for lu in NEAR_LEN_U:
                lu2, wu, gu = rng.choice(LEN_U), rng.choice(WL_U), rng.choice(G_U)
                ops = {'incident_beam': _lvec(ibd, lambda ix: beam(*beams[ix.get('det', 0)]), lu),
                       'scattered_beam': _lvec(sbd, lambda ix: _phys_b2(ix.get('det', 0), ix.get('pix', 0)), lu2),
                       'wavelength': _lnum(wld, lambda ix: _phys_wl(wld, ix), wu, 'float64'),
                       'gravity': _lvec([], lambda ix: GRAV, gu)}
                cases.append({'id': len(cases), 'kname': fn, 'call': BL + fn, 'operands': ops, 'setup': su,
                              'variant': {'incident_length': lu[0], 'scattered_length': lu2[0], 'wavelength': wu[0], 'gravity': gu[0]}})
    return cases, setups


def near_orthogonal_sweep(ctx, rng, n_scalar, n_array):
    cases, setups = near_orthogonal_cases(rng, n_scalar, n_array)
    res = ctx.run_impl('c07_layouts.py', {'cases': [{k: c[k] for k in ('id', 'call', 'operands')} for c in cases]}, timeout=3000)
    by_id = {r['id']: r for r in res['cases']}
    groups = {}
    for c in cases:
        groups.setdefault((c['setup'], c['kname']), []).append(c)
    n_cmp = n_window_dep = n_strict = 0
    for (su, k), lst in groups.items():
        st = setups[su]
        dmax = max(b['off_perpendicular_m'] for b in st['beams'])
        outs = [(c, by_id[c['id']]) for c in lst if 'build_error' not in by_id[c['id']]]
        desc = lambda c, r: {'kernel': k, 'setup': st, 'variant': c['variant'], 'call': c['call'], 'operands': c['operands'],
                             'outcome': r.get('error') or 'ok'}
        strict = dmax > ORTHO_WINDOW_M
        n_strict += strict
        ok = [(c, r) for c, r in outs if 'vars' in r]
        if ok and len(ok) != len(outs):
            c, r = next((c, r) for c, r in outs if 'vars' not in r)
            if strict or k != 'scattering_angle_in_yz_plane' or r.get('error') != 'ValueError':
                ctx.violation(f'{k}:near-orthogonal-refused',
                              f'{k}: an incident beam tilted {max(st["beams"], key=lambda b: b["off_perpendicular_m"])["tilt_rad"]:.3g} rad out of the plane perpendicular to gravity '
                              f'(off-perpendicular component {dmax:.3g} m) is accepted with incident_beam in {ok[0][0]["variant"]["incident_length"]} '
                              f'and refused in {c["variant"]["incident_length"]} ({r.get("error")}: {r.get("error_text")})',
                              {'case': desc(c, r), 'accepted': desc(*ok[0])})
            else:
                n_window_dep += 1
                ctx.violation('scattering_angle_in_yz_plane:orthogonality-threshold-in-beam-unit',
                              f'scattering_angle_in_yz_plane accepts or refuses the SAME geometry depending on the unit of incident_beam: '
                              f'off-perpendicular component {dmax:.3g} m is accepted in {ok[0][0]["variant"]["incident_length"]} and refused in '
                              f'{c["variant"]["incident_length"]} (the test |g.b1| > 1e-10 [unit of b1] |g| uses an absolute length in the '
                              f'beam\'s own unit)', {'case': desc(c, r), 'accepted': desc(*ok[0])})
        if not ok:
            continue
        ref = next(((c, r) for c, r in ok if c['variant']['incident_length'] == 'm'), ok[0])
        for c, r in ok:
            if c is ref[0]:
                continue
            for key, v in r['vars'].items():
                rv = ref[1]['vars'].get(key)
                name = k + ('.' + key if key else '')
                if rv is None or 'values' not in v or 'values' not in rv or v['dims'] != rv['dims'] or v['shape'] != rv['shape']:
                    ctx.violation(f'{name}:near-orthogonal-shape', f'{name}: result dims/shape/type depend on the unit of the incident beam: '
                                  f'{ {kk: v.get(kk) for kk in ("dims", "shape", "dtype")} } vs { {kk: (rv or {}).get(kk) for kk in ("dims", "shape", "dtype")} }',
                                  {'case': desc(c, r), 'reference': desc(*ref)})
                    continue
                if (v.get('unit') or {}).get('name') != 'rad' or v['dtype'] != 'float64':
                    ctx.violation(f'{name}:near-orthogonal-output', f'{name}: output unit/dtype {(v.get("unit") or {}).get("name")}/{v["dtype"]} '
                                  f'is not rad/float64', {'case': desc(c, r)})
                worst = None
                for ix, a, b in zip(_indices(v['dims']), v['values'], rv['values']):
                    n_cmp += 1
                    bm = st['beams'][ix.get('det', 0) if len(st['beams']) > 1 else 0]
                    tol = 1e-10 + (8 * abs(bm['tilt_rad']) if bm['off_perpendicular_m'] <= ORTHO_WINDOW_M else 0.0)
                    if isinstance(a, str) or isinstance(b, str):
                        bad, dev = a != b, float('inf')
                    else:
                        dev = abs(a - b)
                        bad = dev > tol
                        if dev > 1e-10 and not bad:
                            n_window_dep += 1
                            ctx.violation('scattering_angles_with_gravity:dispatch-threshold-in-beam-unit',
                                          f'{name}: inside the dispatch window (off-perpendicular component {bm["off_perpendicular_m"]:.3g} m '
                                          f'<= 1e-7 m) the result depends on the unit of incident_beam: {a!r} rad in '
                                          f'{c["variant"]["incident_length"]} vs {b!r} rad in {ref[0]["variant"]["incident_length"]} '
                                          f'(difference {dev:.3g} rad, about the tilt {bm["tilt_rad"]:.3g} rad): the threshold '
                                          f'|g.b1| > 1e-10 [unit of b1] |g| selects the perpendicular-only formula in one unit and the general one in another',
                                          {'case': desc(c, r), 'reference': desc(*ref), 'element': ix, 'got': a, 'reference_value': b})
                    if bad and (worst is None or dev > worst[0]):
                        worst = (dev, ix, a, b, bm)
                if worst:
                    dev, ix, a, b, bm = worst
                    ctx.violation(f'{name}:near-orthogonal-equivariance',
                                  f'{name}: for an incident beam of {bm["length_m"]:.4g} m tilted {bm["tilt_rad"]:.3g} rad out of the plane '
                                  f'perpendicular to gravity (off-perpendicular component {bm["off_perpendicular_m"]:.3g} m) element {ix} is '
                                  f'{a!r} rad with incident_beam in {c["variant"]["incident_length"]} but {b!r} rad in '
                                  f'{ref[0]["variant"]["incident_length"]} (difference {dev:.3g} rad)',
                                  {'case': desc(c, r), 'reference': desc(*ref), 'element': ix, 'got': a, 'reference_value': b})
    return {'near_orthogonal_setups': len(setups), 'near_orthogonal_calls': len(cases), 'near_orthogonal_elements_compared': n_cmp,
            'near_orthogonal_setup_kernels_outside_tolerance_window': n_strict,
            'near_orthogonal_unit_dependent_inside_tolerance_window': n_window_dep,
            'near_orthogonal_rule': 'incident beams tilted +-1e-12..1e-5 rad (log-uniform) out of the plane perpendicular to gravity, length '
                                    '1..100 m (log-uniform), azimuth 0 or +-0.2 rad; 0-d or [det] (independent tilts per element) against the '
                                    'scattered-beam / wavelength layouts of the layout sweep; each setup evaluated by '
                                    'scattering_angles_with_gravity and scattering_angle_in_yz_plane with incident_beam in mm, m, km and the '
                                    'other operands in units drawn per call; results compared between the unit variants (1e-10 rad; + 8 tilt '
                                    'when the off-perpendicular component is <= 1e-7 m = the kernels\' own 1e-10 tolerance in km), '
                                    'accept/refuse uniform outside that window',
            'near_orthogonal_samples': [dict(setups[i], outcomes={c['kname'] + '[' + c['variant']['incident_length'] + ']':
                                                                   by_id[c['id']].get('error') or 'ok' for c in cases if c['setup'] == i})
                                        for i in range(min(2, len(setups)))]}


LAYOUT_PATTERNS = [   # (dims of the data operands, dims of the other operands)
    (['event'], []), (['det', 'event'], ['det']), (['event'], ['det']), (['det'], ['det']), ([], ['det']),
    (['event', 'det'], ['det'])]


def tof_layout_cases(rng, n_points):
    """grid points (unit x dtype per argument) of the tof.py kernels with their operands replicated into arrays of
    several layouts; the 0-d call on the same operands is the reference"""
    cases = []
    for kname, data in DATA_OPERANDS.items():
        allc = list(grid(kname))
        for ops in rng.sample(allc, min(len(allc), n_points)):
            def spec(o, dims):
                nel = 1
                for d in dims:
                    nel *= SIZES[d]
                return {'dims': dims, 'shape': [SIZES[d] for d in dims], 'dtype': o['dtype'], 'unit': o['unit'],
                        'values': [o['values'][0]] * nel}
            ref = {'id': None, 'kname': kname, 'call': M + kname, 'reference': True,
                   'operands': {nm: spec(o, []) for nm, o in ops.items()}}
            cases.append(ref)
            for dd, od in rng.sample(LAYOUT_PATTERNS, 3):
                cops = {nm: spec(o, dd if nm in data else od) for nm, o in ops.items()}
                cases.append({'id': None, 'kname': kname, 'call': M + kname, 'operands': cops,
                              'out_dims': sorted({x for o in cops.values() for x in o['dims']}), 'elem_ref': (lambda ix, ref=ref: ref),
                              'layout': {nm: o['dims'] for nm, o in cops.items()},
                              'variant': {nm: [o['unit'], o['dtype']] for nm, o in ops.items()},
                              'want_dtype': 'float32' if all(ops[nm]['dtype'] == 'float32' for nm in data) else 'float64',
                              'same_as_ref': True})
    for i, c in enumerate(cases):
        c['id'] = i
    return cases


def layout_contract(ctx, cases, label):
    """runs the cases and evaluates the layout-independent statement listed above; returns coverage numbers"""
    wire = [{k: c[k] for k in ('id', 'call', 'operands')} for c in cases]
    res = ctx.run_impl('c07_layouts.py', {'cases': wire}, timeout=3000)
    by_id = {r['id']: r for r in res['cases']}
    outcome = {}
    n_elem = n_ref = n_refused_both = 0
    refused, int_refused = set(), {}
    for c in cases:
        r = by_id[c['id']]
        if c.get('reference'):
            n_ref += 1
            continue
        if 'build_error' in r:
            continue
        k = c['kname']
        d = {'kernel': k, 'layout': c['layout'], 'variant': c['variant'], 'call': c['call'], 'operands': c['operands']}
        cls = (k, repr(c['layout']), 'int' if c['want_dtype'] is None else 'float')
        if 'vars' not in r:
            d['error'] = f'{r.get("error")}: {r.get("error_text")}'
            if c.get('same_as_ref'):
                # tof kernels: refused in this layout iff the same operands are refused as 0-d variables
                rr = by_id[c['elem_ref']({})['id']]
                n_refused_both += 1
                if rr.get('error') != r.get('error'):
                    ctx.violation(f'{k}:layout-refused',
                                  f'{k}: operands in layout {c["layout"]} are refused ({d["error"]}) but as 0-d variables they give '
                                  f'{rr.get("error") or "a result"}: {d}', d)
                continue
            outcome.setdefault(cls, []).append((r.get('error'), d))
            if c['want_dtype'] is None:
                int_refused[k + ': ' + str(r.get('error'))] = int_refused.get(k + ': ' + str(r.get('error')), 0) + 1
            else:
                refused.add(f'{k} {c["layout"]}: {r.get("error")}')
            continue
        if c.get('same_as_ref'):
            cls = (k, repr(c['layout']), repr(c['variant']))
        outcome.setdefault(cls, []).append(('ok', d))
        for key, v in r['vars'].items():
            name = k + ('.' + key if key else '')
            d2 = dict(d, result={kk: v.get(kk) for kk in ('dims', 'shape', 'dtype')}, result_unit=(v.get('unit') or {}).get('name'))
            if 'values' not in v:
                ctx.violation(f'{name}:layout-result', f'{name}: the result is not a numeric variable: {d2}', d2)
                continue
            want = c['want_dtype'] or 'float64'
            if v['dtype'] != want:
                ctx.violation(f'{name}:layout-dtype-contract',
                              f'{name}: result dtype {v["dtype"]} where the documented contract gives {want} '
                              f'(operand layout {c["layout"]}, variant {c["variant"]})', d2)
            if sorted(v['dims']) != c['out_dims']:
                ctx.violation(f'{name}:layout-dims', f'{name}: result dims {v["dims"]} are not the union {c["out_dims"]} of the operand dims: {d2}', d2)
                continue
            is32 = v['dtype'] == 'float32' or any(o['dtype'] == 'float32' for o in c['operands'].values())
            et = k.startswith('energy_transfer')
            mult = v['unit']['mult'] if v.get('unit') else 1.0
            for ix, got in zip(_indices(v['dims']), v['values']):
                rc = c['elem_ref'](ix)
                rr = by_id[rc['id']]
                rv = (rr.get('vars') or {}).get(key)
                if rv is None or 'values' not in rv:
                    ctx.violation(f'{name}:layout-refused',
                                  f'{name}: operands accepted in layout {c["layout"]} are refused as 0-d operands '
                                  f'({rr.get("error")}: {rr.get("error_text")})', dict(d2, reference=rc['operands']))
                    break
                n_elem += 1
                want_v = rv['values'][0]
                rmult = rv['unit']['mult'] if rv.get('unit') else 1.0
                if (v.get('unit') or {}).get('dims') != (rv.get('unit') or {}).get('dims') or \
                        (c.get('same_as_ref') and abs(mult - rmult) > 1e-12 * rmult):
                    ctx.violation(f'{name}:layout-output-unit',
                                  f'{name}: output unit {d2["result_unit"]} in layout {c["layout"]} but {rv["unit"]["name"]} for 0-d operands', d2)
                    break
                if isinstance(got, str) or isinstance(want_v, str):
                    bad = got != want_v
                else:
                    a, b = got * mult, want_v * rmult
                    if c.get('same_as_ref'):
                        tol = ((2e-5 if et else 2e-6) if is32 else (1e-11 if et else 1e-12)) * max(abs(b), 1e-300)
                    else:
                        tol = 2e-6 if is32 else 1e-12      # angles: absolute
                    bad = abs(a - b) > tol
                if bad:
                    ctx.violation(f'{name}:layout-value',
                                  f'{name}: element {ix} of the result in layout {c["layout"]} ({c["variant"]}) is {got} {d2["result_unit"]}; '
                                  f'the call on that element\'s operands as 0-d variables gives {want_v} {rv["unit"]["name"] if rv.get("unit") else ""}',
                                  dict(d2, element=ix, got=got, reference_value=want_v, reference=rc['operands']))
                    break
            if 'unit' in v and not c.get('same_as_ref') and (v['unit'] or {}).get('name') != 'rad':
                ctx.violation(f'{name}:layout-output-unit', f'{name}: output unit {d2["result_unit"]} is not rad: {d2}', d2)
    for (k, lay, kind), lst in outcome.items():
        kinds = {o for o, _ in lst}
        if len(kinds) > 1:
            okd = next(d for o, d in lst if o == 'ok')
            bad = next(d for o, d in lst if o != 'ok')
            ctx.violation(f'{k}:layout-refused',
                          f'{k}: operands in layout {lay} are accepted in one unit/dtype variant ({okd["variant"]}) and refused '
                          f'in another ({bad["variant"]}: {bad["error"]})', {'case': bad, 'accepted': okd})
    # integer wavelengths: the kernels either serve them (in double precision, checked above) or refuse them, in
    # every layout alike
    ints = {}
    for (k, lay, kind), lst in outcome.items():
        if kind == 'int':
            for o, d in lst:
                ints.setdefault(k, {}).setdefault('served' if o == 'ok' else 'refused', d)
    for k, dd in ints.items():
        if 'refused' in dd and 'served' not in dd and label.startswith('geometry'):
            # the property: "every other numeric operand type gives double precision" - a uniform refusal of integer
            # wavelengths is a (documented below) departure from it
            d = dd['refused']
            ctx.violation(f'{k.split(".")[0]}:integer-wavelength-refused',
                          f'{k}: an integer-dtype wavelength is refused ({d.get("error")}) in every layout and unit although it is a '
                          f'numeric operand type (the tof.py kernels serve integer data operands in double precision): {d}', {'case': d})
        if len(dd) > 1:
            ctx.violation(f'{k}:layout-integer-wavelength',
                          f'{k}: an integer wavelength is served in layout {dd["served"]["layout"]} and refused in layout '
                          f'{dd["refused"]["layout"]} ({dd["refused"]["error"]})', {'case': dd['refused'], 'accepted': dd['served']})
    return {label + '_calls': len(cases) - n_ref, label + '_reference_calls': n_ref, label + '_elements_compared': n_elem,
            label + '_layout_classes': len({(k, lay) for (k, lay, _) in outcome}),
            label + '_refused_as_0d_too': n_refused_both,
            label + '_float_layouts_refused_in_every_variant': sorted(refused)[:40],
            label + '_integer_wavelength_refused': int_refused}


def layout_sweep(ctx, rng, scale=1):
    thorough = ctx.tier != 'quick'
    cov = layout_contract(ctx, geometry_layout_cases(rng, (12 if thorough else 4) * scale), 'geometry_layout')
    cov.update(layout_contract(ctx, tof_layout_cases(rng, (40 if thorough else 8) * scale), 'tof_layout'))
    cov['layout_rule'] = ('gravity kernels (orthogonal and generic dispatch, yz-plane): incident_beam {0-d, [det]} x scattered_beam '
                          '{0-d, [det], [det,pix]} x wavelength {0-d, [wavelength], [det], [det,wavelength], [wavelength,det]} x wavelength '
                          'dtype {float64, float32; int64/int32 on every 4th layout} x unit variants (length of each beam, wavelength, '
                          'gravity drawn independently; float64 always includes the all-SI variant); two_theta over the beam layouts; '
                          'tof.py kernels: sampled unit x dtype grid points replicated into 3 of 6 layout patterns (data operands '
                          '[event] / [det,event] / [event,det] / [det] / 0-d against the other operands 0-d / [det]); every element '
                          'is compared with the all-0-d call')
    return cov


DATA_OPERANDS = {
    'wavelength_from_tof': ['tof'], 'dspacing_from_tof': ['tof'], 'energy_from_tof': ['tof'],
    'energy_from_wavelength': ['wavelength'], 'wavelength_from_energy': ['energy'],
    'Q_from_wavelength': ['wavelength'], 'wavelength_from_Q': ['Q'],
    'dspacing_from_wavelength': ['wavelength'], 'dspacing_from_energy': ['energy'],
    'energy_transfer_direct_from_tof': ['tof', 'incident_energy'],
    'energy_transfer_indirect_from_tof': ['tof', 'final_energy'],
}
DOC_UNIT = {   # documented output unit as (multiplier, which operand's unit it follows or None)
    'wavelength_from_tof': 1e-10, 'dspacing_from_tof': 1e-10, 'wavelength_from_energy': 1e-10, 'wavelength_from_Q': 1e-10,
    'dspacing_from_wavelength': 1e-10, 'dspacing_from_energy': 1e-10,
    'energy_from_tof': 1.602176634e-22, 'energy_from_wavelength': 1.602176634e-22,
}


def search(ctx, broken):
    """the property statement itself on the implementation: result dtype is float32 iff all DATA operands are
    float32 (float64 otherwise) and the output unit is the documented one, over a sample of the grid"""
    from fractions import Fraction
    rng = random.Random(ctx.seed + 7)
    n0 = len(ctx.violations)
    geometry_equivariance(ctx, rng)
    layout_sweep(ctx, rng, scale=3)
    near_orthogonal_sweep(ctx, rng, 60, 12)
    groups = []
    for kname in DATA_OPERANDS:
        allc = list(grid(kname))
        for ops in rng.sample(allc, min(len(allc), 120)):
            groups.append({'id': len(groups), 'kname': kname, 'operands': ops,
                           'expr': {'call': M + kname, 'args': {nm: '$' + nm for nm in KERNELS[kname]}}})
    res = ctx.run_impl('kernels_impl.py', {'groups': [{k: g[k] for k in ('id', 'expr', 'operands')} for g in groups]}, timeout=3000)
    found = []
    for g, r in zip(groups, res['groups']):
        if 'result' not in r:
            continue
        k = g['kname']
        want = 'float32' if all(g['operands'][n]['dtype'] == 'float32' for n in DATA_OPERANDS[k]) else 'float64'
        got = r['result']['dtype']
        d = {'kernel': k, 'operands': {n: kcorr.describe(r['operands'][n], 0) for n in KERNELS[k]}, 'result_dtype': got,
             'result_unit': r['result']['unit']['name']}
        if got != want:
            ctx.violation(f'{k}:dtype-contract', f'{k}: result dtype {got} where the documented contract gives {want}: {d}', d)
            found.append(d)
        if k in DOC_UNIT:
            m = r['result']['unit']['mult']
            mult = float(Fraction(int(m[0]), int(m[1])))
            if abs(mult - DOC_UNIT[k]) > 1e-12 * DOC_UNIT[k]:
                ctx.violation(f'{k}:output-unit', f'{k}: output unit {d["result_unit"]} is not the documented one: {d}', d)
                found.append(d)
    found += [v.key for v in ctx.violations[n0:] if v.found_input and v.key not in found]
    return found


def replay(ctx, obj):
    import json
    print(json.dumps(obj, indent=1))
    return 0
