(* C16/Properties.v — the property theorems (nothing else), each closed by a lemma of
   Tie.v (proved on the terms regenerated from model.py on this run) or of the static
   development coq/C16 (Spec, Proofs, ProofsModel), with Print Assumptions at the end.

   Reading guide.  [tvar h mn v s dims dt]: an operand with numeric value v in a unit with
   multiplier s to SI (arbitrary positive real) and dimensions dims, dtype dt.
   [is_qty h mn r phys scale dims dt]: r is an element of dtype dt in a unit with that
   multiplier and dimensions whose SI value is phys.  [phys r] = that SI value.
   x, loc, scale are in one unit (dimensions dmx in xdims = length, time, energy,
   dimensionless), amplitude in unit(y)*unit(x) (y: counts or dimensionless), so the result
   is in unit(amplitude)/unit(x) = unit(y).  [pdict]/[pvdict]: the parameter dict handed to
   _call; [pdictp p]/[pvdictp p]: the same with every name prefixed by p (what fwhm gets);
   [selfp p]: an object whose _prefix is p.  gauss / lorentz / pvoigt / poly_sum: Spec.v. *)
From Coq Require Import Reals ZArith String List Lra.
From Coquelicot Require Import Coquelicot.
From Verif.Sem Require Import Field Val RInst RLemmas.
From Verif.C16 Require Import SemExt Spec Proofs Model ProofsModel.
From Run Require Import GenModel Leaf Tie.
Import ListNotations.
Open Scope string_scope.
Open Scope R_scope.

Section P.
Variables h mn : R.
Notation O := (ROps h mn).
Notation tv := (tvar h mn).
Variables dmx dmy : dims.
Hypothesis Hdmx : In dmx xdims.
Hypothesis Hdmy : In dmy ydims.
Notation pdict := (pdict h mn dmx dmy).
Notation pvdict := (pvdict h mn dmx dmy).
Notation pdictp := (pdictp h mn dmx dmy).
Notation pvdictp := (pvdictp h mn dmx dmy).
Notation selfp := (selfp h mn).
Notation phys := (phys h mn).

(* ---- closed forms, with the result unit unit(A)/unit(x) *)
Theorem C16_gaussian_closed_form : forall self x sx A sA mu s dx,
  sx > 0 -> sA > 0 -> s >= 1 / 1000000000000000 -> is_num dx = true ->
  is_qty h mn (GaussianModel__call O self (tv x sx dmx dx) (pdict A sA mu s sx))
    (A * sA / (s * sx * sqrt (2 * PI))
     * exp (- ((x * sx - mu * sx) * (x * sx - mu * sx)) / (2 * (s * sx * (s * sx)))))
    (sA / sx) dmy DF64.
Proof using Hdmx Hdmy. exact (gaussian_call_closed h mn dmx dmy Hdmx Hdmy). Qed.

Theorem C16_lorentzian_closed_form : forall self x sx A sA mu s dx,
  sx > 0 -> sA > 0 -> s >= 1 / 1000000000000000 -> is_num dx = true ->
  is_qty h mn (LorentzianModel__call O self (tv x sx dmx dx) (pdict A sA mu s sx))
    (A * sA / PI * (s * sx / ((x * sx - mu * sx) * (x * sx - mu * sx) + s * sx * (s * sx))))
    (sA / sx) dmy DF64.
Proof using Hdmx Hdmy. exact (lorentzian_call_closed h mn dmx dmy Hdmx Hdmy). Qed.

Theorem C16_pvoigt_closed_form : forall self x sx A sA mu s f dx,
  sx > 0 -> sA > 0 -> s >= 2 / 1000000000000000 -> is_num dx = true ->
  is_qty h mn (PseudoVoigtModel__call O self (tv x sx dmx dx) (pvdict A sA mu s sx f))
    (f * lorentz (A * sA) (mu * sx) (s * sx) (x * sx)
     + (1 - f) * gauss (A * sA) (mu * sx) (s * sx / sqrt (2 * ln 2)) (x * sx))
    (sA / sx) dmy DF64.
Proof using Hdmx Hdmy. exact (pvoigt_call_closed h mn dmx dmy Hdmx Hdmy). Qed.

(* ---- the FWHM the models report *)
Theorem C16_gaussian_fwhm : forall p A sA mu s sx, sx > 0 ->
  is_qty h mn (GaussianModel_fwhm O (selfp p) (pdictp p A sA mu s sx))
         (2 * sqrt (2 * ln 2) * (s * sx)) sx dmx DF64.
Proof using Hdmx Hdmy. exact (gaussian_fwhm_closed h mn dmx dmy Hdmx Hdmy). Qed.
Theorem C16_lorentzian_fwhm : forall p A sA mu s sx, sx > 0 ->
  is_qty h mn (LorentzianModel_fwhm O (selfp p) (pdictp p A sA mu s sx)) (2 * (s * sx)) sx dmx DF64.
Proof using Hdmx Hdmy. exact (lorentzian_fwhm_closed h mn dmx dmy Hdmx Hdmy). Qed.
Theorem C16_pvoigt_fwhm : forall p A sA mu s sx f, sx > 0 ->
  is_qty h mn (PseudoVoigtModel_fwhm O (selfp p) (pvdictp p A sA mu s sx f)) (2 * (s * sx)) sx dmx DF64.
Proof using Hdmx Hdmy. exact (pvoigt_fwhm_closed h mn dmx dmy Hdmx Hdmy). Qed.

(* ---- symmetric about the location *)
Theorem C16_symmetric_gaussian : forall self sx A sA mu s d dx,
  sx > 0 -> sA > 0 -> s >= 1 / 1000000000000000 -> is_num dx = true ->
  exists v, is_qty h mn (GaussianModel__call O self (tv (mu + d) sx dmx dx) (pdict A sA mu s sx)) v (sA / sx) dmy DF64
         /\ is_qty h mn (GaussianModel__call O self (tv (mu - d) sx dmx dx) (pdict A sA mu s sx)) v (sA / sx) dmy DF64.
Proof using Hdmx Hdmy. exact (symmetric_gaussian h mn dmx dmy Hdmx Hdmy). Qed.
Theorem C16_symmetric_lorentzian : forall self sx A sA mu s d dx,
  sx > 0 -> sA > 0 -> s >= 1 / 1000000000000000 -> is_num dx = true ->
  exists v, is_qty h mn (LorentzianModel__call O self (tv (mu + d) sx dmx dx) (pdict A sA mu s sx)) v (sA / sx) dmy DF64
         /\ is_qty h mn (LorentzianModel__call O self (tv (mu - d) sx dmx dx) (pdict A sA mu s sx)) v (sA / sx) dmy DF64.
Proof using Hdmx Hdmy. exact (symmetric_lorentzian h mn dmx dmy Hdmx Hdmy). Qed.
Theorem C16_symmetric_pvoigt : forall self sx A sA mu s f d dx,
  sx > 0 -> sA > 0 -> s >= 2 / 1000000000000000 -> is_num dx = true ->
  exists v, is_qty h mn (PseudoVoigtModel__call O self (tv (mu + d) sx dmx dx) (pvdict A sA mu s sx f)) v (sA / sx) dmy DF64
         /\ is_qty h mn (PseudoVoigtModel__call O self (tv (mu - d) sx dmx dx) (pvdict A sA mu s sx f)) v (sA / sx) dmy DF64.
Proof using Hdmx Hdmy. exact (symmetric_pvoigt h mn dmx dmy Hdmx Hdmy). Qed.

(* ---- half of the peak value at loc +- FWHM/2, FWHM = what the translated fwhm method returns
   (w), for any prefix p of the parameter names handed to fwhm *)
Theorem C16_half_max_gaussian : forall p self sx A sA mu s,
  sx > 0 -> sA > 0 -> s >= 1 / 1000000000000000 ->
  exists w peak,
    is_qty h mn (GaussianModel_fwhm O (selfp p) (pdictp p A sA mu s sx)) w sx dmx DF64
    /\ is_qty h mn (GaussianModel__call O self (tv mu sx dmx DF64) (pdict A sA mu s sx)) peak (sA / sx) dmy DF64
    /\ forall xv dx, is_num dx = true -> xv * sx = mu * sx + w / 2 \/ xv * sx = mu * sx - w / 2 ->
         is_qty h mn (GaussianModel__call O self (tv xv sx dmx dx) (pdict A sA mu s sx)) (peak / 2) (sA / sx) dmy DF64.
Proof using Hdmx Hdmy. exact (half_max_gaussian h mn dmx dmy Hdmx Hdmy). Qed.
Theorem C16_half_max_lorentzian : forall p self sx A sA mu s,
  sx > 0 -> sA > 0 -> s >= 1 / 1000000000000000 ->
  exists w peak,
    is_qty h mn (LorentzianModel_fwhm O (selfp p) (pdictp p A sA mu s sx)) w sx dmx DF64
    /\ is_qty h mn (LorentzianModel__call O self (tv mu sx dmx DF64) (pdict A sA mu s sx)) peak (sA / sx) dmy DF64
    /\ forall xv dx, is_num dx = true -> xv * sx = mu * sx + w / 2 \/ xv * sx = mu * sx - w / 2 ->
         is_qty h mn (LorentzianModel__call O self (tv xv sx dmx dx) (pdict A sA mu s sx)) (peak / 2) (sA / sx) dmy DF64.
Proof using Hdmx Hdmy. exact (half_max_lorentzian h mn dmx dmy Hdmx Hdmy). Qed.
(* every mixing fraction f *)
Theorem C16_half_max_pvoigt : forall p self sx A sA mu s f,
  sx > 0 -> sA > 0 -> s >= 2 / 1000000000000000 ->
  exists w peak,
    is_qty h mn (PseudoVoigtModel_fwhm O (selfp p) (pvdictp p A sA mu s sx f)) w sx dmx DF64
    /\ is_qty h mn (PseudoVoigtModel__call O self (tv mu sx dmx DF64) (pvdict A sA mu s sx f)) peak (sA / sx) dmy DF64
    /\ forall xv dx, is_num dx = true -> xv * sx = mu * sx + w / 2 \/ xv * sx = mu * sx - w / 2 ->
         is_qty h mn (PseudoVoigtModel__call O self (tv xv sx dmx dx) (pvdict A sA mu s sx f)) (peak / 2) (sA / sx) dmy DF64.
Proof using Hdmx Hdmy. exact (half_max_pvoigt h mn dmx dmy Hdmx Hdmy). Qed.

(* ---- integrals over the physical coordinate t (the model evaluated at x = t / unit(x)) *)
Theorem C16_lorentzian_integral : forall self sx A sA mu s a b,
  sx > 0 -> sA > 0 -> s >= 1 / 1000000000000000 ->
  is_RInt (fun t => phys (LorentzianModel__call O self (tv (t / sx) sx dmx DF64) (pdict A sA mu s sx))) a b
          (A * sA / PI * (atan ((b - mu * sx) / (s * sx)) - atan ((a - mu * sx) / (s * sx)))).
Proof using Hdmx Hdmy. exact (lorentzian_integral h mn dmx dmy Hdmx Hdmy). Qed.
(* PARTIAL (gap: the improper integral of exp(-x^2/2) over the whole line is not in the
   installed libraries): on EVERY symmetric range of at least +-12 sigma the Gaussian integrates
   to its amplitude within 2e-9 |A|, for all A, mu and sigma *)
Theorem C16_gaussian_integral_partial : forall self sx A sA mu s c,
  sx > 0 -> sA > 0 -> s >= 1 / 1000000000000000 -> 12 <= c ->
  exists J,
    is_RInt (fun t => phys (GaussianModel__call O self (tv (t / sx) sx dmx DF64) (pdict A sA mu s sx)))
            (mu * sx - c * (s * sx)) (mu * sx + c * (s * sx)) J
    /\ Rabs (J - A * sA) <= 2 / 1000000000 * Rabs (A * sA).
Proof using Hdmx Hdmy. exact (gaussian_integral_partial h mn dmx dmy Hdmx Hdmy). Qed.
(* PARTIAL (same gap): on +-T scale, T >= 12, within |A| (f 2/(pi T) + (1-f) 2e-9) of A *)
Theorem C16_pvoigt_integral_partial : forall self sx A sA mu s f T,
  sx > 0 -> sA > 0 -> s >= 2 / 1000000000000000 -> 0 <= f <= 1 -> 12 <= T ->
  exists J,
    is_RInt (fun t => phys (PseudoVoigtModel__call O self (tv (t / sx) sx dmx DF64) (pvdict A sA mu s sx f)))
            (mu * sx - T * (s * sx)) (mu * sx + T * (s * sx)) J
    /\ Rabs (J - A * sA) <= Rabs (A * sA) * (f * (2 / (PI * T)) + (1 - f) * (2 / 1000000000)).
Proof using Hdmx Hdmy. exact (pvoigt_integral_partial h mn dmx dmy Hdmx Hdmy). Qed.

(* ---- polynomial of degree 6 (degrees 1..5: polynomial_closed_1..5 in Tie.v, same statement):
   the translated Horner loop returns sum_i a_i x^i, coefficient i in unit(y)/unit(x)^i *)
Theorem C16_polynomial_is_sum_deg6 : forall a0 a1 a2 a3 a4 a5 a6 x sx sy dx,
  sx > 0 -> sy > 0 -> is_num dx = true ->
  is_qty h mn (PolynomialModel__call O (selfpoly h mn 6) (tv x sx dmx dx)
                 (VDict O (pcoefs h mn dmx dmy 0 [a0; a1; a2; a3; a4; a5; a6] sy sx)))
         (poly_sum (physc 0 [a0; a1; a2; a3; a4; a5; a6] sy sx) (x * sx)) sy dmy DF64.
Proof using Hdmx Hdmy. exact (polynomial_closed_6 h mn dmx dmy Hdmx Hdmy). Qed.
End P.

(* limit form of the Lorentzian normalisation: the integral over [a,b] tends to A *)
Theorem C16_lorentzian_integral_limit : forall A mu s eps, s > 0 -> eps > 0 ->
  exists T0, T0 > 0 /\ forall a b, a <= mu - s * T0 -> mu + s * T0 <= b ->
    Rabs (A / PI * (atan ((b - mu) / s) - atan ((a - mu) / s)) - A) < eps.
Proof. exact lorentz_integral_limit. Qed.

(* Horner's scheme equals sum_i a_i x^i for EVERY degree (on the coefficient list) *)
Theorem C16_polynomial_is_sum_all_degrees : forall (a : list R) (x : R), horner a x = poly_sum a x.
Proof. exact horner_is_sum. Qed.

(* ---- object layer (hand model Model.v, tied by correspondence), leaves = the regenerated
   _call methods, for any arithmetic O *)
Section Obj.
Variable O : Fops.
Context {X : Xops O}.
Notation leaf := (@gen_leaf O X).

(* string lemma behind prefix handling: name[len(p):] of p + name is name *)
Theorem C16_prefix_strip : forall p name, drop (String.length p) (p ++ name) = name.
Proof. exact drop_app. Qed.
Theorem C16_prefix_irrelevant : forall p q m x d,
  call O leaf (with_prefix p m) x (pref p d) = call O leaf (with_prefix q m) x (pref q d).
Proof using. exact (prefix_irrelevant O leaf (@gen_leaf_prefix_indep O X)). Qed.
(* ... also after any chains of re-prefixing m.with_prefix(p1)...with_prefix(p): only the last
   prefix matters *)
Theorem C16_prefix_irrelevant_chain : forall ps p qs q m x d,
  call O leaf (with_prefixes (ps ++ [p]) m) x (pref p d)
  = call O leaf (with_prefixes (qs ++ [q]) m) x (pref q d).
Proof using. exact (prefix_irrelevant_chain O leaf (@gen_leaf_prefix_indep O X)). Qed.
Theorem C16_bad_params_refused_missing : forall m x params n,
  In n (pnames m) -> ~ In n (map fst params) -> call O leaf m x params = VErr O "ValueError".
Proof using. exact (missing_param_refused O leaf). Qed.
Theorem C16_bad_params_refused_extra : forall m x params n,
  In n (map fst params) -> ~ In n (pnames m) -> call O leaf m x params = VErr O "ValueError".
Proof using. exact (extra_param_refused O leaf). Qed.
Theorem C16_composite_is_sum : forall p l r x params,
  set_eqb (map fst params) (pnames (Comp p l r)) = true ->
  call O leaf (Comp p l r) x params =
    vbind O (call O leaf l x (restrict O (strip O p params) (pnames l))) (fun lv =>
    vbind O (call O leaf r x (restrict O (strip O p params) (pnames r))) (fun rv =>
    Val.vadd O lv rv)).
Proof using. exact (composite_is_sum O leaf). Qed.
End Obj.
(* over R: parts that are quantities in one unit add up to the quantity of the sum *)
Theorem C16_composite_value : forall h mn a b pa pb s d,
  is_qty h mn a pa s d DF64 -> is_qty h mn b pb s d DF64 ->
  is_qty h mn (vbind (ROps h mn) a (fun lv => vbind (ROps h mn) b (fun rv => Val.vadd (ROps h mn) lv rv)))
         (pa + pb) s d DF64.
Proof. exact vadd_qty. Qed.

(* the hypotheses are satisfiable: a Gaussian of width 0.05 angstrom on a d-spacing axis *)
Example C16_nonvacuous :
  In d_m xdims /\ In d_counts ydims /\ 1 / 10000000000 > 0 /\ 5 / 100 >= 2 / 1000000000000000
  /\ is_num DF32 = true /\ 0 <= 3 / 10 <= 1 /\ (12 <= 40)
  /\ set_eqb ["p_amplitude"; "p_loc"; "p_scale"] (pnames (Leaf KGauss "p_")) = true
  /\ constructible (Comp "" (Leaf (KPoly 2) "") (Leaf KGauss "g_")) = true.
Proof. repeat split; try reflexivity; try lra; simpl; auto. Qed.

(* the five theorems whose proofs use coq-interval (sqrt(2 ln 2) <= 1.18, the constant
   I = int_{-12}^{12} exp(-x^2/2)) share one assumption listing (each costs ~7 s to traverse) *)
Definition C16_interval_group :=
  (C16_pvoigt_closed_form, C16_symmetric_pvoigt, C16_half_max_pvoigt,
   C16_gaussian_integral_partial, C16_pvoigt_integral_partial).
Print Assumptions C16_interval_group.
(* the theorems over R about the regenerated terms that do not use coq-interval share one listing
   too (each listing traverses the real-number library: ~1 s) *)
Definition C16_closed_form_group :=
  (C16_gaussian_closed_form, C16_lorentzian_closed_form, C16_gaussian_fwhm, C16_lorentzian_fwhm,
   C16_pvoigt_fwhm, C16_symmetric_gaussian, C16_symmetric_lorentzian, C16_half_max_gaussian,
   C16_half_max_lorentzian, C16_polynomial_is_sum_deg6).
Print Assumptions C16_closed_form_group.
Definition C16_lorentzian_integral_group := (C16_lorentzian_integral, C16_lorentzian_integral_limit).
Print Assumptions C16_lorentzian_integral_group.
Print Assumptions C16_polynomial_is_sum_all_degrees.
Print Assumptions C16_prefix_strip.
Print Assumptions C16_prefix_irrelevant.
Print Assumptions C16_prefix_irrelevant_chain.
Print Assumptions C16_bad_params_refused_missing.
Print Assumptions C16_bad_params_refused_extra.
Print Assumptions C16_composite_is_sum.
Print Assumptions C16_composite_value.
