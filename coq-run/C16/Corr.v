(* C16/Corr.v — executable model used by the correspondence run: the object layer of
   Verif.C16.Model with the leaves REGENERATED from model.py on this run, instantiated at
   exact rationals (QInst; sqrt, ln are 1e-30 approximations, exp = CorrCore.qexp3), compared
   INSIDE Coq with what the implementation returned (pcase / run16 / cmp16: Verif.C16.CorrCore).
   One case = one element of x, whatever the layout of the array it was taken from. *)
From Coq Require Import QArith Qabs ZArith String List Bool.
From Verif.Sem Require Import Field Val QInst Corr.
From Verif.C16 Require Import SemExt Model CorrCore.
From Run Require Import GenModel Leaf.
Import ListNotations.
Open Scope string_scope.

Definition run (c : pcase) : val O16 :=
  run16 (@gen_leaf O16 (QXc 0 0)) (@gen_fwhm O16 (QXc 0 0)) c.
Definition check (c : pcase) : string := cmp16 (run c) (pout c) (ptol c) (pfloor c).
