(* C16/Corr.v — executable model used by the correspondence run: the object layer of
   Verif.C16.Model with the leaves REGENERATED from model.py on this run, instantiated at
   exact rationals (QInst; exp, sqrt, ln are 1e-30 approximations), compared INSIDE Coq with
   what the implementation returned. *)
From Coq Require Import QArith Qabs ZArith String List Bool.
From Verif.Sem Require Import Field Val QInst Corr.
From Verif.C16 Require Import SemExt Model.
From Run Require Import GenModel Leaf.
Import ListNotations.
Open Scope string_scope.

Notation O := (QOps 0 0).
(* what: "call" (model(x, **params)), "fwhm" (model.fwhm(params)), "construct",
   "names" / "guess" / "bounds": the keys of model.param_names / model.guess(data) /
   model.param_bounds are handed over as the keys of pparams *)
Record pcase := mkp { pwhat : string; pmodel : model; pparams : list (string * inp); px : inp;
                      pout : outcome; ptol : Q; pfloor : Q }.

Definition run (c : pcase) : val O :=
  let ps := map (fun kv => (fst kv, qv 0 0 (snd kv))) (pparams c) in
  if String.eqb (pwhat c) "call" then
    (if constructible (pmodel c) then call O (@gen_leaf O _) (pmodel c) (qv 0 0 (px c)) ps
     else VErr O "ValueError")
  else if String.eqb (pwhat c) "fwhm" then
    match pmodel c with
    | Leaf k p => gen_fwhm O k (self_of O k p) (VDict O ps)
    | Comp _ _ _ => VErr O "NotImplementedError"
    end
  else if String.eqb (pwhat c) "names" || String.eqb (pwhat c) "guess" then
    (if negb (constructible (pmodel c)) then VErr O "ValueError"
     else if set_eqb (map fst (pparams c)) (pnames (pmodel c)) then VNone O else VErr O "keys-differ")
  else if String.eqb (pwhat c) "bounds" then
    (if negb (constructible (pmodel c)) then VErr O "ValueError"
     else if set_eqb (map fst (pparams c)) (pbnames (pmodel c)) then VNone O else VErr O "keys-differ")
  else if String.eqb (pwhat c) "construct" then
    (if constructible (pmodel c) then VNone O else VErr O "ValueError")
  else VErr O "unknown-case".

(* "" = agreement.  |impl - model| <= tol |model| + floor  (floor in the unit of the result) *)
Definition cmp16 (m : val O) (o : outcome) (tol floor : Q) : string :=
  match m, o with
  | VVar _ (ENum _ x _) u d, OutVal v sc dm dt =>
      if negb (deqb (ud _ u) dm) then "unit-dimension"
      else if negb (rel_close (us _ u) sc (1 # 1000000000000)) then "unit-multiplier"
      else if negb (dtype_eqb d dt) then "dtype:model=" ++ dtype_name d ++ ",impl=" ++ dtype_name dt
      else if Qle_bool (Qabs (v * sc - x * us _ u)) (tol * Qabs (x * us _ u) + floor * sc) then "" else "value"
  | VErr _ e, OutErr cls => if String.eqb e cls then "" else "error-class:model=" ++ e ++ ",impl=" ++ cls
  | VNone _, OutErr cls => if String.eqb cls "ok" then "" else "impl-raises-" ++ cls
  | VErr _ e, _ => "model-raises-" ++ e
  | _, OutErr cls => "impl-raises-" ++ cls
  | _, OutNaN _ _ _ => "impl-NaN"
  | _, OutInf _ _ _ => "impl-infinite"
  | _, _ => "shape"
  end.
Definition check (c : pcase) : string := cmp16 (run c) (pout c) (ptol c) (pfloor c).
