(* C16/Tie.v — obligations proved DIRECTLY ON THE TERMS REGENERATED FROM
   /repo/src/scippneutron/peaks/model.py on this run (Run.GenModel):
   _gaussian, _lorentzian, {Gaussian,Lorentzian,PseudoVoigt,Polynomial}Model._call and the
   three fwhm methods.

   Conventions (as in C01): [tv v s dims dt] is an operand with numeric value v in a unit
   whose multiplier to SI is s (ARBITRARY positive real) and dimensions dims.  x, loc and
   scale share one unit (scipp refuses x - loc otherwise, and exp of a non-unit
   multiplier); its dimensions range over [xdims], those of y = amplitude/x over [ydims].
   The clamp max(scale, 1e-15) of the source is part of the model; the theorems assume the
   numeric scale is >= 1e-15 (2e-15 for the pseudo-Voigt, whose Gaussian part uses
   scale/sqrt(2 ln 2)). *)
From Coq Require Import Reals ZArith String List Lra.
From Coquelicot Require Import Coquelicot.
From Verif.Sem Require Import Field Val RInst RLemmas.
From Verif.C16 Require Import SemExt Spec Proofs Model ProofsModel.
From Run Require Import GenModel.
Import ListNotations.
Open Scope string_scope.
Open Scope R_scope.

(* ---------- staged evaluation of the translated statement sequences.
   A plain [cbv] is not usable: the clamp leaves a stuck [if Rltb s 1e-15] on which every
   later operation would branch.  [step] evaluates the outermost statements one at a
   time (call by value) and discharges each clamp with the hypothesis on the scale. *)
Ltac sem16_in t :=
  eval cbv -[Rplus Rminus Rmult Rdiv Rinv Ropp IZR sqrt sin cos atan2 atan asin exp ln Rabs PI
        Rleb Rltb Reqb Rle_dec Rlt_dec Req_EM_T Rrint Int_part up] in t.

Lemma py_max_left h mn (x y : R) : y <= x ->
  py_max (ROps h mn) (VFloat (ROps h mn) x) (VFloat (ROps h mn) y) = VFloat (ROps h mn) x.
Proof. intros H. unfold py_max. simpl. rewrite Rltb_false by exact H. reflexivity. Qed.

Ltac pure t := lazymatch t with context [@py_max] => fail | _ => idtac end.
(* params[self._prefix + 'scale'] with a symbolic prefix *)
Lemma vindex_pref (O : Fops) p k (l : list (string * val O)) :
  vindex O (VDict O (pref p l)) (VStr O (p ++ k)) = vindex O (VDict O l) (VStr O k).
Proof. simpl. rewrite assoc_pref. reflexivity. Qed.
Ltac prefix_step :=
  match goal with
  | |- context [@vindex ?O (VDict _ (pref ?p ?l)) ?k] =>
      let k' := eval cbv -[append] in k in
      lazymatch k' with
      | VStr _ (p ++ ?suffix) =>
          replace (@vindex O (VDict O (pref p l)) k) with (@vindex O (VDict O l) (VStr O suffix))
            by (symmetry; exact (vindex_pref O p suffix l))
      end
  end.

Ltac eqR := lazymatch goal with |- @eq _ ?a ?b => change (@eq R a b) end.
Ltac one_r := repeat rewrite Rmult_1_r; repeat rewrite Rmult_1_l.
Ltac align_sqrt :=
  repeat match goal with
  | |- context [sqrt ?a] =>
     lazymatch a with
     | (2 * PI) => fail
     | (2 * ln 2) => fail
     | _ => first [ replace a with (2 * PI) by (field; lra) | replace a with (2 * ln 2) by (field; lra) ]
     end
  end.
Ltac clamp_side := first [ lra | one_r; align_sqrt; apply clamp_pv; lra ].
Ltac step :=
  match goal with
  | |- context [@py_max ?O ?a ?b] =>
      pure a; pure b;
      let a' := sem16_in a in let b' := sem16_in b in
      change (@py_max O a b) with (@py_max O a' b');
      rewrite py_max_left by clamp_side
  | |- context C [@vbind ?O ?v ?k] =>
      pure v;
      let v' := sem16_in v in
      lazymatch v' with
      | VErr _ _ => fail 2 "a statement raises" v'
      | _ => idtac
      end;
      let r := eval cbv beta in (k v') in
      let g := context C [r] in
      change g
  end.
Ltac final :=
  match goal with
  | |- is_qty ?h ?mn ?r ?p ?s ?d ?t =>
      pure r; let r' := sem16_in r in change (is_qty h mn r' p s d t)
  end.
Ltac run := repeat step.
Ltac align_exp :=
  match goal with
  | |- ?L = ?R =>
      match L with context [exp ?a] =>
        match R with context [exp ?b] =>
          replace a with b by (field; lra); generalize (exp b); intro
        end
      end
  end.
Ltac consts :=
  pose proof k_pos; pose proof s2pi_pos; pose proof PI_RGT_0;
  set (K2 := sqrt (2 * ln 2)) in *; set (K1 := sqrt (2 * PI)) in *.
Ltac close_val := eqR; one_r; align_sqrt; consts; try align_exp; field; lra.
Ltac close_unit := cbn [us ud]; eqR; one_r; first [reflexivity | field; lra].

(* dimensions covered: x in length, time, energy (J), dimensionless; y in counts, dimensionless *)
Definition xdims : list dims := [d_m; d_s; d_J; dzero].
Definition ydims : list dims := [d_counts; dzero].
Ltac cases_in H :=
  lazymatch type of H with
  | False => contradiction
  | ?a = ?v \/ ?rest =>
      let E := fresh "E" in let H' := fresh "H" in
      destruct H as [E|H']; [rewrite <- E; clear E | cases_in H']
  end.
(* dmx / dmy are section variables: they are rewritten in the goal, case by case *)
Ltac all_dims :=
  match goal with
  | Hx : In ?dx xdims, Hy : In ?dy ydims |- _ =>
      let Hx' := fresh in let Hy' := fresh in
      pose proof Hx as Hx'; pose proof Hy as Hy'; unfold xdims, ydims in Hx', Hy'; simpl in Hx', Hy';
      cases_in Hx'; cases_in Hy'
  end.
(* the same for statements that only mention the dimensions of x (the fwhm methods) *)
Ltac x_dims :=
  match goal with
  | Hx : In ?dx xdims |- _ =>
      let Hx' := fresh in
      pose proof Hx as Hx'; unfold xdims in Hx'; simpl in Hx'; cases_in Hx'
  end.
Ltac all_num :=
  repeat match goal with
         | H : is_num ?d = true |- _ => destruct d; try discriminate H; clear H
         end.

Section T.
Variables h mn : R.
Notation O := (ROps h mn).
Notation tv := (tvar h mn).
Variables dmx dmy : dims.
Hypothesis Hdmx : In dmx xdims.
Hypothesis Hdmy : In dmy ydims.
Notation dmA := (dadd dmy dmx).

Definition phys (v : val O) : R :=
  match v with @VVar _ (@ENum _ x _) u _ => x * us O u | _ => 0 end.
Lemma is_qty_phys r p s d t : is_qty h mn r p s d t -> phys r = p.
Proof using. intros (v & u & -> & _ & Hs & Hv). simpl. rewrite Hs. exact Hv. Qed.

(* ---------------------------------------------------------------- closed forms *)
Lemma gaussian_closed x sx A sA mu s dx :
  sx > 0 -> sA > 0 -> s >= 1 / 1000000000000000 -> is_num dx = true ->
  is_qty h mn (p_gaussian O (tv x sx dmx dx) (tv A sA dmA DF64) (tv mu sx dmx DF64) (tv s sx dmx DF64))
         (gauss (A * sA) (mu * sx) (s * sx) (x * sx)) (sA / sx) dmy DF64.
Proof using Hdmx Hdmy.
  intros Hsx HsA Hs Hdx. all_dims; all_num; unfold p_gaussian; run;
    (qty_intro; [close_unit | unfold gauss; close_val]).
Qed.

Lemma lorentzian_closed x sx A sA mu s dx :
  sx > 0 -> sA > 0 -> s >= 1 / 1000000000000000 -> is_num dx = true ->
  is_qty h mn (p_lorentzian O (tv x sx dmx dx) (tv A sA dmA DF64) (tv mu sx dmx DF64) (tv s sx dmx DF64))
         (lorentz (A * sA) (mu * sx) (s * sx) (x * sx)) (sA / sx) dmy DF64.
Proof using Hdmx Hdmy.
  intros Hsx HsA Hs Hdx.
  assert (0 < (x - mu) * (x - mu) + s * s) by (apply lorentz_den_pos; lra).
  assert (0 < (x * sx - mu * sx) * (x * sx - mu * sx) + s * sx * (s * sx)) by (apply lorentz_den_pos; nra).
  all_dims; all_num; unfold p_lorentzian; run;
    (qty_intro; [close_unit | unfold lorentz; close_val]).
Qed.

(* the parameter dict as Model.__call__ hands it to _call (names without prefix) *)
Definition plist (A sA mu s sx : R) : list (string * val O) :=
  [("amplitude", tv A sA dmA DF64); ("loc", tv mu sx dmx DF64); ("scale", tv s sx dmx DF64)].
Definition pdict A sA mu s sx : val O := VDict O (plist A sA mu s sx).
Definition pvlist (A sA mu s sx f : R) : list (string * val O) :=
  plist A sA mu s sx ++ [("fraction", tv f 1 dzero DF64)].
Definition pvdict A sA mu s sx f : val O := VDict O (pvlist A sA mu s sx f).

Lemma gaussian_call_closed self x sx A sA mu s dx :
  sx > 0 -> sA > 0 -> s >= 1 / 1000000000000000 -> is_num dx = true ->
  is_qty h mn (GaussianModel__call O self (tv x sx dmx dx) (pdict A sA mu s sx))
         (gauss (A * sA) (mu * sx) (s * sx) (x * sx)) (sA / sx) dmy DF64.
Proof using Hdmx Hdmy.
  intros Hsx HsA Hs Hdx. unfold GaussianModel__call, pdict, plist. run.
  apply gaussian_closed; assumption.
Qed.
Lemma lorentzian_call_closed self x sx A sA mu s dx :
  sx > 0 -> sA > 0 -> s >= 1 / 1000000000000000 -> is_num dx = true ->
  is_qty h mn (LorentzianModel__call O self (tv x sx dmx dx) (pdict A sA mu s sx))
         (lorentz (A * sA) (mu * sx) (s * sx) (x * sx)) (sA / sx) dmy DF64.
Proof using Hdmx Hdmy.
  intros Hsx HsA Hs Hdx. unfold LorentzianModel__call, pdict, plist. run.
  apply lorentzian_closed; assumption.
Qed.
Lemma pvoigt_call_closed self x sx A sA mu s f dx :
  sx > 0 -> sA > 0 -> s >= 2 / 1000000000000000 -> is_num dx = true ->
  is_qty h mn (PseudoVoigtModel__call O self (tv x sx dmx dx) (pvdict A sA mu s sx f))
         (pvoigt (A * sA) (mu * sx) (s * sx) f (x * sx)) (sA / sx) dmy DF64.
Proof using Hdmx Hdmy.
  intros Hsx HsA Hs Hdx.
  assert (0 < (x - mu) * (x - mu) + s * s) by (apply lorentz_den_pos; lra).
  assert (0 < (x * sx - mu * sx) * (x * sx - mu * sx) + s * sx * (s * sx)) by (apply lorentz_den_pos; nra).
  unfold PseudoVoigtModel__call, pvdict, pvlist, plist, p_gaussian, p_lorentzian; simpl app;
    all_dims; all_num; run; final;
    (qty_intro; [close_unit | unfold pvoigt, gauss, lorentz, sigma_g; close_val]).
Qed.

(* ---------------------------------------------------------------- FWHM methods
   (self is the object's attribute dict; the parameter dict carries PREFIXED names) *)
Definition selfp (p : string) : val O := VDict O [("_prefix", VStr O p)].
Definition pdictp p A sA mu s sx : val O := VDict O (pref p (plist A sA mu s sx)).
Definition pvdictp p A sA mu s sx f : val O := VDict O (pref p (pvlist A sA mu s sx f)).

Lemma gaussian_fwhm_closed p A sA mu s sx :
  sx > 0 ->
  is_qty h mn (GaussianModel_fwhm O (selfp p) (pdictp p A sA mu s sx)) (fwhm_gauss (s * sx)) sx dmx DF64.
Proof using Hdmx Hdmy.
  intros Hsx. unfold GaussianModel_fwhm, selfp, pdictp, plist; x_dims; prefix_step; final;
    (qty_intro; [close_unit | unfold fwhm_gauss; close_val]).
Qed.
Lemma lorentzian_fwhm_closed p A sA mu s sx :
  sx > 0 ->
  is_qty h mn (LorentzianModel_fwhm O (selfp p) (pdictp p A sA mu s sx)) (fwhm_lorentz (s * sx)) sx dmx DF64.
Proof using Hdmx Hdmy.
  intros Hsx. unfold LorentzianModel_fwhm, selfp, pdictp, plist; x_dims; prefix_step; final;
    (qty_intro; [close_unit | unfold fwhm_lorentz; close_val]).
Qed.
Lemma pvoigt_fwhm_closed p A sA mu s sx f :
  sx > 0 ->
  is_qty h mn (PseudoVoigtModel_fwhm O (selfp p) (pvdictp p A sA mu s sx f)) (fwhm_lorentz (s * sx)) sx dmx DF64.
Proof using Hdmx Hdmy.
  intros Hsx. unfold PseudoVoigtModel_fwhm, selfp, pvdictp, pvlist, plist; simpl app; x_dims; prefix_step; final;
    (qty_intro; [close_unit | unfold fwhm_lorentz; close_val]).
Qed.

(* ---------------------------------------------------------------- symmetry about loc *)
Lemma plus_scale a b c : (a + b) * c = a * c + b * c. Proof using. ring. Qed.
Lemma minus_scale a b c : (a - b) * c = a * c - b * c. Proof using. ring. Qed.

Lemma symmetric_gaussian self sx A sA mu s d dx :
  sx > 0 -> sA > 0 -> s >= 1 / 1000000000000000 -> is_num dx = true ->
  exists v, is_qty h mn (GaussianModel__call O self (tv (mu + d) sx dmx dx) (pdict A sA mu s sx)) v (sA / sx) dmy DF64
         /\ is_qty h mn (GaussianModel__call O self (tv (mu - d) sx dmx dx) (pdict A sA mu s sx)) v (sA / sx) dmy DF64.
Proof using Hdmx Hdmy.
  intros. eexists; split; [apply gaussian_call_closed; assumption|].
  rewrite plus_scale, gauss_sym, <- minus_scale. apply gaussian_call_closed; assumption.
Qed.
Lemma symmetric_lorentzian self sx A sA mu s d dx :
  sx > 0 -> sA > 0 -> s >= 1 / 1000000000000000 -> is_num dx = true ->
  exists v, is_qty h mn (LorentzianModel__call O self (tv (mu + d) sx dmx dx) (pdict A sA mu s sx)) v (sA / sx) dmy DF64
         /\ is_qty h mn (LorentzianModel__call O self (tv (mu - d) sx dmx dx) (pdict A sA mu s sx)) v (sA / sx) dmy DF64.
Proof using Hdmx Hdmy.
  intros. eexists; split; [apply lorentzian_call_closed; assumption|].
  rewrite plus_scale, lorentz_sym, <- minus_scale. apply lorentzian_call_closed; assumption.
Qed.
Lemma symmetric_pvoigt self sx A sA mu s f d dx :
  sx > 0 -> sA > 0 -> s >= 2 / 1000000000000000 -> is_num dx = true ->
  exists v, is_qty h mn (PseudoVoigtModel__call O self (tv (mu + d) sx dmx dx) (pvdict A sA mu s sx f)) v (sA / sx) dmy DF64
         /\ is_qty h mn (PseudoVoigtModel__call O self (tv (mu - d) sx dmx dx) (pvdict A sA mu s sx f)) v (sA / sx) dmy DF64.
Proof using Hdmx Hdmy.
  intros. eexists; split; [apply pvoigt_call_closed; assumption|].
  rewrite plus_scale, pvoigt_sym, <- minus_scale. apply pvoigt_call_closed; assumption.
Qed.

(* ---------------------------------------------------------------- half maximum at loc +- fwhm/2,
   fwhm being the value the TRANSLATED fwhm method returns *)
Lemma half_max_gaussian p self sx A sA mu s :
  sx > 0 -> sA > 0 -> s >= 1 / 1000000000000000 ->
  exists w peak,
    is_qty h mn (GaussianModel_fwhm O (selfp p) (pdictp p A sA mu s sx)) w sx dmx DF64
    /\ is_qty h mn (GaussianModel__call O self (tv mu sx dmx DF64) (pdict A sA mu s sx)) peak (sA / sx) dmy DF64
    /\ forall xv dx, is_num dx = true -> xv * sx = mu * sx + w / 2 \/ xv * sx = mu * sx - w / 2 ->
         is_qty h mn (GaussianModel__call O self (tv xv sx dmx dx) (pdict A sA mu s sx)) (peak / 2) (sA / sx) dmy DF64.
Proof using Hdmx Hdmy.
  intros Hsx HsA Hs. assert (Hp : s * sx > 0) by (apply Rmult_lt_0_compat; lra).
  exists (fwhm_gauss (s * sx)), (gauss (A * sA) (mu * sx) (s * sx) (mu * sx)).
  split; [apply gaussian_fwhm_closed; assumption|].
  split; [apply gaussian_call_closed; try assumption; reflexivity|].
  intros xv dx Hdx Hx. destruct (gauss_half_max (A * sA) (mu * sx) (s * sx) Hp) as [E1 E2].
  destruct Hx as [Hx|Hx]; [rewrite <- E1 | rewrite <- E2]; rewrite <- Hx; apply gaussian_call_closed; assumption.
Qed.
Lemma half_max_lorentzian p self sx A sA mu s :
  sx > 0 -> sA > 0 -> s >= 1 / 1000000000000000 ->
  exists w peak,
    is_qty h mn (LorentzianModel_fwhm O (selfp p) (pdictp p A sA mu s sx)) w sx dmx DF64
    /\ is_qty h mn (LorentzianModel__call O self (tv mu sx dmx DF64) (pdict A sA mu s sx)) peak (sA / sx) dmy DF64
    /\ forall xv dx, is_num dx = true -> xv * sx = mu * sx + w / 2 \/ xv * sx = mu * sx - w / 2 ->
         is_qty h mn (LorentzianModel__call O self (tv xv sx dmx dx) (pdict A sA mu s sx)) (peak / 2) (sA / sx) dmy DF64.
Proof using Hdmx Hdmy.
  intros Hsx HsA Hs. assert (Hp : s * sx > 0) by (apply Rmult_lt_0_compat; lra).
  exists (fwhm_lorentz (s * sx)), (lorentz (A * sA) (mu * sx) (s * sx) (mu * sx)).
  split; [apply lorentzian_fwhm_closed; assumption|].
  split; [apply lorentzian_call_closed; try assumption; reflexivity|].
  intros xv dx Hdx Hx. destruct (lorentz_half_max (A * sA) (mu * sx) (s * sx) Hp) as [E1 E2].
  destruct Hx as [Hx|Hx]; [rewrite <- E1 | rewrite <- E2]; rewrite <- Hx; apply lorentzian_call_closed; assumption.
Qed.
(* for EVERY mixing fraction f (no range needed: both components are at half height) *)
Lemma half_max_pvoigt p self sx A sA mu s f :
  sx > 0 -> sA > 0 -> s >= 2 / 1000000000000000 ->
  exists w peak,
    is_qty h mn (PseudoVoigtModel_fwhm O (selfp p) (pvdictp p A sA mu s sx f)) w sx dmx DF64
    /\ is_qty h mn (PseudoVoigtModel__call O self (tv mu sx dmx DF64) (pvdict A sA mu s sx f)) peak (sA / sx) dmy DF64
    /\ forall xv dx, is_num dx = true -> xv * sx = mu * sx + w / 2 \/ xv * sx = mu * sx - w / 2 ->
         is_qty h mn (PseudoVoigtModel__call O self (tv xv sx dmx dx) (pvdict A sA mu s sx f)) (peak / 2) (sA / sx) dmy DF64.
Proof using Hdmx Hdmy.
  intros Hsx HsA Hs. assert (Hp : s * sx > 0) by (apply Rmult_lt_0_compat; lra).
  exists (fwhm_lorentz (s * sx)), (pvoigt (A * sA) (mu * sx) (s * sx) f (mu * sx)).
  split; [apply pvoigt_fwhm_closed; assumption|].
  split; [apply pvoigt_call_closed; try assumption; reflexivity|].
  intros xv dx Hdx Hx. destruct (pvoigt_half_max (A * sA) (mu * sx) (s * sx) f Hp) as [E1 E2].
  destruct Hx as [Hx|Hx]; [rewrite <- E1 | rewrite <- E2]; rewrite <- Hx; apply pvoigt_call_closed; assumption.
Qed.

(* ---------------------------------------------------------------- integrals of the translated
   functions over the physical coordinate t = x * unit(x)  (value in SI: phys) *)
Lemma at_phys t sx : sx > 0 -> t / sx * sx = t.
Proof using. intros; field; lra. Qed.

Lemma lorentzian_integral self sx A sA mu s a b :
  sx > 0 -> sA > 0 -> s >= 1 / 1000000000000000 ->
  is_RInt (fun t => phys (LorentzianModel__call O self (tv (t / sx) sx dmx DF64) (pdict A sA mu s sx))) a b
          (A * sA / PI * (atan ((b - mu * sx) / (s * sx)) - atan ((a - mu * sx) / (s * sx)))).
Proof using Hdmx Hdmy.
  intros Hsx HsA Hs. assert (Hp : s * sx > 0) by (apply Rmult_lt_0_compat; lra).
  apply is_RInt_ext with (f := lorentz (A * sA) (mu * sx) (s * sx)); [| apply lorentz_RInt; assumption].
  intros t _. symmetry. rewrite <- (at_phys t sx Hsx) at 2.
  apply is_qty_phys with (s := sA / sx) (d := dmy) (t := DF64). apply lorentzian_call_closed; try assumption; reflexivity.
Qed.
Lemma gaussian_integral_partial self sx A sA mu s c :
  sx > 0 -> sA > 0 -> s >= 1 / 1000000000000000 -> 12 <= c ->
  exists J,
    is_RInt (fun t => phys (GaussianModel__call O self (tv (t / sx) sx dmx DF64) (pdict A sA mu s sx)))
            (mu * sx - c * (s * sx)) (mu * sx + c * (s * sx)) J
    /\ Rabs (J - A * sA) <= 2 / 1000000000 * Rabs (A * sA).
Proof using Hdmx Hdmy.
  intros Hsx HsA Hs Hc. assert (Hp : s * sx > 0) by (apply Rmult_lt_0_compat; lra).
  destruct (gauss_integral_wide (A * sA) (mu * sx) (s * sx) c Hp Hc) as (J & HJ & HB).
  exists J. split; [| exact HB].
  apply is_RInt_ext with (f := gauss (A * sA) (mu * sx) (s * sx)); [| exact HJ].
  intros t _. symmetry. rewrite <- (at_phys t sx Hsx) at 2.
  apply is_qty_phys with (s := sA / sx) (d := dmy) (t := DF64). apply gaussian_call_closed; try assumption; reflexivity.
Qed.
Lemma pvoigt_integral_partial self sx A sA mu s f T :
  sx > 0 -> sA > 0 -> s >= 2 / 1000000000000000 -> 0 <= f <= 1 -> 12 <= T ->
  exists J,
    is_RInt (fun t => phys (PseudoVoigtModel__call O self (tv (t / sx) sx dmx DF64) (pvdict A sA mu s sx f)))
            (mu * sx - T * (s * sx)) (mu * sx + T * (s * sx)) J
    /\ Rabs (J - A * sA) <= Rabs (A * sA) * (f * (2 / (PI * T)) + (1 - f) * (2 / 1000000000)).
Proof using Hdmx Hdmy.
  intros Hsx HsA Hs Hf HT. assert (Hp : s * sx > 0) by (apply Rmult_lt_0_compat; lra).
  destruct (pvoigt_integral (A * sA) (mu * sx) (s * sx) f T Hp Hf HT) as (J & HJ & HB).
  exists J. split; [| exact HB].
  apply is_RInt_ext with (f := pvoigt (A * sA) (mu * sx) (s * sx) f); [| exact HJ].
  intros t _. symmetry. rewrite <- (at_phys t sx Hsx) at 2.
  apply is_qty_phys with (s := sA / sx) (d := dmy) (t := DF64). apply pvoigt_call_closed; try assumption; reflexivity.
Qed.

(* ---------------------------------------------------------------- polynomial, degrees 1..6
   (the property's range): the translated Horner loop returns sum_i a_i x^i; coefficient i is
   given in the unit unit(y)/unit(x)^i *)
Fixpoint pcoefs (i : nat) (l : list R) (sy sx : R) : list (string * val O) :=
  match l with
  | [] => []
  | a :: r => ("a" ++ z_str (Z.of_nat i), tv a (sy / sx ^ i) (dsub dmy (dscale (Z.of_nat i) dmx)) DF64)
              :: pcoefs (S i) r sy sx
  end.
Fixpoint physc (i : nat) (l : list R) (sy sx : R) : list R :=
  match l with
  | [] => []
  | a :: r => a * (sy / sx ^ i) :: physc (S i) r sy sx
  end.
Definition selfpoly (n : Z) : val O := VDict O [("_prefix", VStr O ""); ("degree", VInt O n)].

Ltac poly_tac :=
  unfold PolynomialModel__call, selfpoly; cbn [pcoefs]; all_dims; all_num; run; final;
  (qty_intro; [close_unit | unfold poly_sum; cbn [psum physc pow]; eqR; field; lra]).

Lemma polynomial_closed_1 a0 a1 x sx sy dx : sx > 0 -> sy > 0 -> is_num dx = true ->
  is_qty h mn (PolynomialModel__call O (selfpoly 1) (tv x sx dmx dx) (VDict O (pcoefs 0 [a0; a1] sy sx)))
         (poly_sum (physc 0 [a0; a1] sy sx) (x * sx)) sy dmy DF64.
Proof using Hdmx Hdmy. intros; poly_tac. Qed.
Lemma polynomial_closed_2 a0 a1 a2 x sx sy dx : sx > 0 -> sy > 0 -> is_num dx = true ->
  is_qty h mn (PolynomialModel__call O (selfpoly 2) (tv x sx dmx dx) (VDict O (pcoefs 0 [a0; a1; a2] sy sx)))
         (poly_sum (physc 0 [a0; a1; a2] sy sx) (x * sx)) sy dmy DF64.
Proof using Hdmx Hdmy. intros; poly_tac. Qed.
Lemma polynomial_closed_3 a0 a1 a2 a3 x sx sy dx : sx > 0 -> sy > 0 -> is_num dx = true ->
  is_qty h mn (PolynomialModel__call O (selfpoly 3) (tv x sx dmx dx) (VDict O (pcoefs 0 [a0; a1; a2; a3] sy sx)))
         (poly_sum (physc 0 [a0; a1; a2; a3] sy sx) (x * sx)) sy dmy DF64.
Proof using Hdmx Hdmy. intros; poly_tac. Qed.
Lemma polynomial_closed_4 a0 a1 a2 a3 a4 x sx sy dx : sx > 0 -> sy > 0 -> is_num dx = true ->
  is_qty h mn (PolynomialModel__call O (selfpoly 4) (tv x sx dmx dx) (VDict O (pcoefs 0 [a0; a1; a2; a3; a4] sy sx)))
         (poly_sum (physc 0 [a0; a1; a2; a3; a4] sy sx) (x * sx)) sy dmy DF64.
Proof using Hdmx Hdmy. intros; poly_tac. Qed.
Lemma polynomial_closed_5 a0 a1 a2 a3 a4 a5 x sx sy dx : sx > 0 -> sy > 0 -> is_num dx = true ->
  is_qty h mn (PolynomialModel__call O (selfpoly 5) (tv x sx dmx dx) (VDict O (pcoefs 0 [a0; a1; a2; a3; a4; a5] sy sx)))
         (poly_sum (physc 0 [a0; a1; a2; a3; a4; a5] sy sx) (x * sx)) sy dmy DF64.
Proof using Hdmx Hdmy. intros; poly_tac. Qed.
Lemma polynomial_closed_6 a0 a1 a2 a3 a4 a5 a6 x sx sy dx : sx > 0 -> sy > 0 -> is_num dx = true ->
  is_qty h mn (PolynomialModel__call O (selfpoly 6) (tv x sx dmx dx) (VDict O (pcoefs 0 [a0; a1; a2; a3; a4; a5; a6] sy sx)))
         (poly_sum (physc 0 [a0; a1; a2; a3; a4; a5; a6] sy sx) (x * sx)) sy dmy DF64.
Proof using Hdmx Hdmy. intros; poly_tac. Qed.
End T.
