(* C16/Leaf.v — the numerical leaves of the object model (Verif.C16.Model) are the `_call`
   methods REGENERATED from model.py on this run, for any arithmetic O; they do not read
   self._prefix (hypothesis of ProofsModel.prefix_irrelevant). *)
From Coq Require Import ZArith String List.
From Verif.Sem Require Import Field Val.
From Verif.C16 Require Import SemExt Model.
From Run Require Import GenModel.

Section Leaves.
Variable O : Fops.
Context {X : Xops O}.
Definition gen_leaf (k : kind) (self x params : val O) : val O :=
  match k with
  | KGauss => GaussianModel__call O self x params
  | KLorentz => LorentzianModel__call O self x params
  | KPVoigt => PseudoVoigtModel__call O self x params
  | KPoly _ => PolynomialModel__call O self x params
  end.
Definition gen_fwhm (k : kind) (self params : val O) : val O :=
  match k with
  | KGauss => GaussianModel_fwhm O self params
  | KLorentz => LorentzianModel_fwhm O self params
  | KPVoigt => PseudoVoigtModel_fwhm O self params
  | KPoly _ => VErr O "NotImplementedError"
  end.
Lemma gen_leaf_prefix_indep k p q x d : gen_leaf k (self_of O k p) x d = gen_leaf k (self_of O k q) x d.
Proof using. destruct k; reflexivity. Qed.
End Leaves.
