(* C01/Tie.v — obligations proved DIRECTLY ON THE TERMS REGENERATED FROM
   /repo/src/scippneutron/conversion/tof.py on this run (Run.GenTof).
   Each lemma: for all physical constants h, m_n > 0, all positive inputs in
   ARBITRARY units of the right dimension (multipliers st, sL, ... > 0) and all
   numeric dtypes of every operand, the translated kernel returns the
   de Broglie / Bragg value of C01/Spec.v in the documented unit, in float32 iff
   the data operand is float32 and float64 otherwise. *)
From Coq Require Import Reals ZArith String List Lra.
From Verif.Sem Require Import Field Val RInst RLemmas.
From Verif.C01 Require Import Spec.
From Run Require Import GenUtils GenTof.
Open Scope R_scope.

Definition angstrom : R := 1 / 10000000000.
Definition meV : R := 1602176634 / 10000000000000000000000000000000.
Definition d_invm : dims := dscale (-1) d_m.

(* numeric dtypes for which scipp implements `**` (int32 is refused, probed) *)
Definition pow_ok (d : dtype) : bool := match d with DF64 | DF32 | DI64 => true | _ => false end.

Ltac all_dtypes :=
  repeat match goal with
         | H : is_num ?d = true |- _ => destruct d; try discriminate H; clear H
         | H : pow_ok ?d = true |- _ => destruct d; try discriminate H; clear H
         | H : is_float ?d = true |- _ => destruct d; try discriminate H; clear H
         end.

Ltac unit_goal :=
  unfold angstrom, meV;
  first [ reflexivity | field; lra | apply sqrt_eq_of_sq; [lra | field; lra]
        | match goal with
          | |- context [sqrt ?x] =>
              replace (sqrt x) with (1 / 10000000000)
                by (symmetry; apply sqrt_eq_of_sq; [lra | field; lra]);
              field; lra
          end ].
(* bring the argument of every sin(...) in the goal to the canonical form th*sth/2 *)
Ltac half_angle th sth :=
  repeat match goal with
         | |- context [sin ?x] =>
             lazymatch x with
             | (th * sth / 2) => fail
             | _ => replace x with (th * sth / 2) by (field; lra)
             end
         end.

Section Tie.
Variables h mn : R.
Hypothesis Hh : h > 0.
Hypothesis Hm : mn > 0.
Notation O := (ROps h mn).
Notation tv := (tvar h mn).

Lemma wavelength_from_tof_exact t st L sL dt dL :
  t > 0 -> st > 0 -> L > 0 -> sL > 0 -> is_num dt = true -> is_num dL = true ->
  is_qty h mn (wavelength_from_tof O (tv t st d_s dt) (tv L sL d_m dL))
         (lam_tof h mn (t * st) (L * sL)) angstrom d_m (fdt dt).
Proof using Hh Hm.
  intros; all_dtypes; sem_cbv; (qty_intro; [unit_goal | unfold angstrom, lam_tof; field; lra]).
Qed.

Lemma energy_from_tof_exact t st L sL dt dL :
  t > 0 -> st > 0 -> L > 0 -> sL > 0 -> pow_ok dt = true -> pow_ok dL = true ->
  is_qty h mn (energy_from_tof O (tv t st d_s dt) (tv L sL d_m dL))
         (E_tof mn (t * st) (L * sL)) meV d_J (fdt dt).
Proof using Hh Hm.
  intros; all_dtypes; sem_cbv; (qty_intro; [unit_goal | unfold meV, E_tof; field; lra]).
Qed.

Lemma energy_from_wavelength_exact l sl dl :
  l > 0 -> sl > 0 -> pow_ok dl = true ->
  is_qty h mn (energy_from_wavelength O (tv l sl d_m dl))
         (E_lam h mn (l * sl)) meV d_J (fdt dl).
Proof using Hh Hm.
  intros; all_dtypes; sem_cbv; (qty_intro; [unit_goal | unfold meV, E_lam; field; lra]).
Qed.

Lemma dspacing_from_tof_exact t st L sL th sth dt dL dth :
  t > 0 -> st > 0 -> L > 0 -> sL > 0 -> sth > 0 -> 0 < th * sth <= PI ->
  is_num dt = true -> is_num dL = true -> is_num dth = true ->
  is_qty h mn (dspacing_from_tof O (tv t st d_s dt) (tv L sL d_m dL) (tv th sth d_rad dth))
         (d_tof h mn (t * st) (L * sL) (th * sth)) angstrom d_m (fdt dt).
Proof using Hh Hm.
  intros ? ? ? ? ? Hth ? ? ?; pose proof (sin_half_pos _ Hth); all_dtypes; sem_cbv;
    (qty_intro; [unit_goal | unfold angstrom, d_tof; half_angle th sth; field; lra]).
Qed.

Lemma Q_from_wavelength_exact l sl th sth dl dth :
  l > 0 -> sl > 0 -> sth > 0 -> 0 < th * sth <= PI ->
  is_float dl = true -> is_num dth = true ->
  is_qty h mn (Q_from_wavelength O (tv l sl d_m dl) (tv th sth d_rad dth))
         (Q_lam (l * sl) (th * sth)) (1 / sl) d_invm (fdt dl).
Proof using Hh Hm.
  intros ? ? ? Hth ? ?; all_dtypes; sem_cbv;
    (qty_intro; [unit_goal | unfold Q_lam; half_angle th sth; field; lra]).
Qed.

Lemma wavelength_from_Q_exact q sq th sth dq dth :
  q > 0 -> sq > 0 -> sth > 0 -> 0 < th * sth <= PI ->
  is_float dq = true -> is_num dth = true ->
  is_qty h mn (wavelength_from_Q O (tv q sq d_invm dq) (tv th sth d_rad dth))
         (lam_Q (q * sq) (th * sth)) angstrom d_m (fdt dq).
Proof using Hh Hm.
  intros ? ? ? Hth ? ?; pose proof (sin_half_pos _ Hth); all_dtypes; sem_cbv;
    (qty_intro; [unit_goal | unfold lam_Q, angstrom; half_angle th sth; field; lra]).
Qed.

Lemma dspacing_from_wavelength_exact l sl th sth dl dth :
  l > 0 -> sl > 0 -> sth > 0 -> 0 < th * sth <= PI ->
  is_float dl = true -> is_num dth = true ->
  is_qty h mn (dspacing_from_wavelength O (tv l sl d_m dl) (tv th sth d_rad dth))
         (d_lam (l * sl) (th * sth)) angstrom d_m (fdt dl).
Proof using Hh Hm.
  intros ? ? ? Hth ? ?; pose proof (sin_half_pos _ Hth); all_dtypes; sem_cbv;
    (qty_intro; [unit_goal | unfold d_lam, angstrom; half_angle th sth; field; lra]).
Qed.

Lemma wavelength_from_energy_exact E sE dE :
  E > 0 -> sE > 0 -> is_float dE = true ->
  is_qty h mn (wavelength_from_energy O (tv E sE d_J dE))
         (lam_E h mn (E * sE)) angstrom d_m (fdt dE).
Proof using Hh Hm.
  intros HE HsE ?; assert (Hs : 0 < sqrt (2 * mn * (E * sE))) by pos;
  all_dtypes; sem_cbv;
    (qty_intro; [unit_goal | unfold lam_E, angstrom;
       apply sqrt_scale;
       [ lra
       | apply Rlt_le, Rdiv_lt_0_compat; lra
       | replace (h / sqrt (2 * mn * (E * sE)) * (h / sqrt (2 * mn * (E * sE))))
           with (h * h / (sqrt (2 * mn * (E * sE)) * sqrt (2 * mn * (E * sE)))) by (field; lra);
         rewrite sqrt_sqrt by nonneg; field; lra ]]).
Qed.

Lemma dspacing_from_energy_exact E sE th sth dE dth :
  E > 0 -> sE > 0 -> sth > 0 -> 0 < th * sth <= PI ->
  is_float dE = true -> is_num dth = true ->
  is_qty h mn (dspacing_from_energy O (tv E sE d_J dE) (tv th sth d_rad dth))
         (d_E h mn (E * sE) (th * sth)) angstrom d_m (fdt dE).
Proof using Hh Hm.
  intros HE HsE ? Hth ? ?; pose proof (sin_half_pos _ Hth) as Hsin;
  assert (Hs : 0 < sqrt (8 * mn * (E * sE))) by pos;
  all_dtypes; sem_cbv;
    (qty_intro; [unit_goal | unfold d_E, angstrom; half_angle th sth;
       match goal with
       | |- sqrt ?a / ?s * ?k = ?rhs =>
           replace (sqrt a / s * k) with (sqrt a * k / s) by (field; lra);
           replace rhs with (h / sqrt (8 * mn * (E * sE)) / s) by (field; lra);
           f_equal;
           apply sqrt_scale;
           [ lra
           | apply Rlt_le, Rdiv_lt_0_compat; lra
           | replace (h / sqrt (8 * mn * (E * sE)) * (h / sqrt (8 * mn * (E * sE))))
               with (h * h / (sqrt (8 * mn * (E * sE)) * sqrt (8 * mn * (E * sE)))) by (field; lra);
             rewrite sqrt_sqrt by nonneg; field; lra ]
       end]).
Qed.

End Tie.

(* ------------------------------------------------------------------------
   Compositions of the regenerated kernels: every pair of routes through the
   conversion graph to the same quantity agrees, and the invertible
   conversions round-trip (exactly, over R; rounding is treated in
   Verif.Sem.FloatErr / the correspondence run). *)
Section Routes.
Variables h mn : R.
Hypothesis Hh : h > 0.
Hypothesis Hm : mn > 0.
Notation O := (ROps h mn).
Notation tv := (tvar h mn).

Lemma is_qty_tv r phys scale dm dt :
  is_qty h mn r phys scale dm dt -> exists v, r = tv v scale dm dt /\ v * scale = phys.
Proof using Hh Hm.
  intros (v & [s d] & -> & Hd & Hs & Hv); simpl in *; subst; eexists; split; [reflexivity | first [assumption | reflexivity]].
Qed.
Lemma fdt_float d : is_float (fdt d) = true. Proof using. destruct d; reflexivity. Qed.
Lemma fdt_pow_ok d : pow_ok (fdt d) = true. Proof using. destruct d; reflexivity. Qed.
Lemma fdt_idem d : fdt (fdt d) = fdt d. Proof using. destruct d; reflexivity. Qed.
Lemma scale_pos v s p : s > 0 -> p > 0 -> v * s = p -> v > 0.
Proof using. intros Hs Hp E. destruct (Rlt_dec 0 v) as [|N]; [assumption|]. exfalso. nra. Qed.

Ltac chain H :=
  apply is_qty_tv in H; destruct H as (? & -> & ?).

Lemma lam_tof_pos t L : t > 0 -> L > 0 -> lam_tof h mn t L > 0.
Proof using Hh Hm. intros; unfold lam_tof; pos. Qed.

(* tof -> wavelength -> energy  ==  tof -> energy *)
Lemma route_tof_wavelength_energy t st L sL dt dL :
  t > 0 -> st > 0 -> L > 0 -> sL > 0 -> is_num dt = true -> is_num dL = true ->
  is_qty h mn (energy_from_wavelength O (wavelength_from_tof O (tv t st d_s dt) (tv L sL d_m dL)))
         (E_tof mn (t * st) (L * sL)) meV d_J (fdt dt).
Proof using Hh Hm.
  intros Ht Hst HL HsL Hdt HdL.
  pose proof (wavelength_from_tof_exact h mn Hh Hm t st L sL dt dL Ht Hst HL HsL Hdt HdL) as H1.
  pose proof (lam_tof_pos (t * st) (L * sL) ltac:(pos) ltac:(pos)) as Hl.
  chain H1.
  rewrite <- (route_tof_E h mn Hh Hm) by pos.
  match goal with E : ?x * angstrom = _ |- _ =>
    rewrite <- E; rewrite <- (fdt_idem dt) at 2;
    apply energy_from_wavelength_exact; try assumption;
    [ eapply scale_pos; [| exact Hl | exact E]; unfold angstrom; lra
    | unfold angstrom; lra | apply fdt_pow_ok ]
  end.
Qed.

(* tof -> wavelength -> dspacing  ==  tof -> dspacing *)
Lemma route_tof_wavelength_dspacing t st L sL th sth dt dL dth :
  t > 0 -> st > 0 -> L > 0 -> sL > 0 -> sth > 0 -> 0 < th * sth <= PI ->
  is_num dt = true -> is_num dL = true -> is_num dth = true ->
  is_qty h mn (dspacing_from_wavelength O (wavelength_from_tof O (tv t st d_s dt) (tv L sL d_m dL))
                                        (tv th sth d_rad dth))
         (d_tof h mn (t * st) (L * sL) (th * sth)) angstrom d_m (fdt dt).
Proof using Hh Hm.
  intros Ht Hst HL HsL Hsth Hth Hdt HdL Hdth.
  pose proof (wavelength_from_tof_exact h mn Hh Hm t st L sL dt dL Ht Hst HL HsL Hdt HdL) as H1.
  pose proof (lam_tof_pos (t * st) (L * sL) ltac:(pos) ltac:(pos)) as Hl.
  chain H1.
  rewrite <- (route_tof_d h mn Hh Hm) by (try pos; assumption).
  match goal with E : ?x * angstrom = _ |- _ =>
    rewrite <- E; rewrite <- (fdt_idem dt) at 2;
    apply dspacing_from_wavelength_exact; try assumption;
    [ eapply scale_pos; [| exact Hl | exact E]; unfold angstrom; lra
    | unfold angstrom; lra | apply fdt_float ]
  end.
Qed.

(* energy -> wavelength -> dspacing  ==  energy -> dspacing *)
Lemma route_energy_wavelength_dspacing E sE th sth dE dth :
  E > 0 -> sE > 0 -> sth > 0 -> 0 < th * sth <= PI -> is_float dE = true -> is_num dth = true ->
  is_qty h mn (dspacing_from_wavelength O (wavelength_from_energy O (tv E sE d_J dE)) (tv th sth d_rad dth))
         (d_E h mn (E * sE) (th * sth)) angstrom d_m (fdt dE).
Proof using Hh Hm.
  intros HE HsE Hsth Hth HdE Hdth.
  pose proof (wavelength_from_energy_exact h mn Hh Hm E sE dE HE HsE HdE) as H1.
  pose proof (lam_E_pos h mn Hh Hm (E * sE) ltac:(pos)) as Hl.
  chain H1.
  rewrite <- (route_E_d h mn Hh Hm) by (try pos; assumption).
  match goal with Eq : ?x * angstrom = _ |- _ =>
    rewrite <- Eq; rewrite <- (fdt_idem dE) at 2;
    apply dspacing_from_wavelength_exact; try assumption;
    [ eapply scale_pos; [| exact Hl | exact Eq]; unfold angstrom; lra
    | unfold angstrom; lra | apply fdt_float ]
  end.
Qed.

(* wavelength -> energy -> wavelength *)
Lemma roundtrip_wavelength_energy l sl dl :
  l > 0 -> sl > 0 -> pow_ok dl = true ->
  is_qty h mn (wavelength_from_energy O (energy_from_wavelength O (tv l sl d_m dl)))
         (l * sl) angstrom d_m (fdt dl).
Proof using Hh Hm.
  intros Hl Hsl Hdl.
  pose proof (energy_from_wavelength_exact h mn Hh Hm l sl dl Hl Hsl Hdl) as H1.
  assert (HE : E_lam h mn (l * sl) > 0) by (unfold E_lam; pos).
  chain H1.
  rewrite <- (rt_lam_E_lam h mn Hh Hm (l * sl)) by pos.
  match goal with Eq : ?x * meV = _ |- _ =>
    rewrite <- Eq; rewrite <- (fdt_idem dl) at 2;
    apply wavelength_from_energy_exact; try assumption;
    [ eapply scale_pos; [| exact HE | exact Eq]; unfold meV; lra
    | unfold meV; lra | apply fdt_float ]
  end.
Qed.

(* energy -> wavelength -> energy *)
Lemma roundtrip_energy_wavelength E sE dE :
  E > 0 -> sE > 0 -> is_float dE = true ->
  is_qty h mn (energy_from_wavelength O (wavelength_from_energy O (tv E sE d_J dE)))
         (E * sE) meV d_J (fdt dE).
Proof using Hh Hm.
  intros HE HsE HdE.
  pose proof (wavelength_from_energy_exact h mn Hh Hm E sE dE HE HsE HdE) as H1.
  pose proof (lam_E_pos h mn Hh Hm (E * sE) ltac:(pos)) as Hl.
  chain H1.
  rewrite <- (rt_E_lam_E h mn Hh Hm (E * sE)) by pos.
  match goal with Eq : ?x * angstrom = _ |- _ =>
    rewrite <- Eq; rewrite <- (fdt_idem dE) at 2;
    apply energy_from_wavelength_exact; try assumption;
    [ eapply scale_pos; [| exact Hl | exact Eq]; unfold angstrom; lra
    | unfold angstrom; lra | apply fdt_pow_ok ]
  end.
Qed.

(* wavelength -> Q -> wavelength *)
Lemma roundtrip_wavelength_Q l sl th sth dl dth :
  l > 0 -> sl > 0 -> sth > 0 -> 0 < th * sth <= PI -> is_float dl = true -> is_num dth = true ->
  is_qty h mn (wavelength_from_Q O (Q_from_wavelength O (tv l sl d_m dl) (tv th sth d_rad dth))
                                 (tv th sth d_rad dth))
         (l * sl) angstrom d_m (fdt dl).
Proof using Hh Hm.
  intros Hl Hsl Hsth Hth Hdl Hdth.
  pose proof (Q_from_wavelength_exact h mn Hh Hm l sl th sth dl dth Hl Hsl Hsth Hth Hdl Hdth) as H1.
  assert (HQ : Q_lam (l * sl) (th * sth) > 0).
  { pose proof (sin_half_pos _ Hth); pose proof PI_RGT_0; unfold Q_lam; pos. }
  chain H1.
  rewrite <- (rt_lam_Q_lam h mn Hh Hm (l * sl) (th * sth)) by (try pos; assumption).
  match goal with Eq : ?x * (1 / sl) = _ |- _ =>
    rewrite <- Eq; rewrite <- (fdt_idem dl) at 2;
    apply wavelength_from_Q_exact; try assumption;
    [ eapply scale_pos; [| exact HQ | exact Eq]; pos
    | pos | apply fdt_float ]
  end.
Qed.

(* Q * d = 2 pi for the same wavelength and angle *)
Lemma Q_times_dspacing l sl th sth dl dth :
  l > 0 -> sl > 0 -> sth > 0 -> 0 < th * sth <= PI -> is_float dl = true -> is_num dth = true ->
  exists q d,
    is_qty h mn (Q_from_wavelength O (tv l sl d_m dl) (tv th sth d_rad dth)) q (1 / sl) d_invm (fdt dl)
    /\ is_qty h mn (dspacing_from_wavelength O (tv l sl d_m dl) (tv th sth d_rad dth)) d angstrom d_m (fdt dl)
    /\ q * d = 2 * PI.
Proof using Hh Hm.
  intros Hl Hsl Hsth Hth Hdl Hdth.
  exists (Q_lam (l * sl) (th * sth)), (d_lam (l * sl) (th * sth)); split; [| split].
  - apply Q_from_wavelength_exact; assumption.
  - apply dspacing_from_wavelength_exact; assumption.
  - apply (Q_times_d h mn Hh Hm); [pos | assumption].
Qed.

End Routes.
