(* C01/FloatErrTrig.v — "to within accumulated rounding error" for the kernels
   that take the sine of the half scattering angle, as theorems on the terms
   REGENERATED from tof.py on this run.

   The kernels are evaluated at the instance Verif.Sem.FlInstT.FlOpsT: every
   * / sqrt is followed by a rounding to binary64 (round-to-nearest-even,
   unbounded exponent range: Flocq FLX 53), the constants (h, m_n, PI, the
   integer and decimal literals) and every unit-multiplier quotient are rounded
   as well, and the sine is the LIBRARY sine [fsin_impl] applied to the computed
   (rounded) half angle.  Every value carries the exact real it approximates and a
   proved relative error bound.

   Named assumptions:
   (1) "libm sin within 1 ulp": for every binary64 number y the library returns
       sin y with relative error at most 2 * 2^-53 = 2^-52 (an error of one unit
       in the last place of the result is at most that; glibc documents < 1 ulp).
       It is a hypothesis of each theorem (Section variable), not an axiom.
   (2) no overflow/underflow (the exponent range is unbounded in this instance).

   Statement: for all positive float64 operands in arbitrary units (binary64
   multipliers) and every scattering angle with 0 < two_theta <= PI (EXACT value
   th*sth in rad; nothing is required of the rounded half angle, see FlInstT.v:
   the perturbation lemma only needs the exact half angle in [0, PI/2]), the
   computed value is within 4e-15 (relative; per kernel 2e-15 .. 4e-15, about 12 - 34 units of 2^-53) of the exact Bragg / de Broglie
   value — the same formulas as in Properties.v / Tie.v, here as the value in
   the result unit (physical value / unit multiplier). *)
From Coq Require Import Reals ZArith String List Lra.
From Verif.Sem Require Import Field Val RInst RLemmas FlInst FlInstT.
From Run Require Import GenUtils GenTof.
Open Scope R_scope.

Ltac flt_cbv :=
  cbv -[Rplus Rminus Rmult Rdiv Rinv Ropp IZR sqrt sin cos atan asin exp Rabs PI
        Rle Rlt Rge Rgt Rle_dec Rlt_dec Req_EM_T rnd u64 is_f64
        fl_mul_ok fl_div_ok fl_sqrt_ok fl_const_ok fl_exact_ok fl_opp_ok fl_unknown_ok fl_sin_ok].

(* bring the argument of every sin(...) in the goal to the canonical form th*sth/2 *)
Ltac half_angle th sth :=
  repeat match goal with
         | |- context [sin ?x] =>
             lazymatch x with
             | (th * sth / 2) => fail
             | _ => replace x with (th * sth / 2) by (field; lra)
             end
         end;
  repeat match goal with
         | |- context [?x <= PI / 2] =>
             lazymatch x with
             | (th * sth / 2) => fail
             | _ => replace x with (th * sth / 2) by (field; lra)
             end
         end.

(* side conditions collected by the instance: divisors' error bounds < 1, exact divisors non-zero,
   exact radicands non-negative, the sine's argument a binary64 number, the exact half angle in [0, PI/2] *)
Ltac side_conditions :=
  repeat split;
  first [ apply is_f64_rnd | lra | (intro; lra)
        | (apply Rgt_not_eq; solve [pos]) | (apply Rlt_le; solve [pos]) | idtac ].

Section FET.
Variables h mn : R.
Hypothesis Hh : h > 0.
Hypothesis Hm : mn > 0.
(* the oracle: the C library's sine on binary64 numbers, within 1 ulp (relative 2 * 2^-53) *)
Variable fsin_impl : R -> R.
Hypothesis libm_sin_within_1ulp :
  forall y, is_f64 y -> Rabs (fsin_impl y - sin y) <= 2 * u64 * Rabs (sin y).

Lemma two_nonneg : 0 <= 2.
Proof using. lra. Qed.

Notation O := (FlOpsT fsin_impl 2 two_nonneg libm_sin_within_1ulp h mn).
(* an operand that is a binary64 number x in a unit whose multiplier s is a binary64 number *)
Definition flv (x s : R) (dm : dims) (d : dtype) : val O :=
  VVar O (ENum O (fl_exact x) None) (mkU O (fl_exact s) dm) d.

(* what the theorems conclude: r approximates [exact] within relative error [bound] *)
Definition approximates (r : val O) (exact bound : R) : Prop :=
  exists v u d, r = VVar O (ENum O v None) u d /\ cond v /\ ex v = exact /\ er v <= bound
                /\ Rabs (fv v - exact) <= bound * Rabs exact.

Lemma approx_intro (v : fl) u d exact bound :
  cond v -> ex v = exact -> er v <= bound ->
  approximates (VVar O (ENum O v None) u d) exact bound.
Proof using.
  intros C E B. exists v, u, d. repeat split; try assumption.
  rewrite <- E. eapply Rle_trans; [apply fl_bound; exact C|].
  apply Rmult_le_compat_r; [apply Rabs_pos | exact B].
Qed.

(* dspacing_from_tof in angstrom *)
Theorem dspacing_from_tof_rounding t st L sL th sth :
  t > 0 -> st > 0 -> L > 0 -> sL > 0 -> 0 < th * sth <= PI ->
  approximates (dspacing_from_tof O (flv t st d_s DF64) (flv L sL d_m DF64) (flv th sth d_rad DF64))
               (h * (t * st) / (mn * (L * sL) * (2 * sin (th * sth / 2))) * 10000000000)
               (4 / 1000000000000000).
Proof using Hh Hm.
  intros ? ? ? ? Hth. pose proof (sin_half_pos _ Hth) as Hsin. pose proof PI_RGT_0.
  flt_cbv.
  apply approx_intro.
  - cbv [cond]. rewrite u64_val. half_angle th sth. side_conditions.
  - cbv [ex]. half_angle th sth. field. repeat split; lra.
  - cbv [er]. rewrite u64_val. lra.
Qed.

(* dspacing_from_wavelength in angstrom *)
Theorem dspacing_from_wavelength_rounding l sl th sth :
  l > 0 -> sl > 0 -> 0 < th * sth <= PI ->
  approximates (dspacing_from_wavelength O (flv l sl d_m DF64) (flv th sth d_rad DF64))
               (l * sl / (2 * sin (th * sth / 2)) * 10000000000)
               (3 / 1000000000000000).
Proof using Hh Hm.
  intros ? ? Hth. pose proof (sin_half_pos _ Hth) as Hsin. pose proof PI_RGT_0.
  flt_cbv.
  apply approx_intro.
  - cbv [cond]. rewrite u64_val. half_angle th sth. side_conditions.
  - cbv [ex]. half_angle th sth. field. repeat split; lra.
  - cbv [er]. rewrite u64_val. lra.
Qed.

(* dspacing_from_energy in angstrom (one square root) *)
Theorem dspacing_from_energy_rounding E sE th sth :
  E > 0 -> sE > 0 -> 0 < th * sth <= PI ->
  exists root, root * root = h * h / (8 * mn * (E * sE)) * (10000000000 * 10000000000) /\ root >= 0 /\
  approximates (dspacing_from_energy O (flv E sE d_J DF64) (flv th sth d_rad DF64))
               (root / sin (th * sth / 2)) (4 / 1000000000000000).
Proof using Hh Hm.
  intros ? ? Hth. pose proof (sin_half_pos _ Hth) as Hsin. pose proof PI_RGT_0.
  flt_cbv.
  eexists; split; [| split; [| apply approx_intro]].
  3: { cbv [cond]. rewrite u64_val. half_angle th sth. side_conditions. }
  3: { cbv [ex]. half_angle th sth. reflexivity. }
  - rewrite sqrt_sqrt; [field; repeat split; lra | nonneg].
  - apply Rle_ge, sqrt_pos.
  - cbv [er]. rewrite u64_val. lra.
Qed.

(* Q_from_wavelength in the inverse of the wavelength's unit (multiplier 1/sl) *)
Theorem Q_from_wavelength_rounding l sl th sth :
  l > 0 -> sl > 0 -> 0 < th * sth <= PI ->
  approximates (Q_from_wavelength O (flv l sl d_m DF64) (flv th sth d_rad DF64))
               (4 * PI * sin (th * sth / 2) / (l * sl) / (1 / sl))
               (2 / 1000000000000000).
Proof using Hh Hm.
  intros ? ? Hth. pose proof (sin_half_pos _ Hth) as Hsin. pose proof PI_RGT_0.
  flt_cbv.
  apply approx_intro.
  - cbv [cond]. rewrite u64_val. half_angle th sth. side_conditions.
  - cbv [ex]. half_angle th sth. field. repeat split; lra.
  - cbv [er]. rewrite u64_val. lra.
Qed.

(* wavelength_from_Q in angstrom; Q in a unit of dimension 1/m with multiplier sq *)
Theorem wavelength_from_Q_rounding q sq th sth :
  q > 0 -> sq > 0 -> 0 < th * sth <= PI ->
  approximates (wavelength_from_Q O (flv q sq (dscale (-1) d_m) DF64) (flv th sth d_rad DF64))
               (4 * PI * sin (th * sth / 2) / (q * sq) * 10000000000)
               (3 / 1000000000000000).
Proof using Hh Hm.
  intros ? ? Hth. pose proof (sin_half_pos _ Hth) as Hsin. pose proof PI_RGT_0.
  flt_cbv.
  apply approx_intro.
  - cbv [cond]. rewrite u64_val. half_angle th sth. side_conditions.
  - cbv [ex]. half_angle th sth. field. repeat split; lra.
  - cbv [er]. rewrite u64_val. lra.
Qed.
End FET.

(* the hypotheses are satisfiable: a thermal neutron, two_theta = 90 deg given in rad (th = 1.5707963267948966,
   the binary64 number nearest PI/2; unit multiplier 1); and the sine oracle exists (the exact sine) *)
Example FloatErrTrig_nonvacuous :
  4000 > 0 /\ 1 / 1000000 > 0 /\ 10 > 0 /\ 1 > 0 /\ 0 < 7074237752028440 / 4503599627370496 * 1 <= PI
  /\ (forall y, is_f64 y -> Rabs (sin y - sin y) <= 2 * u64 * Rabs (sin y)).
Proof.
  pose proof PI2_3_2.
  repeat split; try lra.
  intros y _. rewrite Rminus_diag_eq by reflexivity. rewrite Rabs_R0.
  pose proof u64_pos. pose proof (Rabs_pos (sin y)).
  apply Rmult_le_pos; lra.
Qed.

Print Assumptions dspacing_from_tof_rounding.
Print Assumptions dspacing_from_wavelength_rounding.
Print Assumptions dspacing_from_energy_rounding.
Print Assumptions Q_from_wavelength_rounding.
Print Assumptions wavelength_from_Q_rounding.
