(* C01/FloatErr.v — "to within accumulated rounding error", as a theorem.

   The kernels regenerated from tof.py are evaluated at the instance
   Verif.Sem.FlInst.FlOps: every + - * / sqrt is followed by a rounding to
   binary64 (round-to-nearest-even, unbounded exponent range: Flocq FLX 53), every
   value carries the exact real it approximates and a proved relative error
   bound.  For all positive inputs, in arbitrary units, the computed value
   (all roundings included, also those of the folded constants and unit
   multipliers) is within a few units in the last place of the exact kernel value,
   which Tie.v identifies with the de Broglie formula.  Named assumption: no
   overflow/underflow (the exponent range is unbounded in this instance).
   Covered: the kernels without trigonometric functions. *)
From Coq Require Import Reals ZArith String List Lra.
From Interval Require Import Tactic.
From Verif.Sem Require Import Field Val RInst RLemmas FlInst.
From Run Require Import GenUtils GenTof.
Open Scope R_scope.

Ltac fl_cbv :=
  cbv -[Rplus Rminus Rmult Rdiv Rinv Ropp IZR sqrt sin cos atan asin exp Rabs PI
        Rle_dec Rlt_dec Req_EM_T rnd u64
        fl_mul_ok fl_div_ok fl_sqrt_ok fl_const_ok fl_exact_ok fl_opp_ok fl_unknown_ok].

(* side conditions collected by the instance: divisors' error bounds < 1, exact divisors non-zero,
   exact radicands non-negative *)
Ltac side_conditions :=
  repeat split;
  first [ lra | (interval with (i_prec 120)) | (intro; lra) | (apply Rgt_not_eq; solve [pos]) | (apply Rlt_le; solve [pos]) | idtac ].

Section FE.
Variables h mn : R.
Hypothesis Hh : h > 0.
Hypothesis Hm : mn > 0.
Notation O := (FlOps h mn).
(* an operand that is a binary64 number x in a unit whose multiplier s is a binary64 number *)
Definition flv (x s : R) (dm : dims) (d : dtype) : val O :=
  VVar O (ENum O (fl_exact x) None) (mkU O (fl_exact s) dm) d.

(* what the theorems conclude: r approximates [exact] within relative error [bound] *)
Definition approximates (r : val O) (exact bound : R) : Prop :=
  exists v u d, r = VVar O (ENum O v None) u d /\ cond v /\ ex v = exact /\ er v <= bound
                /\ Rabs (fv v - exact) <= bound * Rabs exact.

Lemma approx_intro (v : fl) u d exact bound :
  cond v -> ex v = exact -> er v <= bound ->
  approximates (VVar O (ENum O v None) u d) exact bound.
Proof using.
  intros C E B. exists v, u, d. repeat split; try assumption.
  rewrite <- E. eapply Rle_trans; [apply fl_bound; exact C|].
  apply Rmult_le_compat_r; [apply Rabs_pos | exact B].
Qed.

(* wavelength_from_tof, float64 operands: value in angstrom within 8 ulp-units (8 * 2^-53 < 1e-15) *)
Theorem wavelength_from_tof_rounding t st L sL :
  t > 0 -> st > 0 -> L > 0 -> sL > 0 ->
  approximates (wavelength_from_tof O (flv t st d_s DF64) (flv L sL d_m DF64))
               (h * (t * st) / (mn * (L * sL)) * 10000000000) (4 / 1000000000000000).
Proof using Hh Hm.
  intros. fl_cbv.
  apply approx_intro.
  - cbv [cond]. rewrite u64_val. side_conditions.
  - cbv [ex]. field. repeat split; lra.
  - cbv [er]. rewrite u64_val. interval with (i_prec 120).
Qed.

(* energy_from_tof in meV *)
Theorem energy_from_tof_rounding t st L sL :
  t > 0 -> st > 0 -> L > 0 -> sL > 0 ->
  approximates (energy_from_tof O (flv t st d_s DF64) (flv L sL d_m DF64))
               (mn * ((L * sL) * (L * sL)) / (2 * ((t * st) * (t * st))) * (10000000000000000000000000000000 / 1602176634))
               (5 / 1000000000000000).
Proof using Hh Hm.
  intros. fl_cbv.
  apply approx_intro.
  - cbv [cond]. rewrite u64_val. side_conditions.
  - cbv [ex]. field. repeat split; lra.
  - cbv [er]. rewrite u64_val. interval with (i_prec 120).
Qed.

(* energy_from_wavelength in meV *)
Theorem energy_from_wavelength_rounding l sl :
  l > 0 -> sl > 0 ->
  approximates (energy_from_wavelength O (flv l sl d_m DF64))
               (h * h / (2 * mn * ((l * sl) * (l * sl))) * (10000000000000000000000000000000 / 1602176634))
               (5 / 1000000000000000).
Proof using Hh Hm.
  intros. fl_cbv.
  apply approx_intro.
  - cbv [cond]. rewrite u64_val. side_conditions.
  - cbv [ex]. field. repeat split; lra.
  - cbv [er]. rewrite u64_val. interval with (i_prec 120).
Qed.

(* wavelength_from_energy in angstrom (one square root) *)
Theorem wavelength_from_energy_rounding E sE :
  E > 0 -> sE > 0 ->
  exists exact, exact * exact = h * h / (2 * mn * (E * sE)) * (10000000000 * 10000000000) /\ exact >= 0 /\
  approximates (wavelength_from_energy O (flv E sE d_J DF64)) exact (5 / 1000000000000000).
Proof using Hh Hm.
  intros. fl_cbv.
  eexists; split; [| split; [| apply approx_intro; [ | reflexivity | ]]].
  - cbv [ex]. rewrite sqrt_sqrt; [field; repeat split; lra | nonneg].
  - apply Rle_ge, sqrt_pos.
  - cbv [cond]. rewrite u64_val. side_conditions.
  - cbv [er]. rewrite u64_val. interval with (i_prec 120).
Qed.
End FE.

Print Assumptions wavelength_from_tof_rounding.
Print Assumptions energy_from_tof_rounding.
Print Assumptions energy_from_wavelength_rounding.
Print Assumptions wavelength_from_energy_rounding.
