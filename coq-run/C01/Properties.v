(* C01/Properties.v — the property theorems (nothing else), each closed by the
   lemma of Tie.v that was proved on the terms regenerated from /repo on this
   run, with Print Assumptions beneath it.

   Reading guide: [tvar h mn x s dims dt] is an operand with numeric value x in
   a unit whose multiplier to SI is s (ARBITRARY positive real) and whose
   dimensions are dims, stored with dtype dt.  [is_qty h mn r phys scale dims
   dt] says r is a scalar of dtype dt in a unit with that multiplier and
   dimensions whose physical SI value is phys.  [fdt dt] is float32 iff dt is
   float32, else float64.  h and m_n are arbitrary positive reals ("the
   constants scipp exposes" are plugged in by the correspondence run). *)
From Coq Require Import Reals ZArith String List Lra.
From Verif.Sem Require Import Field Val RInst RLemmas.
From Verif.C01 Require Import Spec.
From Run Require Import GenUtils GenTof Tie.
Open Scope R_scope.

Section P.
Variables h mn : R.
Hypothesis Hh : h > 0.
Hypothesis Hm : mn > 0.
Notation O := (ROps h mn).
Notation tv := (tvar h mn).

Theorem C01_wavelength_from_tof : forall t st L sL dt dL,
  t > 0 -> st > 0 -> L > 0 -> sL > 0 -> is_num dt = true -> is_num dL = true ->
  is_qty h mn (wavelength_from_tof O (tv t st d_s dt) (tv L sL d_m dL))
         (h * (t * st) / (mn * (L * sL))) angstrom d_m (fdt dt).
Proof using Hh Hm. exact (wavelength_from_tof_exact h mn Hh Hm). Qed.

Theorem C01_energy_from_tof : forall t st L sL dt dL,
  t > 0 -> st > 0 -> L > 0 -> sL > 0 -> pow_ok dt = true -> pow_ok dL = true ->
  is_qty h mn (energy_from_tof O (tv t st d_s dt) (tv L sL d_m dL))
         (mn * ((L * sL) * (L * sL)) / (2 * ((t * st) * (t * st)))) meV d_J (fdt dt).
Proof using Hh Hm. exact (energy_from_tof_exact h mn Hh Hm). Qed.

Theorem C01_energy_from_wavelength : forall l sl dl,
  l > 0 -> sl > 0 -> pow_ok dl = true ->
  is_qty h mn (energy_from_wavelength O (tv l sl d_m dl))
         (h * h / (2 * mn * ((l * sl) * (l * sl)))) meV d_J (fdt dl).
Proof using Hh Hm. exact (energy_from_wavelength_exact h mn Hh Hm). Qed.

Theorem C01_wavelength_from_energy : forall E sE dE,
  E > 0 -> sE > 0 -> is_float dE = true ->
  is_qty h mn (wavelength_from_energy O (tv E sE d_J dE))
         (h / sqrt (2 * mn * (E * sE))) angstrom d_m (fdt dE).
Proof using Hh Hm. exact (wavelength_from_energy_exact h mn Hh Hm). Qed.

Theorem C01_dspacing_from_tof : forall t st L sL th sth dt dL dth,
  t > 0 -> st > 0 -> L > 0 -> sL > 0 -> sth > 0 -> 0 < th * sth <= PI ->
  is_num dt = true -> is_num dL = true -> is_num dth = true ->
  is_qty h mn (dspacing_from_tof O (tv t st d_s dt) (tv L sL d_m dL) (tv th sth d_rad dth))
         (h * (t * st) / (mn * (L * sL) * (2 * sin (th * sth / 2)))) angstrom d_m (fdt dt).
Proof using Hh Hm. exact (dspacing_from_tof_exact h mn Hh Hm). Qed.

Theorem C01_dspacing_from_wavelength : forall l sl th sth dl dth,
  l > 0 -> sl > 0 -> sth > 0 -> 0 < th * sth <= PI -> is_float dl = true -> is_num dth = true ->
  is_qty h mn (dspacing_from_wavelength O (tv l sl d_m dl) (tv th sth d_rad dth))
         (l * sl / (2 * sin (th * sth / 2))) angstrom d_m (fdt dl).
Proof using Hh Hm. exact (dspacing_from_wavelength_exact h mn Hh Hm). Qed.

Theorem C01_dspacing_from_energy : forall E sE th sth dE dth,
  E > 0 -> sE > 0 -> sth > 0 -> 0 < th * sth <= PI -> is_float dE = true -> is_num dth = true ->
  is_qty h mn (dspacing_from_energy O (tv E sE d_J dE) (tv th sth d_rad dth))
         (h / (sqrt (8 * mn * (E * sE)) * sin (th * sth / 2))) angstrom d_m (fdt dE).
Proof using Hh Hm. exact (dspacing_from_energy_exact h mn Hh Hm). Qed.

(* Q in the inverse of the wavelength's unit, whatever that unit is *)
Theorem C01_Q_from_wavelength : forall l sl th sth dl dth,
  l > 0 -> sl > 0 -> sth > 0 -> 0 < th * sth <= PI -> is_float dl = true -> is_num dth = true ->
  is_qty h mn (Q_from_wavelength O (tv l sl d_m dl) (tv th sth d_rad dth))
         (4 * PI * sin (th * sth / 2) / (l * sl)) (1 / sl) d_invm (fdt dl).
Proof using Hh Hm. exact (Q_from_wavelength_exact h mn Hh Hm). Qed.

Theorem C01_wavelength_from_Q : forall q sq th sth dq dth,
  q > 0 -> sq > 0 -> sth > 0 -> 0 < th * sth <= PI -> is_float dq = true -> is_num dth = true ->
  is_qty h mn (wavelength_from_Q O (tv q sq d_invm dq) (tv th sth d_rad dth))
         (4 * PI * sin (th * sth / 2) / (q * sq)) angstrom d_m (fdt dq).
Proof using Hh Hm. exact (wavelength_from_Q_exact h mn Hh Hm). Qed.

(* any two routes through the graph agree *)
Theorem C01_route_tof_wavelength_energy : forall t st L sL dt dL,
  t > 0 -> st > 0 -> L > 0 -> sL > 0 -> is_num dt = true -> is_num dL = true ->
  is_qty h mn (energy_from_wavelength O (wavelength_from_tof O (tv t st d_s dt) (tv L sL d_m dL)))
         (mn * ((L * sL) * (L * sL)) / (2 * ((t * st) * (t * st)))) meV d_J (fdt dt).
Proof using Hh Hm. exact (route_tof_wavelength_energy h mn Hh Hm). Qed.

Theorem C01_route_tof_wavelength_dspacing : forall t st L sL th sth dt dL dth,
  t > 0 -> st > 0 -> L > 0 -> sL > 0 -> sth > 0 -> 0 < th * sth <= PI ->
  is_num dt = true -> is_num dL = true -> is_num dth = true ->
  is_qty h mn (dspacing_from_wavelength O (wavelength_from_tof O (tv t st d_s dt) (tv L sL d_m dL))
                                        (tv th sth d_rad dth))
         (h * (t * st) / (mn * (L * sL) * (2 * sin (th * sth / 2)))) angstrom d_m (fdt dt).
Proof using Hh Hm. exact (route_tof_wavelength_dspacing h mn Hh Hm). Qed.

Theorem C01_route_energy_wavelength_dspacing : forall E sE th sth dE dth,
  E > 0 -> sE > 0 -> sth > 0 -> 0 < th * sth <= PI -> is_float dE = true -> is_num dth = true ->
  is_qty h mn (dspacing_from_wavelength O (wavelength_from_energy O (tv E sE d_J dE)) (tv th sth d_rad dth))
         (h / (sqrt (8 * mn * (E * sE)) * sin (th * sth / 2))) angstrom d_m (fdt dE).
Proof using Hh Hm. exact (route_energy_wavelength_dspacing h mn Hh Hm). Qed.

(* round trips *)
Theorem C01_roundtrip_wavelength_energy : forall l sl dl,
  l > 0 -> sl > 0 -> pow_ok dl = true ->
  is_qty h mn (wavelength_from_energy O (energy_from_wavelength O (tv l sl d_m dl)))
         (l * sl) angstrom d_m (fdt dl).
Proof using Hh Hm. exact (roundtrip_wavelength_energy h mn Hh Hm). Qed.

Theorem C01_roundtrip_energy_wavelength : forall E sE dE,
  E > 0 -> sE > 0 -> is_float dE = true ->
  is_qty h mn (energy_from_wavelength O (wavelength_from_energy O (tv E sE d_J dE)))
         (E * sE) meV d_J (fdt dE).
Proof using Hh Hm. exact (roundtrip_energy_wavelength h mn Hh Hm). Qed.

Theorem C01_roundtrip_wavelength_Q : forall l sl th sth dl dth,
  l > 0 -> sl > 0 -> sth > 0 -> 0 < th * sth <= PI -> is_float dl = true -> is_num dth = true ->
  is_qty h mn (wavelength_from_Q O (Q_from_wavelength O (tv l sl d_m dl) (tv th sth d_rad dth))
                                 (tv th sth d_rad dth))
         (l * sl) angstrom d_m (fdt dl).
Proof using Hh Hm. exact (roundtrip_wavelength_Q h mn Hh Hm). Qed.

Theorem C01_Q_times_dspacing : forall l sl th sth dl dth,
  l > 0 -> sl > 0 -> sth > 0 -> 0 < th * sth <= PI -> is_float dl = true -> is_num dth = true ->
  exists q d,
    is_qty h mn (Q_from_wavelength O (tv l sl d_m dl) (tv th sth d_rad dth)) q (1 / sl) d_invm (fdt dl)
    /\ is_qty h mn (dspacing_from_wavelength O (tv l sl d_m dl) (tv th sth d_rad dth)) d angstrom d_m (fdt dl)
    /\ q * d = 2 * PI.
Proof using Hh Hm. exact (Q_times_dspacing h mn Hh Hm). Qed.
End P.

(* the hypotheses are satisfiable: a thermal neutron, t = 4000 us, L = 10 m, 2theta = 1 rad *)
Example C01_nonvacuous :
  662607015 / 1000000000000000000000000000000000000000000 > 0 /\ 167492750056 / 100000000000000000000000000000000000000 > 0 /\ 4000 > 0 /\ 1 / 1000000 > 0 /\ 10 > 0 /\ 1 > 0
  /\ 0 < 1 * 1 <= PI /\ is_num DF64 = true /\ is_float DF32 = true /\ pow_ok DI64 = true.
Proof.
  pose proof PI_RGT_0. pose proof PI2_3_2. repeat split; try reflexivity; try lra.
Qed.

Print Assumptions C01_wavelength_from_tof.
Print Assumptions C01_energy_from_tof.
Print Assumptions C01_energy_from_wavelength.
Print Assumptions C01_wavelength_from_energy.
Print Assumptions C01_dspacing_from_tof.
Print Assumptions C01_dspacing_from_wavelength.
Print Assumptions C01_dspacing_from_energy.
Print Assumptions C01_Q_from_wavelength.
Print Assumptions C01_wavelength_from_Q.
Print Assumptions C01_route_tof_wavelength_energy.
Print Assumptions C01_route_tof_wavelength_dspacing.
Print Assumptions C01_route_energy_wavelength_dspacing.
Print Assumptions C01_roundtrip_wavelength_energy.
Print Assumptions C01_roundtrip_energy_wavelength.
Print Assumptions C01_roundtrip_wavelength_Q.
Print Assumptions C01_Q_times_dspacing.
