(* C01/FloatErr32.v — "to within accumulated rounding error ... 1e-5 in single
   precision", as theorems on the terms REGENERATED from tof.py on this run.

   All nine elastic kernels are evaluated, with float32 operands, at the
   SET-VALUED instance Verif.Sem.FlInstS.FlOpsS (read its header): the value
   set of every * / sqrt sin contains each result obtainable by casting either
   operand to binary32 or binary64 (or not), performing the operation, and
   rounding the result to binary32 or binary64 (or not) — all round-to-nearest,
   unbounded exponent range.  So wherever scipp or the kernel (as_float_type)
   casts between float64 and float32, and whichever of the two precisions an
   operation is carried out in, the value actually computed is a member; the
   theorems bound EVERY member.  Constants (h, m_n, PI, literals) and unit-
   multiplier quotients are members of {x(1+d) : |d| <= 2^-24} as well.

   Named assumptions:
   (1) "libm sinf / sin within 1 ulp": the library sine returns sin of its actual
       argument with relative error at most 2 * 2^-24 (that makes the computed
       sine a member of the set, FlInstS.ssin_contains);
   (2) no overflow/underflow (unbounded exponent range).
   The bounds are dtype-independent by construction (they also hold for float64
   and mixed operands, where FloatErr.v / FloatErrTrig.v are ~1e9 times sharper).

   Statement: for all positive operands in arbitrary units and 0 < two_theta <= PI
   every member of the result's value set is within 5e-6 (relative; the proved
   per-kernel bounds evaluate to 1.5e-6 .. 4.2e-6) of the exact de Broglie /
   Bragg value, and the result is float32. *)
From Coq Require Import Reals ZArith String List Lra.
From Verif.Sem Require Import Field Val RInst RLemmas FlInst FlInstT FlInstS.
From Run Require Import GenUtils GenTof.
Open Scope R_scope.

Ltac fls_cbv :=
  cbv -[Rplus Rminus Rmult Rdiv Rinv Ropp IZR sqrt sin cos atan asin exp Rabs PI
        Rle Rlt Rge Rgt Rle_dec Rlt_dec Req_EM_T u32 ecast
        smul_set sdiv_set ssqrt_set ssin_set sconst_set
        smul_ok sdiv_ok ssqrt_ok sconst_ok sexact_ok sopp_ok sunknown_ok ssin_ok].

(* bring the argument of every sin(...) in the goal to the canonical form th*sth/2 *)
Ltac half_angle th sth :=
  repeat match goal with
         | |- context [sin ?x] =>
             lazymatch x with
             | (th * sth / 2) => fail
             | _ => replace x with (th * sth / 2) by (field; lra)
             end
         end;
  repeat match goal with
         | |- context [?x <= PI / 2] =>
             lazymatch x with
             | (th * sth / 2) => fail
             | _ => replace x with (th * sth / 2) by (field; lra)
             end
         end.

Ltac side_conditions :=
  repeat split;
  first [ lra | (intro; lra) | (apply Rgt_not_eq; solve [pos]) | (apply Rlt_le; solve [pos]) | idtac ].

Lemma two_nonneg : 0 <= 2.
Proof. lra. Qed.

Section FE32.
Variables h mn : R.
Hypothesis Hh : h > 0.
Hypothesis Hm : mn > 0.
Notation O := (FlOpsS 2 two_nonneg h mn).
(* an operand: the number x (a binary32 or binary64 number) in a unit with multiplier s *)
Definition flv (x s : R) (dm : dims) (d : dtype) : val O :=
  VVar O (ENum O (sexact x) None) (mkU O (sexact s) dm) d.

(* r is a float32 variable; every value it may hold is within [bound] (relative) of [exact] *)
Definition approximates32 (r : val O) (exact bound : R) : Prop :=
  exists s u, r = VVar O (ENum O s None) u DF32 /\ sc s /\ sx s = exact /\ se s <= bound
              /\ forall v, sv s v -> Rabs (v - exact) <= bound * Rabs exact.

Lemma approx32_intro (s : sfl) u exact bound :
  sc s -> sx s = exact -> se s <= bound ->
  approximates32 (VVar O (ENum O s None) u DF32) exact bound.
Proof using.
  intros C E B. exists s, u. repeat split; try assumption.
  intros v Hv. rewrite <- E. eapply Rle_trans; [apply sfl_bound; [exact C | exact Hv]|].
  apply Rmult_le_compat_r; [apply Rabs_pos | exact B].
Qed.

Ltac finish32 th sth :=
  apply approx32_intro;
  [ cbv [sc]; unfold ecast, u32; half_angle th sth; side_conditions
  | cbv [sx]; half_angle th sth; field; repeat split; lra
  | cbv [se]; unfold ecast, u32; lra ].

Theorem wavelength_from_tof_rounding32 t st L sL :
  t > 0 -> st > 0 -> L > 0 -> sL > 0 ->
  approximates32 (wavelength_from_tof O (flv t st d_s DF32) (flv L sL d_m DF32))
                 (h * (t * st) / (mn * (L * sL)) * 10000000000) (4 / 1000000).
Proof using Hh Hm.
  intros. fls_cbv. finish32 0 0.
Qed.

Theorem energy_from_tof_rounding32 t st L sL :
  t > 0 -> st > 0 -> L > 0 -> sL > 0 ->
  approximates32 (energy_from_tof O (flv t st d_s DF32) (flv L sL d_m DF32))
                 (mn * ((L * sL) * (L * sL)) / (2 * ((t * st) * (t * st))) * (10000000000000000000000000000000 / 1602176634))
                 (4 / 1000000).
Proof using Hh Hm.
  intros. fls_cbv. finish32 0 0.
Qed.

Theorem energy_from_wavelength_rounding32 l sl :
  l > 0 -> sl > 0 ->
  approximates32 (energy_from_wavelength O (flv l sl d_m DF32))
                 (h * h / (2 * mn * ((l * sl) * (l * sl))) * (10000000000000000000000000000000 / 1602176634))
                 (4 / 1000000).
Proof using Hh Hm.
  intros. fls_cbv. finish32 0 0.
Qed.

Theorem wavelength_from_energy_rounding32 E sE :
  E > 0 -> sE > 0 ->
  exists exact, exact * exact = h * h / (2 * mn * (E * sE)) * (10000000000 * 10000000000) /\ exact >= 0 /\
  approximates32 (wavelength_from_energy O (flv E sE d_J DF32)) exact (4 / 1000000).
Proof using Hh Hm.
  intros. fls_cbv.
  eexists; split; [| split; [| apply approx32_intro; [ | reflexivity | ]]].
  - cbv [sx]. rewrite sqrt_sqrt; [field; repeat split; lra | nonneg].
  - apply Rle_ge, sqrt_pos.
  - cbv [sc]. unfold ecast, u32. side_conditions.
  - cbv [se]. unfold ecast, u32. lra.
Qed.

Theorem dspacing_from_tof_rounding32 t st L sL th sth :
  t > 0 -> st > 0 -> L > 0 -> sL > 0 -> 0 < th * sth <= PI ->
  approximates32 (dspacing_from_tof O (flv t st d_s DF32) (flv L sL d_m DF32) (flv th sth d_rad DF32))
                 (h * (t * st) / (mn * (L * sL) * (2 * sin (th * sth / 2))) * 10000000000)
                 (4 / 1000000).
Proof using Hh Hm.
  intros ? ? ? ? Hth. pose proof (sin_half_pos _ Hth) as Hsin. pose proof PI_RGT_0.
  fls_cbv. finish32 th sth.
Qed.

Theorem dspacing_from_wavelength_rounding32 l sl th sth :
  l > 0 -> sl > 0 -> 0 < th * sth <= PI ->
  approximates32 (dspacing_from_wavelength O (flv l sl d_m DF32) (flv th sth d_rad DF32))
                 (l * sl / (2 * sin (th * sth / 2)) * 10000000000)
                 (4 / 1000000).
Proof using Hh Hm.
  intros ? ? Hth. pose proof (sin_half_pos _ Hth) as Hsin. pose proof PI_RGT_0.
  fls_cbv. finish32 th sth.
Qed.

Theorem dspacing_from_energy_rounding32 E sE th sth :
  E > 0 -> sE > 0 -> 0 < th * sth <= PI ->
  exists root, root * root = h * h / (8 * mn * (E * sE)) * (10000000000 * 10000000000) /\ root >= 0 /\
  approximates32 (dspacing_from_energy O (flv E sE d_J DF32) (flv th sth d_rad DF32))
                 (root / sin (th * sth / 2)) (5 / 1000000).
Proof using Hh Hm.
  intros ? ? Hth. pose proof (sin_half_pos _ Hth) as Hsin. pose proof PI_RGT_0.
  fls_cbv.
  eexists; split; [| split; [| apply approx32_intro]].
  3: { cbv [sc]. unfold ecast, u32. half_angle th sth. side_conditions. }
  3: { cbv [sx]. half_angle th sth. reflexivity. }
  - rewrite sqrt_sqrt; [field; repeat split; lra | nonneg].
  - apply Rle_ge, sqrt_pos.
  - cbv [se]. unfold ecast, u32. lra.
Qed.

Theorem Q_from_wavelength_rounding32 l sl th sth :
  l > 0 -> sl > 0 -> 0 < th * sth <= PI ->
  approximates32 (Q_from_wavelength O (flv l sl d_m DF32) (flv th sth d_rad DF32))
                 (4 * PI * sin (th * sth / 2) / (l * sl) / (1 / sl))
                 (4 / 1000000).
Proof using Hh Hm.
  intros ? ? Hth. pose proof (sin_half_pos _ Hth) as Hsin. pose proof PI_RGT_0.
  fls_cbv. finish32 th sth.
Qed.

Theorem wavelength_from_Q_rounding32 q sq th sth :
  q > 0 -> sq > 0 -> 0 < th * sth <= PI ->
  approximates32 (wavelength_from_Q O (flv q sq (dscale (-1) d_m) DF32) (flv th sth d_rad DF32))
                 (4 * PI * sin (th * sth / 2) / (q * sq) * 10000000000)
                 (4 / 1000000).
Proof using Hh Hm.
  intros ? ? Hth. pose proof (sin_half_pos _ Hth) as Hsin. pose proof PI_RGT_0.
  fls_cbv. finish32 th sth.
Qed.
End FE32.

(* the hypotheses are satisfiable (a thermal neutron, two_theta = 1.5 rad) *)
Example FloatErr32_nonvacuous :
  4000 > 0 /\ 1 / 1000000 > 0 /\ 10 > 0 /\ 1 > 0 /\ 0 < 3 / 2 * 1 <= PI.
Proof.
  pose proof PI2_3_2. repeat split; lra.
Qed.

Print Assumptions wavelength_from_tof_rounding32.
Print Assumptions energy_from_tof_rounding32.
Print Assumptions energy_from_wavelength_rounding32.
Print Assumptions wavelength_from_energy_rounding32.
Print Assumptions dspacing_from_tof_rounding32.
Print Assumptions dspacing_from_wavelength_rounding32.
Print Assumptions dspacing_from_energy_rounding32.
Print Assumptions Q_from_wavelength_rounding32.
Print Assumptions wavelength_from_Q_rounding32.
