(* C01/Corr.v — executable model used by the correspondence run: the kernels
   REGENERATED from /repo on this run, instantiated at exact rationals. *)
From Coq Require Import QArith ZArith String List.
From Verif.Sem Require Import Field Val QInst Corr.
From Run Require Import GenUtils GenTof.
Import ListNotations.
Open Scope string_scope.

Section D.
Variables h mn : Q.
Notation O := (QOps h mn).
Definition arg (l : list inp) (n : nat) : val O :=
  match nth_error l n with Some i => qv h mn i | None => VErr O "arity" end.
Definition run (name : string) (l : list inp) : val O :=
  let a := arg l in
  if String.eqb name "wavelength_from_tof" then wavelength_from_tof O (a 0%nat) (a 1%nat)
  else if String.eqb name "dspacing_from_tof" then dspacing_from_tof O (a 0%nat) (a 1%nat) (a 2%nat)
  else if String.eqb name "energy_from_tof" then energy_from_tof O (a 0%nat) (a 1%nat)
  else if String.eqb name "energy_from_wavelength" then energy_from_wavelength O (a 0%nat)
  else if String.eqb name "wavelength_from_energy" then wavelength_from_energy O (a 0%nat)
  else if String.eqb name "Q_from_wavelength" then Q_from_wavelength O (a 0%nat) (a 1%nat)
  else if String.eqb name "wavelength_from_Q" then wavelength_from_Q O (a 0%nat) (a 1%nat)
  else if String.eqb name "dspacing_from_wavelength" then dspacing_from_wavelength O (a 0%nat) (a 1%nat)
  else if String.eqb name "dspacing_from_energy" then dspacing_from_energy O (a 0%nat) (a 1%nat)
  (* compositions: routes through the graph and round trips *)
  else if String.eqb name "tof>wavelength>energy" then
    energy_from_wavelength O (wavelength_from_tof O (a 0%nat) (a 1%nat))
  else if String.eqb name "tof>wavelength>dspacing" then
    dspacing_from_wavelength O (wavelength_from_tof O (a 0%nat) (a 1%nat)) (a 2%nat)
  else if String.eqb name "energy>wavelength>dspacing" then
    dspacing_from_wavelength O (wavelength_from_energy O (a 0%nat)) (a 1%nat)
  else if String.eqb name "tof>wavelength>Q" then
    Q_from_wavelength O (wavelength_from_tof O (a 0%nat) (a 1%nat)) (a 2%nat)
  else if String.eqb name "wavelength>energy>wavelength" then
    wavelength_from_energy O (energy_from_wavelength O (a 0%nat))
  else if String.eqb name "energy>wavelength>energy" then
    energy_from_wavelength O (wavelength_from_energy O (a 0%nat))
  else if String.eqb name "wavelength>Q>wavelength" then
    wavelength_from_Q O (Q_from_wavelength O (a 0%nat) (a 1%nat)) (a 1%nat)
  else VErr O "unknown-kernel".
Definition check (c : kcase) : string :=
  cmp_out h mn (run (kname c) (kins c)) (kout c) (ktol c).
End D.

(* ------------------------------------------------------------------------------------------------
   Whole-array cases.  The observation holds the operands as ARRAYS with labelled dimensions (values
   in C order of the operand's own logical dims/shape, whatever its memory layout was) and the result
   array.  Which operand element belongs to result element k is decided HERE, by dimension label:
   scipp's broadcasting is by name, so Ltotal(y,x) and two_theta(x,y) (or a transposed / sliced view)
   describe the same pixel grid.  The expected result has exactly the union of the operands' labelled
   dims (any order); every element is compared with the element-wise model above. *)
Record arr := mkarr { adims : list string; ashape : list nat; avals : list Q;
                      asc : Q; adm : dims; adt : dtype }.
Inductive aout :=
| AOutErr (cls : string)
| AOut (rdims : list string) (rshape : list nat) (vals : list outcome).
Record acase := mkac { acname : string; acins : list arr; acout : aout; actol : Q }.

Fixpoint lookup (d : string) (ds : list string) (ix : list nat) : option nat :=
  match ds, ix with
  | d' :: ds', i :: ix' => if String.eqb d d' then Some i else lookup d ds' ix'
  | _, _ => None
  end.
(* C-order multi-index of flat position k *)
Fixpoint unravel_rev (k : nat) (rshape_rev : list nat) : list nat :=
  match rshape_rev with
  | [] => []
  | s :: r => (Nat.modulo k s) :: unravel_rev (Nat.div k s) r
  end.
Definition unravel (k : nat) (shape : list nat) : list nat := rev (unravel_rev k (rev shape)).
Fixpoint flat_aux (ds : list string) (ss : list nat) (rd : list string) (ix : list nat) (acc : nat) : option nat :=
  match ds, ss with
  | [], [] => Some acc
  | d :: ds', s :: ss' =>
      match lookup d rd ix with
      | Some i => if Nat.ltb i s then flat_aux ds' ss' rd ix (acc * s + i) else None
      | None => None
      end
  | _, _ => None
  end.
(* flat position, in operand a, of the element that belongs to the result element with multi-index ix *)
Definition flat (a : arr) (rd : list string) (ix : list nat) : option nat :=
  flat_aux (adims a) (ashape a) rd ix 0.
Definition prod (l : list nat) : nat := fold_right Nat.mul 1%nat l.

(* union of the labelled dims of the operands; None = two operands disagree on the size of a dim *)
Fixpoint dim_size (d : string) (m : list (string * nat)) : option nat :=
  match m with [] => None | (d', s) :: m' => if String.eqb d d' then Some s else dim_size d m' end.
Fixpoint add_dims (ds : list string) (ss : list nat) (m : list (string * nat)) : option (list (string * nat)) :=
  match ds, ss with
  | [], [] => Some m
  | d :: ds', s :: ss' =>
      match dim_size d m with
      | Some s' => if Nat.eqb s s' then add_dims ds' ss' m else None
      | None => add_dims ds' ss' (m ++ [(d, s)])
      end
  | _, _ => None
  end.
Fixpoint merge_dims (l : list arr) (m : list (string * nat)) : option (list (string * nat)) :=
  match l with
  | [] => Some m
  | a :: l' => match add_dims (adims a) (ashape a) m with Some m' => merge_dims l' m' | None => None end
  end.
Definition same_dims (m : list (string * nat)) (rd : list string) (rs : list nat) : bool :=
  Nat.eqb (List.length m) (List.length rd) && Nat.eqb (List.length rd) (List.length rs)
  && forallb (fun p => match dim_size (fst p) (combine rd rs) with Some s => Nat.eqb s (snd p) | None => false end) m.
Definition arr_ok (a : arr) : bool :=
  Nat.eqb (List.length (adims a)) (List.length (ashape a)) && Nat.eqb (List.length (avals a)) (prod (ashape a)).

Section DA.
Variables h mn : Q.
Definition elem (a : arr) (n : nat) : inp := mkinp (nth n (avals a) 0%Q) (asc a) (adm a) (adt a).
Definition pick (rd : list string) (ix : list nat) (a : arr) : option inp :=
  match flat a rd ix with Some n => Some (elem a n) | None => None end.
Fixpoint all_some {A} (l : list (option A)) : option (list A) :=
  match l with
  | [] => Some []
  | Some x :: l' => match all_some l' with Some r => Some (x :: r) | None => None end
  | None :: _ => None
  end.
(* first disagreement "<reason>@<k>" over the result elements, "" if none *)
Fixpoint first_fail (name : string) (ins : list arr) (rd : list string) (rs : list nat) (tol : Q)
         (k : nat) (vals : list outcome) : string :=
  match vals with
  | [] => ""
  | o :: vals' =>
      let r := match all_some (map (pick rd (unravel k rs)) ins) with
               | Some l => cmp_out h mn (run h mn name l) o tol
               | None => "operand-index"
               end in
      if String.eqb r "" then first_fail name ins rd rs tol (S k) vals'
      else r ++ "@" ++ nat_str k
  end.
Definition acheck (c : acase) : string :=
  if negb (forallb arr_ok (acins c)) then "malformed-operand"
  else
  match merge_dims (acins c) [], acout c with
  | None, AOutErr _ => ""                            (* inconsistent grids: both refuse *)
  | None, AOut _ _ _ => "model-raises-DimensionError"
  | Some _, AOutErr cls =>
      (* the model on the first elements: if it has a value, the implementation must not raise *)
      cmp_out h mn (run h mn (acname c) (map (fun a => elem a 0) (acins c))) (OutErr cls) (actol c)
  | Some m, AOut rd rs vals =>
      if negb (same_dims m rd rs) then "result-dims"
      else if negb (Nat.eqb (List.length vals) (prod rs)) then "result-length"
      else first_fail (acname c) (acins c) rd rs (actol c) 0 vals
  end.
End DA.

(* the matching is by label: the same 2 x 3 grid stored (y,x) and (x,y) yields the same elements *)
Definition ex_yx := mkarr ["y"; "x"] [2; 3]%nat [1; 2; 3; 4; 5; 6]%Q 1%Q [] DF64.
Definition ex_xy := mkarr ["x"; "y"] [3; 2]%nat [1; 4; 2; 5; 3; 6]%Q 1%Q [] DF64.
Example flat_by_label :
  map (fun k => (flat ex_yx ["y"; "x"] (unravel k [2; 3]%nat), flat ex_xy ["y"; "x"] (unravel k [2; 3]%nat)))
      [0; 1; 2; 3; 4; 5]%nat
  = [(Some 0, Some 0); (Some 1, Some 2); (Some 2, Some 4); (Some 3, Some 1); (Some 4, Some 3); (Some 5, Some 5)]%nat.
Proof. vm_compute. reflexivity. Qed.
Example pick_by_label :
  forallb (fun k => match flat ex_yx ["y"; "x"] (unravel k [2; 3]%nat), flat ex_xy ["y"; "x"] (unravel k [2; 3]%nat) with
                    | Some i, Some j => Qeq_bool (nth i (avals ex_yx) 0%Q) (nth j (avals ex_xy) 0%Q)
                    | _, _ => false end) [0; 1; 2; 3; 4; 5]%nat = true.
Proof. vm_compute. reflexivity. Qed.
Example merge_example :
  merge_dims [mkarr ["tof"] [4]%nat [] 1%Q [] DF64; ex_yx; ex_xy] [] = Some [("tof", 4); ("y", 2); ("x", 3)]%nat
  /\ same_dims [("tof", 4); ("y", 2); ("x", 3)]%nat ["y"; "x"; "tof"] [2; 3; 4]%nat = true
  /\ merge_dims [ex_yx; mkarr ["x"; "y"] [2; 3]%nat [] 1%Q [] DF64] [] = None.
Proof. vm_compute. repeat split; reflexivity. Qed.

(* general form: for a 2-d operand the element chosen for a result element depends only on the LABELLED
   indices, so an operand and its transpose (same labelled elements, other storage order) contribute the
   same element to every result element: the model's array result does not depend on the dim order. *)
Lemma flat_2d : forall d1 d2 n1 n2 vs s dm dt rd ix i j,
  lookup d1 rd ix = Some i -> lookup d2 rd ix = Some j -> (i < n1)%nat -> (j < n2)%nat ->
  flat (mkarr [d1; d2] [n1; n2] vs s dm dt) rd ix = Some (i * n2 + j)%nat.
Proof.
  intros d1 d2 n1 n2 vs s dm dt rd ix i j H1 H2 Hi Hj.
  unfold flat; cbn [flat_aux adims ashape]. rewrite H1.
  destruct (Nat.ltb_spec i n1) as [_|C]; [|exfalso; apply (Nat.lt_irrefl i); eapply Nat.lt_le_trans; eauto].
  rewrite H2.
  destruct (Nat.ltb_spec j n2) as [_|C]; [|exfalso; apply (Nat.lt_irrefl j); eapply Nat.lt_le_trans; eauto].
  f_equal.
Qed.
Theorem pick_transpose_invariant : forall d1 d2 n1 n2 vs vt s dm dt rd ix i j,
  lookup d1 rd ix = Some i -> lookup d2 rd ix = Some j -> (i < n1)%nat -> (j < n2)%nat ->
  nth (j * n1 + i) vt 0%Q = nth (i * n2 + j) vs 0%Q ->          (* vt is vs transposed *)
  pick rd ix (mkarr [d2; d1] [n2; n1] vt s dm dt) = pick rd ix (mkarr [d1; d2] [n1; n2] vs s dm dt).
Proof.
  intros d1 d2 n1 n2 vs vt s dm dt rd ix i j H1 H2 Hi Hj Hv.
  unfold pick. rewrite (flat_2d d1 d2 n1 n2 vs s dm dt rd ix i j H1 H2 Hi Hj).
  rewrite (flat_2d d2 d1 n2 n1 vt s dm dt rd ix j i H2 H1 Hj Hi).
  unfold elem; cbn [avals asc adm adt]. rewrite Hv. reflexivity.
Qed.
Example pick_transpose_invariant_sat :
  lookup "y" ["y"; "x"] [1; 2]%nat = Some 1%nat /\ lookup "x" ["y"; "x"] [1; 2]%nat = Some 2%nat
  /\ nth (2 * 2 + 1) (avals ex_xy) 0%Q = nth (1 * 3 + 2) (avals ex_yx) 0%Q.
Proof. vm_compute. repeat split; reflexivity. Qed.
