(* C11/Properties.v — property theorems only.  The model (Verif.C11.Clip) is instantiated at the
   reals: m_n, h and the unit factor sc are arbitrary, alpha = m_n/h*sc.  Each theorem is proved in
   coq/C11/Proofs*.v; the tie between the model and src/scippneutron/tof/chopper_cascade.py is the
   correspondence run (Corr.v: binary64 instance bit for bit, rational instance, Reach oracle).

   Reading guide:  hull V       convex hull of the vertex list V (smallest set closed under segments)
                   in_frame f p  p lies in the hull of one of the subframes of f
                   Reach alpha r cs d (t, lambda)   (Spec.v) a neutron of the source rectangle r with
                                 wavelength lambda passes a window of every chopper of cs and is at
                                 distance d at time t *)
From Coq Require Import Reals List Bool Lra Permutation.
From Verif.Sem Require Import RInst.
From Verif.C11 Require Import Clip Inst Spec ProofsClip ProofsConvex ProofsCascade ProofsRegular Multi ProofsMulti.
Import ListNotations.
Open Scope R_scope.

Section P.
Variables mn h sc : R.
Notation O := (ROps mn h sc).
Notation al := (alpha mn h sc).

(* one Sutherland-Hodgman step of _chop keeps exactly the part of a convex polygon on the kept side *)
Theorem C11_clip_sound : forall ge a (V : list P2) p,
  hull (clip O ge a V) p -> hull V p /\ side ge a (fst p).
Proof. exact (clip_sound mn h sc). Qed.
Theorem C11_clip_complete : forall ge a (V : list P2) p,
  convex V -> hull V p -> side ge a (fst p) -> hull (clip O ge a V) p.
Proof. exact (clip_complete mn h sc). Qed.
Theorem C11_clip_convex : forall ge a (V : list P2), convex V -> convex (clip O ge a V).
Proof. exact (clip_convex mn h sc). Qed.

(* frames are exactly the transmitted neutrons: source pulse, any list of choppers at distances >= 0
   (in any order, any number of windows), looked at from any distance d *)
Theorem C11_frames_are_reach : forall t0 t1 w0 w1 (cs : list (chopper O)) d,
  t0 <= t1 -> w0 <= w1 -> (forall c, In c cs -> 0 <= cdist c) ->
  exists s, seq_chop O cs (source O t0 t1 w0 w1) = Some s /\
    forall p, in_frame mn h sc (propagate_to O d (last_frame O s)) p <->
              Reach al (src_rect t0 t1 w0 w1) (map (spec_of mn h sc) cs) d p.
Proof. exact (frames_are_reach mn h sc). Qed.

(* ... and after ANY program of chop / propagate_to calls that does not raise *)
Theorem C11_program_reach : forall t0 t1 w0 w1 (prog : list (cmd O)) s,
  t0 <= t1 -> w0 <= w1 -> run O (source O t0 t1 w0 w1) prog = Some s ->
  forall p, in_frame mn h sc (last_frame O s) p <->
            Reach al (src_rect t0 t1 w0 w1) (map (spec_of mn h sc) (choppers_of mn h sc prog)) (fdist (last_frame O s)) p.
Proof. exact (program_reach mn h sc). Qed.

(* FrameSequence[d] after a cascade: exactly the neutrons transmitted by the choppers up to distance d *)
Theorem C11_getitem_reach : forall t0 t1 w0 w1 (cs : list (chopper O)) s d,
  t0 <= t1 -> w0 <= w1 -> seq_chop O cs (source O t0 t1 w0 w1) = Some s -> 0 <= d ->
  exists fr, getitem O d s = Some fr /\
    forall p, in_frame mn h sc fr p <->
              Reach al (src_rect t0 t1 w0 w1)
                    (map (spec_of mn h sc) (filter (fun c : chopper O => Rleb (cdist c) d) cs)) d p.
Proof. exact (getitem_reach mn h sc). Qed.

(* every vertex of every frame stays inside the source wavelength band *)
Theorem C11_within_band : forall t0 t1 w0 w1 (prog : list (cmd O)) s,
  t0 <= t1 -> w0 <= w1 -> run O (source O t0 t1 w0 w1) prog = Some s ->
  forall fr V v, In fr s -> In V (fpolys fr) -> In v V -> w0 <= snd v <= w1.
Proof. exact (within_band mn h sc). Qed.

(* the order in which the choppers are listed does not matter: literally the same frames when the
   distances are pairwise distinct, the same point sets in general *)
Theorem C11_order_irrelevant_sorted : forall cs cs' : list (chopper O),
  Permutation cs cs' -> NoDup (map (@cdist O) cs) -> sort O cs = sort O cs'.
Proof. exact (sort_order_irrelevant mn h sc). Qed.
Theorem C11_order_irrelevant : forall t0 t1 w0 w1 (cs cs' : list (chopper O)) s s' d,
  t0 <= t1 -> w0 <= w1 -> Permutation cs cs' ->
  seq_chop O cs (source O t0 t1 w0 w1) = Some s -> seq_chop O cs' (source O t0 t1 w0 w1) = Some s' ->
  forall p, in_frame mn h sc (propagate_to O d (last_frame O s)) p <-> in_frame mn h sc (propagate_to O d (last_frame O s')) p.
Proof. exact (order_irrelevant mn h sc). Qed.

(* propagating in two steps equals propagating in one *)
Theorem C11_two_step_propagation : forall (fr : frame O) d1 d2,
  propagate_to O d2 (propagate_to O d1 fr) = propagate_to O d2 fr.
Proof. exact (two_step_propagation mn h sc). Qed.

(* over the reals is_regular() is True for every subframe of a cascade, also further downstream, so
   subbounds() never takes its NotImplementedError branch (binary64: see Float.v) *)
Theorem C11_regular_R : forall t0 t1 w0 w1 (cs : list (chopper O)) s,
  0 <= al -> t0 <= t1 -> w0 <= w1 -> seq_chop O cs (source O t0 t1 w0 w1) = Some s ->
  forall fr d, In fr s -> fdist fr <= d ->
    forallb (is_regular O) (fpolys fr) = true /\
    forallb (is_regular O) (fpolys (propagate_to O d fr)) = true /\
    subbounds O (propagate_to O d fr) <> inr true.
Proof. exact (regular_R mn h sc). Qed.

(* a frame propagated to a RANGE of distances in one call (Verif.C11.Multi): bounds() and subbounds()
   have one entry per distance, and entry k is that of the frame propagated to the single distance d_k
   (to which the theorems above apply) *)
Theorem C11_multi_bounds_pointwise : forall (ds : list R) (fr : frame O) l,
  bounds_multi O ds fr = Some l ->
  (length l = length ds)%nat /\
  forall k d, nth_error ds k = Some d -> nth_error l k = Some (bounds O (propagate_to O d fr)).
Proof. exact (bounds_multi_pointwise O). Qed.
Theorem C11_multi_subbounds_pointwise : forall (ds : list R) (fr : frame O) l,
  subbounds_multi O ds fr = inl l ->
  (length l = length ds)%nat /\
  forall k d, nth_error ds k = Some d -> nth_error l k = Some (sub_bounds_list O (propagate_to O d fr)).
Proof. exact (subbounds_multi_pointwise O). Qed.
(* ... and for a band of non-negative wavelengths every subframe of a cascade propagated downstream to
   any non-empty range of distances is regular (is_regular then takes min / max over all distances and
   vertices together), so subbounds() does not take its NotImplementedError branch *)
Theorem C11_regular_multi_R : forall t0 t1 w0 w1 (cs : list (chopper O)) s,
  0 <= al -> t0 <= t1 -> 0 <= w0 -> w0 <= w1 -> seq_chop O cs (source O t0 t1 w0 w1) = Some s ->
  forall fr (ds : list R), In fr s -> ds <> [] -> (forall d, In d ds -> fdist fr <= d) ->
    forallb (is_regular_multi O) (multi_sub O ds fr) = true /\
    subbounds_multi O ds fr <> inr true.
Proof. exact (regular_multi_R mn h sc). Qed.
End P.

(* the hypotheses are satisfiable: a 1 x 1 rectangle, one chopper at distance 1 with window [1, 2]
   (alpha = 1): the neutron (1/2, 1) arrives at time 3/2 and is transmitted *)
Example C11_nonvacuous :
  Reach 1 (src_rect 0 1 1 2) [(1, [(1, 2)])] 1 (3 / 2, 1).
Proof.
  exists (1 / 2, 1). unfold in_rect, transmitted, passes, arrival; simpl.
  repeat split; try lra. constructor; [|constructor]. constructor. simpl. lra.
Qed.

(* the hypotheses of C11_regular_multi_R are satisfiable: the unchopped 1 x 1 pulse at 0 m propagated
   to 1 m and 2 m *)
Example C11_multi_nonvacuous :
  exists s fr (ds : list R),
    seq_chop (ROps 1 1 1) [] (source (ROps 1 1 1) 0 1 1 2) = Some s /\ In fr s /\ ds <> [] /\
    (forall d, In d ds -> fdist fr <= d) /\ exists l, bounds_multi (ROps 1 1 1) ds fr = Some l.
Proof.
  eexists. eexists. exists [1; 2]. split; [reflexivity|]. split; [left; reflexivity|].
  split; [discriminate|]. split.
  - intros d [<- | [<- | []]]; simpl; lra.
  - eexists. reflexivity.
Qed.

Print Assumptions C11_clip_sound.
Print Assumptions C11_clip_complete.
Print Assumptions C11_clip_convex.
Print Assumptions C11_frames_are_reach.
Print Assumptions C11_program_reach.
Print Assumptions C11_getitem_reach.
Print Assumptions C11_within_band.
Print Assumptions C11_order_irrelevant_sorted.
Print Assumptions C11_order_irrelevant.
Print Assumptions C11_two_step_propagation.
Print Assumptions C11_regular_R.
Print Assumptions C11_multi_bounds_pointwise.
Print Assumptions C11_multi_subbounds_pointwise.
Print Assumptions C11_regular_multi_R.
