(* C11/Corr.v — correspondence run: the executable model (coq/C11/Clip.v) against observations of
   the real chopper_cascade module, compared INSIDE Coq.

   (a) binary64 instance: same frames, same vertices in the same order, bit for bit; same
       is_regular / bounds / subbounds / __getitem__ outcomes, same exceptions; a frame propagated to
       an ARRAY of distances in one call (Verif.C11.Multi) is, distance by distance, the frame propagated
       to that single distance — vertices, bounds(), subbounds() — and keeps the distance dimension(s);
   (b) high-precision instance (200-bit dyadic arithmetic standing in for the exact rationals),
       one call at a time: applied to the implementation's own previous
       frame (taken exactly), its polygons and the implementation's next frame cover each other within
       1.5e-11 of the time / wavelength scale (vertex ties may be decided differently by rounding, so
       the vertex LISTS are compared in (a), not here);
   (c) independent oracle: the Spec.Reach decision, computed straight from the definition in 200-bit
       arithmetic with a decision margin (arrival time t0 + alpha*lambda*d inside a window of every chopper applied so far),
       against point-in-polygon tests on the implementation's polygons.
   Definitions only. *)
From Coq Require Import ZArith String List Bool.
From Coq Require Import PrimFloat Uint63.
From Verif.C11 Require Import Report.
From Verif.C11 Require Import Clip Inst Multi.
Import ListNotations.
Open Scope string_scope.

(* ---- observations, as written by props/C11.py (all numbers binary64 hexadecimal literals) *)
Definition fpt : Type := (float * float)%type.
Definition f4 : Type := (float * float * float * float)%type.
Inductive pcmd := PChop (cs : list (float * list (float * float))) | PProp (d : float).
Record obsframe := mkobs {
  o_d : float;
  o_polys : list (list fpt);
  o_reg : list bool;
  o_bounds : option f4;
  o_subcls : nat;              (* 0 = subbounds returned, 1 = NotImplementedError, 2 = other exception *)
  o_sub : list f4 }.
Record obsitem := mkitem { i_d : float; i_res : option (float * list (list fpt) * list bool) }.
(* a frame propagated to several distances in one call: the base frame is frames[mu_idx] of the
   sequence (Frame.propagate_to / FrameSequence.propagate_to) or sequence[mu_item]; everything is
   listed per distance (row-major over the distance dims) *)
Record obsmulti := mkmulti {
  mu_idx : nat;
  mu_item : option float;
  mu_ds : list float;
  mu_ok : bool;                              (* propagate_to returned *)
  mu_polys : list (list (list fpt));         (* per distance, per subframe *)
  mu_reg : list bool;                        (* Subframe.is_regular per subframe *)
  mu_bshape : bool;                          (* bounds()['time'] has the distance dims *)
  mu_bounds : option (list f4);              (* per distance; None = exception *)
  mu_subcls : nat;                           (* as o_subcls *)
  mu_sshape : bool;                          (* subbounds()['time'] has the distance dims *)
  mu_sub : list (list f4) }.                 (* per distance, per subframe *)
Inductive probe := PN (t0 l : float)     (* a neutron (emission time, wavelength) *)
                 | PP (t l : float).     (* a point (time, wavelength) in the frame's own coordinates *)
Record ccase := mkcase {
  c_rect : f4;
  c_prog : list pcmd;
  c_err : bool;                (* the program raised ValueError *)
  c_frames : list obsframe;
  c_items : list obsitem;
  c_multi : list obsmulti;
  c_probes : list (nat * list probe) }.    (* frame index, probes *)

Section Chk.
Variables MN H : float.
Definition FO (fx : bool) : COps := FOpsV fx MN H.   (* fx = true: the text of _chop with C11_regular.patch *)
Definition DO : COps := DOps (DofF MN) (DofF H).     (* 200-bit dyadic stand-in for the exact rationals *)

(* ------------------------------------------------------------------ (a) binary64, bit for bit *)
Definition feq (a b : float) : bool := PrimFloat.eqb a b.
Definition pt_eq (p q : fpt) : bool := feq (fst p) (fst q) && feq (snd p) (snd q).
Fixpoint list_eq {A B} (e : A -> B -> bool) (l : list A) (m : list B) : bool :=
  match l, m with
  | [], [] => true
  | x :: l', y :: m' => e x y && list_eq e l' m'
  | _, _ => false
  end.
Definition f4_eq (a b : f4) : bool :=
  let '(a1, a2, a3, a4) := a in let '(b1, b2, b3, b4) := b in feq a1 b1 && feq a2 b2 && feq a3 b3 && feq a4 b4.
Definition opt_eq {A} (e : A -> A -> bool) (a b : option A) : bool :=
  match a, b with Some x, Some y => e x y | None, None => true | _, _ => false end.

Section Variant.
Variable fx : bool.
Notation FO := (FO fx).
Definition cmdF (c : pcmd) : cmd FO :=
  match c with
  | PChop cs => CChop (map (fun c => mkchopper (O:=FO) (fst c) (snd c)) cs)
  | PProp d => CProp (O:=FO) d
  end.

Definition frame_cmp (f : frame FO) (o : obsframe) : string :=
  if negb (feq (fdist f) (o_d o) && list_eq (list_eq pt_eq) (fpolys f) (o_polys o)) then "float-vertices"
  else if negb (list_eq Bool.eqb (map (is_regular FO) (fpolys f)) (o_reg o)) then "float-is_regular"
  else if negb (opt_eq f4_eq (bounds FO f) (o_bounds o)) then "float-bounds"
  else match subbounds FO f, o_subcls o with
       | inl l, O => if list_eq f4_eq l (o_sub o) then "" else "float-subbounds-values"
       | inr true, S O => ""
       | inr false, S (S O) => ""
       | _, _ => "float-subbounds-outcome"
       end.
Fixpoint frames_cmp (fs : list (frame FO)) (os : list obsframe) : string :=
  match fs, os with
  | [], [] => ""
  | f :: fs', o :: os' => let r := frame_cmp f o in if String.eqb r "" then frames_cmp fs' os' else r
  | _, _ => "float-number-of-frames"
  end.
Definition item_cmp (s : list (frame FO)) (it : obsitem) : string :=
  match getitem FO (i_d it) s, i_res it with
  | None, None => ""
  | Some f, Some (d, polys, reg) =>
      if feq (fdist f) d && list_eq (list_eq pt_eq) (fpolys f) polys
         && list_eq Bool.eqb (map (is_regular FO) (fpolys f)) reg then "" else "float-getitem"
  | _, _ => "float-getitem-outcome"
  end.
Fixpoint first_msg (l : list string) : string :=
  match l with [] => "" | r :: l' => if String.eqb r "" then first_msg l' else r end.

(* propagation to an array of distances *)
Definition optf4_eq (a : option (Multi.f4 FO)) (b : f4) : bool :=
  match a with Some x => f4_eq x b | None => false end.
Definition multi_cmp (s : list (frame FO)) (m : obsmulti) : string :=
  let base := match mu_item m with Some d => getitem FO d s | None => nth_error s (mu_idx m) end in
  match base with
  | None => if mu_ok m then "float-multi-outcome" else ""
  | Some fr =>
      if negb (mu_ok m) then "float-multi-outcome"
      else if negb (list_eq (list_eq (list_eq pt_eq)) (map (@fpolys FO) (propagate_multi FO (mu_ds m) fr)) (mu_polys m))
      then "float-multi-vertices"
      else if negb (list_eq Bool.eqb (map (is_regular_multi FO) (multi_sub FO (mu_ds m) fr)) (mu_reg m))
      then "float-multi-is_regular"
      else
        let rb := match bounds_multi FO (mu_ds m) fr, mu_bounds m with
                  | None, None => ""
                  | Some l, Some l' => if negb (mu_bshape m) then "float-multi-bounds-shape"
                                       else if list_eq optf4_eq l l' then "" else "float-multi-bounds"
                  | _, _ => "float-multi-bounds-outcome"
                  end in
        if negb (String.eqb rb "") then rb
        else match subbounds_multi FO (mu_ds m) fr, mu_subcls m with
             | inl l, O => if negb (mu_sshape m) then "float-multi-subbounds-shape"
                           else if list_eq (list_eq f4_eq) l (mu_sub m) then "" else "float-multi-subbounds-values"
             | inr true, S O => ""
             | inr false, S (S O) => ""
             | _, _ => "float-multi-subbounds-outcome"
             end
  end.

Definition srcF (c : ccase) : list (frame FO) :=
  let '(t0, t1, w0, w1) := c_rect c in source FO t0 t1 w0 w1.
Definition check_float_v (c : ccase) : string :=
  match run FO (srcF c) (map cmdF (c_prog c)), c_err c with
  | None, true => ""
  | None, false => "float-model-raises"
  | Some _, true => "float-impl-raises"
  | Some s, false =>
      let r := frames_cmp s (c_frames c) in
      if String.eqb r "" then
        let r2 := first_msg (map (item_cmp s) (c_items c)) in
        if String.eqb r2 "" then first_msg (map (multi_cmp s) (c_multi c)) else r2
      else r
  end.
End Variant.
(* the model of the current text first; if it disagrees, the text before C11_regular.patch is tried so
   that an unfixed tree is named as such *)
Definition check_float (c : ccase) : string :=
  let r := check_float_v true c in
  if String.eqb r "" then ""
  else if String.eqb (check_float_v false c) "" then "float-interpolates-equal-wavelengths"
  else r.

(* ------------------------------------------------------------------ high precision / exact part *)
Open Scope Z_scope.
Definition dpt : Type := (D * D)%type.
Definition dp (p : fpt) : dpt := (DofF (fst p), DofF (snd p)).
Definition chopperD (c : float * list (float * float)) : chopper DO :=
  mkchopper (O:=DO) (DofF (fst c)) (map (fun w => (DofF (fst w), DofF (snd w))) (snd c)).
Definition dmin (a b : D) : D := if dleb a b then a else b.
Definition dmax (a b : D) : D := if dleb a b then b else a.
Definition dabs (a : D) : D := (Z.abs (fst a), snd a).
Definition dscale (x : D) (a : Z) : D := (fst x, snd x - a).          (* x / 2^a *)
Definition dceil_exp (x : D) : Z := snd x + Z.log2 (Z.abs (fst x)) + 1.   (* |x| < 2^that *)

(* alpha = m_n/h * 1e-10 to 200 significant bits; the Reach decisions below carry a margin
   DELTA = 2^-30 of the time / wavelength scale, so the 2^-199 truncation is immaterial *)
Definition alphaD : D := ivel DO (1, 0).

(* ---- fixed-point geometry: every binary64 number of a case is an integer multiple of 2^eT (times)
   or 2^eW (wavelengths), so cross products on the implementation's polygons are exact integers;
   scales are powers of two 2^aT >= |times|, 2^aW >= |wavelengths| *)
Record geo := mkgeo { eT : Z; eW : Z; aT : Z; aW : Z }.
Definition zpt : Type := (Z * Z)%type.
Definition dfix (e : Z) (x : D) : Z := Z.shiftl (fst x) (snd x - e).    (* floor (x / 2^e) *)
Definition fixp (g : geo) (p : dpt) : zpt := (dfix (eT g) (fst p), dfix (eW g) (snd p)).
Definition crossz (u v p : zpt) : Z :=
  (fst v - fst u) * (snd p - snd u) - (snd v - snd u) * (fst p - fst u).
Definition TOLB : Z := 36.         (* polygon membership slack 2^-36 ~ 1.5e-11 of the scale *)
Definition DELTA : D := (1, -30).  (* 2^-30 ~ 9.3e-10: a probe nearer than this to a boundary of the
                                      transmission set is not decisive *)

(* a counter-clockwise convex polygon prepared for membership tests: bounding box and, per edge, the
   amount |e_t|*2^aW + |e_w|*2^aT by which one unit of normalised slack moves the cross product *)
Record ppoly := mkpp { p_tlo : Z; p_thi : Z; p_wlo : Z; p_whi : Z; p_edges : list (zpt * zpt * Z) }.
Definition prep (g : geo) (V : list zpt) : option ppoly :=
  match V with
  | [] => None
  | v0 :: _ =>
      Some (mkpp (fold_left Z.min (map fst V) (fst v0)) (fold_left Z.max (map fst V) (fst v0))
                 (fold_left Z.min (map snd V) (snd v0)) (fold_left Z.max (map snd V) (snd v0))
                 (map (fun e => (fst e, snd e,
                                 Z.shiftl (Z.abs (fst (snd e) - fst (fst e))) (aW g - eW g)
                                 + Z.shiftl (Z.abs (snd (snd e) - snd (fst e))) (aT g - eT g)))
                      (edges V)))
  end.
Definition preps (g : geo) (Vs : list (list zpt)) : list ppoly :=
  flat_map (fun V => match prep g V with Some P => [P] | None => [] end) Vs.
(* p inside P moved outwards (sgn = -1) / inwards (sgn = 1) by 2^-36 in normalised coordinates.
   Vertices carry rounding errors of ~2^-52 of the scale, so (i) an edge shorter than 2^-44 has no
   meaningful direction and is skipped (sound also for the inward test: the region gained by dropping
   such an edge is a triangle narrower than 2^-44, which contains no point 2^-36 inside its other two
   edges), and (ii) the slack grows by 2^-46 of the distance between p and the edge's start.
   The bounding-box test keeps degenerate (zero-area) polygons honest. *)
Definition in_pp (g : geo) (sgn : Z) (P : ppoly) (p : zpt) : bool :=
  let bt := sgn * 2 ^ (aT g - eT g) in
  let bw := sgn * 2 ^ (aW g - eW g) in
  let tiny := 2 ^ (aT g - eT g + aW g - eW g - 44) in
  let pt := Z.shiftl (fst p) TOLB in let pw := Z.shiftl (snd p) TOLB in
  (Z.shiftl (p_tlo P) TOLB + bt <=? pt) && (pt <=? Z.shiftl (p_thi P) TOLB - bt)
  && (Z.shiftl (p_wlo P) TOLB + bw <=? pw) && (pw <=? Z.shiftl (p_whi P) TOLB - bw)
  && forallb (fun e => let '(u, v, sz) := e in
                       if sz <? tiny then true
                       else
                         let szp := Z.shiftl (Z.abs (fst p - fst u)) (aW g - eW g)
                                    + Z.shiftl (Z.abs (snd p - snd u)) (aT g - eT g) in
                         sgn * (sz + Z.shiftr szp 10) <=? Z.shiftl (crossz u v p) TOLB) (p_edges P).
Definition in_pps (g : geo) (sgn : Z) (Ps : list ppoly) (p : zpt) : bool := existsb (fun P => in_pp g sgn P p) Ps.

(* the geometry of a case *)
Definition probe_pt (pr : probe) : fpt := match pr with PN t l => (t, l) | PP t l => (t, l) end.
Definition case_pts (c : ccase) : list fpt :=
  let '(t0, t1, w0, w1) := c_rect c in
  ((t0, w0) :: (t1, w1) :: flat_map (fun o => concat (o_polys o)) (c_frames c)
   ++ flat_map (fun x => map probe_pt (snd x)) (c_probes c))%list.
Definition min_exp (l : list float) : Z :=
  fold_left (fun e x => let d := DofF x in if fst d =? 0 then e else Z.min e (snd d)) l 0.
Definition max_dist (c : ccase) : D :=
  fold_left dmax (map (fun o => dabs (DofF (o_d o))) (c_frames c)
                  ++ flat_map (fun cm => match cm with PChop cs => map (fun x => dabs (DofF (fst x))) cs | PProp d => [dabs (DofF d)] end) (c_prog c))%list (0, 0).
Definition geo_of (c : ccase) : geo :=
  let '(t0, t1, w0, w1) := c_rect c in
  let sw := dadd (dmax (dabs (DofF w0)) (dabs (DofF w1))) (1, -20) in
  let st := dadd (dadd (dabs (DofF t0)) (dabs (DofF t1)))
                 (dadd (dmul (dmul alphaD sw) (max_dist c)) (1, -30)) in
  let pts := case_pts c in
  mkgeo (min_exp (map fst pts)) (min_exp (map snd pts)) (dceil_exp st) (dceil_exp sw).
Definition fpolys_z (g : geo) (l : list (list fpt)) : list (list zpt) := map (map (fun p => fixp g (dp p))) l.

(* (b) one step at a time: the high-precision model applied to the implementation's OWN previous
   frame (taken exactly) and the implementation's next frame cover each other; rounding does not
   accumulate and a tie decided differently only moves a vertex within the tolerance *)
(* a subframe whose extent in time is below 2^-36 of the scale is what is left when a window end
   meets a vertex time up to rounding: one side may have it and the other not (tie decided
   differently by rounding) — such subframes are not required to be covered *)
Definition negligible (g : geo) (V : list zpt) : bool :=
  match V with
  | [] => true
  | v0 :: _ => Z.shiftl (fold_left Z.max (map fst V) (fst v0) - fold_left Z.min (map fst V) (fst v0)) TOLB
               <=? 2 ^ (aT g - eT g)
  end.
Definition cover (g : geo) (As : list (list zpt)) (Bs : list ppoly) : bool :=
  forallb (fun V => negligible g V || forallb (fun v => in_pps g (-1) Bs v) V) As.
Definition frameD (o : obsframe) : frame DO := mkframe (O:=DO) (DofF (o_d o)) (map (map dp) (o_polys o)).
Definition step_cmp (g : geo) (f : frame DO) (o : obsframe) : string :=
  let ip := fpolys_z g (o_polys o) in
  let mp := map (map (fixp g)) (fpolys f) in
  if negb (deqb (fdist f) (DofF (o_d o))) then "q-distance"
  else if negb (cover g ip (preps g mp)) then "q-impl-vertex-outside-model"
  else if negb (cover g mp (preps g ip)) then "q-model-vertex-outside-impl"
  else "".
(* walk the program along the observed frames: prev = the observed frame the next call starts from *)
Fixpoint chops_cmp (g : geo) (prev : obsframe) (cs : list (chopper DO)) (os : list obsframe)
  : string * obsframe * list obsframe :=
  match cs with
  | [] => ("", prev, os)
  | c :: cs' =>
      match os with
      | [] => ("q-number-of-frames", prev, [])
      | o :: os' =>
          match chop_frame DO c (frameD prev) with
          | None => ("q-model-raises", prev, os)
          | Some f => let r := step_cmp g f o in
                      if String.eqb r "" then chops_cmp g o cs' os' else (r, prev, os)
          end
      end
  end.
Fixpoint prog_cmp (g : geo) (prev : obsframe) (p : list pcmd) (os : list obsframe) : string :=
  match p with
  | [] => match os with [] => "" | _ => "q-number-of-frames" end
  | PProp d :: r =>
      match os with
      | [] => "q-number-of-frames"
      | o :: os' => let m := step_cmp g (propagate_to DO (DofF d) (frameD prev)) o in
                    if String.eqb m "" then prog_cmp g o r os' else m
      end
  | PChop cs :: r =>
      let '(m, prev', os') := chops_cmp g prev (sort DO (map chopperD cs)) os in
      if String.eqb m "" then prog_cmp g prev' r os' else m
  end.
Definition hull_check (g : geo) (c : ccase) : string :=
  match c_frames c with
  | [] => "q-number-of-frames"
  | o0 :: os =>
      let '(t0, t1, w0, w1) := c_rect c in
      let r := step_cmp g (last_frame DO (source DO (DofF t0) (DofF t1) (DofF w0) (DofF w1))) o0 in
      if String.eqb r "" then prog_cmp g o0 (c_prog c) os else r
  end.

(* (c) Spec.Reach decided from its definition.  The choppers applied to frame number i of the
   sequence are recomputed here from the program (stable sort by distance inside each chop call). *)
Definition dchopper : Type := (D * list (D * D))%type.
Fixpoint dinsert (c : dchopper) (l : list dchopper) : list dchopper :=
  match l with
  | [] => [c]
  | y :: r => if dltb (fst y) (fst c) then y :: dinsert c r else c :: y :: r
  end.
Definition dsort (l : list dchopper) : list dchopper := fold_right dinsert [] l.
Definition dch (c : float * list (float * float)) : dchopper :=
  (DofF (fst c), map (fun w => (DofF (fst w), DofF (snd w))) (snd c)).
(* histories: for every frame of the sequence, the list of choppers applied to it *)
Fixpoint prefixes {A} (acc : list A) (l : list A) : list (list A) :=
  match l with [] => [] | x :: r => (acc ++ [x])%list :: prefixes (acc ++ [x])%list r end.
Fixpoint hist (cur : list dchopper) (p : list pcmd) : list (list dchopper) :=
  match p with
  | [] => []
  | PProp _ :: r => cur :: hist cur r
  | PChop cs :: r => let ps := prefixes cur (dsort (map dch cs)) in (ps ++ hist (last ps cur) r)%list
  end.
Definition histories (c : ccase) : list (list dchopper) := [] :: hist [] (c_prog c).

(* signed margin by which the arrival time lies inside the best window *)
Definition win_margin (arr : D) (ws : list (D * D)) : option D :=
  match ws with
  | [] => None
  | w :: r => Some (fold_left (fun m w => dmax m (dmin (dsub arr (fst w)) (dsub (snd w) arr))) r
                              (dmin (dsub arr (fst w)) (dsub (snd w) arr)))
  end.
(* margin of the neutron n = (t0, l) in normalised units: > 0 transmitted with room, < 0 blocked with room *)
Definition margin (g : geo) (rc : D * D * D * D) (cs : list dchopper) (n : dpt) : D :=
  let '(t0, t1, w0, w1) := rc in
  let m0 := dmin (dmin (dscale (dsub (fst n) t0) (aT g)) (dscale (dsub t1 (fst n)) (aT g)))
                 (dmin (dscale (dsub (snd n) w0) (aW g)) (dscale (dsub w1 (snd n)) (aW g))) in
  let al := dmul alphaD (snd n) in
  fold_left (fun m c => match win_margin (dadd (fst n) (dmul al (fst c))) (snd c) with
                        | None => dmin m (-1, 0)
                        | Some x => dmin m (dscale x (aT g))
                        end) cs m0.

Definition probe_check (g : geo) (rc : D * D * D * D) (cs : list dchopper) (d : D) (Ps : list ppoly) (pr : probe) : string :=
  (* the probe is a point (t, l) of the frame at distance d; the neutron that is there is (t - alpha*l*d, l) *)
  let p := dp (probe_pt pr) in
  let n := (dsub (fst p) (dmul (dmul alphaD (snd p)) d), snd p) in
  let m := margin g rc cs n in
  if dleb DELTA m then (if in_pps g (-1) Ps (fixp g p) then "" else "oracle-transmitted-neutron-not-in-any-subframe")
  else if dleb m (dopp DELTA) then (if in_pps g 1 Ps (fixp g p) then "oracle-blocked-neutron-inside-a-subframe" else "")
  else "".
Definition rect_d (c : ccase) : D * D * D * D :=
  let '(t0, t1, w0, w1) := c_rect c in (DofF t0, DofF t1, DofF w0, DofF w1).
Definition probes_check (c : ccase) (g : geo) (x : nat * list probe) : string :=
  match nth_error (c_frames c) (fst x), nth_error (histories c) (fst x) with
  | Some o, Some cs =>
      first_msg (map (probe_check g (rect_d c) cs (DofF (o_d o)) (preps g (fpolys_z g (o_polys o)))) (snd x))
  | _, _ => "oracle-frame-index"
  end.

Definition check_q (c : ccase) : string :=
  if c_err c then ""
  else
    let g := geo_of c in
    if negb (Nat.eqb (List.length (histories c)) (List.length (c_frames c))) then "oracle-history-length"
    else
      let r := hull_check g c in
      if String.eqb r "" then first_msg (map (probes_check c g) (c_probes c)) else r.

(* both verdicts are reported: the bit-exact tie (a) and the independent semantics (b)/(c) *)
Definition check (c : ccase) : string :=
  let rf := check_float c in
  let rq := check_q c in
  if String.eqb rf "" then rq else if String.eqb rq "" then rf else (rf ++ "+" ++ rq)%string.
End Chk.
