(* C11/Corr.v — correspondence run: the executable model (coq/C11/Clip.v) against observations of
   the real chopper_cascade module, compared INSIDE Coq.

   (a) binary64 instance: same frames, same vertices in the same order, bit for bit; same
       is_regular / bounds / subbounds / __getitem__ outcomes, same exceptions;
   (b) exact-rational instance, one call at a time: applied to the implementation's own previous
       frame (taken exactly), its polygons and the implementation's next frame cover each other within
       1.5e-11 of the time / wavelength scale (vertex ties may be decided differently by rounding, so
       the vertex LISTS are compared in (a), not here);
   (c) independent oracle: the Spec.Reach decision, computed in exact rationals straight from the
       definition (arrival time t0 + alpha*lambda*d inside a window of every chopper applied so far),
       against point-in-polygon tests on the implementation's polygons.
   Definitions only. *)
From Coq Require Import QArith Qabs ZArith String List Bool.
From Coq Require Import PrimFloat Uint63.
From Verif.C11 Require Import Report.
From Verif.C11 Require Import Clip Inst.
Import ListNotations.
Open Scope string_scope.

(* ---- observations, as written by props/C11.py (all numbers binary64 hexadecimal literals) *)
Definition fpt : Type := (float * float)%type.
Definition f4 : Type := (float * float * float * float)%type.
Inductive pcmd := PChop (cs : list (float * list (float * float))) | PProp (d : float).
Record obsframe := mkobs {
  o_d : float;
  o_polys : list (list fpt);
  o_reg : list bool;
  o_bounds : option f4;
  o_subcls : nat;              (* 0 = subbounds returned, 1 = NotImplementedError, 2 = other exception *)
  o_sub : list f4 }.
Record obsitem := mkitem { i_d : float; i_res : option (float * list (list fpt) * list bool) }.
Inductive probe := PN (t0 l : float)     (* a neutron (emission time, wavelength) *)
                 | PP (t l : float).     (* a point (time, wavelength) in the frame's own coordinates *)
Record ccase := mkcase {
  c_rect : f4;
  c_prog : list pcmd;
  c_err : bool;                (* the program raised ValueError *)
  c_frames : list obsframe;
  c_items : list obsitem;
  c_probes : list (nat * list probe) }.    (* frame index, probes *)

Section Chk.
Variables MN H : float.
Definition FO : COps := FOps MN H.
Definition QO : COps := QOps (QofF MN) (QofF H).

(* ------------------------------------------------------------------ (a) binary64, bit for bit *)
Definition feq (a b : float) : bool := PrimFloat.eqb a b.
Definition pt_eq (p q : fpt) : bool := feq (fst p) (fst q) && feq (snd p) (snd q).
Fixpoint list_eq {A} (e : A -> A -> bool) (l m : list A) : bool :=
  match l, m with
  | [], [] => true
  | x :: l', y :: m' => e x y && list_eq e l' m'
  | _, _ => false
  end.
Definition f4_eq (a b : f4) : bool :=
  let '(a1, a2, a3, a4) := a in let '(b1, b2, b3, b4) := b in feq a1 b1 && feq a2 b2 && feq a3 b3 && feq a4 b4.
Definition opt_eq {A} (e : A -> A -> bool) (a b : option A) : bool :=
  match a, b with Some x, Some y => e x y | None, None => true | _, _ => false end.

Definition cmdF (c : pcmd) : cmd FO :=
  match c with
  | PChop cs => CChop (map (fun c => mkchopper (O:=FO) (fst c) (snd c)) cs)
  | PProp d => CProp (O:=FO) d
  end.

Definition frame_cmp (f : frame FO) (o : obsframe) : string :=
  if negb (feq (fdist f) (o_d o) && list_eq (list_eq pt_eq) (fpolys f) (o_polys o)) then "float-vertices"
  else if negb (list_eq Bool.eqb (map (is_regular FO) (fpolys f)) (o_reg o)) then "float-is_regular"
  else if negb (opt_eq f4_eq (bounds FO f) (o_bounds o)) then "float-bounds"
  else match subbounds FO f, o_subcls o with
       | inl l, O => if list_eq f4_eq l (o_sub o) then "" else "float-subbounds-values"
       | inr true, S O => ""
       | inr false, S (S O) => ""
       | _, _ => "float-subbounds-outcome"
       end.
Fixpoint frames_cmp (fs : list (frame FO)) (os : list obsframe) : string :=
  match fs, os with
  | [], [] => ""
  | f :: fs', o :: os' => let r := frame_cmp f o in if String.eqb r "" then frames_cmp fs' os' else r
  | _, _ => "float-number-of-frames"
  end.
Definition item_cmp (s : list (frame FO)) (it : obsitem) : string :=
  match getitem FO (i_d it) s, i_res it with
  | None, None => ""
  | Some f, Some (d, polys, reg) =>
      if feq (fdist f) d && list_eq (list_eq pt_eq) (fpolys f) polys
         && list_eq Bool.eqb (map (is_regular FO) (fpolys f)) reg then "" else "float-getitem"
  | _, _ => "float-getitem-outcome"
  end.
Fixpoint first_msg (l : list string) : string :=
  match l with [] => "" | r :: l' => if String.eqb r "" then first_msg l' else r end.

Definition srcF (c : ccase) : list (frame FO) :=
  let '(t0, t1, w0, w1) := c_rect c in source FO t0 t1 w0 w1.
Definition check_float (c : ccase) : string :=
  match run FO (srcF c) (map cmdF (c_prog c)), c_err c with
  | None, true => ""
  | None, false => "float-model-raises"
  | Some _, true => "float-impl-raises"
  | Some s, false =>
      let r := frames_cmp s (c_frames c) in
      if String.eqb r "" then first_msg (map (item_cmp s) (c_items c)) else r
  end.

(* ------------------------------------------------------------------ exact rationals *)
Open Scope Q_scope.
Definition qpt : Type := (Q * Q)%type.
Definition qp (p : fpt) : qpt := (QofF (fst p), QofF (snd p)).
Definition qpolys (l : list (list fpt)) : list (list qpt) := map (map qp) l.
Definition qchopperQ (c : float * list (float * float)) : chopper QO :=
  mkchopper (O:=QO) (QofF (fst c)) (map (fun w => (QofF (fst w), QofF (snd w))) (snd c)).

Definition alphaQ : Q := Qred (QofF MN / QofF H * (1 # 10000000000)).

Definition crossq (u v p : qpt) : Q :=
  (fst v - fst u) * (snd p - snd u) - (snd v - snd u) * (fst p - fst u).
Definition qmin (a b : Q) := if Qle_bool a b then a else b.
Definition qmax (a b : Q) := if Qle_bool a b then b else a.

(* a power of two >= q (q > 0): scales are powers of two so that tolerances stay small numbers *)
Definition pow2_above (q : Q) : Q :=
  let e := (Z.log2_up (Qnum q) - Z.log2 (Zpos (Qden q)) + 1)%Z in
  if (0 <=? e)%Z then inject_Z (2 ^ e) else Qmake 1 (Pos.shiftl 1 (Z.to_N (- e))).

(* a counter-clockwise convex polygon prepared for membership tests: bounding box and, per edge,
   the size |e_t|*sw + |e_w|*st by which one unit of normalised slack moves the cross product *)
Record ppoly := mkpp { p_tlo : Q; p_thi : Q; p_wlo : Q; p_whi : Q; p_edges : list (qpt * qpt * Q) }.
Definition prep (st sw : Q) (V : list qpt) : option ppoly :=
  match V with
  | [] => None
  | v0 :: _ =>
      Some (mkpp (fold_left qmin (map fst V) (fst v0)) (fold_left qmax (map fst V) (fst v0))
                 (fold_left qmin (map snd V) (snd v0)) (fold_left qmax (map snd V) (snd v0))
                 (map (fun e => (fst e, snd e, Qred (Qabs (fst (snd e) - fst (fst e)) * sw + Qabs (snd (snd e) - snd (fst e)) * st)))
                      (edges V)))
  end.
Definition preps (st sw : Q) (Vs : list (list qpt)) : list ppoly :=
  flat_map (fun V => match prep st sw V with Some P => [P] | None => [] end) Vs.
(* p inside P moved outwards (k < 0) / inwards (k > 0) by |k| in coordinates normalised by (st, sw);
   the bounding-box test keeps degenerate (zero-area) polygons honest *)
Definition in_pp (st sw k : Q) (P : ppoly) (p : qpt) : bool :=
  Qle_bool (p_tlo P + k * st) (fst p) && Qle_bool (fst p) (p_thi P - k * st)
  && Qle_bool (p_wlo P + k * sw) (snd p) && Qle_bool (snd p) (p_whi P - k * sw)
  && forallb (fun e => let '(u, v, sz) := e in Qle_bool (k * sz) (crossq u v p)) (p_edges P).
Definition in_pps (st sw k : Q) (Ps : list ppoly) (p : qpt) : bool := existsb (fun P => in_pp st sw k P p) Ps.

Definition rect_q (c : ccase) : Q * Q * Q * Q :=
  let '(t0, t1, w0, w1) := c_rect c in (QofF t0, QofF t1, QofF w0, QofF w1).
Definition max_dist (c : ccase) : Q :=
  fold_left qmax (map (fun o => Qabs (QofF (o_d o))) (c_frames c)
                  ++ flat_map (fun cm => match cm with PChop cs => map (fun x => Qabs (QofF (fst x))) cs | PProp d => [Qabs (QofF d)] end) (c_prog c))%list 0.
Definition scale_w (c : ccase) : Q :=
  let '(_, _, w0, w1) := rect_q c in pow2_above (qmax (Qabs w0) (Qabs w1) + (1 # 1000000)).
Definition scale_t (c : ccase) : Q :=
  let '(t0, t1, _, _) := rect_q c in
  pow2_above (Qabs t0 + Qabs t1 + alphaQ * scale_w c * max_dist c + (1 # 1000000000)).

Definition TOL : Q := 1 # 68719476736.           (* 2^-36 ~ 1.5e-11: polygon membership slack *)
Definition DELTA : Q := 1 # 1073741824.          (* 2^-30 ~ 9.3e-10: a probe nearer than this to a boundary of
                                                     the transmission set is not decisive *)

(* (b) one step at a time: the rational model applied to the implementation's OWN previous frame
   (taken exactly) and the implementation's next frame cover each other; rounding does not
   accumulate and a tie decided differently only moves a vertex within the tolerance *)
Definition cover (st sw : Q) (As : list (list qpt)) (Bs : list ppoly) : bool :=
  forallb (fun V => forallb (fun v => in_pps st sw (- TOL) Bs v) V) As.
Definition frameQ (o : obsframe) : frame QO := mkframe (O:=QO) (QofF (o_d o)) (qpolys (o_polys o)).
Definition step_cmp (st sw : Q) (f : frame QO) (o : obsframe) : string :=
  let ip := qpolys (o_polys o) in
  if negb (Qeq_bool (fdist f) (QofF (o_d o))) then "q-distance"
  else if negb (cover st sw ip (preps st sw (fpolys f))) then "q-impl-vertex-outside-model"
  else if negb (cover st sw (fpolys f) (preps st sw ip)) then "q-model-vertex-outside-impl"
  else "".
(* walk the program along the observed frames: prev = the observed frame the next call starts from *)
Fixpoint chops_cmp (st sw : Q) (prev : obsframe) (cs : list (chopper QO)) (os : list obsframe)
  : string * obsframe * list obsframe :=
  match cs with
  | [] => ("", prev, os)
  | c :: cs' =>
      match os with
      | [] => ("q-number-of-frames", prev, [])
      | o :: os' =>
          match chop_frame QO c (frameQ prev) with
          | None => ("q-model-raises", prev, os)
          | Some f => let r := step_cmp st sw f o in
                      if String.eqb r "" then chops_cmp st sw o cs' os' else (r, prev, os)
          end
      end
  end.
Fixpoint prog_cmp (st sw : Q) (prev : obsframe) (p : list pcmd) (os : list obsframe) : string :=
  match p with
  | [] => match os with [] => "" | _ => "q-number-of-frames" end
  | PProp d :: r =>
      match os with
      | [] => "q-number-of-frames"
      | o :: os' => let m := step_cmp st sw (propagate_to QO (QofF d) (frameQ prev)) o in
                    if String.eqb m "" then prog_cmp st sw o r os' else m
      end
  | PChop cs :: r =>
      let '(m, prev', os') := chops_cmp st sw prev (sort QO (map qchopperQ cs)) os in
      if String.eqb m "" then prog_cmp st sw prev' r os' else m
  end.
Definition hull_check (st sw : Q) (c : ccase) : string :=
  match c_frames c with
  | [] => "q-number-of-frames"
  | o0 :: os =>
      let '(t0, t1, w0, w1) := rect_q c in
      let r := step_cmp st sw (last_frame QO (source QO t0 t1 w0 w1)) o0 in
      if String.eqb r "" then prog_cmp st sw o0 (c_prog c) os else r
  end.

(* (c) Spec.Reach decided from its definition.  The choppers applied to frame number i of the
   sequence are recomputed here from the program (stable sort by distance inside each chop call). *)
Definition qchopper : Type := (Q * list (Q * Q))%type.
Fixpoint qinsert (c : qchopper) (l : list qchopper) : list qchopper :=
  match l with
  | [] => [c]
  | y :: r => if negb (Qle_bool (fst c) (fst y)) then y :: qinsert c r else c :: y :: r
  end.
Definition qsort (l : list qchopper) : list qchopper := fold_right qinsert [] l.
Definition qch (c : float * list (float * float)) : qchopper :=
  (QofF (fst c), map (fun w => (QofF (fst w), QofF (snd w))) (snd c)).
(* histories: for every frame of the sequence, the list of choppers applied to it *)
Fixpoint prefixes {A} (acc : list A) (l : list A) : list (list A) :=
  match l with [] => [] | x :: r => (acc ++ [x])%list :: prefixes (acc ++ [x])%list r end.
Fixpoint hist (cur : list qchopper) (p : list pcmd) : list (list qchopper) :=
  match p with
  | [] => []
  | PProp _ :: r => cur :: hist cur r
  | PChop cs :: r => let ps := prefixes cur (qsort (map qch cs)) in (ps ++ hist (last ps cur) r)%list
  end.
Definition histories (c : ccase) : list (list qchopper) := [] :: hist [] (c_prog c).

(* signed margin by which the arrival time lies inside the best window *)
Definition win_margin (arr : Q) (ws : list (Q * Q)) : option Q :=
  match ws with
  | [] => None
  | w :: r => Some (fold_left (fun m w => qmax m (qmin (arr - fst w) (snd w - arr))) r (qmin (arr - fst w) (snd w - arr)))
  end.
(* margin of the neutron n = (t0, l) in normalised units: > 0 transmitted with room, < 0 blocked with room *)
Definition margin (st sw : Q) (rc : Q * Q * Q * Q) (cs : list qchopper) (n : qpt) : Q :=
  let '(t0, t1, w0, w1) := rc in
  let m0 := qmin (qmin ((fst n - t0) / st) ((t1 - fst n) / st)) (qmin ((snd n - w0) / sw) ((w1 - snd n) / sw)) in
  let al := Qred (alphaQ * snd n) in
  fold_left (fun m c => match win_margin (Qred (fst n + al * fst c)) (snd c) with
                        | None => qmin m (-1)
                        | Some x => qmin m (x / st)
                        end) cs m0.

Definition probe_check (st sw : Q) (rc : Q * Q * Q * Q) (cs : list qchopper) (d : Q) (Ps : list ppoly) (pr : probe) : string :=
  let n := match pr with
           | PN t0 l => (QofF t0, QofF l)
           | PP t l => (Qred (QofF t - alphaQ * QofF l * d), QofF l)
           end in
  let p := match pr with
           | PN _ _ => (Qred (fst n + alphaQ * snd n * d), snd n)
           | PP t l => (QofF t, QofF l)
           end in
  let m := margin st sw rc cs n in
  if Qle_bool DELTA m then (if in_pps st sw (- TOL) Ps p then "" else "oracle-transmitted-neutron-not-in-any-subframe")
  else if Qle_bool m (- DELTA) then (if in_pps st sw TOL Ps p then "oracle-blocked-neutron-inside-a-subframe" else "")
  else "".
Definition probes_check (c : ccase) (st sw : Q) (x : nat * list probe) : string :=
  match nth_error (c_frames c) (fst x), nth_error (histories c) (fst x) with
  | Some o, Some cs =>
      first_msg (map (probe_check st sw (rect_q c) cs (QofF (o_d o)) (preps st sw (qpolys (o_polys o)))) (snd x))
  | _, _ => "oracle-frame-index"
  end.

Definition check_q (c : ccase) : string :=
  if c_err c then ""
  else
    let st := scale_t c in let sw := scale_w c in
    if negb (Nat.eqb (List.length (histories c)) (List.length (c_frames c))) then "oracle-history-length"
    else
      let r := hull_check st sw c in
      if String.eqb r "" then first_msg (map (probes_check c st sw) (c_probes c)) else r.

Definition check (c : ccase) : string :=
  let r := check_float c in if String.eqb r "" then check_q c else r.
End Chk.
