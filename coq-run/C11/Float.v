From Coq Require Import List Bool PrimFloat.
From Verif.C11 Require Import Clip Inst.
Import ListNotations.
