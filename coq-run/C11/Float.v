(* C11/Float.v — what does NOT carry over from the reals to binary64: `Subframe.is_regular` compares
   with ==, and the intersection wavelength (1 - t) * w_i + t * w_j of an edge with w_i == w_j need
   not round to w_i.  The witness below is the model of the text of `_chop` BEFORE
   notes/fixes/C11_regular.patch (FOps0) run with Coq's primitive binary64 floats; every number is an
   exact hexadecimal literal.  Found by the search on the implementation (props/C11.py) and confirmed
   there: pulse [0, 3 ms] x [2, 3] angstrom, one chopper at 2 m open from 1.8875...ms to 3.6402...ms;
   Frame.subbounds() raises NotImplementedError.  With the patch (FOps) the same input is regular. *)
From Coq Require Import List Bool PrimFloat.
From Verif.C11 Require Import Clip Inst.
Import ListNotations.
Open Scope float_scope.

Definition MN : float := 0x1.096721994f0e8p-89.      (* sc.constants.m_n *)
Definition H : float := 0x1.b860bde023111p-111.      (* sc.constants.h *)
Definition wit_windows : list (float * float) := [(0x1.eecc2c3c53857p-10, 0x1.dd23920b613c2p-9)].
Definition wit (O : COps) (conv : float -> T O) : option (list (frame O)) :=
  seq_chop O [mkchopper (O:=O) (conv 2) (map (fun w => (conv (fst w), conv (snd w))) wit_windows)]
           (source O (conv 0) (conv 0x1.89374bc6a7efap-9) (conv 2) (conv 3)).
Definition fid (x : float) : float := x.

(* the arithmetic core: for s = 0x1.5555555555553p-2 (the parameter of the witness' second cut of the
   edge of constant wavelength 3), (1 - s)*3 + s*3 is the double below 3 *)
Example interpolation_not_exact :
  exists s : float, PrimFloat.leb 0 s = true /\ PrimFloat.leb s 1 = true /\
                    PrimFloat.eqb ((1 - s) * 3 + s * 3) 0x1.7ffffffffffffp+1 = true.
Proof. exists 0x1.5555555555553p-2. vm_compute. repeat split. Qed.

(* regular_float_refuted: in binary64 the unpatched algorithm produces, from a forward cascade, a
   subframe that fails is_regular, and subbounds takes its NotImplementedError branch *)
Lemma regular_float_refuted :
  exists s fr, wit (FOps0 MN H) fid = Some s /\ In fr s /\
               forallb (is_regular (FOps0 MN H)) (fpolys fr) = false /\
               subbounds (FOps0 MN H) fr = inr true /\
               map (map snd) (fpolys fr) = [[2; 2; 0x1.7ffffffffffffp+1; 3]].
Proof.
  destruct (wit (FOps0 MN H) fid) as [s|] eqn:E; [|vm_compute in E; discriminate].
  exists s, (last s (empty_frame (FOps0 MN H))).
  vm_compute in E. inversion E; subst s. vm_compute. repeat split. right; left; reflexivity.
Qed.

(* with C11_regular.patch the same cascade is regular and subbounds returns *)
Example regular_float_witness_fixed :
  exists s, wit (FOps MN H) fid = Some s /\
            forallb (fun fr => forallb (is_regular (FOps MN H)) (fpolys fr)) s = true /\
            map (fun fr => map (map snd) (fpolys fr)) s = [[[2; 2; 3; 3]]; [[2; 2; 3; 3]]].
Proof.
  destruct (wit (FOps MN H) fid) as [s|] eqn:E; [|vm_compute in E; discriminate].
  exists s. vm_compute in E. inversion E; subst s. vm_compute. repeat split.
Qed.
Print Assumptions regular_float_refuted.
