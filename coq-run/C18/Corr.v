(* C18/Corr.v — comparison functions of the correspondence run (executed by vm_compute).
   The implementation's observations arrive as exact dyadic numbers (C18/QData.v); the hand model
   (C18/Model.v) is run at exact rationals (QOps; sqrt/sin/cos/atan2/asin/exp are 2^-140
   approximations, see Sem/QInst.v) on the quadrature tables REGENERATED this run (Run.GenQuad)
   with the angle formula the CURRENT source uses (Run.GenAngle).  Definitions only, and one vm_compute
   check of the local exp against QInst.qexp. *)
From Coq Require Import QArith Qabs ZArith String List Bool Qround Uint63.
From Bignums Require Import BigZ.
From Verif.Sem Require Import Field QInst BInst Corr.
From Verif.C18 Require Import Model QData.
From Run Require Import GenQuad GenAngle.
Import ListNotations.
Open Scope string_scope.
Open Scope Q_scope.

Definition QO : Fops := QOps 1 1.
Definition vq (p : v3d) : vec QO := let '(x, y, z) := p in @mkvec QO (dyQ x) (dyQ y) (dyQ z).
Record cyld := mkcd { cd_axis : v3d; cd_base : v3d; cd_r : dy; cd_h : dy }.
Definition cq (c : cyld) : cylinder QO := @mkcyl QO (vq (cd_axis c)) (vq (cd_base c)) (dyQ (cd_r c)) (dyQ (cd_h c)).

Definition qnorm (v : vec QO) : Q := qsqrt (dot QO v v).
Definition qmax (a b : Q) : Q := if Qle_bool a b then b else a.
Definition qmin (a b : Q) : Q := if Qle_bool a b then a else b.
Definition qnz (x : Q) : Q := if Qeq_bool x 0 then 1 else x.
Definition e10 (k : Z) : Q := 1 # (Z.to_pos (10 ^ k)).

(* ---------------------------------------------------------------- path lengths
   The observed length L must lie between the exact model values for a slightly smaller and a
   slightly larger solid (path length is monotone under inclusion of solids):
     radius r (1 -+ dr),  dr = min(1e-3, 1e-14 (1 + |b|/r) / |n x a|)      (|n x a| = 0 -> 1)
     slab  [ -+dh h, h +- dh h ],  dh = min(1e-3, 1e-14 (1 + |b|/h) / |n.a|)  (|n.a| = 0 -> 1)
   widened by 1e-12 max(r, h) + 1e-14 |b|.  For rays that are not nearly tangent the two model
   values coincide to ~dr, i.e. this is the plain comparison to 1e-12 max(r,h); for tangent rays
   it is the backward-error statement appropriate for a square root of a cancelling difference. *)
Definition ray_check (c : cyld) (s n : v3d) (L : dy) : string :=
  let cy := cq c in
  let a := cy_axis cy in
  let r := cy_r cy in
  let h := cy_h cy in
  let sv := vq s in
  let nv := vq n in
  let b := vminus QO (cy_base cy) sv in
  let bn := qnorm b in
  let un := qnorm (cross QO nv a) in
  let na := Qabs (dot QO nv a) in
  let cap := 1 # 1000 in
  let dr := qmin cap (qrel (e10 14 * (1 + bn / r) / qnz un)) in
  let dh := qmin cap (qrel (e10 14 * (1 + bn / h) / qnz na)) in
  let shift := smul QO (qmul (dh * h) 1) a in
  let lo := beam_intersection QO (@mkcyl QO a (vplus QO (cy_base cy) shift) (qmul r (1 - dr)) (qmul h (1 - 2 * dh))) sv nv in
  let hi := beam_intersection QO (@mkcyl QO a (vminus QO (cy_base cy) shift) (qmul r (1 + dr)) (qmul h (1 + 2 * dh))) sv nv in
  let tol := e10 12 * qmax r h + e10 14 * bn in
  let Lq := dyQ L in
  match lo, hi with
  | Fin l, Fin u => if Qle_bool (l - tol) Lq && Qle_bool Lq (u + tol) then "" else "path-length"
  | _, _ => "model-nonfinite"
  end.

(* Rays on which every comparison of the implementation (direction parallel to the end faces? start between the
   two planes? direction parallel to the axis? start within the radius? discriminant >= 0?) is decided alike in
   floating point and in exact arithmetic -- the compared dot products are evaluated exactly or are far from their
   thresholds; the case generator establishes that per ray (props/C18.py, decisions_robust) -- and |n.a|, |n x a|
   are 0 or >= 0.3: the observed length must be the value of the exact model for the solid AS GIVEN, no bracket.
   The solid is closed: a ray that starts exactly in an end-face plane and runs exactly perpendicular to the axis
   has the chord of the disk as its path length, a ray along the lateral surface the remaining height
   (the bracket above accepts anything between 0 and that value for such rays). *)
Definition ray_check_exact (c : cyld) (s n : v3d) (L : dy) : string :=
  let cy := cq c in
  let sv := vq s in
  let nv := vq n in
  let bn := qnorm (vminus QO (cy_base cy) sv) in
  let tol := e10 12 * qmax (cy_r cy) (cy_h cy) + e10 13 * bn in
  match beam_intersection QO cy sv nv with
  | Fin m => if Qle_bool (Qabs (dyQ L - m)) tol then "" else "path-length-closed-solid"
  | _ => "model-nonfinite"
  end.

(* ---------------------------------------------------------------- the exact inside test *)
Definition inside_all (c : cyld) (tolk : Z) (pts : list v3d) : string :=
  let tol := dmul (dpow10 tolk) (dmax (cd_r c) (cd_h c)) in
  if forallb (inside_d (cd_axis c) (cd_base c) (cd_r c) (cd_h c) tol) pts then "" else "point-outside".

(* ---------------------------------------------------------------- rule selection *)
Fixpoint assocZ {A} (k : Z) (l : list (Z * A)) : option A :=
  match l with [] => None | (k', v) :: l' => if (k =? k')%Z then Some v else assocZ k l' end.
(* kinds: 0 = 'cheap', 1 = 'medium', 2 = 'expensive' *)
Definition disk_for (kind : Z) : list (Q * Q * Q) :=
  if (kind =? 0)%Z then disk12 else if (kind =? 1)%Z then disk55 else disk256_cheb.
Definition line_for (kind k : Z) : option (list (Q * Q)) :=
  if (kind =? 0)%Z then assocZ k leg_tables
  else option_map (cheb_line QO) (assocZ k cheb_tables).
Definition rule_for (kind k : Z) : option (list (vec QO * Q)) :=
  option_map (cyl_product_rule QO (disk_for kind)) (line_for kind k).
(* k = round(max(min(mult * h / r, hi), lo)): the observed k must be a rounding of the exact value *)
(* The source forms the ratio as (self.height / self.radius).value, i.e. from the STORED numbers: when radius and
   height are given in different length units that is the ratio of the raw numbers, not of the lengths (the number
   of line points is then chosen for another aspect ratio; any k of the tables is a valid rule, so the statement of
   the property does not depend on it).  [k_ok_raw] takes the two stored numbers; for a solid given in one unit
   they are the radius and the height of [c]. *)
Definition k_ok_raw (kind k : Z) (r h : dy) : bool :=
  let '(mult, lo, hi) := if (kind =? 0)%Z then (5, 5, 15)%Z else if (kind =? 1)%Z then (7, 7, 25)%Z else (11, 11, 35)%Z in
  let x := qmax (qmin ((mult # 1) * (dyQ h / dyQ r)) (hi # 1)) (lo # 1) in
  Qle_bool (Qabs ((k # 1) - x)) ((1 # 2) + e10 9).
Definition k_ok (kind k : Z) (c : cyld) : bool := k_ok_raw kind k (cd_r c) (cd_h c).

(* the same model run at the fast fixed-point instance (Sem/BInst.v: BigZ / 2^200, machine-word limbs):
   exact-rational evaluation of the rotated rule and of the transmission integrand needs minutes per
   case because numerators grow with every operation *)
(* exp on the fixed-point grid with BigZ arithmetic throughout (BOps goes through QInst.qexp, whose series runs in
   binary Z: 20-40 ms per call, and the transmission needs one call per integration point and wavelength):
   y = x / 2^k with |y| <= 1/2, 50 terms of the series, k squarings.  Every step truncates to 2^-200; it is
   compared with QInst.qexp below (bexp_agrees_with_qexp) and is used for the comparison value only. *)
Fixpoint bexp_series (fuel : nat) (k term y acc : bigZ) : bigZ :=
  match fuel with
  | O => acc
  | S f => bexp_series f (k + 1)%bigZ (BigZ.div (bmul term y) (k + 1))%bigZ y (acc + term)%bigZ
  end.
Definition bexp (x : bigZ) : bigZ :=
  let a := BigZ.abs x in
  let k := if BigZ.leb (a * 2) BONE then 0%Z else (BigZ.to_Z (BigZ.log2 (BigZ.shiftr a BSH)) + 2)%Z in
  let y := BigZ.shiftr x (BigZ.of_Z k) in
  Nat.iter (Z.to_nat k) (fun v => bmul v v) (bexp_series 50 0%bigZ BONE y 0%bigZ).
Definition BO : Fops :=
  mkFops bigZ badd bsub bmul bdiv BigZ.opp bofZ bsqrt (bviaQ qsin) (bviaQ qcos)
         (fun y x => b_ofQ (qatan2 (b_toQ y) (b_toQ x))) (bviaQ qasin) bexp BigZ.abs (b_ofQ qpi)
         BigZ.leb BigZ.ltb BigZ.eqb bclose BONE BONE brint.
Lemma bexp_agrees_with_qexp :
  forallb (fun x : Q => Qle_bool (Qabs (b_toQ (bexp (b_ofQ x)) - qexp x)) (1 # 10 ^ 35))
          [0; -1 # 100000; -1 # 3; -1 # 2; -51 # 100; -1; -199 # 100; -2; -173 # 10; -40; 1 # 7; 3] = true.
Proof. vm_compute. reflexivity. Qed.
Definition bq (d : dy) : bigZ := b_ofQ (dyQ d).
Definition vb (p : v3d) : vec BO := let '(x, y, z) := p in @mkvec BO (bq x) (bq y) (bq z).
Definition cb (c : cyld) : cylinder BO := @mkcyl BO (vb (cd_axis c)) (vb (cd_base c)) (bq (cd_r c)) (bq (cd_h c)).
Definition bdisk (t : list (Q * Q * Q)) : list (bigZ * bigZ * bigZ) :=
  map (fun d => let '(x, y, w) := d in (b_ofQ x, b_ofQ y, b_ofQ w)) t.
Definition bline (t : list (Q * Q)) : list (bigZ * bigZ) := map (fun d => let '(x, w) := d in (b_ofQ x, b_ofQ w)) t.
Definition line_forB (kind k : Z) : option (list (bigZ * bigZ)) :=
  if (kind =? 0)%Z then option_map bline (assocZ k leg_tables)
  else option_map (fun t => cheb_line BO (bline t)) (assocZ k cheb_tables).
Definition rule_forB (kind k : Z) : option (list (vec BO * bigZ)) :=
  option_map (cyl_product_rule BO (bdisk (disk_for kind))) (line_forB kind k).

Fixpoint qsumq (l : list Q) : Q := match l with [] => 0 | x :: l' => Qred (x + qsumq l') end.

(* weights as observed: all positive; their sum = PI (line sum) r^2 h / 2 to 1e-12 (disk weights normalised to PI) *)
(* [c] is the solid with radius and height expressed in the unit of center_of_base, [ws] the weights expressed in
   that unit cubed; [rraw], [hraw] the numbers stored in the Cylinder (in their own units), which select k *)
Definition weights_check_u (c : cyld) (rraw hraw : dy) (kind k : Z) (ws : list dy) : string :=
  if negb (k_ok_raw kind k rraw hraw) then "k-selection"
  else if negb (forallb (fun w => dltb d0 w) ws) then "weight-not-positive"
  else match line_for kind k with
       | None => "no-line-rule"
       | Some line =>
           if negb (Nat.eqb (List.length ws) (List.length (disk_for kind) * List.length line)) then "rule-size"
           else
             let want := qpi * qsumq (map snd line)
                         * (dyQ (cd_r c) * dyQ (cd_r c) * dyQ (cd_h c) / 2) in
             if rel_close (dyQ (dsum ws)) want (e10 12) then "" else "weight-sum"
       end.
Definition weights_check (c : cyld) (kind k : Z) (ws : list dy) : string :=
  weights_check_u c (cd_r c) (cd_h c) kind k ws.
(* volume and centre as reported (volume converted to the unit of center_of_base cubed): PI r^2 h to 1e-12,
   base + (h/2) axis to 1e-12 max(r, h) + 4e-16 |centre|_1 *)
Definition vol_check (c : cyld) (vol : dy) : string :=
  if rel_close (dyQ vol) (volume QO (cq c)) (e10 12) then "" else "volume".
Definition cen_check (c : cyld) (cen : v3d) : string :=
  let cy := cq c in
  let mc := center QO cy in
  let pq := vq cen in
  let tol := e10 12 * qmax (cy_r cy) (cy_h cy)
             + (4 # 10000000000000000) * (Qabs (vx mc) + Qabs (vy mc) + Qabs (vz mc)) in
  if abs_close (vx pq) (vx mc) tol && abs_close (vy pq) (vy mc) tol && abs_close (vz pq) (vz mc) tol then ""
  else "centre".

(* model vs implementation on selected points of the rule (index, point, weight) *)
Definition quad_check (c : cyld) (kind k : Z) (obs : list (Z * v3d * dy)) : string :=
  match rule_forB kind k with
  | None => "no-rule"
  | Some rule =>
      let cy := cq c in
      let ml := map (fun q : vec BO * bigZ => (@mkvec QO (b_toQ (vx (fst q))) (b_toQ (vy (fst q))) (b_toQ (vz (fst q))), b_toQ (snd q)))
                    (quadrature BO src_angle_mode (cb c) rule) in
      let cen := center QO cy in
      let tol := e10 12 * qmax (cy_r cy) (cy_h cy)
                 + (4 # 10000000000000000) * (Qabs (vx cen) + Qabs (vy cen) + Qabs (vz cen)) in
      let bad := filter (fun o =>
                   let '(i, p, w) := o in
                   match nth_error ml (Z.to_nat i) with
                   | None => true
                   | Some (mp, mw) =>
                       let pq := vq p in
                       negb (abs_close (vx pq) (vx mp) tol && abs_close (vy pq) (vy mp) tol && abs_close (vz pq) (vz mp) tol
                             && rel_close (dyQ w) mw (e10 12))
                   end) obs in
      match bad with [] => "" | _ => "model-point" end
  end.

(* model vs implementation: one element of the transmission map *)
Definition trans_check (c : cyld) (kind k : Z) (mu to_det : dy) (beam det : v3d) (T : dy) : string :=
  match rule_forB kind k with
  | None => "no-rule"
  | Some rule =>
      let m := b_toQ (transmission_map BO src_angle_mode (cb c) rule (bq mu) (bq to_det) (vb beam) (vb det)) in
      if rel_close (dyQ T) m (e10 9) then "" else "transmission-model"
  end.

(* the same for one detector and SEVERAL attenuation coefficients: the placed rule and the two path lengths of
   every point (the expensive part) are computed once; [transmission_map] unfolds to exactly this expression
   (Tie.v, transmission_map_unfold).  The directions are formed per scattering point, (det - p) / |det - p|.
   Tolerance: 1e-9 relative, widened by 1e-13 |centre|_1 / min(r, h): a set-up that sits D away from the
   coordinate origin is stored (and its points placed) with absolute rounding errors of a few ulp(D), i.e.
   relative to the size of the solid eps D / min(r, h); the transmission is Lipschitz in the positions. *)
Definition trans_tol (c : cyld) : Q :=
  let cy := cq c in
  let cen := center QO cy in
  e10 9 + e10 13 * ((Qabs (vx cen) + Qabs (vy cen) + Qabs (vz cen)) / qmin (cy_r cy) (cy_h cy)).
Definition trans_check_l (c : cyld) (kind k : Z) (to_det : dy) (beam det : v3d) (obs : list (dy * dy)) : string :=
  match rule_forB kind k with
  | None => "no-rule"
  | Some rule =>
      let cyb := cb c in
      let bm := vb beam in
      let dt := vb det in
      let td := bq to_det in
      let wl := map (fun q : vec BO * bigZ =>
                       (snd q, scatter_distance BO cyb (fst q) bm (scatter_dir BO td dt (fst q))))
                    (quadrature BO src_angle_mode cyb rule) in
      let V := volume BO cyb in
      let tol := trans_tol c in
      if forallb (fun o : dy * dy => rel_close (dyQ (snd o)) (b_toQ (transmission BO (bq (fst o)) wl V)) tol) obs
      then "" else "transmission-model"
  end.

(* properties of the observed transmission values *)
Definition tprop_check (what : string) (x y tol : dy) : string :=
  if String.eqb what "range" then
    (if dltb d0 x && dleb x (dadd (D 1 0) tol) then "" else "range")
  else if String.eqb what "one" then
    (if dleb (dabs (dsub x (D 1 0))) tol then "" else "no-attenuation")
  else if String.eqb what "mono" then           (* x = T(mu1), y = T(mu2), mu1 <= mu2 *)
    (if dleb y (dadd x (dmul tol x)) then "" else "monotone")
  else if String.eqb what "inv" then
    (if dleb (dabs (dsub x y)) (dmul tol x) then "" else "invariance")
  else "unknown-check".

(* ---------------------------------------------------------------- table checks (to 1e-12) *)
Definition qsumf {A} (f : A -> Q) (l : list A) : Q := qsumq (map f l).
Definition table_check (what : string) (kind k : Z) : string :=
  let small := fun x : Q => Qle_bool (Qabs x) (e10 12) in
  let t := disk_for kind in
  if String.eqb what "disk-sum" then
    (* the source normalises the disk weights; the raw table only has to be a disk rule to its tabulated precision *)
    (if Qle_bool (Qabs (qsumf (fun d : Q * Q * Q => snd d) t / qpi - 1)) (if (kind =? 0)%Z then e10 12 else e10 6)
     then "" else "disk-weights-do-not-sum-to-pi")
  else if String.eqb what "disk-moment1" then
    (if small (qsumf (fun d : Q * Q * Q => snd d * fst (fst d)) t) && small (qsumf (fun d : Q * Q * Q => snd d * snd (fst d)) t)
     then "" else "disk-first-moment")
  else if String.eqb what "line-sum" then
    match line_for kind k with
    | Some l => if small (qsumf (fun p : Q * Q => snd p) l - 2) then "" else "line-weights-do-not-sum-to-2"
    | None => "no-line-rule" end
  else if String.eqb what "line-moment1" then
    match line_for kind k with
    | Some l => if small (qsumf (fun p : Q * Q => snd p * fst p) l) then "" else "line-first-moment"
    | None => "no-line-rule" end
  else if String.eqb what "line-moment23" then      (* Gauss-Legendre only *)
    match line_for kind k with
    | Some l => if small (qsumf (fun p : Q * Q => snd p * (fst p * fst p)) l - (2 # 3))
                   && small (qsumf (fun p : Q * Q => snd p * (fst p * fst p * fst p)) l) then "" else "line-moment-2-3"
    | None => "no-line-rule" end
  else "unknown-check".

Inductive ccase :=
| CRay (c : cyld) (s n : v3d) (L : dy)
| CRayX (c : cyld) (s n : v3d) (L : dy)
| CInside (c : cyld) (tolk : Z) (pts : list v3d)
| CWeights (c : cyld) (kind k : Z) (ws : list dy)
| CWeightsU (c : cyld) (rraw hraw : dy) (kind k : Z) (ws : list dy)
| CVol (c : cyld) (vol : dy)
| CCen (c : cyld) (cen : v3d)
| CQuad (c : cyld) (kind k : Z) (obs : list (Z * v3d * dy))
| CTrans (c : cyld) (kind k : Z) (mu to_det : dy) (beam det : v3d) (T : dy)
| CTransL (c : cyld) (kind k : Z) (to_det : dy) (beam det : v3d) (obs : list (dy * dy))
| CTprop (what : string) (x y tol : dy)
| CTable (what : string) (kind k : Z).

Definition check (c : ccase) : string :=
  match c with
  | CRay c s n L => ray_check c s n L
  | CRayX c s n L => ray_check_exact c s n L
  | CInside c tk pts => inside_all c tk pts
  | CWeights c kind k ws => weights_check c kind k ws
  | CWeightsU c rr hr kind k ws => weights_check_u c rr hr kind k ws
  | CVol c vol => vol_check c vol
  | CCen c cen => cen_check c cen
  | CQuad c kind k obs => quad_check c kind k obs
  | CTrans c kind k mu td beam det T => trans_check c kind k mu td beam det T
  | CTransL c kind k td beam det obs => trans_check_l c kind k td beam det obs
  | CTprop w x y tol => tprop_check w x y tol
  | CTable w kind k => table_check w kind k
  end.
