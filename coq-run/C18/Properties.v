(* C18/Properties.v — the property theorems (each `exact <lemma>`), with Print Assumptions.

   Reading guide.  RO is the real-number instance of the arithmetic; `cylinder RO` = (axis, base, r, h);
   `beam_intersection RO c s n`, `quadrature RO md c rule`, `transmission_map RO ...` are the hand model
   coq/C18/Model.v of the functions of the same names (tied to the source: correspondence + Tie.v);
   `inside`, `ray`, `segment_length`, `orthogonal`, `rigid`, `cyl_volume` are the independent
   specification coq/C18/Spec.v.  `src_angle_mode` is the angle formula found in THIS run's source
   (Run.GenAngle); `is_rule kind rule` = the product rule _select_quadrature_points builds for the
   kind ('cheap' 0, 'medium' 1, 'expensive' 2) from THIS run's tables (Run.GenQuad). *)
From Coq Require Import Reals QArith ZArith String List Bool Lra.
From Verif.Sem Require Import Field Val RInst RLemmas.
From Verif.C18 Require Import Model Spec SemExt ProofsScalar ProofsGeom ProofsRigid ProofsBoundary ProofsRot ProofsQuad ProofsTrans
     ProofsRefute ProofsTables.
From Run Require Import GenAtoms GenMaterial GenCyl GenBase GenQuad GenAngle Tie.
Import ListNotations.
Local Notation Z := BinNums.Z.
Open Scope R_scope.

(* 1. the parameters t with s + t n inside the solid are exactly the intersection of the model's
      infinite-cylinder interval and slab interval (flags and +-infinity for the parallel cases) *)
Theorem C18_ray_inside_iff_interval : forall (c : cylinder RO) (s n : vec RO) (t : R),
  wf_cyl c ->
  let b := vminus RO (cy_base c) s in
  let rc := line_cyl RO (cy_axis c) b (cy_r c) n in
  let rs := line_slab RO (cy_axis c) b (cy_h c) n in
  (inside (tov (cy_axis c)) (tov (cy_base c)) (cy_r c) (cy_h c) (ray (tov s) (tov n) t)
   <-> fst (fst rc) = true /\ fst (fst rs) = true
       /\ ext_le_t (e_maximum RO (snd (fst rs)) (snd (fst rc))) t
       /\ t_le_ext t (e_minimum RO (snd rs) (snd rc))).
Proof. exact ray_inside_iff_interval. Qed.

(* 2. the returned length is the length of {t >= 0 : s + t n inside}: every start point (inside,
      outside), every unit direction (parallel to the axis or the end faces, tangent, ...) *)
Theorem C18_path_length_is_measure : forall (c : cylinder RO) (s n : vec RO),
  wf_cyl c -> unit3 (tov n) ->
  exists L, beam_intersection RO c s n = @Fin RO L /\ 0 <= L /\
    segment_length
      (fun t => 0 <= t /\ inside (tov (cy_axis c)) (tov (cy_base c)) (cy_r c) (cy_h c) (ray (tov s) (tov n) t)) L.
Proof. exact path_length_is_measure. Qed.

(* 3. rigid motions of the whole scene (any orthogonal M, proper or not, and any translation) and the
      description of the same solid from its other end leave every path length unchanged *)
Theorem C18_rigid_motion_paths : forall (M : M3) (tr : V3) (c : cylinder RO) (s n : vec RO),
  orthogonal M -> wf_cyl c -> unit3 (tov n) ->
  beam_intersection RO (move_cyl M tr c) (ofv (rigid M tr (tov s))) (ofv (mulMv M (tov n)))
  = beam_intersection RO c s n.
Proof. exact rigid_motion_paths. Qed.
Theorem C18_other_end_paths : forall (c : cylinder RO) (s n : vec RO),
  wf_cyl c -> unit3 (tov n) -> beam_intersection RO (flip_cyl c) s n = beam_intersection RO c s n.
Proof. exact other_end_paths. Qed.

(* 3b. rays that start ON the boundary (the solid is closed).  axial3 a base p = (p - base).a and
       radial3 a base p = |(p - base) - ((p - base).a) a| (ProofsBoundary.v) are the two coordinates `inside` constrains.
       A ray exactly perpendicular to the axis from any point of the closed slab 0 <= z <= h -- the base plane and the
       top plane included -- has the length of its part within the radius (the end-face planes cut nothing off), the same
       at every such height; from center_of_base and from the centre of the top face that is r.  A ray exactly parallel
       to the axis from any point of the closed solid -- lateral surface and edge circles included -- at height z has
       length h - z (along +axis) and z (along -axis). *)
Theorem C18_perpendicular_ray_sees_the_disk : forall (c : cylinder RO) (s n : vec RO),
  wf_cyl c -> unit3 (tov n) -> dot3 (tov n) (tov (cy_axis c)) = 0 ->
  0 <= axial3 (tov (cy_axis c)) (tov (cy_base c)) (tov s) <= cy_h c ->
  exists L, beam_intersection RO c s n = @Fin RO L /\
    segment_length (fun t => 0 <= t /\ radial3 (tov (cy_axis c)) (tov (cy_base c)) (ray (tov s) (tov n) t) <= cy_r c) L.
Proof. exact perpendicular_ray_sees_the_disk. Qed.
Theorem C18_perpendicular_ray_same_at_every_height : forall (c : cylinder RO) (s n : vec RO) (k : R),
  wf_cyl c -> unit3 (tov n) -> dot3 (tov n) (tov (cy_axis c)) = 0 ->
  0 <= axial3 (tov (cy_axis c)) (tov (cy_base c)) (tov s) <= cy_h c ->
  0 <= axial3 (tov (cy_axis c)) (tov (cy_base c)) (tov s) + k <= cy_h c ->
  beam_intersection RO c (ofv (add3 (tov s) (scale3 k (tov (cy_axis c))))) n = beam_intersection RO c s n.
Proof. exact perpendicular_ray_same_at_every_height. Qed.
Theorem C18_center_of_base_perpendicular_ray : forall (c : cylinder RO) (n : vec RO),
  wf_cyl c -> unit3 (tov n) -> dot3 (tov n) (tov (cy_axis c)) = 0 ->
  beam_intersection RO c (cy_base c) n = @Fin RO (cy_r c).
Proof. exact center_of_base_perpendicular_ray. Qed.
Theorem C18_top_centre_perpendicular_ray : forall (c : cylinder RO) (n : vec RO),
  wf_cyl c -> unit3 (tov n) -> dot3 (tov n) (tov (cy_axis c)) = 0 ->
  beam_intersection RO c (ofv (add3 (tov (cy_base c)) (scale3 (cy_h c) (tov (cy_axis c))))) n = @Fin RO (cy_r c).
Proof. exact top_centre_perpendicular_ray. Qed.
Theorem C18_axial_ray_from_closed_solid : forall (c : cylinder RO) (s : vec RO),
  wf_cyl c ->
  let z := axial3 (tov (cy_axis c)) (tov (cy_base c)) (tov s) in
  0 <= z <= cy_h c -> radial3 (tov (cy_axis c)) (tov (cy_base c)) (tov s) <= cy_r c ->
  beam_intersection RO c s (ofv (scale3 1 (tov (cy_axis c)))) = @Fin RO (cy_h c - z) /\
  beam_intersection RO c s (ofv (scale3 (-1) (tov (cy_axis c)))) = @Fin RO z.
Proof. exact axial_ray_from_closed_solid. Qed.

(* 4. every quadrature point lies inside the solid, for EVERY unit axis with |z x a| = 0 or >= 1e-10,
      every kind, every k — for the angle formula of the CURRENT source (this theorem does not
      typecheck when the source uses asin|z x a|: see C18_rotation_asin_refuted) *)
Theorem C18_quadrature_points_inside : forall (kind : Z) (c : cylinder RO) (rule : list (vec RO * R)),
  wf_cyl c -> axis_admissible (cy_axis c) -> is_rule kind rule ->
  Forall (fun pw => inside (tov (cy_axis c)) (tov (cy_base c)) (cy_r c) (cy_h c) (tov (fst pw)))
         (quadrature RO src_angle_mode c rule).
Proof.
  exact (fun kind c rule Hc Ha Hr =>
           quadrature_points_inside_model c rule Hc Ha (proj1 (rule_facts kind rule Hr))).
Qed.
Theorem C18_rotation_asin_refuted :
  exists a : vec RO, unit3 (tov a) /\ rot_threshold RO <= un_of a /\ axis_rotation RO AngAsin a (zhat RO) <> a.
Proof. exact rotation_asin_refuted. Qed.
Theorem C18_quadrature_asin_refuted :
  wf_cyl c_wit /\ axis_admissible (cy_axis c_wit) /\ Forall node_ok [q_wit] /\
  ~ Forall (fun pw => inside (tov (cy_axis c_wit)) (tov (cy_base c_wit)) (cy_r c_wit) (cy_h c_wit) (tov (fst pw)))
           (quadrature RO AngAsin c_wit [q_wit]).
Proof. exact quadrature_asin_refuted. Qed.

(* 5. weights: positive; _cylinder_quadrature_from_product normalises the disk weights to PI, so their sum
      is the volume PI r^2 h EXACTLY for the Chebyshev kinds ('medium', 'expensive': line weights normalised
      to 2 by the source) and up to the rounding of numpy's Gauss-Legendre weights (|sum - 2| <= 1e-12,
      checked on this run's tables) for 'cheap': sum_tol = 4e-12, 0, 0 *)
Theorem C18_weights_positive_sum_volume : forall (kind : Z) md (c : cylinder RO) (rule : list (vec RO * R)),
  is_rule kind rule -> 0 < cy_r c -> 0 < cy_h c ->
  Forall (fun pw => 0 < snd pw) (quadrature RO md c rule) /\
  Rabs (Rsum (map snd (quadrature RO md c rule)) - cyl_volume (cy_r c) (cy_h c))
    <= sum_tol kind * (cy_r c * cy_r c * cy_h c / 2).
Proof.
  exact (fun kind md c rule Hq Hr Hh =>
           conj (weights_positive md c rule Hr Hh (proj1 (proj2 (rule_facts kind rule Hq))))
                (rule_weights_sum kind md c rule Hq (Rlt_le _ _ Hr) (Rlt_le _ _ Hh))).
Qed.
Theorem C18_weights_sum_volume_exact : forall md (c : cylinder RO) (disk : list (R * R * R)) (line : list (R * R)),
  Forall (fun d => 0 < snd d) disk -> disk <> [] -> Rsum (map snd line) = 2 ->
  Rsum (map snd (quadrature RO md c (cyl_product_rule RO disk line))) = cyl_volume (cy_r c) (cy_h c).
Proof. exact weights_sum_volume_normalised. Qed.
Theorem C18_weights_sum_volume_exact_cheb : forall (kind : Z) md (c : cylinder RO) (rule : list (vec RO * R)),
  is_rule kind rule -> kind <> 0%Z -> 0 <= cy_r c -> 0 <= cy_h c ->
  Rsum (map snd (quadrature RO md c rule)) = cyl_volume (cy_r c) (cy_h c).
Proof. exact rule_weights_sum_cheb. Qed.

(* 6. moments (partial): degree <= 1 for every rule whose first moments vanish — the weighted sum of the
      points is (sum of weights) * centre; degree 2 and 3 along the axis — (h/2)^k times the rule's
      axial moments (2/3 and 0 for Gauss-Legendre: pi r^2 h * h^2/12 and 0).  The table moments are
      CHECKED to 1e-12 in Tie.v (disk_first_moments_checked, leg_moments_checked, cheb_moments_checked). *)
Theorem C18_moments_exact_partial_centroid : forall md (c : cylinder RO) (quad : list (vec RO * R)),
  momx quad = 0 -> momy quad = 0 -> momz quad = 0 ->
  let pw := quadrature RO md c quad in
  Rsum (map (fun p : vec RO * R => snd p * X (tov (fst p))) pw) = X (tov (center RO c)) * Rsum (map snd pw) /\
  Rsum (map (fun p : vec RO * R => snd p * Y (tov (fst p))) pw) = Y (tov (center RO c)) * Rsum (map snd pw) /\
  Rsum (map (fun p : vec RO * R => snd p * Spec.Z (tov (fst p))) pw) = Spec.Z (tov (center RO c)) * Rsum (map snd pw).
Proof. exact centroid_exact. Qed.
Theorem C18_moments_exact_partial_axial : forall (c : cylinder RO) (quad : list (vec RO * R)),
  wf_cyl c -> axis_admissible (cy_axis c) ->
  let pw := quadrature RO src_angle_mode c quad in
  let ax := fun p : vec RO * R => dot3 (sub3 (tov (fst p)) (tov (center RO c))) (tov (cy_axis c)) in
  let ka := cy_r c * cy_r c * cy_h c / 2 in
  exists sg, sg * sg = 1 /\
    Rsum (map (fun p => snd p * (ax p * ax p)) pw) = ka * (cy_h c / 2) * (cy_h c / 2) * momz2 quad /\
    Rsum (map (fun p => snd p * (ax p * ax p * ax p)) pw)
      = sg * ka * (cy_h c / 2) * (cy_h c / 2) * (cy_h c / 2) * momz3 quad.
Proof. exact axial_moments. Qed.

(* 7. transmission of ANY finite rule with positive weights w_i and non-negative path lengths L_i,
      T(mu) = sum w_i exp(-mu L_i) / V  (V > 0):  0 < T <= sum w / V  (= 1 when the weights sum to V),
      T(0) = sum w / V, T decreasing in mu; and the same for the map the model computes *)
Theorem C18_transmission_in_unit_interval : forall (wl : list (R * R)) (V : R),
  wl_ok wl -> wl <> [] -> 0 < V -> forall mu : R, 0 <= mu -> Rsum (map fst wl) = V ->
  0 < transmission RO mu wl V <= 1.
Proof. exact transmission_in_unit_interval. Qed.
Theorem C18_transmission_no_attenuation : forall (wl : list (R * R)) (V : R),
  0 < V -> Rsum (map fst wl) = V -> transmission RO 0 wl V = 1.
Proof. exact transmission_no_attenuation_1. Qed.
Theorem C18_transmission_monotone : forall (wl : list (R * R)) (V : R),
  wl_ok wl -> 0 < V -> forall mu1 mu2, mu1 <= mu2 -> transmission RO mu2 wl V <= transmission RO mu1 wl V.
Proof. exact transmission_monotone. Qed.
Theorem C18_transmission_is_weighted_mean : forall (wl : list (R * R)) (V mu : R),
  Rsum (map fst wl) = V -> transmission RO mu wl V = weighted_transmission mu wl.
Proof. exact transmission_is_weighted_mean. Qed.
Theorem C18_transmission_map_properties :
  forall md (c : cylinder RO) (quad : list (vec RO * R)) (to_det : R) (beam det : vec RO),
  0 < cy_r c -> 0 < cy_h c -> Forall (fun q : vec RO * R => 0 < snd q) quad -> quad <> [] ->
  let T := fun mu => transmission_map RO md c quad mu to_det beam det in
  let ratio := Rsum (map snd (quadrature RO md c quad)) / cyl_volume (cy_r c) (cy_h c) in
  (forall mu, 0 <= mu -> 0 < T mu <= ratio) /\ T 0 = ratio /\
  (forall mu1 mu2, mu1 <= mu2 -> T mu2 <= T mu1).
Proof. exact transmission_map_properties. Qed.

(* 8. the translated helpers ARE the model's (regenerated this run) *)
Theorem C18_positive_interval_is_model : forall (hh mn s a0 a1 b0 b1 : R),
  p_positive_interval_intersection (ROps hh mn) (VTuple _ [lenv hh mn s a0; lenv hh mn s a1]) (VTuple _ [lenv hh mn s b0; lenv hh mn s b1])
  = lenv hh mn s (ext_val RO (pos_interval_intersection RO (@Fin RO a0) (@Fin RO a1) (@Fin RO b0) (@Fin RO b1))).
Proof. exact positive_interval_tie. Qed.
Theorem C18_transmission_fraction_is_exp : forall (hh mn n sn ss us sa ua l sl L sL : R),
  sn > 0 -> us > 0 -> ua > 0 -> sl > 0 -> sL > 0 ->
  is_qty' hh mn
    (p_transmission_fraction (ROps hh mn) Material_attenuation_coefficient
       (mk_material _ (tvar hh mn n sn d_invvol DF64) (tvar hh mn ss us d_area DF64) (tvar hh mn sa ua d_area DF64))
       (tvar hh mn L sL d_m DF64) (tvar hh mn l sl d_m DF64))
    (exp (- (mu_phys (n * sn) (ss * us) (sa * ua) (l * sl) * (L * sL)))) 1 dzero.
Proof. exact transmission_fraction_tie. Qed.

(* hypotheses are satisfiable *)
Example C18_nonvacuous_cylinder : wf_cyl c_wit /\ axis_admissible (cy_axis c_wit) /\ unit3 (tov (zhat RO)).
Proof.
  destruct quadrature_asin_refuted as [H1 [H2 _]]. split; [exact H1|]. split; [exact H2|].
  unfold zhat, unit3, tov, dot3. cbn. lra.
Qed.
Example C18_nonvacuous_rule : exists rule, is_rule 0 rule /\ rule <> [].
Proof.
  assert (H : exists k line, In (k, line) leg_tables).
  { pose proof leg_keys as K. destruct leg_tables as [| [k line] t]; [discriminate K|]. exists k, line. left. reflexivity. }
  destruct H as [k [line Hin]]. exists (rule_cheap line). split; [exact (rule_0 k line Hin)|].
  exact (proj1 (proj2 (proj2 (rule_facts 0 _ (rule_0 k line Hin))))).
Qed.
Example C18_nonvacuous_boundary_ray :
  let c := @mkcyl RO (@mkvec RO 0 0 1) (@mkvec RO 0 0 0) 1 1 in
  let n : vec RO := @mkvec RO 1 0 0 in
  wf_cyl c /\ unit3 (tov n) /\ dot3 (tov n) (tov (cy_axis c)) = 0 /\
  0 <= axial3 (tov (cy_axis c)) (tov (cy_base c)) (tov (cy_base c)) <= cy_h c /\
  radial3 (tov (cy_axis c)) (tov (cy_base c)) (tov (cy_base c)) <= cy_r c.
Proof. exact boundary_hypotheses_satisfiable. Qed.
Example C18_nonvacuous_orthogonal : orthogonal (m3 0 1 0 (-1) 0 0 0 0 (-1)).
Proof. unfold orthogonal, dot3, col1, col2, col3. cbn. repeat split; lra. Qed.
Example C18_nonvacuous_transmission : wl_ok [(1, 2); (3, 0)] /\ Rsum (map fst [(1, 2); (3, 0)]) = 4.
Proof. split; [repeat constructor; cbn; lra | cbn; lra]. Qed.

Print Assumptions C18_ray_inside_iff_interval.
Print Assumptions C18_path_length_is_measure.
Print Assumptions C18_rigid_motion_paths.
Print Assumptions C18_other_end_paths.
Print Assumptions C18_perpendicular_ray_sees_the_disk.
Print Assumptions C18_perpendicular_ray_same_at_every_height.
Print Assumptions C18_center_of_base_perpendicular_ray.
Print Assumptions C18_top_centre_perpendicular_ray.
Print Assumptions C18_axial_ray_from_closed_solid.
Print Assumptions C18_quadrature_points_inside.
Print Assumptions C18_rotation_asin_refuted.
Print Assumptions C18_quadrature_asin_refuted.
Print Assumptions C18_weights_positive_sum_volume.
Print Assumptions C18_weights_sum_volume_exact.
Print Assumptions C18_moments_exact_partial_centroid.
Print Assumptions C18_moments_exact_partial_axial.
Print Assumptions C18_transmission_in_unit_interval.
Print Assumptions C18_transmission_no_attenuation.
Print Assumptions C18_transmission_monotone.
Print Assumptions C18_transmission_is_weighted_mean.
Print Assumptions C18_transmission_map_properties.
Print Assumptions C18_positive_interval_is_model.
Print Assumptions C18_transmission_fraction_is_exp.
